/-!
# K7 (memo part) — the memo tables of cssutils as caches

Hand transcription of the three places where cssutils keeps the result of a computation for later calls:

* `cssutils/tokenize2.py:12` `_TOKENIZER_CACHE` and `Tokenizer.__init__` (`tokenize2.py:39-68`): the compiled
  productions, keyed by `str((sorted(macros.items()), productions))`; the look-up is the only reader and (with
  `settings.set`, `cssutils/settings.py:4-17`, which clears it) the only writer. The computation reads two more
  module-level mutables, `cssproductions.MACROS` and `cssproductions.PRODUCTIONS` (`tokenize2.py:52-55`), and
  `settings.set` is the one statement in the package that changes one of them (`PRODUCTIONS.insert(1, …)`).
* the copy of the looked-up tables that every `Tokenizer` object keeps (`tokenize2.py:63-65`): `prodparser.tokenizer`
  (`prodparser.py:358`), `util.Base.__tokenizer2` (`util.py:148`) and `CSSParser.__tokenizer` (`parse.py:63`) live as
  long as the process / the parser.
* `util.LazyRegex` (`util.py:984-1090`): `matcher` is `re.compile(pattern, flags)`, computed by `ensure` on first use.
  `Profiles._compile_regexes` (`profiles.py:196-207`) wraps every property pattern of every profile in one; the
  derived tables of the registry themselves (`_usedMacros`, `_profilesProperties`, `_knownNames`) are the model
  `Model/Profiles.lean` (C14: `Inv` = "the derived tables are the recomputation from the raw ones").

What the computations compute is a parameter (`cmp`, `rc`): the theorems hold for every one. `pyCompile` is the
transcription of `_expand_macros` / `_compile_productions` (`tokenize2.py:70-91`) up to the call of `re.compile`; the
driver runs it and the harness compares the pattern texts with those of the real tables.

Core Lean only.
-/
namespace CssVerif.Memo

/-- strings are lists of code points -/
abbrev Str := List Nat
abbrev Items := List (Str × Str)

/-! ## Python dict / list arguments -/

/-- `d[k]` on the items of a dict (`none` = `KeyError`) -/
def dget : Items → Str → Option Str
  | [], _ => none
  | (k, v) :: t, x => if k = x then some v else dget t x

/-- a Python dict: items in insertion order, keys unique -/
structure PyDict where
  items : Items
  nodup : (items.map (·.1)).Nodup

/-- the `macros` argument of `Tokenizer(...)`: `None` or a dict -/
abbrev MacrosArg := Option PyDict
/-- the `productions` argument: `None` or a list of `(name, pattern)` -/
abbrev ProdsArg := Option Items

/-- `sorted(macros.items())` (`tokenize2.py:45`): tuples compare by the key first, and keys are unique -/
def strLe : Str → Str → Bool
  | [], _ => true
  | _ :: _, [] => false
  | a :: s, b :: t => a < b || (a == b && strLe s t)

def insItem (x : Str × Str) : Items → Items
  | [] => [x]
  | y :: t => if strLe x.1 y.1 then x :: y :: t else y :: insItem x t

def sortItems (l : Items) : Items := l.foldr insItem []

/-- `hash_key` (`tokenize2.py:44-48`). `str(...)` of a list of tuples of strings is taken to be injective (Python's
`repr` of `str` is); the structured value stands for the text. `None` and `{}` / `[]` are different keys. -/
structure Key where
  macros : Option Items
  prods : Option Items
  deriving DecidableEq, Repr

def keyOf (m : MacrosArg) (p : ProdsArg) : Key := { macros := m.map (fun d => sortItems d.items), prods := p }

/-! ## the module-level tables the computation reads -/

structure TkGlobals where
  macros : Items        -- `cssproductions.MACROS`
  prods : Items         -- `cssproductions.PRODUCTIONS`
  dx : Str × Str        -- `cssproductions._DXImageTransform`
  deriving DecidableEq, Repr

/-- `if not macros: macros = MACROS` (`tokenize2.py:52-53`): `None` and the empty dict -/
def resolveMacros (G : TkGlobals) : Option Items → Items
  | none => G.macros
  | some [] => G.macros
  | some l => l

/-- `if not productions: productions = PRODUCTIONS` (`tokenize2.py:54-55`) -/
def resolveProds (G : TkGlobals) : ProdsArg → Items
  | none => G.prods
  | some [] => G.prods
  | some l => l

instance {ε α : Type} [DecidableEq ε] [DecidableEq α] : DecidableEq (Except ε α) := fun a b =>
  match a, b with
  | .ok x, .ok y => if h : x = y then isTrue (by rw [h]) else isFalse (fun e => h (by injection e))
  | .error x, .error y => if h : x = y then isTrue (by rw [h]) else isFalse (fun e => h (by injection e))
  | .ok _, .error _ => isFalse (fun e => by cases e)
  | .error _, .ok _ => isFalse (fun e => by cases e)

section generic
variable {ε τ ρ : Type}

/-- The computation behind the cache (`tokenize2.py:56-60`): it uses the macros through `macros[name]` only, so it
is given the look-up function; it may raise (`KeyError` for an undefined macro, `re.error`, `IndexError` when there
is no COMMENT / URI production) — all before the store in line 61. -/
abbrev Cmp (ε τ : Type) := (Str → Option Str) → Items → Except ε τ

/-- what a cold `Tokenizer(macros, productions)` computes -/
def tablesOf (cmp : Cmp ε τ) (G : TkGlobals) (m : MacrosArg) (p : ProdsArg) : Except ε τ :=
  cmp (dget (resolveMacros G (m.map (·.items)))) (resolveProds G p)

/-- the same, from the key alone (the sorted items) -/
def tablesOfKey (cmp : Cmp ε τ) (G : TkGlobals) (k : Key) : Except ε τ :=
  cmp (dget (resolveMacros G k.macros)) (resolveProds G k.prods)

/-- `_TOKENIZER_CACHE`: a dict used with `in`, `[]`, `[] =` and `clear()` only -/
abbrev Cache (τ : Type) := List (Key × τ)

def cget : Cache τ → Key → Option τ
  | [], _ => none
  | (k, v) :: t, x => if k = x then some v else cget t x

def cset : Cache τ → Key → τ → Cache τ
  | [], k, v => [(k, v)]
  | (k', v') :: t, k, v => if k' = k then (k, v) :: t else (k', v') :: cset t k v

structure TkState (τ : Type) where
  glob : TkGlobals
  cache : Cache τ
  /-- the tables kept by the `Tokenizer` objects created so far (`self.tokenmatches` …), in creation order -/
  insts : List τ

def TkState.cold (G : TkGlobals) : TkState τ := { glob := G, cache := [], insts := [] }

/-- `Tokenizer.__init__` (`tokenize2.py:39-68`): returns the tables the new object keeps, whether the key was found,
and the state; an exception of the computation leaves the cache as it was and creates no object -/
def newTokenizer (cmp : Cmp ε τ) (s : TkState τ) (m : MacrosArg) (p : ProdsArg) : Except ε (τ × Bool) × TkState τ :=
  match cget s.cache (keyOf m p) with                          -- :44-49
  | some t => (.ok (t, true), { s with insts := s.insts ++ [t] })            -- :49-50, :63-65
  | none =>
    match tablesOf cmp s.glob m p with                        -- :52-60
    | .error e => (.error e, s)
    | .ok t => (.ok (t, false), { s with cache := cset s.cache (keyOf m p) t, insts := s.insts ++ [t] })   -- :61, :63-65

/-- `Tokenizer.tokenize` begins with `self._bind()` (`tokenize2.py:149`, since "tokenizers which exist when settings.set
changes the productions follow the new productions"): the same look-up as in `__init__`, with the arguments the object
was created with (`self._hash_key`, `self._macros`, `self._productions`). Returns the tables this run works with and
whether the key was found; the cache may gain the entry, no object is created -/
def runTokenizer (cmp : Cmp ε τ) (s : TkState τ) (m : MacrosArg) (p : ProdsArg) : Except ε (τ × Bool) × TkState τ :=
  let r := newTokenizer cmp s m p
  (r.1, { r.2 with insts := s.insts })

/-- `list.insert(1, x)` -/
def insert1 (x : Str × Str) : Items → Items
  | [] => [x]
  | a :: t => a :: x :: t

/-- `settings.set('DXImageTransform.Microsoft', True)` (`settings.py:13-17`): clear the cache, then insert the
production behind the first one -/
def settingsSet (s : TkState τ) : TkState τ :=
  { s with cache := [], glob := { s.glob with prods := insert1 s.glob.dx s.glob.prods } }

/-- what `settings.set` would be without line 16 (`_TOKENIZER_CACHE.clear()`) — used to show that the line is needed -/
def settingsSetNoClear (s : TkState τ) : TkState τ :=
  { s with glob := { s.glob with prods := insert1 s.glob.dx s.glob.prods } }

inductive TkOp
  | new (m : MacrosArg) (p : ProdsArg)
  | settings
  /-- a `tokenize` run of an object created as `Tokenizer(m, p)` -/
  | run (m : MacrosArg) (p : ProdsArg)

def tkStep (cmp : Cmp ε τ) (s : TkState τ) : TkOp → TkState τ
  | .new m p => (newTokenizer cmp s m p).2
  | .settings => settingsSet s
  | .run m p => (runTokenizer cmp s m p).2

def tkRun (cmp : Cmp ε τ) (s : TkState τ) (ops : List TkOp) : TkState τ := ops.foldl (tkStep cmp) s

/-- the explicit settings of a history -/
def tkExplicit : List TkOp → List TkOp
  | [] => []
  | .settings :: t => .settings :: tkExplicit t
  | .new _ _ :: t => tkExplicit t
  | .run _ _ :: t => tkExplicit t

/-! ## `_expand_macros` / `_compile_productions` (`tokenize2.py:70-91`) up to `re.compile` -/

structure Tables where
  tokenmatches : Items      -- (production name, the text given to `re.compile`)
  comment : Str             -- `commentmatcher`
  uri : Str                 -- `urimatcher`
  deriving DecidableEq, Repr

inductive CErr
  | keyError (name : Str)   -- `macros[name]` of an undefined macro (`tokenize2.py:74`)
  | indexError              -- no COMMENT / URI production (`tokenize2.py:59-60`)
  | diverges                -- the `while re.search(...)` loop is still running when the fuel ends (cyclic macros)
  deriving DecidableEq, Repr

def isAlpha (c : Nat) : Bool := (97 ≤ c && c ≤ 122) || (65 ≤ c && c ≤ 90)
def isNameCh (c : Nat) : Bool := isAlpha c || (48 ≤ c && c ≤ 57) || c == 45

/-- `[a-zA-Z0-9-]*}` behind the first letter: the name and what follows the `}` -/
def readRest (acc : Str) : Str → Option (Str × Str)
  | [] => none
  | c :: t => if isNameCh c then readRest (c :: acc) t else if c == 125 then some (acc.reverse, t) else none

/-- `[a-zA-Z][a-zA-Z0-9-]*}` at the start of the text -/
def readName : Str → Option (Str × Str)
  | [] => none
  | c :: t => if isAlpha c then readRest [c] t else none

/-- `'(?:%s)' % s` -/
def group (s : Str) : Str := 40 :: 63 :: 58 :: (s ++ [41])

/-- one `re.sub(r'{(?P<macro>[a-zA-Z][a-zA-Z0-9-]*)}', macro_value, value)` (`tokenize2.py:79-81`), leftmost match
first; the flag says whether anything was replaced (= what `re.search` of line 78 finds). A `{` (123) that starts no
placeholder is copied and the scan resumes behind it. `fuel` = length of the text + 1 suffices. -/
def subPass (look : Str → Option Str) : Nat → Str → Except CErr (Str × Bool)
  | 0, _ => .error .diverges
  | _ + 1, [] => .ok ([], false)
  | n + 1, c :: t =>
    if c == 123 then
      match readName t with
      | some (name, after) =>
        match look name with
        | none => .error (.keyError name)
        | some body =>
          match subPass look n after with
          | .error e => .error e
          | .ok (r, _) => .ok (group body ++ r, true)
      | none =>
        match subPass look n t with
        | .error e => .error e
        | .ok (r, b) => .ok (123 :: r, b)
    else
      match subPass look n t with
      | .error e => .error e
      | .ok (r, b) => .ok (c :: r, b)

/-- the `while` loop of `tokenize2.py:78-81` -/
def expandValue (look : Str → Option Str) : Nat → Str → Except CErr Str
  | 0, _ => .error .diverges
  | f + 1, v =>
    match subPass look (v.length + 1) v with
    | .error e => .error e
    | .ok (r, false) => .ok r
    | .ok (r, true) => expandValue look f r

def expandAll (look : Str → Option Str) (fuel : Nat) : Items → Except CErr Items
  | [] => .ok []
  | (k, v) :: t =>
    match expandValue look fuel v with
    | .error e => .error e
    | .ok r =>
      match expandAll look fuel t with
      | .error e => .error e
      | .ok rest => .ok ((k, r) :: rest)

/-- `[x[1] for x in tokenmatches if x[0] == name][0]` -/
def firstNamed (name : Str) : Items → Option Str
  | [] => none
  | (k, v) :: t => if k = name then some v else firstNamed name t

def sCOMMENT : Str := [67, 79, 77, 77, 69, 78, 84]
def sURI : Str := [85, 82, 73]

/-- `tokenize2.py:56-60` with `re.compile(...)` replaced by the text it is given -/
def pyCompile (fuel : Nat) : Cmp CErr Tables := fun look prods =>
  match expandAll look fuel prods with
  | .error e => .error e
  | .ok ex =>
    let tm := ex.map fun kv => (kv.1, group kv.2)               -- :88-90
    match firstNamed sCOMMENT tm, firstNamed sURI tm with
    | some c, some u => .ok { tokenmatches := tm, comment := c, uri := u }
    | _, _ => .error .indexError

/-! ## `util.LazyRegex` -/

/-- the five slots (`util.py:1001-1008`); `groupindex` follows `groups` and is left out -/
structure Lazy (ρ : Type) where
  pattern : Str
  flags : Nat
  matcher : Option ρ
  groups : Option Nat

def Lazy.new (pattern : Str) (flags : Nat) : Lazy ρ :=
  { pattern := pattern, flags := flags, matcher := none, groups := none }

/-- `re.compile` and what is read from its result -/
structure ReLib (ε ρ : Type) where
  compile : Str → Nat → Except ε ρ
  flagsOf : ρ → Nat
  groupsOf : ρ → Nat

/-- `ensure` (`util.py:1010-1020`); `re.compile` raising leaves the object as it was -/
def Lazy.ensure (re : ReLib ε ρ) (l : Lazy ρ) : Except ε (Lazy ρ) :=
  match l.matcher with
  | some _ => .ok l                                           -- :1015-1016
  | none =>
    match re.compile l.pattern l.flags with                   -- :1017
    | .error e => .error e
    | .ok r => .ok { l with matcher := some r, flags := re.flagsOf r, groups := some (re.groupsOf r) }  -- :1018-1020

/-- what a method of a `LazyRegex` can raise: the error of `re.compile`, or `AttributeError` because `self.matcher`
is still `None` after `ensure` (shown impossible: `lazy_never_none`) -/
inductive QErr (ε : Type)
  | compile (e : ε)
  | noneAttr
  deriving DecidableEq, Repr

/-- `match` / `search` / `split` / `findall` / `finditer` / `sub` / `subn` / `__call__` (`util.py:1022-1090`):
`self.ensure()` and then the method of `self.matcher`; `q` is the method with its arguments, `ask` what a
compiled object answers -/
def Lazy.query {κ α : Type} (re : ReLib ε ρ) (ask : ρ → κ → α) (l : Lazy ρ) (q : κ) : Except (QErr ε) α × Lazy ρ :=
  match l.ensure re with
  | .error e => (.error (.compile e), l)
  | .ok l' =>
    match l'.matcher with
    | some r => (.ok (ask r q), l')
    | none => (.error .noneAttr, l')

/-- a history of method calls on one object -/
def Lazy.run {κ α : Type} (re : ReLib ε ρ) (ask : ρ → κ → α) (l : Lazy ρ) (qs : List κ) : Lazy ρ :=
  qs.foldl (fun l q => (l.query re ask q).2) l

end generic

end CssVerif.Memo
