import CssVerif.Lib.Proto
import CssVerif.Gen.C19Safe
/-!
# K7 (URLs) — model of `cssutils/__init__.py:183-415` and of the library functions it calls

Part 1 — strings, `posixpath.split/join/normpath`, `urllib.parse.urlsplit/urlunsplit/urlparse/urljoin/quote`
          (CPython 3.12, transcribed statement by statement; differential-checked against CPython each run),
          `cssutils.Replacer` (`__init__.py:271-295`).
Part 2 — abstract sheets (rule tree whose declarations hold value components, some of which are URLs),
          `_style_declarations`, `_uri_values`, `getUrls`, `replaceUrls` (`__init__.py:183-268`).
Part 3 — `CSSImportRule._loadHref` (loading an import tree through a fetcher, `cssimportrule.py:285-362`),
          `CSSStyleSheet.add` (`insertRule(..., inOrder=True)`, `cssstylesheet.py:496-913`),
          `resolveImports`, `_resolve_import`, `_check_media_proxy`, `MediaCombineDisallowed` (`__init__.py:298-415`).

Strings are lists of code points (`Nat`). Python exceptions are values of `Err`.
Python lists that are used as stacks (`new_comps`, `resolved_path`) are kept REVERSED (top first): `append` is
`cons`, `pop` is `tail`, `x[-1]` is `head?`; they are reversed once when the loop is over.
-/
namespace CssVerif.Urls
open CssVerif.Proto

abbrev Str := List Nat

/-- exceptions that the modelled code can raise -/
inductive Err where
  | valueError            -- urlsplit: "Invalid IPv6 URL" and friends
  | unicodeEncodeError    -- quote(): lone surrogate
  | hierarchyRequestErr   -- CSSMediaRule.insertRule of a rule that is not allowed there
  | unsupported           -- outside the modelled fragment (the harness never compares these)
  | fuel                  -- the model ran out of fuel (`Props/C19.setHref_noFuel`: it does not)
  deriving DecidableEq, Repr

/-! ## Part 1a — string helpers -/

def cSlash : Nat := 0x2F
def cDot : Nat := 0x2E
def cColon : Nat := 0x3A
def cQuest : Nat := 0x3F
def cHash : Nat := 0x23
def cSemi : Nat := 0x3B
def cPct : Nat := 0x25
def dot : Str := [cDot]
def dotdot : Str := [cDot, cDot]

/-- `s.split(c)` (always at least one piece) -/
def splitOn (c : Nat) : Str → List Str
  | [] => [[]]
  | x :: xs =>
    if x = c then [] :: splitOn c xs
    else match splitOn c xs with
      | [] => [[x]]
      | s :: ss => (x :: s) :: ss

/-- `c.join(parts)` -/
def joinWith (c : Nat) : List Str → Str
  | [] => []
  | [s] => s
  | s :: t :: ss => s ++ c :: joinWith c (t :: ss)

/-- `s.split(c, 1)` when `c in s`: text before and after the first `c` -/
def splitFirst (c : Nat) : Str → Option (Str × Str)
  | [] => none
  | x :: xs =>
    if x = c then some ([], xs)
    else match splitFirst c xs with
      | none => none
      | some r => some (x :: r.1, r.2)

/-- `s.rstrip(c)` -/
def rstrip (c : Nat) (s : Str) : Str := (s.reverse.dropWhile (· = c)).reverse

def startsWith (p s : Str) : Bool := p.isPrefixOf s

def isAsciiAlpha (c : Nat) : Bool := (0x41 ≤ c && c ≤ 0x5A) || (0x61 ≤ c && c ≤ 0x7A)
def isDigit (c : Nat) : Bool := 0x30 ≤ c && c ≤ 0x39
/-- `urllib.parse.scheme_chars` (`parse.py:82`) -/
def isSchemeChar (c : Nat) : Bool := isAsciiAlpha c || isDigit c || c = 0x2B || c = 0x2D || c = 0x2E
def asciiLower (c : Nat) : Nat := if 0x41 ≤ c ∧ c ≤ 0x5A then c + 32 else c

/-! ## Part 1b — `posixpath` -/

/-- `posixpath.split` (`posixpath.py:100-109`) -/
def psplit (p : Str) : Str × Str :=
  -- i = p.rfind('/') + 1 ; head, tail = p[:i], p[i:]
  let tail := (p.reverse.takeWhile (· ≠ cSlash)).reverse
  let head := (p.reverse.dropWhile (· ≠ cSlash)).reverse
  -- if head and head != '/'*len(head): head = head.rstrip('/')
  let head := if head ≠ [] ∧ head ≠ List.replicate head.length cSlash then rstrip cSlash head else head
  (head, tail)

/-- one round of the loop of `posixpath.join` (`posixpath.py:82-88`) -/
def pjoin1 (path b : Str) : Str :=
  if startsWith [cSlash] b then b
  else if path = [] ∨ path.getLast? = some cSlash then path ++ b
  else path ++ cSlash :: b

/-- `posixpath.join(a, *p)` -/
def pjoin (a : Str) (p : List Str) : Str := p.foldl pjoin1 a

/-- the loop body of `posixpath.normpath` (`posixpath.py:395-402`); `st` is `new_comps` reversed -/
def normStep (abs : Bool) (st : List Str) (comp : Str) : List Str :=
  if comp = [] ∨ comp = dot then st
  else if comp ≠ dotdot ∨ (abs = false ∧ st = []) ∨ st.head? = some dotdot then comp :: st
  else st.tail

/-- `new_comps` (in order) after the loop over `comps` -/
def normComps (abs : Bool) (comps : List Str) : List Str := (comps.foldl (normStep abs) []).reverse

/-- number of initial slashes kept by `normpath`: 0, 1, or 2 (exactly two) -/
def initialSlashes (p : Str) : Nat :=
  match p with
  | 0x2F :: 0x2F :: 0x2F :: _ => 1
  | 0x2F :: 0x2F :: _ => 2
  | 0x2F :: _ => 1
  | _ => 0

/-- `posixpath.normpath` (`posixpath.py:377-405`; CPython 3.12 runs the C twin `_path_normpath`) -/
def normpath (p : Str) : Str :=
  if p = [] then dot else
  let n := initialSlashes p
  let comps := normComps (n != 0) (splitOn cSlash p)
  let r := List.replicate n cSlash ++ joinWith cSlash comps
  if r = [] then dot else r

/-! ## Part 1c — `urllib.parse` -/

structure Split where
  scheme : Str
  netloc : Str
  path : Str
  query : Str
  fragment : Str
  deriving DecidableEq, Repr

/-- `_splitnetloc(url, 2)` on the text after the two slashes: up to the first of `/ ? #` -/
def splitNetloc (s : Str) : Str × Str :=
  (s.takeWhile (fun c => c ≠ cSlash ∧ c ≠ cQuest ∧ c ≠ cHash),
   s.dropWhile (fun c => c ≠ cSlash ∧ c ≠ cQuest ∧ c ≠ cHash))

/-- `if url[:2] == '//': netloc, url = _splitnetloc(url, 2)` (`parse.py:493-494`) -/
def netlocOf (url : Str) : Str × Str :=
  match url with
  | 0x2F :: 0x2F :: rest => splitNetloc rest
  | _ => ([], url)

/-- the scheme test of `urlsplit` (`parse.py:486-492`): `some (scheme, rest)` when a scheme is split off -/
def splitScheme (url : Str) : Option (Str × Str) :=
  match splitFirst cColon url with
  | none => none
  | some r =>
    match r.1 with
    | [] => none                                            -- i > 0
    | c0 :: _ =>
      if isAsciiAlpha c0 ∧ r.1.all isSchemeChar then some (r.1.map asciiLower, r.2) else none

/-- `urllib.parse.urlsplit(url, scheme)` (`parse.py:453-507`) -/
def urlsplit (url0 : Str) (dflt : Str := []) : Except Err Split :=
  -- url.lstrip(C0 control or space); remove \t \r \n
  let url := (url0.dropWhile (· ≤ 0x20)).filter (fun c => c ≠ 9 ∧ c ≠ 13 ∧ c ≠ 10)
  let dflt := ((dflt.dropWhile (· ≤ 0x20)).reverse.dropWhile (· ≤ 0x20)).reverse.filter (fun c => c ≠ 9 ∧ c ≠ 13 ∧ c ≠ 10)
  let sr := match splitScheme url with
    | some r => r
    | none => (dflt, url)
  let scheme := sr.1
  let url := sr.2
  let nr := netlocOf url
  let netloc := nr.1
  let url := nr.2
  -- bracketed hosts are validated with `ipaddress`, non-ASCII hosts with NFKC: not modelled
  if netloc.any (fun c => c = 0x5B ∨ c = 0x5D) then
    (if (netloc.contains 0x5B && !netloc.contains 0x5D) || (netloc.contains 0x5D && !netloc.contains 0x5B)
     then .error .valueError else .error .unsupported)
  else if netloc.any (· ≥ 0x80) then .error .unsupported
  else
    let fr := match splitFirst cHash url with
      | some r => r
      | none => (url, [])
    let qr := match splitFirst cQuest fr.1 with
      | some r => r
      | none => (fr.1, [])
    .ok { scheme := scheme, netloc := netloc, path := qr.1, query := qr.2, fragment := fr.2 }

/-- `urllib.parse.uses_relative`, `uses_netloc`, `uses_params` (`parse.py:53-66`) -/
def usesRelative : List Str := ["", "ftp", "http", "gopher", "nntp", "imap", "wais", "file", "https", "shttp", "mms",
  "prospero", "rtsp", "rtsps", "rtspu", "sftp", "svn", "svn+ssh", "ws", "wss"].map cps
def usesNetloc : List Str := ["", "ftp", "http", "gopher", "nntp", "telnet", "imap", "wais", "file", "mms", "https",
  "shttp", "snews", "prospero", "rtsp", "rtsps", "rtspu", "rsync", "svn", "svn+ssh", "sftp", "nfs", "git",
  "git+ssh", "ws", "wss", "itms-services"].map cps
def usesParams : List Str := ["", "ftp", "hdl", "prospero", "http", "imap", "https", "shttp", "rtsp", "rtsps", "rtspu",
  "sip", "sips", "mms", "sftp", "tel"].map cps

/-- `urllib.parse.urlunsplit` (`parse.py:520-537`) -/
def urlunsplit (c : Split) : Str :=
  let url := c.path
  let url :=
    if c.netloc ≠ [] ∨ (c.scheme ≠ [] ∧ c.scheme ∈ usesNetloc ∧ url.take 2 ≠ [cSlash, cSlash]) then
      let url := if url ≠ [] ∧ url.take 1 ≠ [cSlash] then cSlash :: url else url
      [cSlash, cSlash] ++ c.netloc ++ url
    else url
  let url := if c.scheme ≠ [] then c.scheme ++ cColon :: url else url
  let url := if c.query ≠ [] then url ++ cQuest :: c.query else url
  let url := if c.fragment ≠ [] then url ++ cHash :: c.fragment else url
  url

/-- `_splitparams` (`parse.py:404-411`), called only when `';' in url` -/
def splitParams (url : Str) : Str × Str :=
  if url.contains cSlash then
    -- i = url.find(';', url.rfind('/'))
    let tail := (url.reverse.takeWhile (· ≠ cSlash)).reverse     -- after the last '/'
    let head := (url.reverse.dropWhile (· ≠ cSlash)).reverse     -- up to and including it
    match splitFirst cSemi tail with
    | none => (url, [])
    | some r => (head ++ r.1, r.2)
  else
    match splitFirst cSemi url with
    | none => (url, [])
    | some r => r

structure Parsed where
  scheme : Str
  netloc : Str
  path : Str
  params : Str
  query : Str
  fragment : Str
  deriving DecidableEq, Repr

/-- `urllib.parse.urlparse` (`parse.py:374-402`) -/
def urlparse (url : Str) (dflt : Str := []) : Except Err Parsed :=
  match urlsplit url dflt with
  | .error e => .error e
  | .ok s =>
    let pr := if s.scheme ∈ usesParams ∧ s.path.contains cSemi then splitParams s.path else (s.path, [])
    .ok { scheme := s.scheme, netloc := s.netloc, path := pr.1, params := pr.2, query := s.query,
          fragment := s.fragment }

/-- `urllib.parse.urlunparse` (`parse.py:509-518`) -/
def urlunparse (p : Parsed) : Str :=
  let url := if p.params ≠ [] then p.path ++ cSemi :: p.params else p.path
  urlunsplit { scheme := p.scheme, netloc := p.netloc, path := url, query := p.query, fragment := p.fragment }

/-- loop body of `urljoin` (`parse.py:583-594`); `st` is `resolved_path` reversed -/
def rdsStep (st : List Str) (seg : Str) : List Str :=
  if seg = dotdot then st.tail           -- pop(); IndexError is ignored
  else if seg = dot then st
  else seg :: st

/-- `resolved_path` (in order) after the loop over `segments`, plus the `''` appended when the last segment
was `.` or `..` (`parse.py:596-599`) -/
def rdsSegs (segments : List Str) : List Str :=
  let st := segments.foldl rdsStep []
  let st := if segments.getLast? = some dot ∨ segments.getLast? = some dotdot then [] :: st else st
  st.reverse

/-- `segments[1:-1] = filter(None, segments[1:-1])` (`parse.py:579`) -/
def filterInterior (segments : List Str) : List Str :=
  match segments with
  | [] => []
  | [a] => [a]
  | a :: rest => a :: (rest.dropLast.filter (· ≠ [])) ++ rest.getLast?.toList

/-- `urllib.parse.urljoin(base, url)` (`parse.py:539-602`) -/
def urljoin (base url : Str) : Except Err Str :=
  if base = [] then .ok url
  else if url = [] then .ok base
  else
    match urlparse base [] with
    | .error e => .error e
    | .ok b =>
      match urlparse url b.scheme with
      | .error e => .error e
      | .ok u =>
        if u.scheme ≠ b.scheme ∨ u.scheme ∉ usesRelative then .ok url
        else if u.scheme ∈ usesNetloc ∧ u.netloc ≠ [] then .ok (urlunparse u)
        else
          let netloc := if u.scheme ∈ usesNetloc then b.netloc else u.netloc
          if u.path = [] ∧ u.params = [] then
            .ok (urlunparse { scheme := u.scheme, netloc := netloc, path := b.path, params := b.params,
                              query := if u.query = [] then b.query else u.query, fragment := u.fragment })
          else
            let baseParts := splitOn cSlash b.path
            let baseParts := if baseParts.getLast? ≠ some [] then baseParts.dropLast else baseParts
            let segments :=
              if u.path.take 1 = [cSlash] then splitOn cSlash u.path
              else filterInterior (baseParts ++ splitOn cSlash u.path)
            let resolved := joinWith cSlash (rdsSegs segments)
            .ok (urlunparse { scheme := u.scheme, netloc := netloc,
                              path := if resolved = [] then [cSlash] else resolved,
                              params := u.params, query := u.query, fragment := u.fragment })

/-- UTF-8 bytes of one code point (`str.encode('utf-8', 'strict')`): surrogates are an error -/
def utf8 (c : Nat) : Except Err (List Nat) :=
  if c < 0x80 then .ok [c]
  else if c < 0x800 then .ok [0xC0 + c / 64, 0x80 + c % 64]
  else if 0xD800 ≤ c ∧ c ≤ 0xDFFF then .error .unicodeEncodeError
  else if c < 0x10000 then .ok [0xE0 + c / 4096, 0x80 + c / 64 % 64, 0x80 + c % 64]
  else if c < 0x110000 then .ok [0xF0 + c / 262144, 0x80 + c / 4096 % 64, 0x80 + c / 64 % 64, 0x80 + c % 64]
  else .error .unsupported

def hexDigitUp (n : Nat) : Nat := if n < 10 then 0x30 + n else 0x41 + (n - 10)

/-- the `safe` argument of `quote` in `Replacer.__call__` (now `"/%:@!$&'()*+,;="`), regenerated from the source
into `Gen/C19Safe.lean` on every run -/
def replacerSafe (b : Nat) : Bool := CssVerif.Gen.C19.replacerSafeChars.contains b

/-- `_ALWAYS_SAFE` (`parse.py:813`) plus that `safe` -/
def quoteSafe (b : Nat) : Bool :=
  isAsciiAlpha b || isDigit b || b = 0x5F || b = 0x2E || b = 0x2D || b = 0x7E || replacerSafe b

/-- `_Quoter.__missing__` (`parse.py:843-847`) -/
def quoteByte (b : Nat) : Str := if quoteSafe b then [b] else [cPct, hexDigitUp (b / 16), hexDigitUp (b % 16)]

/-- `urllib.parse.quote(s, safe="/%:@!$&'()*+,;=")` (`parse.py:849-950`) -/
def quote : Str → Except Err Str
  | [] => .ok []
  | c :: cs =>
    match utf8 c with
    | .error e => .error e
    | .ok bs =>
      match quote cs with
      | .error e => .error e
      | .ok r => .ok (bs.flatMap quoteByte ++ r)

/-! ## Part 1d — `cssutils.Replacer` (`__init__.py:286-338`) -/

/-- `Replacer.extract_base` -/
def extractBase (uri : Str) : Except Err Str :=
  match urlsplit uri with
  | .error e => .error e
  | .ok s => .ok (psplit s.path).1

/-- what `Replacer.__init__` keeps of the @import href: the directory of its path, and scheme, host, path and
query of the imported sheet itself -/
structure ReplacerState where
  base : Str
  scheme : Str
  location : Str
  path : Str
  query : Str
  deriving Repr

/-- `Replacer.__init__(base)` -/
def mkReplacerState (href : Str) : Except Err ReplacerState :=
  match extractBase href with
  | .error e => .error e
  | .ok base =>
    match urlsplit href with
    | .error e => .error e
    | .ok s => .ok { base := base, scheme := s.scheme, location := s.netloc, path := s.path, query := s.query }

/-- `Replacer.__call__(uri)` -/
def replacerCall (r : ReplacerState) (uri : Str) : Except Err Str :=
  match urlsplit uri with
  | .error e => .error e
  | .ok s =>
    if s.scheme ≠ [] then .ok uri                                          -- keep anything absolute
    else if s.netloc ≠ [] ∨ startsWith [cSlash] s.path then
      -- relative to the scheme or host the sheet came from
      if r.scheme = [] ∧ r.location = [] then .ok uri
      else .ok (urlunsplit { scheme := r.scheme, netloc := if s.netloc ≠ [] then s.netloc else r.location,
                             path := s.path, query := s.query, fragment := s.fragment })
    else
      let cq : Str × Str :=
        if s.path = [] then
          -- nothing or only a query or fragment: refers to the sheet itself
          (r.path, if s.query ≠ [] then s.query else r.query)
        else
          let pf := psplit s.path
          let combined := normpath (pjoin r.base [pf.1, pf.2])
          -- normpath drops what says that a directory is meant
          (if (pf.2 = [] ∨ pf.2 = dot ∨ pf.2 = dotdot) ∧ combined.getLast? ≠ some cSlash then combined ++ [cSlash]
           else combined, s.query)
      match quote cq.1 with                                                -- os.sep is '/'
      | .error e => .error e
      | .ok path =>
        -- `if ':' in path.split('/', 1)[0]`: a first segment with a colon would be taken for a scheme
        let path := if (path.takeWhile (· ≠ cSlash)).contains cColon then cDot :: cSlash :: path else path
        .ok (urlunsplit { scheme := r.scheme, netloc := r.location, path := path, query := cq.2,
                          fragment := s.fragment })

/-- `Replacer(href)(uri)` -/
def replacer (href uri : Str) : Except Err Str :=
  match mkReplacerState href with
  | .error e => .error e
  | .ok r => replacerCall r uri

/-! ## Part 2 — abstract sheets; `getUrls`, `replaceUrls` (`__init__.py:183-268`) -/

/-- one item of a `PropertyValue`. `PropertyValue.__iter__` yields the top-level `Value` objects; a `url()` nested
in a function (`image-set(url(a.png) 1x)`) is an item of the `CSSFunction`, not of the property value. -/
inductive Comp where
  | uri (u : Str)                         -- `URIValue`, `.type == 'URI'`
  | tok (t : Str)                         -- any other single value / operator, by its text
  | fn (name : Str) (args : List Comp)    -- `CSSFunction` and its own items
  deriving Repr

structure Decl where
  name : Str
  value : List Comp
  prio : Str
  deriving Repr

/-- `CSSStyleDeclaration.getProperties(all=True)`: every property in source order -/
abbrev Style := List Decl

/-- rules. `imp` carries what `CSSImportRule` holds after `_setHref`: `hrefFound`, and the imported sheet
(`styleSheet.href`, `styleSheet.cssRules`); a not yet loaded import is `imp href media false [] []`. -/
inductive Rule where
  | charset (enc : Str)
  | comment (text : Str)
  | imp (href media : Str) (found : Bool) (thref : Str) (sheet : List Rule)
  | ns (pfx uri : Str)
  | style (sel : Str) (st : Style)
  | media (m : Str) (rules : List Rule)
  | page (sel : Str) (st : Style) (margins : List (Str × Style))
  | fontface (st : Style)
  | unknown (text : Str)
  deriving Repr

abbrev Sheet := List Rule

mutual
/-- `_values` (`__init__.py:224-234`): a value, and after a function the values that are its arguments;
here the `.uri` of those with `.type == 'URI'` -/
def compUris : Comp → List Str
  | .uri u => [u]
  | .tok _ => []
  | .fn _ args => compsUris args
def compsUris : List Comp → List Str
  | [] => []
  | c :: cs => compUris c ++ compsUris cs
end

/-- `_uri_values(style)` (`__init__.py:215-221`), the `.uri` of each -/
def uriValues (st : Style) : List Str := st.flatMap fun d => compsUris d.value

mutual
/-- `_style_declarations(rule)` (`__init__.py:183-190`): the rule's own `style` first, then those of its `cssRules` -/
def styleDecls : Rule → List Style
  | .style _ st => [st]
  | .fontface st => [st]
  | .page _ st ms => st :: ms.map (·.2)        -- a MarginRule has `style` and no `cssRules`
  | .media _ rs => styleDeclsL rs              -- CSSMediaRule has `cssRules` and no `style`
  | _ => []                                    -- @import has `styleSheet`, neither `style` nor `cssRules`
/-- `_style_declarations(sheet)` / the loop over `cssRules` -/
def styleDeclsL : List Rule → List Style
  | [] => []
  | r :: rs => styleDecls r ++ styleDeclsL rs
end

/-- `rule.href for rule in sheet if rule.type == rule.IMPORT_RULE` -/
def importHrefs : Sheet → List Str
  | [] => []
  | .imp href _ _ _ _ :: rs => href :: importHrefs rs
  | _ :: rs => importHrefs rs

/-- `list(cssutils.getUrls(sheet))` (`__init__.py:193-212`) -/
def getUrls (sheet : Sheet) : List Str :=
  importHrefs sheet ++ (styleDeclsL sheet).flatMap uriValues

/-- result of a traversal that calls the replacer: the new object and the arguments of the calls, in call order -/
abbrev Logged (α : Type) := Except Err (α × List Str)

mutual
/-- `value.uri = replacer(value.uri)` for one item of a property value, or of a function -/
def replComp (f : Str → Except Err Str) : Comp → Logged Comp
  | .uri u =>
    match f u with
    | .error e => .error e
    | .ok v => .ok (.uri v, [u])
  | .tok t => .ok (.tok t, [])
  | .fn n args =>
    match replComps f args with
    | .error e => .error e
    | .ok r => .ok (.fn n r.1, r.2)
def replComps (f : Str → Except Err Str) : List Comp → Logged (List Comp)
  | [] => .ok ([], [])
  | c :: cs =>
    match replComp f c with
    | .error e => .error e
    | .ok a => match replComps f cs with
      | .error e => .error e
      | .ok r => .ok (a.1 :: r.1, a.2 ++ r.2)
end

/-- `for value in _uri_values(style): value.uri = replacer(value.uri)` (`__init__.py:267-268`) -/
def replStyle (f : Str → Except Err Str) : Style → Logged Style
  | [] => .ok ([], [])
  | d :: ds =>
    match replComps f d.value with
    | .error e => .error e
    | .ok v => match replStyle f ds with
      | .error e => .error e
      | .ok r => .ok ({ d with value := v.1 } :: r.1, v.2 ++ r.2)

def replMargins (f : Str → Except Err Str) : List (Str × Style) → Logged (List (Str × Style))
  | [] => .ok ([], [])
  | m :: ms =>
    match replStyle f m.2 with
    | .error e => .error e
    | .ok v => match replMargins f ms with
      | .error e => .error e
      | .ok r => .ok ((m.1, v.1) :: r.1, v.2 ++ r.2)

mutual
/-- the second loop of `replaceUrls` (`__init__.py:249-250`) restricted to one rule -/
def replRule (f : Str → Except Err Str) : Rule → Logged Rule
  | .style sel st =>
    match replStyle f st with
    | .error e => .error e
    | .ok r => .ok (.style sel r.1, r.2)
  | .fontface st =>
    match replStyle f st with
    | .error e => .error e
    | .ok r => .ok (.fontface r.1, r.2)
  | .page sel st ms =>
    match replStyle f st with
    | .error e => .error e
    | .ok r => match replMargins f ms with
      | .error e => .error e
      | .ok q => .ok (.page sel r.1 q.1, r.2 ++ q.2)
  | .media m rs =>
    match replRules f rs with
    | .error e => .error e
    | .ok r => .ok (.media m r.1, r.2)
  | r => .ok (r, [])
def replRules (f : Str → Except Err Str) : List Rule → Logged (List Rule)
  | [] => .ok ([], [])
  | r :: rs =>
    match replRule f r with
    | .error e => .error e
    | .ok a => match replRules f rs with
      | .error e => .error e
      | .ok b => .ok (a.1 :: b.1, a.2 ++ b.2)
end

/-- the first loop of `replaceUrls` (`__init__.py:241-247`): `rule.href = replacer(rule.href)`. Assigning `href`
runs `_setHref` again, i.e. the import is fetched anew; `reload newHref` is what that leaves in the rule
(`hrefFound`, `styleSheet.href`, `styleSheet.cssRules`). -/
def replImports (f : Str → Except Err Str) (reload : Str → Bool × Str × Sheet) : Sheet → Logged Sheet
  | [] => .ok ([], [])
  | .imp href media _ _ _ :: rs =>
    match f href with
    | .error e => .error e
    | .ok h => match replImports f reload rs with
      | .error e => .error e
      | .ok r => .ok (.imp h media (reload h).1 (reload h).2.1 (reload h).2.2 :: r.1, href :: r.2)
  | r :: rs =>
    match replImports f reload rs with
    | .error e => .error e
    | .ok q => .ok (r :: q.1, q.2)

/-- `cssutils.replaceUrls(sheet, replacer, ignoreImportRules)` (`__init__.py:227-250`) -/
def replaceUrls (f : Str → Except Err Str) (reload : Str → Bool × Str × Sheet) (ignoreImportRules : Bool)
    (sheet : Sheet) : Logged Sheet :=
  match (if ignoreImportRules then .ok (sheet, []) else replImports f reload sheet) with
  | .error e => .error e
  | .ok a => match replRules f a.1 with
    | .error e => .error e
    | .ok b => .ok (b.1, a.2 ++ b.2)

/-! the property's own reading of "every url()": also the ones nested in functions -/
mutual
def compUrlsDeep : Comp → List Str
  | .uri u => [u]
  | .tok _ => []
  | .fn _ args => compsUrlsDeep args
def compsUrlsDeep : List Comp → List Str
  | [] => []
  | c :: cs => compUrlsDeep c ++ compsUrlsDeep cs
end

def uriValuesDeep (st : Style) : List Str := st.flatMap fun d => compsUrlsDeep d.value

/-- every @import target and every url() value, imports first, then in document order -/
def allUrls (sheet : Sheet) : List Str :=
  importHrefs sheet ++ (styleDeclsL sheet).flatMap uriValuesDeep

/-! ## Part 3 — loading an import tree, `CSSStyleSheet.add`, `resolveImports` -/

/-- which fetcher a sheet uses: the one given to the parser, or (`_fetcher is None`) `util._defaultFetcher` -/
inductive Who where
  | user
  | dflt
  deriving DecidableEq, Repr

/-- fetcher calls, in call order -/
abbrev FLog := List (Who × Str)

/-- what the fetchers answer: full URL ↦ the (not yet loaded) sheet its text parses to; absent = `None`/OSError -/
abbrev Vfs := List (Str × Sheet)

def vfsLookup (vfs : Vfs) (url : Str) : Option Sheet :=
  match vfs with
  | [] => none
  | e :: es => if e.1 = url then some e.2 else vfsLookup es url

/-- a result together with the fetcher calls made so far (they are made also when an exception follows) -/
structure Res (α : Type) where
  val : Except Err α
  log : FLog

def notLoaded (href media : Str) : Rule := .imp href media false [] []

/-- parsing the text of a sheet: every `@import` is loaded by `loadImp`, everything else is itself -/
def loadWith (loadImp : Str → Str → Res Rule) : Sheet → Res Sheet
  | [] => ⟨.ok [], []⟩
  | .imp href media _ _ _ :: rs =>
    let a := loadImp href media
    match a.val with
    | .error e => ⟨.error e, a.log⟩
    | .ok r =>
      let b := loadWith loadImp rs
      match b.val with
      | .error e => ⟨.error e, a.log ++ b.log⟩
      | .ok q => ⟨.ok (r :: q), a.log ++ b.log⟩
  | r :: rs =>
    let b := loadWith loadImp rs
    match b.val with
    | .error e => ⟨.error e, b.log⟩
    | .ok q => ⟨.ok (r :: q), b.log⟩

/-- an `@import` met while a sheet's text is parsed: `_setHref` runs when the rule is parsed (`attempt`); when the rule is
inserted (`cssstylesheet.py:941-944`, `_loadHref(rule.href, retry=False)`) the URL that was tried is remembered
(`_hrefTried`) and not fetched a second time (since "inserting an @import rule whose sheet could not be read does not
fetch the same URL a second time"; before, an unavailable target was fetched twice). A malformed URL, for which
nothing was tried, is joined again and is malformed again: same outcome, nothing fetched. -/
def twice (attempt : Res Rule) : Res Rule := attempt

/-- `CSSImportRule._setHref` / `_loadHref` (`cssimportrule.py:273-362`) for a rule whose parent sheet has the hrefs `chain`
(own href first, then the sheets it is imported from) and the fetcher `who`.
`fuel` bounds the import depth (`vfs.length + 2` is what the callers give). -/
def setHref (fuel : Nat) (vfs : Vfs) (who : Who) (chain : List Str) (href media : Str) : Res Rule :=
  match fuel with
  | 0 => ⟨.error .fuel, []⟩
  | fuel + 1 =>
    match chain with
    | [] => ⟨.error .unsupported, []⟩                       -- parent sheet without href: cwd, not modelled
    | parentHref :: _ =>
      match urljoin parentHref href with                    -- inside the try since cdb1459
      | .error .valueError => ⟨.ok (notLoaded href media), []⟩      -- malformed URL: ValueError is caught, not found
      | .error e => ⟨.error e, []⟩                          -- (only `unsupported`: outside the modelled fragment)
      | .ok full =>
        if full ∈ chain then ⟨.ok (.imp href media false full []), []⟩  -- :330-336 recursive @import (`_hrefTried` = full)
        else
          match vfsLookup vfs full with                     -- :325 _resolveImport -> fetcher(url)
          | none => ⟨.ok (.imp href media false full []), [(who, full)]⟩   -- :342-344, :362 (`_hrefTried` = full)
          | some raw =>
            -- :343-347 the text is parsed; its own @imports are loaded as it goes
            let r := loadWith (fun h m => twice (setHref fuel vfs who (full :: chain) h m)) raw
            match r.val with
            | .error .fuel => ⟨.error .fuel, (who, full) :: r.log⟩
            | .error _ => ⟨.error .unsupported, (who, full) :: r.log⟩      -- :349 catches; not modelled further
            | .ok rules => ⟨.ok (.imp href media true full rules), (who, full) :: r.log⟩   -- :360

/-- an `@import` of the sheet that is being parsed -/
def parseImp (fuel : Nat) (vfs : Vfs) (who : Who) (chain : List Str) (href media : Str) : Res Rule :=
  twice (setHref fuel vfs who chain href media)

/-- `parser.parseString(text, href=href)` with `fetcher`: the loaded rule tree and the fetcher calls -/
def parseSheet (vfs : Vfs) (href : Str) (raw : Sheet) : Res Sheet :=
  loadWith (parseImp (vfs.length + 2) vfs .user [href]) raw

def isImp : Rule → Bool
  | .imp .. => true
  | _ => false

def isNs : Rule → Bool
  | .ns .. => true
  | _ => false

def isCharset : Rule → Bool
  | .charset _ => true
  | _ => false

def isComment : Rule → Bool
  | .comment _ => true
  | _ => false

/-- `len(rules) - i` for the first `i` with `p(reversed(rules)[i])`: the index just after the last `p`-rule -/
def afterLast (p : Rule → Bool) : Sheet → Option Nat
  | [] => none
  | r :: rs =>
    match afterLast p rs with
    | some i => some (i + 1)
    | none => if p r then some 1 else none

def insertAt (l : List Rule) (i : Nat) (x : Rule) : List Rule := l.take i ++ x :: l.drop i

/-- `rule._loadHref(rule.href, retry=False)` (`cssstylesheet.py:941-944`, `cssimportrule.py:299-305`) for an @import whose
sheet was not found, once the rule has its new parent sheet with the href `th`; `tried` = `_hrefTried` (the `thref` field
of a rule that was not found; empty = nothing was tried, the URL was malformed): when the href means, from the new
place, the URL that was tried, nothing happens; otherwise the sheet is looked for from the new place -/
def reload (vfs : Vfs) (who : Who) (th href media tried : Str) : Res Rule :=
  match urljoin th href with
  | .ok full =>
    if tried ≠ [] ∧ full = tried then ⟨.ok (.imp href media false tried []), []⟩
    else setHref (vfs.length + 2) vfs who [th] href media
  | .error _ => setHref (vfs.length + 2) vfs who [th] href media

/-- `r._updateHref(replacer(r.href))` for the @import rules of a sheet that is merged (`__init__.py:433-441`): the href
is re-based, the sheet the rule holds stays; a malformed href (ValueError) stays as it is -/
def rebaseImp (f : Str → Except Err Str) : Rule → Except Err Rule
  | .imp h m fd ih sh =>
    match f h with
    | .ok h' => .ok (.imp h' m fd ih sh)
    | .error .valueError => .ok (.imp h m fd ih sh)
    | .error e => .error e
  | r => .ok r

def rebaseImps (f : Str → Except Err Str) : List Rule → Except Err (List Rule)
  | [] => .ok []
  | r :: rs =>
    match rebaseImp f r with
    | .error e => .error e
    | .ok x => match rebaseImps f rs with
      | .error e => .error e
      | .ok xs => .ok (x :: xs)

/-- `target.add(rule)` = `CSSStyleSheet.insertRule(rule, inOrder=True)` (`cssstylesheet.py:558-913`) on a sheet
made by `resolveImports` (`href = thref`, the fetcher `who` of the sheet that is resolved, no owner rule).
`@variables` rules are not modelled. -/
def addRule (vfs : Vfs) (who : Who) (thref : Str) (target : Sheet) (rule : Rule) : Res Sheet :=
  match rule with
  | .charset enc =>                                             -- :669-676
    match target with
    | .charset _ :: rest => ⟨.ok (.charset enc :: rest), []⟩
    | _ => ⟨.ok (rule :: target), []⟩
  | .imp href media found tried _ =>                            -- :705-722, :752
    let index := match afterLast isImp target with
      | some i => i
      | none => match target with
        | .charset _ :: _ => 1
        | .comment _ :: _ => 1
        | _ => 0
    if found then ⟨.ok (insertAt target index rule), []⟩
    else
      -- :941-944 `rule._loadHref(rule.href, retry=False)`: not again from the URL that was tried
      let a := reload vfs who thref href media tried
      match a.val with
      | .error e => ⟨.error e, a.log⟩
      | .ok r => ⟨.ok (insertAt target index r), a.log⟩
  | .ns pfx uri =>                                              -- :756-820
    if target.any (fun r => match r with
        | .ns p u => (p = pfx ∧ u ≠ uri) ∨ (p ≠ pfx ∧ u = uri)
        | _ => false) then ⟨.error .unsupported, []⟩           -- clash of prefixes / URIs: C15's kernel
    else if target.any (fun r => match r with
        | .ns p u => p = pfx ∧ u = uri
        | _ => false) then ⟨.ok target, []⟩                   -- :809-820 "no doublettes"
    else
      let index := match afterLast isNs target with
        | some i => i
        | none => match afterLast (fun r => isCharset r || isImp r) target with   -- :766-781
          | some i => i
          | none => 0
      ⟨.ok (insertAt target index rule), []⟩
  | _ => ⟨.ok (target ++ [rule]), []⟩                           -- :691 (not inOrder) falls through to :883-888

/-- `for r in rules: target.add(r)` -/
def addAll (vfs : Vfs) (who : Who) (thref : Str) (target : Sheet) : List Rule → Res Sheet
  | [] => ⟨.ok target, []⟩
  | r :: rs =>
    let a := addRule vfs who thref target r
    match a.val with
    | .error e => ⟨.error e, a.log⟩
    | .ok t =>
      let b := addAll vfs who thref t rs
      ⟨b.val, a.log ++ b.log⟩

/-- `MediaCombineDisallowed._combinable`: comments and style rules; an @import still present after flattening is
one that was kept and cannot go into @media -/
def combinable : Rule → Bool
  | .comment _ => true
  | .style _ _ => true
  | _ => false

/-- `for r in importedSheet: media_proxy.add(r)` for rules that passed `_combinable`
(`CSSMediaRule.insertRule`, `cssmediarule.py:319-342`): an `@import` is refused with HierarchyRequestErr -/
def proxyAddAll (acc : List Rule) : List Rule → Except Err (List Rule)
  | [] => .ok acc
  | .imp .. :: _ => .error .hierarchyRequestErr
  | .charset _ :: _ => .error .hierarchyRequestErr
  | .fontface _ :: _ => .error .hierarchyRequestErr
  | .ns .. :: _ => .error .hierarchyRequestErr
  | r :: rs => proxyAddAll (acc ++ [r]) rs

/-- text of the comment that marks where an import was merged (`__init__.py:366`) -/
def startComment (href : Str) : Str := cps "/* START @import \"" ++ href ++ cps "\" */"

def mediaAll : Str := cps "all"

mutual
/-- `resolveImports(sheet, target)` (`__init__.py:298-331`), the loop over `sheet.cssRules`;
`thref` is `target.href` -/
def resolveRules (vfs : Vfs) (who : Who) (thref : Str) (target : Sheet) : List Rule → Res Sheet
  | [] => ⟨.ok target, []⟩
  | r :: rs =>
    let a := resolveRule vfs who thref target r
    match a.val with
    | .error e => ⟨.error e, a.log⟩
    | .ok t =>
      let b := resolveRules vfs who thref t rs
      ⟨b.val, a.log ++ b.log⟩
/-- one round of that loop; for an `@import`: `_resolve_import(rule, target)` (`__init__.py:353-399`) -/
def resolveRule (vfs : Vfs) (who : Who) (thref : Str) (target : Sheet) : Rule → Res Sheet
  | .charset _ => ⟨.ok target, []⟩                                              -- :324-325
  | .imp href media found ihref sheet =>
    if found = false then addRule vfs who thref target (.imp href media found ihref sheet)   -- :356-363
    else
      let c := addRule vfs who thref target (.comment (startComment href))          -- :366
      match c.val with
      | .error e => ⟨.error e, c.log⟩
      | .ok t1 =>
        -- :370 importedSheet = resolveImports(rule.styleSheet): a new target with the imported sheet's href
        let imported := resolveRules vfs who ihref [] sheet
        match imported.val with
        | .error .hierarchyRequestErr =>                                       -- :371-377
          let k := addRule vfs who thref t1 (.imp href media found ihref sheet)
          ⟨k.val, c.log ++ imported.log ++ k.log⟩
        | .error e => ⟨.error e, c.log ++ imported.log⟩
        | .ok isheet =>
          -- :381 replaceUrls(importedSheet, Replacer(rule.href), ignoreImportRules=True)
          match replaceUrls (replacer href) (fun _ => (false, [], [])) true isheet with
          | .error e => ⟨.error e, c.log ++ imported.log⟩
          | .ok rebased0 =>
           -- :433-441 the @imports kept in the merged sheet get their href re-based too (`_updateHref`: no reload)
           match rebaseImps (replacer href) rebased0.1 with
           | .error e => ⟨.error e, c.log ++ imported.log⟩
           | .ok rb =>
            let rebased : List Rule × List Str := (rb, rebased0.2)
            if media = mediaAll then                                           -- :404-405, :394-396
              let m := addAll vfs who thref t1 rebased.1
              ⟨m.val, c.log ++ imported.log ++ m.log⟩
            else if rebased.1.all combinable = false then                      -- :407, :385-392
              let k := addRule vfs who thref t1 (.imp href media found ihref sheet)
              ⟨k.val, c.log ++ imported.log ++ k.log⟩
            else
              match proxyAddAll [] rebased.1 with                              -- :394-396 with the proxy
              | .error e => ⟨.error e, c.log ++ imported.log⟩
              | .ok inner =>
                let m := addRule vfs who thref t1 (.media media inner)             -- :398-399
                ⟨m.val, c.log ++ imported.log ++ m.log⟩
  | r => addRule vfs who thref target r                                             -- :328-329
end

/-- `cssutils.resolveImports(sheet)` for a sheet with `sheet.href = href` and the fetcher `who`
(the target sheet gets the fetcher of the sheet that is resolved; imported sheets inherit it) -/
def resolveImports (vfs : Vfs) (who : Who) (href : Str) (sheet : Sheet) : Res Sheet :=
  resolveRules vfs who href [] sheet

/-! ## Part 4 — the specification of flattening WITH kept imports

`flatSpec` says what the flattened sheet is without any insertion positions: the *groups* of the rules of a
sheet, in cascade (document, depth-first) order, then the kept @imports *hoisted* to the front (`hoist`).
The group of an @import that is merged is the marker comment followed by the flattening of the imported sheet,
re-based against the @import's href (url() values only: `ignoreImportRules=True`), every @import kept in it taken
over (`keep1`: one whose target was not found is looked for again from the new place); with media, the group is the
marker comment and one @media rule, or — when the flattened target holds anything but comments and style rules —
the marker comment and the @import itself. `Lemmas/UrlsKept.lean` proves `resolveImports = flatSpec` wherever
`flatSpec` has a value (it has none — `unsupported` — for sheets with @namespace rules, whose placement is C15's). -/

/-- the index at which `CSSStyleSheet.insertRule(rule, inOrder=True)` puts an @import (`cssstylesheet.py:716-732`):
after the last @import, else after a leading @charset or comment, else at the top -/
def impIndex (t : Sheet) : Nat :=
  match afterLast isImp t with
  | some i => i
  | none => match t with
    | .charset _ :: _ => 1
    | .comment _ :: _ => 1
    | _ => 0

/-- `target.add(r)` for an @import whose sheet is loaded, a comment, style, @media, @page, @font-face or unknown rule -/
def ins (t : Sheet) (r : Rule) : Sheet := if isImp r then insertAt t (impIndex t) r else t ++ [r]

/-- `for r in rules: target.add(r)` -/
def run (t : Sheet) (c : List Rule) : Sheet := c.foldl ins t

/-- kept @imports first (after a leading comment), everything else behind them, both in the order they had -/
def hoist (c : List Rule) : Sheet :=
  match c with
  | .comment x :: rest => .comment x :: (rest.filter isImp ++ rest.filter (fun r => !isImp r))
  | .charset x :: rest => .charset x :: (rest.filter isImp ++ rest.filter (fun r => !isImp r))
  | _ => c.filter isImp ++ c.filter (fun r => !isImp r)

/-- rules that `CSSStyleSheet.add` appends at the end (same as `Lemmas.isPlain`) -/
def appended : Rule → Bool
  | .comment _ => true
  | .style _ _ => true
  | .media _ _ => true
  | .page _ _ _ => true
  | .fontface _ => true
  | .unknown _ => true
  | _ => false

/-- a rule taken over into the sheet with the href `th`: an @import whose target was not found is looked for again
from there unless its href means the URL that was tried before (`reload`, `cssstylesheet.py:941-944`), anything else is
itself; @charset / @namespace: not in the specification -/
def keep1 (vfs : Vfs) (who : Who) (th : Str) : Rule → Res Rule
  | .imp href media false tried _ => reload vfs who th href media tried
  | .imp href media true ihref sheet => ⟨.ok (.imp href media true ihref sheet), []⟩
  | r => if appended r then ⟨.ok r, []⟩ else ⟨.error .unsupported, []⟩

def keepAll (vfs : Vfs) (who : Who) (th : Str) : List Rule → Res (List Rule)
  | [] => ⟨.ok [], []⟩
  | r :: rs =>
    let a := keep1 vfs who th r
    match a.val with
    | .error e => ⟨.error e, a.log⟩
    | .ok x =>
      let b := keepAll vfs who th rs
      match b.val with
      | .error e => ⟨.error e, a.log ++ b.log⟩
      | .ok xs => ⟨.ok (x :: xs), a.log ++ b.log⟩

mutual
/-- the groups of the rules of a sheet, concatenated in document order -/
def cascRules (vfs : Vfs) (who : Who) (th : Str) : List Rule → Res (List Rule)
  | [] => ⟨.ok [], []⟩
  | r :: rs =>
    let a := cascRule vfs who th r
    match a.val with
    | .error e => ⟨.error e, a.log⟩
    | .ok c =>
      let b := cascRules vfs who th rs
      match b.val with
      | .error e => ⟨.error e, a.log ++ b.log⟩
      | .ok d => ⟨.ok (c ++ d), a.log ++ b.log⟩
/-- the group one rule of a sheet with the href `th` stands for -/
def cascRule (vfs : Vfs) (who : Who) (th : Str) : Rule → Res (List Rule)
  | .charset _ => ⟨.ok [], []⟩
  | .imp href media true ihref sheet =>
    let i := cascRules vfs who ihref sheet
    match i.val with
    | .error e => ⟨.error e, i.log⟩
    | .ok ci =>
      match replRules (replacer href) (hoist ci) with
      | .error e => ⟨.error e, i.log⟩
      | .ok rebased0 =>
       match rebaseImps (replacer href) rebased0.1 with
       | .error e => ⟨.error e, i.log⟩
       | .ok rb =>
        let rebased : List Rule × List Str := (rb, rebased0.2)
        if media = mediaAll then
          let k := keepAll vfs who th rebased.1
          match k.val with
          | .error e => ⟨.error e, i.log ++ k.log⟩
          | .ok m => ⟨.ok (.comment (startComment href) :: m), i.log ++ k.log⟩
        else if rebased.1.all combinable then
          ⟨.ok [.comment (startComment href), .media media rebased.1], i.log⟩
        else
          ⟨.ok [.comment (startComment href), .imp href media true ihref sheet], i.log⟩
  | r =>
    let a := keep1 vfs who th r
    match a.val with
    | .error e => ⟨.error e, a.log⟩
    | .ok x => ⟨.ok [x], a.log⟩
end

/-- **the specification**: the flattened sheet and the fetcher calls made on the way -/
def flatSpec (vfs : Vfs) (who : Who) (href : Str) (sheet : Sheet) : Res Sheet :=
  let c := cascRules vfs who href sheet
  match c.val with
  | .error e => ⟨.error e, c.log⟩
  | .ok l => ⟨.ok (hoist l), c.log⟩

end CssVerif.Urls
