import CssVerif.Model.OutRules
/-!
# K4 `Out`, part 3 — the documented effect of the content preferences as a function on the model DOM

`effectSheet p s` is the sheet to which the effect of the content preferences of the record `p` has been applied:
suppressed rules removed at every depth, leaves rewritten. `Lemmas/OutEffect*.lean` prove that serializing it under
`p` gives the text of `s` under `p` (T6.3); the driver request `effsheet` serializes it under `neutralLeaf p` — the
record in which the leaf preferences are switched to "as written" — and the harness compares that with the
implementation's text of the ORIGINAL sheet under `p` (correspondence: the rewrite is the whole effect of the leaf
preferences).
-/
namespace CssVerif.Out
open CssVerif.Proto (Cps)

/-- the rewrite of one string leaf: a HASH item that starts with `#` is shortened as `_hash` would -/
def hashStr (p : Prefs) (ty s : Cps) : Cps := if ty == t_HASH && s.head? == some 35 then hash p s else s


mutual
/-- `minimizeColorHash` on the DOM of a value: every HASH string item (of a property value, a function, a colour, a
calc expression) that starts with `#` is replaced by what `_hash` makes of it, at every nesting depth -/
def effObj (p : Prefs) : Obj → Obj
  | .comment t => .comment t
  | .pvalue ne items => .pvalue ne (effItems p true items)
  | .value ty v => .value ty (hashStr p ty v)
  | .num ty n => .num ty n
  | .color ct items => .color ct (effItems p true items)
  | .func items => .func (effItems p true items)
  | .calc items => .calc (effItems p true items)
  | .ms items => .ms (effItems p false items)          -- `do_css_MSValue` appends every item with type `None`
  | .var name res fb => .var name (effVal p res) (effVal p fb)
  | .selector wf items => .selector wf (effItems p false items)
  | .mquery wf items => .mquery wf (effItems p false items)
  | .mlist items => .mlist (effItems p false items)
def effVal (p : Prefs) : Val → Val
  | .obj o => .obj (effObj p o)
  | v => v
/-- `leaves`: rewrite the string leaves of this list too (not under `MSValue`, selectors, media queries) -/
def effItems (p : Prefs) (leaves : Bool) : List Item → List Item
  | [] => []
  | .mk ty (.str s) :: t => .mk ty (.str (if leaves then hashStr p ty s else s)) :: effItems p leaves t
  | .mk ty v :: t => .mk ty (effVal p v) :: effItems p leaves t
end


def DItem.mapProp (f : Property → Property) : DItem → DItem
  | .prop pr => .prop (f pr)
  | it => it


/-- `minimizeColorHash` on a property: its value is rewritten (`effObj`) -/
def Property.effValue (p : Prefs) (pr : Property) : Property := { pr with value := effObj p pr.value }

/-- `defaultPropertyName` (read only when `keepAllProperties` is off, `_propertyname`): the literal name is replaced
by the normalised name, in the name sequence and as `literalname` -/
def Property.effName (p : Prefs) (pr : Property) : Property :=
  if p.defaultPropertyName && !p.keepAllProperties then
    { pr with
      nameseq := pr.nameseq.map fun
        | .str s => if pr.literalname == s then .str pr.name else .str s
        | c => c,
      literalname := pr.name }
  else pr

/-- `defaultPropertyPriority`: the literal priority is replaced by the normalised one -/
def Property.effPrio (p : Prefs) (pr : Property) : Property :=
  if p.defaultPropertyPriority then
    { pr with
      prioseq := pr.prioseq.map fun
        | .str s => if s == pr.literalpriority then .str pr.priority else .str s
        | c => c,
      literalpriority := pr.priority }
  else pr


/-- the documented effect of the leaf preferences on one property -/
def Property.effect (p : Prefs) : Property → Property :=
  Property.effValue p ∘ Property.effPrio p ∘ Property.effName p


/-- … on a declaration block -/
def effectDecl (p : Prefs) (items : List DItem) : List DItem := items.map (DItem.mapProp (Property.effect p))


/-- `doDecl` returned the empty text -/
def isEmptyOk : Except Err Cps → Bool
  | .ok t => t.isEmpty
  | .error _ => false

/-- a rule that the preference record suppresses as a whole: a comment when comments are dropped, an unknown at-rule
when unknown at-rules are dropped, a style rule whose declaration block is written as the empty text when empty rules
are dropped (`lv` is the nesting level at which the rule is serialized), an `@variables` rule when variables are
resolved -/
def Rule.dropped (p : Prefs) (lv sl : Nat) : Rule → Bool
  | .comment _ => !p.keepComments
  | .unknown (.mk _ _ _) => !p.keepUnknownAtRules
  | .style _ _ _ st => !p.keepEmptyRules && isEmptyOk (doDecl p (lv + 1) st)
  | .variables _ _ _ _ _ => p.resolveVariables      -- `resolveVariables`: the `@variables` rules are not written
  | .media _ _ _ _ _ _ rules =>                      -- `keepEmptyRules`: an `@media` rule whose rules write nothing
    !p.keepEmptyRules && (match doRules p lv sl rules with
      | .ok texts => allWs (mediaRulesOut p lv texts).flatten
      | .error _ => false)
  | _ => false


def s_string : Cps := [115, 116, 114, 105, 110, 103]
def s_uri : Cps := [117, 114, 105]

/-- `importHrefFormat` on the DOM: `rule.hreftype` becomes the demanded format (`'string'` / `'uri'`; any other
value, also `None`, keeps what the rule has) -/
def hrefEffect (p : Prefs) (hrefString : Bool) : Bool :=
  p.importHrefFormat == some s_string || (p.importHrefFormat != some s_uri && hrefString)

/-- `defaultAtKeyword` on the DOM: the literal keyword is replaced by the normalised one -/
def kwEffect (p : Prefs) (atk : Cps) (kw : Option Cps) : Option Cps := if p.defaultAtKeyword then some atk else kw

/-- … for a margin rule, whose keyword may be missing -/
def kwEffectO (p : Prefs) (atk : Option Cps) (kw : Option Cps) : Option Cps :=
  match atk with
  | some a => kwEffect p a kw
  | none => kw

/-- `normalizedVarNames` on the DOM: the name of a variable is replaced by its normalised name; and
`minimizeColorHash` on its value (`effObj`) -/
def VItem.nameEffect (p : Prefs) : VItem → VItem
  | .var name nname v => .var (if p.normalizedVarNames then nname else name) nname (effObj p v)
  | it => it


mutual
/-- the documented effect of the content preferences on the rule tree: the suppressed rules (`keepComments`,
`keepUnknownAtRules`, `keepEmptyRules`, `resolveVariables`) are removed at every nesting depth; what is left has its
leaves rewritten: `importHrefFormat` sets the href type, `defaultAtKeyword` replaces every literal keyword by the
normalised one, `normalizedVarNames` replaces variable names by their normalised names; in every declaration block
(`effectDecl`) `defaultPropertyName` / `defaultPropertyPriority` replace literal names and priorities by the normalised
ones and `minimizeColorHash` shortens the HASH items of the values -/
def effectRule (p : Prefs) (lv sl : Nat) : Rule → Rule
  | .media a atk kw d e f rules => .media a atk (kwEffect p atk kw) d e f (effectRules p lv sl rules)
  | .page a atk kw d st rules => .page a atk (kwEffect p atk kw) d (effectDecl p st) (effectRules p lv sl rules)
  | .comment t => .comment t
  | .charset a b => .charset a b
  | .import_ a atk kw hs e => .import_ a atk (kwEffect p atk kw) (hrefEffect p hs) e
  | .namespace_ a atk kw d e f => .namespace_ a atk (kwEffect p atk kw) d e f
  | .margin atk kw c st => .margin atk (kwEffectO p atk kw) c (effectDecl p st)
  | .fontface a atk kw d st => .fontface a atk (kwEffect p atk kw) d (effectDecl p st)
  | .style a b c st => .style a b c (effectDecl p st)
  | .unknown r => .unknown r
  | .variables a atk kw d vars => .variables a atk (kwEffect p atk kw) d (vars.map (VItem.nameEffect p))
def effectRules (p : Prefs) (lv sl : Nat) : List Rule → List Rule
  | [] => []
  | r :: t => if r.dropped p lv sl then effectRules p lv sl t else effectRule p lv sl r :: effectRules p lv sl t
end


/-- the documented effect of the rule-level content preferences on a sheet -/
def effectSheet (p : Prefs) (s : Sheet) : Sheet :=
  { s with rules := effectRules p 0 0 (s.rules.filter fun r => !nsDropped p s.usedUris r) }


/-- the record in which the leaf preferences that `effectSheet` turns into DOM rewrites are switched to "write the
DOM as it is": no href format, literal keywords, names and priorities, variable names as written, hashes as written -/
def neutralLeaf (p : Prefs) : Prefs :=
  { p with importHrefFormat := none, defaultAtKeyword := false, normalizedVarNames := false,
           defaultPropertyName := false, defaultPropertyPriority := false, minimizeColorHash := false }

end CssVerif.Out
