import CssVerif.Model.Num
import CssVerif.Model.NumTok
/-!
# IEEE-754 binary64 layer of the number model (C18)

What CPython computes for a literal with a `.`: `float(sign + v)` (correctly rounded: nearest, ties to even),
then `== 0`, `== int(x)`, `-1 < x < 1`, `str(int(x))` and `'%f' % x` (the exact binary value correctly rounded to
six places, ties to even) — all in exact integer arithmetic on `m · 2^e`.

The exact layer (`Model/Num.lean`, `E.*`) is what the theorems of C18 speak about; this layer is what the
implementation does. They agree on literals with at most six fraction digits whose integer part is below 2^33
(2^53 when the fraction is zero) — checked by the driver on every literal of every run (`bridge` column) and
violated outside: `f64_region_witness` in `Props/C18.lean`.
-/
namespace CssVerif.Num
open CssVerif.Proto

/-- a finite double: `(-1)^neg · m · 2^e`, `m < 2^53` -/
structure F64 where
  neg : Bool
  m : Nat
  e : Int
deriving DecidableEq, Repr, Inhabited

/-- `floor(num / (den · 2^e))` and the remainder information needed for rounding: returns (quotient, 2·rem vs divisor) -/
def scaledDiv (num den : Nat) (e : Int) : Nat × Nat × Nat :=
  -- value = num / (den * 2^e); for e < 0 multiply the numerator instead
  let n := if e < 0 then num * 2 ^ e.natAbs else num
  let d := if e < 0 then den else den * 2 ^ e.toNat
  (n / d, n % d, d)

/-- round half to even of `q + r/d` -/
def roundHE (q r d : Nat) : Nat :=
  if 2 * r < d then q else if 2 * r > d then q + 1 else if q % 2 = 0 then q else q + 1

/-- the binary exponent at which `num / den` is rounded: the one for which the truncated quotient has exactly 53
bits, not below -1074 (subnormal range) -/
def chooseExp (num den : Nat) : Int :=
  -- estimate of the binary exponent of the quotient
  let e0 : Int := (Nat.log2 num : Int) - (Nat.log2 den : Int) - 52
  -- the exponent for which the truncated quotient has exactly 53 bits
  let pick (e : Int) : Bool := let q := (scaledDiv num den e).1; 2 ^ 52 ≤ q && q < 2 ^ 53
  let e1 : Int := if pick e0 then e0 else if pick (e0 - 1) then e0 - 1 else if pick (e0 + 1) then e0 + 1 else e0 - 2
  -- subnormal range: the exponent does not go below -1074
  if e1 < -1074 then -1074 else e1

/-- `num / den` rounded to a multiple of `2^e2` (nearest, ties to even); `none` = overflow to infinity -/
def roundAt (num den : Nat) (e2 : Int) : Option (Nat × Int) :=
  let s := scaledDiv num den e2
  let m := roundHE s.1 s.2.1 s.2.2
  -- rounding up may carry into the next binade
  let me : Nat × Int := if m = 2 ^ 53 then (2 ^ 52, e2 + 1) else (m, e2)
  if me.2 + 52 ≥ 1024 then none else some me

/-- nearest double (ties to even) of `num / den`, `num > 0`; `none` = overflow to infinity -/
def nearestF64 (num den : Nat) : Option (Nat × Int) := roundAt num den (chooseExp num den)

/-- `float(sign + ip + '.' + fp)` -/
def toF64 (sign ip fp : Cps) : Option F64 :=
  let n := natOfDigits (ip ++ fp)
  let neg := sign == [cMinus]
  if n = 0 then some { neg := neg, m := 0, e := 0 }
  else match nearestF64 n (10 ^ fp.length) with
    | none => none
    | some me => some { neg := neg, m := me.1, e := me.2 }

/-- decimal digits of a natural number (`str(n)`); `fuel` bounds the number of digits -/
def natToDigitsAux : Nat → Nat → Cps
  | 0, n => [cZero + n % 10]
  | fuel + 1, n => if n < 10 then [cZero + n] else natToDigitsAux fuel (n / 10) ++ [cZero + n % 10]

def natToDigits (n : Nat) : Cps := natToDigitsAux (Nat.log2 n + 1) n

namespace F

/-- `x == 0` -/
def isZero (x : F64) : Bool := x.m == 0
/-- `x == int(x)` -/
def isIntegral (x : F64) : Bool := x.e ≥ 0 || x.m % 2 ^ x.e.natAbs == 0
/-- `-1 < x < 1` -/
def absLtOne (x : F64) : Bool := if x.e ≥ 0 then x.m == 0 else x.m < 2 ^ x.e.natAbs
/-- `int(x)` (magnitude; truncation) -/
def truncNat (x : F64) : Nat := if x.e ≥ 0 then x.m * 2 ^ x.e.toNat else x.m / 2 ^ x.e.natAbs
/-- `str(int(x))` -/
def strInt (x : F64) : Cps :=
  (if x.neg && truncNat x != 0 then [cMinus] else []) ++ natToDigits (truncNat x)

/-- `'%f' % x`: `x · 10^6` rounded half to even, printed with six places -/
def pctF (x : F64) : Cps :=
  let s := scaledDiv (x.m * 10 ^ 6) 1 (-x.e)          -- x·10^6 = m·10^6 / 2^(-e)
  let n := roundHE s.1 s.2.1 s.2.2
  let frac := natToDigits (n % 10 ^ 6)
  (if x.neg then [cMinus] else []) ++ natToDigits (n / 10 ^ 6) ++ cDot ::
    (List.replicate (6 - frac.length) cZero ++ frac)

end F

/-- the value of a `DimVal` as CPython holds it: an `int` (exact) when the literal has no `.`, else a double.
`none` cannot occur after `parseDim` (it rejects literals whose float is infinite). -/
def f64Of (v : DimVal) : Option F64 :=
  match v.fp with
  | none => none
  | some f => toF64 v.sign v.ip f

/-- the serializer's number operations as CPython evaluates them -/
def f64Ops : NumOps :=
  { isZero := fun v => match f64Of v with | some x => F.isZero x | none => E.isZero v
    isIntegral := fun v => match f64Of v with | some x => F.isIntegral x | none => E.isIntegral v
    absLtOne := fun v => match f64Of v with | some x => F.absLtOne x | none => E.absLtOne v
    strInt := fun v => match f64Of v with | some x => F.strInt x | none => E.strInt v
    pctF := fun v => match f64Of v with | some x => F.pctF x | none => E.pctF v }

/-- `DimensionValue(tokval).cssText` as the implementation computes it -/
def roundTripF64 (p : Prefs) (typ : NumType) (tokval : Cps) : Except Err Cps := do
  let v ← parseDim typ tokval
  fmtNum f64Ops p v

end CssVerif.Num
