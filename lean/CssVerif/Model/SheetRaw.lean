import CssVerif.Model.SheetValid
/-!
# C09 — edits that go around the DOM methods

`sheet.cssRules` / `rule.cssRules` hand out the live `CSSRuleList` object (a `list` subclass, `cssrulelist.py:7-32`:
only `append`, `extend`, `__setitem__`, `__setslice__` are closed), so a caller can edit the list without
`insertRule` / `deleteRule`; and `insertRule` takes a rule object that is already contained somewhere without
taking it out of its old place (`cssstylesheet.py:936`: only `_parentStyleSheet` is set).

| model | source |
|---|---|
| `rawDelete`, `nRawDelete` | `del sheet.cssRules[i]`, `del rule.cssRules[i]` (`list.__delitem__`) — the unit tests of the package use it (`test_cssstylesheet.py:114`, `test_cssmediarule.py:98`) |
| `rawInsert` | `sheet.cssRules.insert(i, ruleObject)` (`list.insert`: negative indexes count from the end, both ends clamp) |
| `reinsert` | `sheet.insertRule(rule, index)` with the rule object at `path` of the same sheet, `cssstylesheet.py:643-938` (kinds other than @charset / @namespace: no clean-up, no merge) |

After `reinsert` one object stands in two places. The rule values of this model are copies: the operation keeps
them equal (`adoptDeepL`), later operations would not — the harness ends a history after it.
-/
namespace CssVerif.SheetEdit
open CssVerif.Proto (Cps)

/-- `del sheet.cssRules[i]` with an index in range (`badOp` otherwise: IndexError, not generated) -/
def rawDelete (st : St) (i : Int) : St × Outcome :=
  match pyIndex st.rules.length i with
  | none => (st, .badOp)
  | some n =>
    match st.rules[n]? with
    | none => (st, .badOp)
    | some r => ({ st with rules := st.rules.eraseIdx n, gone := st.gone ++ [r] }, .none)

/-- `del container.cssRules[i]` -/
def nRawDelete (st : St) (path : List Nat) (i : Int) : St × Outcome :=
  match atPath st.rules path with
  | none => (st, .badOp)
  | some c =>
    if !isContainer c then (st, .badOp) else
    match pyIndex c.kids.length i with
    | none => (st, .badOp)
    | some n =>
      match c.kids[n]? with
      | none => (st, .badOp)
      | some k =>
        ({ st with rules := setPath st.rules { c with kids := c.kids.eraseIdx n } path, gone := st.gone ++ [k] }, .none)

/-- the position `list.insert(i, x)` uses -/
def pyInsertIdx (len : Nat) (i : Int) : Nat :=
  if 0 ≤ i then min i.toNat len else len - min (-i).toNat len

/-- `sheet.cssRules.insert(i, rule)` with a fresh rule object: no check, no back pointer -/
def rawInsert (st : St) (s : Spec) (i : Int) : St × Outcome :=
  let c := Spec.inst none st.next s
  ({ st with rules := pyInsert st.rules (pyInsertIdx st.rules.length i) c.1, next := c.2 }, .none)

mutual
/-- `rule._parentStyleSheet = self` on the object with this id, wherever it stands -/
def Rule.adoptDeep (i : Nat) : Rule → Rule
  | ⟨id, k, pre, uri, enc, used, pss, prule, kids⟩ =>
    ⟨id, k, pre, uri, enc, used, pss || id == i, prule, Rule.adoptDeepL i kids⟩
def Rule.adoptDeepL (i : Nat) : List Rule → List Rule
  | [] => []
  | r :: rs => r.adoptDeep i :: Rule.adoptDeepL i rs
end

/-- `sheet.insertRule(r, index)` where `r` is the rule object standing at `path` in this sheet's tree -/
def reinsert (st : St) (path : List Nat) (index : Option Int) : St × Outcome :=
  match atPath st.rules path with
  | none => (st, .badOp)
  | some r =>
    if r.kind = .ns || r.kind = .charset || isContainer r then (st, .badOp) else
    match idxOf index st.rules.length with
    | none => (st, .err .indexSize)
    | some idx =>
      match place (kindsOf st.rules) r.kind idx false with
      | .reject e => (st, logError st.raising e)
      | .mergeCharset => (st, .badOp)
      | .at i => ({ st with rules := Rule.adoptDeepL r.id (pyInsert st.rules i r) }, .ok i)

end CssVerif.SheetEdit
