/-!
# Reference: the CSS 2.1 properties whose value grammar is a plain keyword list

Typed in from the CSS 2.1 Recommendation (W3C REC-CSS2-20110607, Appendix F "Full property table" and the
property definitions it points to) — NOT derived from cssutils. Every list includes `inherit`, as the
specification's grammars do. `<border-style>` (8.5.3) is expanded in place.

Only properties whose whole grammar is `keyword | keyword | …` are listed (font-weight's `100 … 900` are
keywords lexically: numbers without unit would be `<number>`, but the grammar enumerates them).
Core Lean only.
-/
namespace CssVerif.Css21

/-- `<border-style>`, CSS 2.1 §8.5.3 -/
def borderStyle : List String :=
  ["none", "hidden", "dotted", "dashed", "solid", "double", "groove", "ridge", "inset", "outset"]

/-- property ↦ the keywords of its CSS 2.1 value grammar -/
def keywordProps : List (String × List String) := [
  ("background-attachment", ["scroll", "fixed", "inherit"]),
  ("background-repeat", ["repeat", "repeat-x", "repeat-y", "no-repeat", "inherit"]),
  ("border-collapse", ["collapse", "separate", "inherit"]),
  ("border-top-style", borderStyle ++ ["inherit"]),
  ("border-right-style", borderStyle ++ ["inherit"]),
  ("border-bottom-style", borderStyle ++ ["inherit"]),
  ("border-left-style", borderStyle ++ ["inherit"]),
  ("caption-side", ["top", "bottom", "inherit"]),
  ("clear", ["none", "left", "right", "both", "inherit"]),
  ("direction", ["ltr", "rtl", "inherit"]),
  -- §9.2.4; `run-in` is not a CSS 2.1 value (§9.2.3: "'display: run-in' is now defined in CSS level 3")
  ("display", ["inline", "block", "list-item", "inline-block", "table", "inline-table", "table-row-group",
               "table-header-group", "table-footer-group", "table-row", "table-column-group", "table-column",
               "table-cell", "table-caption", "none", "inherit"]),
  ("empty-cells", ["show", "hide", "inherit"]),
  ("float", ["left", "right", "none", "inherit"]),
  ("font-style", ["normal", "italic", "oblique", "inherit"]),
  ("font-variant", ["normal", "small-caps", "inherit"]),
  ("font-weight", ["normal", "bold", "bolder", "lighter", "100", "200", "300", "400", "500", "600", "700",
                   "800", "900", "inherit"]),
  ("list-style-position", ["inside", "outside", "inherit"]),
  ("list-style-type", ["disc", "circle", "square", "decimal", "decimal-leading-zero", "lower-roman",
                       "upper-roman", "lower-greek", "lower-latin", "upper-latin", "armenian", "georgian",
                       "lower-alpha", "upper-alpha", "none", "inherit"]),
  ("overflow", ["visible", "hidden", "scroll", "auto", "inherit"]),
  ("page-break-after", ["auto", "always", "avoid", "left", "right", "inherit"]),
  ("page-break-before", ["auto", "always", "avoid", "left", "right", "inherit"]),
  ("page-break-inside", ["avoid", "auto", "inherit"]),
  ("position", ["static", "relative", "absolute", "fixed", "inherit"]),
  ("speak-header", ["once", "always", "inherit"]),
  ("speak-numeral", ["digits", "continuous", "inherit"]),
  ("speak-punctuation", ["code", "none", "inherit"]),
  ("speak", ["normal", "none", "spell-out", "inherit"]),
  ("table-layout", ["auto", "fixed", "inherit"]),
  ("text-align", ["left", "right", "center", "justify", "inherit"]),
  ("text-transform", ["capitalize", "uppercase", "lowercase", "none", "inherit"]),
  ("unicode-bidi", ["normal", "embed", "bidi-override", "inherit"]),
  ("visibility", ["visible", "hidden", "collapse", "inherit"]),
  ("white-space", ["normal", "pre", "nowrap", "pre-wrap", "pre-line", "inherit"])
]

end CssVerif.Css21
