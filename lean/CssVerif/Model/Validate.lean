import CssVerif.Lib.Re
import CssVerif.Lib.Proto
/-!
# K5 (validation part) — model of the validation verdict

What is transcribed, statement by statement:

* `cssutils/profiles.py`  `Profiles.validate` (:419-443), `Profiles.validateWithProfile` (:445-501),
  `defaultProfiles` (:214-226), `knownNames` (:209-212), `_compile_regexes` (:196-207) / `LazyRegex.__call__`
  (`^(?:…)$`, `re.I`, `.match`) for a *fixed* registry (the history of a registry is C14's subject);
* `cssutils/css/property.py`  `Property.validate` (:414-540) — the verdict, the log lines are dropped;
  `_isValidating` (:91-97), the calls that depend on it (`_setName` :249, `_setCssText` :185);
* `cssutils/css/cssstyledeclaration.py` `getProperties(all=True)`, `_getValid` (:749-751),
  `_getValidating` (:725-734);
* `cssutils/css/cssstylerule.py` `_getValid` (:272-274); `cssutils/css/cssfontfacerule.py` `_getValid` (:179-188);
  `cssutils/css/cssstylesheet.py` `_getValid`; `cssmediarule.py`, `csspagerule.py`, `marginrule.py` `valid`;
* `cssutils/serialize.py` `_valid` (:396-398) and the `validOnly` guard of `do_Property` (:992).

A property enters the model as what `validate` reads of it: normalised name, `Property.value` (the comment-free
serialisation of the value, produced by the value parser and serializer — K4, not modelled here), normalised
priority; the context is "inside `@font-face`" or not. Patterns are abstract (`π`) with an acceptance function
`acc : π → Str → Option Bool` (`none` = the custom validator raised; regexes never do); the instance used by the
driver and by the grammar theorems is `Re` with `accepts`.

Core Lean only.
-/
namespace CssVerif.Validate
open CssVerif

abbrev Str := List Nat

/-! ## strings -/

/-- ASCII lower-casing of one code point -/
def foldc (c : Nat) : Nat := if 65 ≤ c ∧ c ≤ 90 then c + 32 else c

/-- ASCII case folding of a string -/
def fold (s : Str) : Str := s.map foldc

/-- Python's `<` on `str`: lexicographic on code points -/
def strLt : Str → Str → Bool
  | [], [] => false
  | [], _ :: _ => true
  | _ :: _, [] => false
  | a :: as, b :: bs => if a < b then true else if b < a then false else strLt as bs

def insertSorted (x : Str) : List Str → List Str
  | [] => [x]
  | y :: ys => if strLt y x then y :: insertSorted x ys else x :: y :: ys

/-- `names.sort()` (profiles.py:500); stable insertion sort -/
def sortStrs (l : List Str) : List Str := l.foldr insertSorted []

/-! ## acceptance by a compiled pattern -/

/-- `bool(LazyRegex('^(?:…)$', re.I | re.ASCII)(value))` = `pattern.match(value) is not None` (util.py:1020-1032):
the translated `Re` carries the `$` as `Re.eol` and the case-insensitivity in its classes. -/
def accepts (r : Re) (s : Str) : Bool := !(r.ms s).isEmpty

/-! ### the same answer, computed with sets of match lengths

`Re.ms` lists every way a backtracking matcher can succeed, so an ambiguous pattern (an escape that may or may
not swallow the following white space, followed by `\s+`) makes the list exponentially long although it holds
at most `|s| + 1` different lengths. The driver therefore evaluates `acceptsFast`, which removes duplicates at
every node; `Lemmas/Validate.lean` proves `acceptsFast = accepts`. -/

/-- remove duplicates (keeps the last occurrence) -/
def dedup : List Nat → List Nat
  | [] => []
  | x :: r => if (dedup r).contains x then dedup r else x :: dedup r

def starSet (f : List Nat → List Nat) : Nat → List Nat → List Nat
  | 0, _ => [0]
  | fuel + 1, s =>
    dedup (0 :: ((f s).filter (· > 0)).flatMap fun l1 => (starSet f fuel (s.drop l1)).map (l1 + ·))

def repSet (f : List Nat → List Nat) : Nat → Nat → List Nat → List Nat
  | m, 0, _ => if m = 0 then [0] else []
  | m, n + 1, s =>
    let more := (f s).flatMap fun l1 => (repSet f (m - 1) n (s.drop l1)).map (l1 + ·)
    dedup (if m = 0 then 0 :: more else more)

/-- the set of match lengths of `r` at the start of `s` (no order, no repetitions) -/
def msSet : Re → List Nat → List Nat
  | .eps, _ => [0]
  | .cls neg rs, s => match s with
      | c :: _ => if Re.inCls neg rs c then [1] else []
      | [] => []
  | .seq a b, s => dedup ((msSet a s).flatMap fun l1 => (msSet b (s.drop l1)).map (l1 + ·))
  | .alt a b, s => dedup (msSet a s ++ msSet b s)
  | .star a _, s => starSet (msSet a) (s.length + 1) s
  | .rep a m n _, s => repSet (msSet a) m n s
  | .eol, s => if s = [] ∨ s = [10] then [0] else []

def acceptsFast (r : Re) (s : Str) : Bool := !(msSet r s).isEmpty

/-! ## the registry -/

structure Profile (π : Type) where
  name : Str
  /-- `_profilesProperties[name]`: property ↦ compiled check, in dictionary order -/
  props : List (Str × π)

structure Registry (π : Type) where
  /-- `_profileNames` order (= insertion order of `_profilesProperties`) -/
  profiles : List (Profile π)
  /-- `_defaultProfiles`; `none`/empty are both falsy (profiles.py:216) -/
  default : Option (List Str)

inductive Err where
  | keyError (profile : Str)
deriving Repr, DecidableEq

instance {α : Type} [DecidableEq α] : DecidableEq (Except Err α) := fun a b =>
  match a, b with
  | .ok x, .ok y => if h : x = y then isTrue (by rw [h]) else isFalse (by intro e; cases e; exact h rfl)
  | .error x, .error y => if h : x = y then isTrue (by rw [h]) else isFalse (by intro e; cases e; exact h rfl)
  | .ok _, .error _ => isFalse (by intro e; cases e)
  | .error _, .ok _ => isFalse (by intro e; cases e)

variable {π : Type}

/-- `self.profiles` -/
def Registry.names (reg : Registry π) : List Str := reg.profiles.map (·.name)

/-- `self._profilesProperties[profile]` — partial: `KeyError` -/
def Registry.get (reg : Registry π) (profile : Str) : Except Err (List (Str × π)) :=
  match reg.profiles.find? (fun p => p.name == profile) with
  | some p => .ok p.props
  | none => .error (.keyError profile)

/-- `knownNames` (profiles.py:209-212): all keys of all profiles, with repetitions -/
def Registry.knownNames (reg : Registry π) : List Str :=
  reg.profiles.flatMap fun p => p.props.map (·.1)

/-- `defaultProfiles` getter (profiles.py:214-219) -/
def Registry.defaultProfiles (reg : Registry π) : List Str :=
  match reg.default with
  | none => reg.names
  | some [] => reg.names
  | some l => l

/-- `try: r = bool(check(value)) except Exception: r = False` (profiles.py:433-440, :479-483) -/
def tryAcc (acc : π → Str → Option Bool) (p : π) (v : Str) : Bool := (acc p v).getD false

/-- `Profiles.validate(name, value)` (profiles.py:431-443) -/
def validate (acc : π → Str → Option Bool) (reg : Registry π) (name value : Str) : Bool :=
  reg.profiles.any fun p =>
    match p.props.lookup name with
    | some pat => tryAcc acc pat value
    | none => false

/-- the two loops of `validateWithProfile` (profiles.py:475-483, :485-493): `for profilename in reversed(profiles)`;
`some p` = returned `True, True, [p]`. Partial: an unregistered profile name is a `KeyError`. -/
def firstAccepting (acc : π → Str → Option Bool) (reg : Registry π) (name value : Str) :
    List Str → Except Err (Option Str)
  | [] => .ok none
  | pn :: rest =>
    match reg.get pn with
    | .error e => .error e
    | .ok props =>
      match props.lookup name with
      | some pat => if tryAcc acc pat value then .ok (some pn) else firstAccepting acc reg name value rest
      | none => firstAccepting acc reg name value rest

/-- `validateWithProfile(name, value, profiles)` (profiles.py:468-501) → `(valid, matching, profiles)`.
`profiles = none` is `None`; a single `str` is passed as a one-element list (profiles.py:473-474). -/
def validateWithProfile (acc : π → Str → Option Bool) (reg : Registry π) (name value : Str)
    (profiles : Option (List Str)) : Except Err (Bool × Bool × List Str) :=
  if !reg.knownNames.contains name then .ok (false, false, [])          -- :468-469
  else
    let profs : List Str := match profiles with                        -- :471-474 (`if not profiles`)
      | none => reg.defaultProfiles
      | some [] => reg.defaultProfiles
      | some l => l
    match firstAccepting acc reg name value profs.reverse with          -- :475-483
    | .error e => .error e
    | .ok (some pn) => .ok (true, true, [pn])
    | .ok none =>
      let rest := reg.names.filter fun p => !profs.contains p           -- :485
      match firstAccepting acc reg name value rest with                 -- :485-493
      | .error e => .error e
      | .ok (some pn) => .ok (true, false, [pn])
      | .ok none =>                                                     -- :495-501
        .ok (false, false, sortStrs ((reg.profiles.filter fun p => (p.props.map (·.1)).contains name).map (·.name)))

/-! ## `Property.validate` -/

/-- what `Property.validate` reads of a property -/
structure Prop' where
  /-- `Property.name` (normalised) -/
  name : Str
  /-- `Property.value`: serialised value without comments (`''` when there is no value) -/
  value : Str
  /-- `Property._priority` (normalised) -/
  priority : Str
deriving Repr, DecidableEq, Inhabited

def important : Str := Proto.cps "important"

/-- `Property.validate()` (property.py:476-540). `fontFace` = the parent declaration's `parentRule` is a
`@font-face` rule (:479-487); `ff` = `Profiles.CSS3_FONT_FACE`. -/
def propValid (acc : π → Str → Option Bool) (reg : Registry π) (ff : Str) (fontFace : Bool) (p : Prop') :
    Except Err Bool :=
  let profiles : Option (List Str) := if fontFace then some [ff] else none
  let v : Except Err Bool :=
    if !p.name.isEmpty && !p.value.isEmpty then                          -- :490
      if reg.knownNames.contains p.name then                            -- :500
        match validateWithProfile acc reg p.name p.value profiles with  -- :500
        | .error e => .error e
        | .ok (valid, matching, _) =>
          if !valid then .ok false                                      -- :504
          else if !matching then .ok false                              -- :513-527
          else .ok true
      else .ok false
    else .ok false
  match v with
  | .error e => .error e
  | .ok valid => if p.priority != [] && p.priority != important then .ok false else .ok valid   -- :537-538

/-! ## declaration block, rules, sheet -/

/-- an entry of `CSSStyleDeclaration.seq` -/
inductive Item where
  | prop (p : Prop')
  /-- comment or unknown at-rule inside the block -/
  | other
deriving Repr, DecidableEq, Inhabited

abbrev Block := List Item

/-- the `Property` entries, in order (`getProperties(all=True)`, cssstyledeclaration.py) -/
def allProps : Block → List Prop'
  | [] => []
  | .prop p :: r => p :: allProps r
  | .other :: r => allProps r

/-- `all(...)` with short-circuit: stops at the first `False`, an exception propagates -/
def allM (f : α → Except Err Bool) : List α → Except Err Bool
  | [] => .ok true
  | x :: r => match f x with
    | .error e => .error e
    | .ok false => .ok false
    | .ok true => allM f r

/-- `CSSStyleDeclaration.valid` (cssstyledeclaration.py:749-751): `all(prop.valid for prop in
self.getProperties(all=True))` — every entry of the block, in order -/
def declValid (acc : π → Str → Option Bool) (reg : Registry π) (ff : Str) (fontFace : Bool) (b : Block) :
    Except Err Bool :=
  allM (propValid acc reg ff fontFace) (allProps b)

def fontFamily : Str := Proto.cps "font-family"
def src : Str := Proto.cps "src"

/-- `needed.remove(p.name)` — first occurrence, `ValueError` swallowed -/
def removeFirst (x : Str) : List Str → List Str
  | [] => []
  | y :: r => if y == x then r else y :: removeFirst x r

/-- `CSSFontFaceRule.valid` (cssfontfacerule.py:179-188): every entry valid, `font-family` and `src` present -/
def fontFaceLoop (acc : π → Str → Option Bool) (reg : Registry π) (ff : Str) :
    List Prop' → List Str → Except Err Bool
  | [], needed => .ok needed.isEmpty
  | p :: r, needed =>
    match propValid acc reg ff true p with
    | .error e => .error e
    | .ok false => .ok false
    | .ok true => fontFaceLoop acc reg ff r (removeFirst p.name needed)

def fontFaceValid (acc : π → Str → Option Bool) (reg : Registry π) (ff : Str) (b : Block) : Except Err Bool :=
  fontFaceLoop acc reg ff (allProps b) [fontFamily, src]

/-- rules of a sheet as far as `valid` is concerned -/
inductive Rule where
  | style (b : Block)
  | fontFace (b : Block)
  /-- `@media` with its rules -/
  | media (rules : List Rule)
  /-- `@page`: its own block and the blocks of its margin rules -/
  | page (b : Block) (margins : List Block)
  /-- comment, `@import`, `@charset`, `@namespace`, `@variables`, unknown rule: no `valid` attribute -/
  | other
deriving Repr, Inhabited

/-- `CSSPageRule.valid` (csspagerule.py `_getValid`): the rule's own block, then its margin rules
(`MarginRule.valid` = `self.style.valid`) -/
def pageValid (acc : π → Str → Option Bool) (reg : Registry π) (ff : Str) (b : Block) (ms : List Block) :
    Except Err Bool :=
  match declValid acc reg ff false b with
  | .error e => .error e
  | .ok false => .ok false
  | .ok true => allM (declValid acc reg ff false) ms

mutual
/-- `rule.valid` where the attribute exists (`hasattr(rule, 'valid')`): `CSSStyleRule.valid` = `self.style.valid`
(cssstylerule.py); `CSSFontFaceRule.valid`; `CSSMediaRule.valid` (the same loop as the sheet's);
`CSSPageRule.valid` (own block, then the margin rules, `MarginRule.valid` = `self.style.valid`) -/
def ruleValid (acc : π → Str → Option Bool) (reg : Registry π) (ff : Str) : Rule → Option (Except Err Bool)
  | .style b => some (declValid acc reg ff false b)
  | .fontFace b => some (fontFaceValid acc reg ff b)
  | .media rs => some (rulesValid acc reg ff rs)
  | .page b ms => some (pageValid acc reg ff b ms)
  | .other => none
/-- `for rule in self.cssRules: if hasattr(rule, 'valid') and not rule.valid: return False` … `return True`
(cssstylesheet.py `_getValid`, cssmediarule.py `_getValid`) -/
def rulesValid (acc : π → Str → Option Bool) (reg : Registry π) (ff : Str) : List Rule → Except Err Bool
  | [] => .ok true
  | r :: rs => match ruleValid acc reg ff r with
    | none => rulesValid acc reg ff rs
    | some (.error e) => .error e
    | some (.ok false) => .ok false
    | some (.ok true) => rulesValid acc reg ff rs
end

/-- `CSSStyleSheet.valid` -/
def sheetValid (acc : π → Str → Option Bool) (reg : Registry π) (ff : Str) (rules : List Rule) : Except Err Bool :=
  rulesValid acc reg ff rules

/-! ## the property-level reading: "a rule or sheet is valid iff all its declarations are" -/

/-- the verdict is (no exception and) `True` -/
def isTrue : Except Err Bool → Bool
  | .ok true => true
  | _ => false

/-- every entry of the block is valid (all entries, not only the effective ones) -/
def allEntriesValid (acc : π → Str → Option Bool) (reg : Registry π) (ff : Str) (fontFace : Bool) (b : Block) : Bool :=
  (allProps b).all fun p => isTrue (propValid acc reg ff fontFace p)

mutual
/-- every declaration anywhere in the rule is valid (for `@font-face` additionally the two required descriptors,
as `CSSFontFaceRule.valid` documents) -/
def ruleAllValid (acc : π → Str → Option Bool) (reg : Registry π) (ff : Str) : Rule → Bool
  | .style b => allEntriesValid acc reg ff false b
  | .fontFace b => allEntriesValid acc reg ff true b
      && ((allProps b).map (·.name)).contains fontFamily && ((allProps b).map (·.name)).contains src
  | .media rs => rulesAllValid acc reg ff rs
  | .page b ms => allEntriesValid acc reg ff false b && ms.all (allEntriesValid acc reg ff false)
  | .other => true
def rulesAllValid (acc : π → Str → Option Bool) (reg : Registry π) (ff : Str) : List Rule → Bool
  | [] => true
  | r :: rs => ruleAllValid acc reg ff r && rulesAllValid acc reg ff rs
end

/-! ## the validating flag and what it can reach -/

/-- `CSSStyleDeclaration._getValidating` (cssstyledeclaration.py:725-734): the parent sheet's flag when the
block is attached to a rule of a sheet (`AttributeError` otherwise), else the block's own flag unless `None`,
else `True` -/
def declValidating (sheetFlag : Option Bool) (declFlag : Option Bool) : Bool :=
  match sheetFlag with
  | some b => b
  | none => match declFlag with
    | some b => b
    | none => true

/-- `Property._isValidating` (property.py:91-97): the parent's flag; `True` without a parent -/
def propValidating (parent : Option (Option Bool × Option Bool)) : Bool :=
  match parent with
  | some (s, d) => declValidating s d
  | none => true

/-- messages of the validation (severity only; the texts are not compared) -/
inductive Log where
  | unknownName | invalidValue | notInProfile | foundValid
deriving Repr, DecidableEq

/-- the log line `Property.validate` emits beside the verdict (property.py:504-535) -/
def validateLog (acc : π → Str → Option Bool) (reg : Registry π) (ff : Str) (fontFace : Bool) (p : Prop') : List Log :=
  if !p.name.isEmpty && !p.value.isEmpty && reg.knownNames.contains p.name then
    match validateWithProfile acc reg p.name p.value (if fontFace then some [ff] else none) with
    | .error _ => []
    | .ok (valid, matching, _) =>
      if !valid then [.invalidValue] else if !matching then [.notInProfile] else [.foundValid]
  else []

/-- a stored property: the validated projection plus an opaque serialised text (what `do_Property` writes) -/
structure Stored where
  prop : Prop'
  text : Str
  wellformed : Bool
deriving Repr, DecidableEq

/-- `Property.__init__` / `_setCssText` / `_setName` as far as validation is concerned: the stored state is
built from the parsed pieces; when validating, `_setName` warns about an unknown name (property.py:249-253) and
`_setCssText` calls `validate()` for its log lines (:185-186). Returns (state, log). -/
def storeProperty (acc : π → Str → Option Bool) (reg : Registry π) (ff : Str) (fontFace : Bool) (validating : Bool)
    (parsed : Stored) : Stored × List Log :=
  let log1 := if validating && !reg.knownNames.contains parsed.prop.name then [Log.unknownName] else []
  let log2 := if validating then validateLog acc reg ff fontFace parsed.prop else []
  (parsed, log1 ++ log2)

/-- `CSSSerializer._valid` + the guard of `do_Property` (serialize.py:396-398, :992) -/
def serProperty (acc : π → Str → Option Bool) (reg : Registry π) (ff : Str) (fontFace : Bool) (validOnly : Bool)
    (s : Stored) : Except Err Str :=
  if !s.wellformed then .ok []
  else if !validOnly then .ok s.text
  else match propValid acc reg ff fontFace s.prop with      -- `x.valid` is only evaluated under `validOnly`
    | .error e => .error e
    | .ok true => .ok s.text
    | .ok false => .ok []

/-- the property texts of a block, each followed by `;` (layout is C06's subject) -/
def serBlock (acc : π → Str → Option Bool) (reg : Registry π) (ff : Str) (fontFace : Bool) (validOnly : Bool) :
    List Stored → Except Err Str
  | [] => .ok []
  | s :: r => match serProperty acc reg ff fontFace validOnly s with
    | .error e => .error e
    | .ok t => match serBlock acc reg ff fontFace validOnly r with
      | .error e => .error e
      | .ok rest => .ok (t ++ 59 :: rest)

end CssVerif.Validate
