import CssVerif.Model.Validate
import CssVerif.Gen.C13Profiles
/-!
The registry `cssutils.profile` as `Profiles.__init__` leaves it, built from the generated table
(`Gen/C13Profiles.lean`, regenerated from `cssutils/profiles.py` on every run), with `Re` patterns.
-/
namespace CssVerif.Validate
open CssVerif CssVerif.Proto

/-- acceptance by a translated regular expression; a regex never raises -/
def accRe (r : Re) (s : Str) : Option Bool := some (accepts r s)

/-- what the driver evaluates (`accRe_fast` in Lemmas: the same function) -/
def accReFast (r : Re) (s : Str) : Option Bool := some (acceptsFast r s)

/-- `cssutils.profile` after import: all predefined profiles, `_defaultProfiles = None` -/
def genRegistry : Registry Re :=
  { profiles := Gen.C13.table.map fun e => { name := cps e.1, props := e.2.map fun kv => (cps kv.1, kv.2) },
    default := none }

/-- `Profiles.CSS3_FONT_FACE` -/
def ffName : Str := cps Gen.C13.fontFaceProfile

/-- pattern registered for `property` in `profile` -/
def genPattern (profile property : String) : Option Re :=
  match Gen.C13.table.lookup profile with
  | some props => props.lookup property
  | none => none

end CssVerif.Validate
