import CssVerif.Lib.Proto
/-!
# XML 1.0 `XMLDecl` read strictly — an executable reader (spec side)

Deterministic reader of production [23] `XMLDecl ::= '<?xml' VersionInfo EncodingDecl? SDDecl? S? '?>'` at offset 0
of a text. It is not a model of code of the repository: it is the executable form of the grammar `XMLDecl` of
`Lemmas/EncutilsXml.lean` (soundness proved there), run by the driver so that the hand-typed grammar can be compared
with the independent strict parser of the oracle (`tools/harness/c20_spec.py`) on generated documents.
-/
namespace CssVerif.Encutils
open CssVerif CssVerif.Proto

/-- [3] one character of `S` -/
def isXmlSb (c : Nat) : Bool := c == 32 || c == 9 || c == 13 || c == 10

def takeS : Cps → Cps
  | [] => []
  | c :: t => if isXmlSb c then c :: takeS t else []

def skipS : Cps → Cps
  | [] => []
  | c :: t => if isXmlSb c then skipS t else c :: t

/-- the characters before the first `q` -/
def upTo (q : Nat) : Cps → Cps
  | [] => []
  | c :: t => if c == q then [] else c :: upTo q t

/-- what follows the first `q` (`none`: there is no `q`) -/
def afterFirst (q : Nat) : Cps → Option Cps
  | [] => none
  | c :: t => if c == q then some t else afterFirst q t

def isDigitB (c : Nat) : Bool := 48 ≤ c && c ≤ 57
def isAlphaB (c : Nat) : Bool := (65 ≤ c && c ≤ 90) || (97 ≤ c && c ≤ 122)
/-- [26] -/
def versionNumB : Cps → Bool
  | 49 :: 46 :: d :: ds => (d :: ds).all isDigitB
  | _ => false
/-- [81] -/
def encNameB : Cps → Bool
  | c :: t => isAlphaB c && t.all fun x => isAlphaB x || isDigitB x || x == 46 || x == 95 || x == 45
  | [] => false
def yesNoB (v : Cps) : Bool := v == cps "yes" || v == cps "no"

/-- `Eq q value q` ([25] `Eq ::= S? '=' S?`) at the head of `s`: the value and what follows the closing quote -/
def parseEqValue (ok : Cps → Bool) (s : Cps) : Option (Cps × Cps) :=
  match skipS s with
  | 61 :: s1 =>
    match skipS s1 with
    | q :: s2 =>
      if q == 34 || q == 39 then
        match afterFirst q s2 with
        | some r => if ok (upTo q s2) then some (upTo q s2, r) else none
        | none => none
      else none
    | [] => none
  | _ => none

/-- `S name Eq q value q` at the head of `s` -/
def parseAttr (name : Cps) (ok : Cps → Bool) (s : Cps) : Option (Cps × Cps) :=
  if takeS s != [] && name.isPrefixOf (skipS s) then parseEqValue ok ((skipS s).drop name.length) else none

/-- `S? '?>'` at the head of `s`: what follows `?>` -/
def parseEnd (s : Cps) : Option Cps :=
  match skipS s with
  | 63 :: 62 :: rest => some rest
  | _ => none

/-- `SDDecl? S? '?>'` at the head of `s`: what follows `?>` -/
def parseDeclTail (s : Cps) : Option Cps :=
  match parseAttr (cps "standalone") yesNoB s with
  | some (_, r) => parseEnd r
  | none => parseEnd s

/-- the declaration at the head of `buf`: its EncName (if it has an EncodingDecl) and what follows `?>` -/
def parseXmlDecl (buf : Cps) : Option (Option Cps × Cps) :=
  if (cps "<?xml").isPrefixOf buf then
    match parseAttr (cps "version") versionNumB (buf.drop 5) with
    | none => none
    | some (_, s1) =>
      match parseAttr (cps "encoding") encNameB s1 with
      | some (e, s2) => (parseDeclTail s2).map fun rest => (some e, rest)
      | none => (parseDeclTail s1).map fun rest => (none, rest)
  else none

end CssVerif.Encutils
