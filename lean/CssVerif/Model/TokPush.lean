import CssVerif.Model.Tok
/-!
# `TokPush` — the generator `Tokenizer.tokenize` together with `Tokenizer.push` (`self._pushed`)

`tokenize2.py:88-97, :161-163, :272`: `push(*tokens)` sets `self._pushed = itertools.chain(tokens, self._pushed)`;
the generator executes `yield from self._pushed` at the start of every iteration of its `while pos < len(text)` loop
(not before the BOM / `@charset ` tokens, not before `EOF`). The consumer (`prodparser.py:593, :631`) calls `push`
between two `next()` calls, i.e. while the generator is suspended at a `yield`.

The generator is modelled as a program of events derived from the pure run (`Model/Tok.lean`): `tok it` = a plain
`yield` (BOM, CHARSET_SYM at the start, EOF), `iter it` = one loop iteration (drain `self._pushed`, then yield `it`
unless it is a filtered comment). State while suspended: `cur` = what is left of the iterator object that the running
`yield from` drains, `newer` = the tokens that later `push` calls chained in front of that object (they are seen only
by the `yield from` of a later iteration: the running one holds the old object), `inIter` = the iteration in progress.

Core Lean only (the driver links this file).
-/
namespace CssVerif.Tok
open CssVerif CssVerif.Gen.C05

inductive Ev where
  | tok (it : Item)
  | iter (it : Item)
deriving Repr, BEq, DecidableEq

structure PSt where
  prog : List Ev
  cur : List Item
  newer : List Item
  inIter : Option Item
deriving Repr, BEq, DecidableEq

inductive Out where
  | text (it : Item)       -- a token of the text
  | pushed (it : Item)     -- a token that `push` handed in
  | stop                   -- StopIteration
deriving Repr, BEq, DecidableEq

/-- run the generator from a point outside `yield from` (the drained object is exhausted) up to its next `yield`;
`pend` = the contents of `self._pushed` -/
def advanceP : List Ev → List Item → Out × PSt
  | [], pend => (.stop, ⟨[], [], pend, none⟩)
  | .tok it :: prog, pend => (.text it, ⟨prog, [], pend, none⟩)                 -- :148, :154, :273
  | .iter it :: prog, pend =>                                                   -- :161 `while`, :163 `yield from`
    match pend with
    | p :: cur' => (.pushed p, ⟨prog, cur', [], some it⟩)
    | [] => if it.emit then (.text it, ⟨prog, [], [], none⟩) else advanceP prog []

/-- `next(generator)` -/
def nextTok (st : PSt) : Out × PSt :=
  match st.inIter with
  | some it =>
    match st.cur with
    | p :: cur' => (.pushed p, { st with cur := cur' })                         -- still inside `yield from`
    | [] => if it.emit then (.text it, { st with inIter := none }) else advanceP st.prog (st.newer ++ st.cur)
  | none => advanceP st.prog (st.newer ++ st.cur)

/-- `tokenizer.push(*ts)` (:88-94) -/
def pushP (st : PSt) (ts : List Item) : PSt := { st with newer := ts ++ st.newer }

inductive Act where
  | next
  | push (ts : List Item)
deriving Repr, BEq, DecidableEq

/-- what the consumer sees: one output per `next` -/
def runP : PSt → List Act → List Out
  | _, [] => []
  | st, .next :: as => (nextTok st).1 :: runP (nextTok st).2 as
  | st, .push ts :: as => runP (pushP st ts) as

/-- the state after the script -/
def endP : PSt → List Act → PSt
  | st, [] => st
  | st, .next :: as => endP (nextTok st).2 as
  | st, .push ts :: as => endP (pushP st ts) as

/-- the generator `Tokenizer(doComments=doC).tokenize(text, fullsheet=full)` before the first `next` -/
def program (text : Cps) (full doC : Bool) : List Ev :=
  (bomItems text ++ charsetItems (afterBom text)).map .tok ++ (mainLoop text full doC).items.map .iter ++
    (eofItems full (mainLoop text full doC).stop).map .tok

def initP (text : Cps) (full doC : Bool) : PSt := ⟨program text full doC, [], [], none⟩

end CssVerif.Tok
