import CssVerif.Model.Out
/-!
# K4 `Out`, part 2 — properties, declaration blocks, rules, the sheet (`cssutils/serialize.py`)

The `do_*` methods above the value level, statement by statement, with the content filters at their points of use.
Python operations that can raise are partial here (`Except Err`). One is left:
* `stacks.pop()` in `do_CSSUnknownRule` on a CHAR `}` without an open block (`serialize.py:734`) → `IndexError`
  (not reachable for a well-formed rule since 6124270: only CHAR braces open and close blocks).
Two others are gone with the repaired code, and with them the constructors of `Err`:
`rule._keyword` (only set by the `atkeyword` setter, which `@media`, `@page`, `@font-face`, `@variables` never call)
is now read with the normalised keyword as fallback (`_atkeyword`), and `_linenumnbers` no longer splits on an empty
`lineSeparator`.
-/
namespace CssVerif.Out
open CssVerif.Proto (Cps)

inductive Err where
  | indexError
  deriving DecidableEq, Repr

/-! ## Property (`do_Property`, `serialize.py:970-1017`) -/

/-- a part of `seqs[0]` (name) or `seqs[2]` (priority): a string or a `CSSComment` -/
inductive NPart where
  | str (s : Cps) | comment (t : Cps)
  deriving DecidableEq, Repr

structure Property where
  wf : Bool
  valid : Bool              -- `property.valid` (profiles; C13)
  mq : Bool                 -- `property._mediaQuery`
  nameseq : List NPart
  literalname : Cps
  name : Cps
  value : Obj               -- `seqs[1]`, a `PropertyValue`
  prioseq : List NPart
  literalpriority : Cps
  priority : Cps

/-- `_valid` (`:392-394`) -/
def validOk (p : Prefs) (valid : Bool) : Bool := !p.validOnly || (p.validOnly && valid)

/-- `_propertyname` (`:358-367`) -/
def propertyName (p : Prefs) (pr : Property) (actual : Cps) : Cps :=
  if p.defaultPropertyName && !p.keepAllProperties then pr.name else actual

/-- the name parts as written (`:983-990`) -/
def nameOut (p : Prefs) (pr : Property) : List Cps :=
  pr.nameseq.map fun
    | .comment t => doComment p t
    | .str s => if pr.literalname == s then propertyName p pr s else s

/-- the priority parts as written (`:1005-1015`) -/
def prioOut (p : Prefs) (pr : Property) : List Cps :=
  pr.prioseq.map fun
    | .comment t => doComment p t
    | .str s => if s == pr.literalpriority && p.defaultPropertyPriority then pr.priority else s

def doProperty (p : Prefs) (lv : Nat) (pr : Property) : Cps :=
  if !pr.nameseq.isEmpty && pr.wf && validOk p pr.valid then
    let vtext := serObj p lv pr.value
    let out0 : List Cps := nameOut p pr
    let out1 := if !out0.isEmpty && (!pr.mq || (pr.mq && !vtext.isEmpty))
      then out0 ++ [[58], p.propertyNameSpacer] else out0
    let out2 := out1 ++ [vtext]
    let out3 := if !out2.isEmpty && !pr.prioseq.isEmpty then out2 ++ [[32]] ++ prioOut p pr else out2
    out3.flatten
  else []

/-! ## CSSUnknownRule (`serialize.py:718-755`) -/

mutual
inductive URule where
  | mk (wf : Bool) (atkeyword : Cps) (items : List UItem)
inductive UItem where
  | str (ty : Cps) (s : Cps)
  | comment (t : Cps)
  | rule (r : URule)
end

/-- `if stacks: stacks[-1].append(val, type_) else: out.append(val, type_)`; the head of `stacks` is `stacks[-1]` -/
def uPush (p : Prefs) (il : Nat) (out : O) (stacks : List O) (v : AVal) (ty : Cps) : O × List O :=
  match stacks with
  | [] => (append p il out v ty, [])
  | top :: rest => (out, append p il top v ty :: rest)

mutual
def doURule (p : Prefs) (lv : Nat) : URule → Except Err Cps
  | .mk wf atk items =>
    if wf && p.keepUnknownAtRules then uItems p lv items (append p (lv + 1) [] (.str atk) t_None) []
    else pure []
def uItems (p : Prefs) (lv : Nat) : List UItem → O → List O → Except Err Cps
  | [], out, _ => pure (value out)
  | .str ty s :: rest, out, stacks =>
    if ty == t_CHAR && s == [125] then
      match stacks with
      | [] => throw .indexError
      | top :: stacks1 =>
        let sb := value top
        let val := if !sb.isEmpty then indentblock p (sb ++ p.lineSeparator ++ [125]) 1 else indentblock p [125] 1
        let r := uPush p (lv + 1) out stacks1 (.str val) ty
        uItems p lv rest r.1 (if ty == t_CHAR && val == [123] then [] :: r.2 else r.2)
    else
      -- f99aded (`:759-761`): `if 'HASH' == type_: type_ = None` — not known to be a colour, kept as written
      let ty1 := if ty == t_HASH then t_None else ty
      let r := uPush p (lv + 1) out stacks (.str s) ty1
      uItems p lv rest r.1 (if ty1 == t_CHAR && s == [123] then [] :: r.2 else r.2)
  | .comment t :: rest, out, stacks =>
    let r := uPush p (lv + 1) out stacks (.obj (doComment p t)) t_COMMENT
    uItems p lv rest r.1 r.2
  | .rule u :: rest, out, stacks =>
    match doURule p lv u with
    | .error e => .error e
    | .ok t =>
      let r := uPush p (lv + 1) out stacks (.obj t) t_0
      uItems p lv rest r.1 r.2
end

/-! ## declaration block (`do_css_CSSStyleDeclaration`, `serialize.py:907-968`) -/

inductive DItem where
  | comment (t : Cps)
  | prop (pr : Property)
  | urule (r : URule)
  | other (s : Cps)

/-- `__nnames` (`cssstyledeclaration.py:214-223`): names in the order of their last occurrence -/
def nnames (items : List DItem) : List Cps :=
  (items.reverse.foldl (fun names it => match it with
    | .prop pr => if names.contains pr.name then names else names ++ [pr.name]
    | _ => names) []).reverse

/-- `__effective(nname)` (`cssstyledeclaration.py:225-241`; the names come from `__nnames` and are compared with
`val.name` only) as an index into `seq`; the state of the reversed scan is
`(returned, found)` -/
def getPropertyIdx (items : List DItem) (name : Cps) : Option Nat :=
  let r := (items.zipIdx.reverse).foldl (fun (st : Option Nat × Option Nat) it =>
    match st.1 with
    | some _ => st
    | none => match it.1 with
      | .prop pr =>
        if name == pr.name then
          if !pr.priority.isEmpty then (some it.2, st.2)
          else if st.2.isNone then (none, some it.2) else st
        else st
      | _ => st) (none, none)
  match r.1 with
  | some i => some i
  | none => r.2

/-- indices of `style.getProperties()` -/
def effectiveIdx (items : List DItem) : List Nat := (nnames items).filterMap (getPropertyIdx items)

/-- `seq` after the `keepAllProperties` filter (`:920-934`) -/
def declSeq (p : Prefs) (items : List DItem) : List DItem :=
  if p.keepAllProperties then items
  else
    let eff := effectiveIdx items
    (items.zipIdx.filter fun it => match it.1 with
      | .prop _ => eff.contains it.2
      | _ => true).map (·.1)

/-- the body of the loop over `seq` (`:939-960`) for one item; `omitThis` is `omitLastSemicolon and i == len(seq) - 1` -/
def declHere (p : Prefs) (lv : Nat) (sep : Cps) (omitThis : Bool) : DItem → Except Err (List Cps)
  | .comment t => pure (if p.keepComments then [doComment p t, sep] else [])
  | .prop pr =>
    let t := doProperty p lv pr
    pure (if !t.isEmpty then (if omitThis then [t, sep] else [t, [59], sep]) else [])
  | .urule r => match doURule p lv r with
    | .error e => .error e
    | .ok t => pure (if !t.isEmpty then [t, sep] else [])   -- empty when `keepUnknownAtRules` is off
  | .other s => pure [s, sep]

/-- the loop over `seq`; `rest.isEmpty` is `i == len(seq) - 1` -/
def declOut (p : Prefs) (lv : Nat) (sep : Cps) (omitLast : Bool) : List DItem → Except Err (List Cps)
  | [] => pure []
  | it :: rest =>
    match declHere p lv sep (omitLast && rest.isEmpty) it with
    | .error e => .error e
    | .ok h => match declOut p lv sep omitLast rest with
      | .error e => .error e
      | .ok m => pure (h ++ m)

/-- `if out and out[-1] == separator: del out[-1]`, then `''.join(out)` (`:962-965`) -/
def declFinish (sep : Cps) : Except Err (List Cps) → Except Err Cps
  | .error e => .error e
  | .ok out => pure (if out.getLast? == some sep then out.dropLast else out).flatten

/-- `do_css_CSSStyleDeclaration(style, separator=None, omit=True)` -/
def doDecl (p : Prefs) (lv : Nat) (items : List DItem) (omitArg : Bool := true) : Except Err Cps :=
  if items.isEmpty then pure []
  else declFinish p.lineSeparator
    (declOut p lv p.lineSeparator (omitArg && p.omitLastSemicolon) (declSeq p items))

/-! ## CSSVariablesDeclaration (`serialize.py:876-905`) -/

inductive VItem where
  /-- `('var', (name, PropertyValue))`; `nname` is `normalize(name)` -/
  | var (name nname : Cps) (value : Obj)
  | comment (t : Cps)
  | other (ty : Cps) (o : Obj)

def varDeclCalls (p : Prefs) (lv : Nat) : List VItem → List Call
  | [] => []
  | it :: rest =>
    (match it with
      | .var name nname v =>
        [({ v := .str (if p.normalizedVarNames then nname else name), ty := t_None } : Call),
         { v := .str [58], ty := t_None }, { v := .str (serObj p lv v), ty := t_None }]
        ++ (if !rest.isEmpty || !p.omitLastSemicolon then [({ v := .str [59], ty := t_None } : Call)] else [])
      | .comment t => [{ v := .obj (doComment p t), ty := t_COMMENT }, { v := .str p.lineSeparator, ty := t_None }]
      | .other ty o => [{ v := .str (serObj p lv o), ty := ty }, { v := .str p.lineSeparator, ty := t_None }])
    ++ varDeclCalls p lv rest

def doVarDecl (p : Prefs) (lv : Nat) (items : List VItem) : Cps :=
  if items.isEmpty then [] else stripKeepEsc (value (runCalls p (lv + 1) (varDeclCalls p lv items)))

/-! ## rules -/

inductive Rule where
  | comment (t : Cps)
  | charset (wf : Bool) (enc : Cps)
  /-- `kw` is `rule._keyword` (absent ↦ `none`); `hrefString` is `rule.hreftype == 'string'` -/
  | import_ (wf : Bool) (atk : Cps) (kw : Option Cps) (hrefString : Bool) (items : List Item)
  | namespace_ (wf : Bool) (atk : Cps) (kw : Option Cps) (pfx : Cps) (uri : Option Cps) (items : List Item)
  | media (mwf : Bool) (atk : Cps) (kw : Option Cps) (media : Obj) (name : Option Cps) (items : List Item)
      (rules : List Rule)
  | page (wf : Bool) (atk : Cps) (kw : Option Cps) (sel : List Item) (style : List DItem) (rules : List Rule)
  | margin (atk : Option Cps) (kw : Option Cps) (wf : Bool) (style : List DItem)
  | fontface (wf : Bool) (atk : Cps) (kw : Option Cps) (items : List Item) (style : List DItem)
  | style (wf : Bool) (selWf : Bool) (sels : List Obj) (style : List DItem)
  | unknown (r : URule)
  | variables (wf : Bool) (atk : Cps) (kw : Option Cps) (items : List Item) (vars : List VItem)

/-- `_atkeyword` (`:339-345`): `getattr(rule, '_keyword', rule.atkeyword)` when the literal keyword is asked for;
`kw` is `rule._keyword` (`none` = the attribute does not exist). Total since the repair. -/
def atKeyword (p : Prefs) (atk : Cps) (kw : Option Cps) : Except Err Cps :=
  pure (if p.defaultAtKeyword then atk else kw.getD atk)

/-- `for item in rule.seq: out.append(item.value, item.type)` -/
def seqCalls (its : List EItem) : List Call := its.map fun it => { v := it.2.aval, ty := it.1 }

/-- `do_CSSImportRule` (`:493-533`), the loop over `rule.seq` -/
def importCalls (p : Prefs) (hrefString : Bool) (its : List EItem) : List Call :=
  its.flatMap fun it =>
    if it.1 == t_href then
      if p.importHrefFormat == some [115, 116, 114, 105, 110, 103]
          || (p.importHrefFormat != some [117, 114, 105] && hrefString)
      then [{ v := it.2.aval, ty := t_STRING }] else [{ v := it.2.aval, ty := t_URI }]
    else if it.1 == t_media then
      let mt := it.2.aval.text
      if !mt.isEmpty && mt != s_all then [{ v := .str mt, ty := t_None }] else []
    else if it.1 == t_name then [{ v := it.2.aval, ty := t_STRING }]
    else [{ v := it.2.aval, ty := it.1 }]

/-- `do_CSSNamespaceRule` (`:535-558`) -/
def namespaceCalls (its : List EItem) : List Call :=
  its.map fun it => if it.1 == t_namespaceURI then { v := it.2.aval, ty := t_STRING } else { v := it.2.aval, ty := it.1 }

/-- `do_CSSPageRuleSelector` (`:683-697`, as of ec62b69); the flag is `named`: after the page name a COMMENT is
appended with `space=False` too (`a :first` is not `a:first`) -/
def pageSelCallsFrom : Bool → List EItem → List Call
  | _, [] => []
  | named, it :: t =>
    if it.1 == t_IDENT then { v := it.2.aval, ty := it.1, f := { space := false } } :: pageSelCallsFrom true t
    else if named && it.1 == t_COMMENT then
      { v := it.2.aval, ty := it.1, f := { space := false } } :: pageSelCallsFrom named t
    else { v := it.2.aval, ty := it.1 } :: pageSelCallsFrom named t

def pageSelCalls (its : List EItem) : List Call := pageSelCallsFrom false its

/-- `do_css_SelectorList` (`:818-831`) -/
def doSelectorList (p : Prefs) (lv : Nat) (wf : Bool) (sels : List Obj) : Cps :=
  if wf then joinWith ([44] ++ p.listItemSpacer) (sels.map (serObj p lv)) else []

/-- `at-rule { block }` tail shared by `do_CSSFontFaceRule` / `do_CSSVariablesRule` (`:459-466`, `:482-489`) -/
def blockRule (p : Prefs) (lv : Nat) (kwText : Cps) (its : List EItem) (body : Cps) : Cps :=
  value (runCalls p (lv + 1)
    ([({ v := .str kwText, ty := t_None } : Call)] ++ seqCalls its
      ++ [{ v := .str [123], ty := t_None },
          { v := .str (body ++ p.lineSeparator ++ [125]), ty := t_None, f := { indent := true } }]))

/-- `rulesText` of `do_CSSPageRule` (`:630-637`): the margin rules' texts, each followed by the line separator -/
def pageRulesText (p : Prefs) (texts : List Cps) : Cps :=
  (texts.flatMap fun t => if !t.isEmpty then [t, p.lineSeparator] else []).flatten

/-- the `Out` calls of `do_CSSPageRule` (`:643-655`) before the closing brace -/
def pageCalls (p : Prefs) (k selText styleText rulesText : Cps) : List Call :=
  [{ v := .str k, ty := t_None }, { v := .str selText, ty := t_None }, { v := .str [123], ty := t_None }]
  ++ (if !styleText.isEmpty then
        (if rulesText.isEmpty then
           [({ v := .str (styleText ++ p.lineSeparator), ty := t_None, f := { indent := true } } : Call)]
         else [{ v := .str styleText, ty := t_styletext, f := { indent := true, space := false } }])
      else [])
  ++ (if !rulesText.isEmpty then
        [({ v := .str rulesText, ty := t_None, f := { indent := true } } : Call)] else [])

/-- `rulesout` of `do_CSSMediaRule` (`:597-603`) -/
def mediaRulesOut (p : Prefs) (lv : Nat) (texts : List Cps) : List Cps :=
  texts.flatMap fun t => if !t.isEmpty then [indentblock p t (lv + 1), p.lineSeparator] else []

/-- `do_CSSImportRule` / `do_CSSNamespaceRule` after `_atkeyword`: `out.value(end=';')` -/
def importTail (p : Prefs) (lv : Nat) (k : Cps) (cs : List Call) : Cps :=
  value (runCalls p (lv + 1) ([({ v := .str k, ty := t_None } : Call)] ++ cs)) [59]

/-- `do_CSSMediaRule` (`:572-614`) after `_atkeyword`; `mediaText` is `do_stylesheets_medialist(rule.media)`,
`its` the evaluated `rule.seq`, `texts` the `cssText`s of the nested rules -/
def mediaTail (p : Prefs) (lv : Nat) (k mediaText : Cps) (name : Option Cps) (its : List EItem) (texts : List Cps) : Cps :=
  let out1 : List Cps := [k, if p.spacer.isEmpty then [32] else p.spacer, mediaText]
  let out2 : List Cps := match name with
    | some n => if n.isEmpty then out1 else
        out1 ++ [p.spacer, value (runCalls p (lv + 1)
          ([({ v := .str (pyString n), ty := t_None } : Call)] ++ seqCalls its))]
    | none => out1
  let out3 := out2 ++ [p.paranthesisSpacer, [123], p.lineSeparator]
  let rulesout : List Cps := mediaRulesOut p lv texts
  if !p.keepEmptyRules && allWs rulesout.flatten then []
  else (out3 ++ rulesout ++ [rep (lv + (if p.indentClosingBrace then 1 else 0)) p.indent ++ [125]]).flatten

/-- `do_CSSPageRule` (`:643-661`) after `_atkeyword` -/
def pageTail (p : Prefs) (lv : Nat) (k : Cps) (sel : List EItem) (styleText rulesText : Cps) : Cps :=
  let selText := value (runCalls p (lv + 1) (pageSelCalls sel))
  -- `self._level -= 1; out.append('}'); self._level += 1`
  value (append p lv (runCalls p (lv + 1) (pageCalls p k selText styleText rulesText)) (.str [125]) t_None)

/-- `do_MarginRule` (`:704-714`) after `_atkeyword` -/
def marginTail (p : Prefs) (lv : Nat) (k styleText : Cps) : Cps :=
  value (runCalls p (lv + 1)
    [{ v := .str k, ty := t_ATKEYWORD }, { v := .str [123], ty := t_None },
     { v := .str (indentblock p styleText (lv + 1) ++ p.lineSeparator), ty := t_None },
     { v := .str [125], ty := t_None }])

/-- `do_CSSStyleRule` (`:800-816`) once selector and declaration texts are known (`selectorText` is not empty) -/
def styleTail (p : Prefs) (lv sl : Nat) (selectorText styleText : Cps) : Cps :=
  if styleText.isEmpty then
    (if p.keepEmptyRules then selectorText ++ p.paranthesisSpacer ++ [123, 125] else [])
  else indentblock p
    (selectorText ++ p.paranthesisSpacer ++ [123] ++ p.lineSeparator ++ indentblock p styleText (lv + 1)
      ++ p.lineSeparator ++ rep (lv + (if p.indentClosingBrace then 1 else 0)) p.indent ++ [125]) sl

mutual
/-- `rule.cssText` under preferences `p`; `lv` is `self._level`, `sl` is `self._selectorlevel` -/
def doRule (p : Prefs) (lv sl : Nat) : Rule → Except Err Cps
  | .comment t => pure (doComment p t)
  | .charset wf enc => pure (if wf then [64, 99, 104, 97, 114, 115, 101, 116, 32] ++ pyString enc ++ [59] else [])
  | .import_ wf atk kw hs items =>
    if wf then
      match atKeyword p atk kw with
      | .error e => .error e
      | .ok k => pure (importTail p lv k (importCalls p hs (evalItems p lv items)))
    else pure []
  | .namespace_ wf atk kw _ _ items =>
    if wf then
      match atKeyword p atk kw with
      | .error e => .error e
      | .ok k => pure (importTail p lv k (namespaceCalls (evalItems p lv items)))
    else pure []
  | .media mwf atk kw media name items rules =>
    -- `do_CSSMediaRule` (`:560-614`)
    if !mwf then pure []
    else match atKeyword p atk kw with
      | .error e => .error e
      | .ok k =>
        match doRules p lv sl rules with
        | .error e => .error e
        | .ok texts => pure (mediaTail p lv k (serObj p lv media) name (evalItems p lv items) texts)
  | .page wf atk kw sel style rules =>
    -- `do_CSSPageRule` (`:616-663`)
    match doRules p lv sl rules with
    | .error e => .error e
    | .ok texts =>
      match doDecl p lv style (pageRulesText p texts).isEmpty with
      | .error e => .error e
      | .ok styleText =>
        if (!styleText.isEmpty || !(pageRulesText p texts).isEmpty) && wf then
          match atKeyword p atk kw with
          | .error e => .error e
          | .ok k => pure (pageTail p lv k (evalItems p lv sel) styleText (pageRulesText p texts))
        else pure []
  | .margin atk kw wf style =>
    -- `do_MarginRule` (`:675-716`)
    match atk with
    | none => pure []
    | some a =>
      if a.isEmpty then pure [] else
      match doDecl p lv style with
      | .error e => .error e
      | .ok styleText =>
        if !styleText.isEmpty && wf then
          match atKeyword p a kw with
          | .error e => .error e
          | .ok k => pure (marginTail p lv k styleText)
        else pure []
  | .fontface wf atk kw items style =>
    match doDecl p lv style with
    | .error e => .error e
    | .ok styleText =>
      if !styleText.isEmpty && wf then
        match atKeyword p atk kw with
        | .error e => .error e
        | .ok k => pure (blockRule p lv k (evalItems p lv items) styleText)
      else pure []
  | .style wf selWf sels style =>
    -- `do_CSSStyleRule` (`:757-816`) with `indentSpecificities` off
    if (doSelectorList p lv selWf sels).isEmpty || !wf then pure []
    else match doDecl p (lv + 1) style with
      | .error e => .error e
      | .ok styleText => pure (styleTail p lv sl (doSelectorList p lv selWf sels) styleText)
  | .unknown r => doURule p lv r
  | .variables wf atk kw items vars =>
    -- `do_CSSVariablesRule` (`:445-468`)
    if !(doVarDecl p lv vars).isEmpty && wf && !p.resolveVariables then
      match atKeyword p atk kw with
      | .error e => .error e
      | .ok k => pure (blockRule p lv k (evalItems p lv items) (doVarDecl p lv vars))
    else pure []
/-- `[r.cssText for r in rules]` -/
def doRules (p : Prefs) (lv sl : Nat) : List Rule → Except Err (List Cps)
  | [] => pure []
  | r :: rest =>
    match doRule p lv sl r with
    | .error e => .error e
    | .ok t => match doRules p lv sl rest with
      | .error e => .error e
      | .ok ts => pure (t :: ts)
end

/-! ## the sheet (`do_CSSStyleSheet`, `serialize.py:396-421`) -/

structure Sheet where
  /-- `stylesheet._getUsedURIs()` -/
  usedUris : List (Option Cps)
  rules : List Rule

/-- the `keepUsedNamespaceRulesOnly` filter (`:401-407`) -/
def nsDropped (p : Prefs) (used : List (Option Cps)) : Rule → Bool
  | .namespace_ _ _ _ pfx uri _ =>
    p.keepUsedNamespaceRulesOnly && !used.contains uri && (!pfx.isEmpty || !used.contains none)
  | _ => false

/-- decimal digits of `n` -/
def natDec (n : Nat) : Cps := (Nat.toDigits 10 n).map Char.toNat

/-- Python `s.count(sep)` for non-empty `sep` -/
def countOcc (sep s : Cps) : Nat := (splitOn sep s).length - 1

/-- `_linenumnbers` (`:369-376`) -/
def lineNumbers (p : Prefs) (text : Cps) : Except Err Cps :=
  if p.lineNumbers && !p.lineSeparator.isEmpty then
    let pad := (natDec (countOcc p.lineSeparator text + 1)).length
    let lines := splitOn p.lineSeparator text
    pure (joinWith p.lineSeparator (lines.zipIdx.map fun l =>
      let d := natDec (l.2 + 1)
      rep (pad - d.length) [32] ++ d ++ [58, 32] ++ l.1))
  else pure text

/-- the text that `do_CSSStyleSheet` encodes. `sl` is the `_selectorlevel` the serializer object was left with:
since 56f3433 the sheet is serialized from level 0 (`self._selectors, self._selectorlevel = [], 0`, restored in a
`finally`), so it is not read — with `indentSpecificities` off the level stays 0 for all rules of the sheet. -/
def doSheet (p : Prefs) (_sl : Nat) (s : Sheet) : Except Err Cps :=
  match doRules p 0 0 (s.rules.filter fun r => !nsDropped p s.usedUris r) with
  | .error e => .error e
  | .ok texts => lineNumbers p (joinWith p.lineSeparator (texts.filter fun t => !t.isEmpty))

end CssVerif.Out
