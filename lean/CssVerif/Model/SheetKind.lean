/-!
# Rule kinds of the rule-list edit machine (C09)

One constructor per `CSSRule` type constant (`cssutils/css/cssrule.py:22-48`). Kept in its own file so that the
generated tables (`Gen/C09RuleKinds.lean`) can refer to it and the model (`Model/SheetEdit.lean`) can import them.
-/
namespace CssVerif.SheetEdit

inductive Kind where
  | unknown | style | charset | imp | media | fontface | page | ns | comment | vars | margin
  deriving DecidableEq, Repr, Inhabited

end CssVerif.SheetEdit
