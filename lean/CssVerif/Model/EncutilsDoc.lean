import CssVerif.Model.Encutils
/-!
# K6, second layer — the document as the caller hands it over (`str` or `bytes`) and the HTML meta stage

`Model/Encutils.lean` works on code points and takes the result of the HTML meta stage as an input (`MetaRaw`).
This file puts in front of it what `encutils/__init__.py` does before:

* the three consumers of a document — `_getTextType` (`:228-230`), `getMetaInfo` (`:307-309`),
  `detectXMLEncoding` (`:354-358`, and `:375-377`, `:408-410` for a binary file object) — each test
  `isinstance(x, bytes)` and decode as latin-1 (codec names regenerated: `Gen.C20.decodeCodecs`). `Doc` keeps the
  two kinds of document apart; bytes are `UInt8`, so the decoding is a real function (`latin1`),
* `_MetaHTMLParser.handle_starttag` (`:70-75`) as a transition on `self.content_type`, run over the start tags
  that `html.parser` reports (`metaScan`; literals regenerated: `Gen.C20.metaTag` …), and the front of
  `getMetaInfo` (`:305-317`): parser, truth test of `p.content_type`, `Message` parameter parser,
* `getEncodingInfo` (`:585-698`) on these documents (`getEncodingInfoD`).

Still inputs (`Lib`): `html.parser.HTMLParser` itself — a function from the decoded text to the start tags it
reports (or an exception) — and `email.message.Message` — a function from the content string to
(`get_content_type()`, `get_param('charset')`).
-/
namespace CssVerif.Encutils
open CssVerif CssVerif.Proto CssVerif.Gen

/-! ## documents -/

/-- a document as the caller hands it over: `str` (code points) or `bytes` -/
inductive Doc where
  | text (s : Cps)
  | bytes (b : List UInt8)
deriving Repr, BEq, DecidableEq

/-- `b.decode('latin-1')`: every byte is the code point of the same value -/
def latin1 (b : List UInt8) : Cps := b.map UInt8.toNat

/-- `if isinstance(text, bytes): text = text.decode('latin-1')` — the guard that opens each of the three consumers -/
def Doc.asText : Doc → Cps
  | .text s => s
  | .bytes b => latin1 b

/-- `_getTextType(text)` (`:224-234`) -/
def textTypeOfDoc (d : Doc) : Nat := textTypeOfText d.asText

/-- `detectXMLEncoding(text)` for a `str` / `bytes` document (`:354-358`) -/
def detectXMLDoc (d : Doc) (includeDefault : Bool) : Except Err (Option Cps) := detectXML d.asText includeDefault

/-! ## the HTML meta stage -/

/-- one call `handle_starttag(tag, attrs)` of `html.parser` (also made for `<meta … />`): the tag name and the
attribute list, a value-less attribute having the value `None` -/
structure StartTag where
  tag : Cps
  attrs : List (Cps × Option Cps)
deriving Repr, BEq, DecidableEq

/-- `{a.lower(): (v or '').lower() for a, v in attrs}` (`:73`) as the list of its items in insertion order;
read with `dictGet` (a later item of the same key replaces the earlier one) -/
def attsOf (attrs : List (Cps × Option Cps)) : List (Cps × Cps) :=
  attrs.map fun p => (lower p.1, lower (p.2.getD []))      -- `v or ''`: `None` and `''` both give `''`

/-- `_MetaHTMLParser.handle_starttag` (`:70-75`): the new value of `self.content_type` -/
def handleStartTag (ct : Option Cps) (e : StartTag) : Option Cps :=
  if e.tag == C20.metaTag && !truthy ct then                                    -- :71
    let atts := attsOf e.attrs                                                  -- :73
    if strip ((dictGet C20.metaEquivKey atts).getD []) == C20.metaEquivValue    -- :74 `atts.get('http-equiv', '')`
    then dictGet C20.metaContentKey atts                                        -- :75 `atts.get('content')`
    else ct
  else ct

/-- `p = _MetaHTMLParser(); p.feed(text)`: `content_type = None` (`:68`), then one call per reported start tag -/
def metaScan (evs : List StartTag) : Option Cps := evs.foldl handleStartTag none

/-- the two library stages that are not modelled, as functions of what the code hands them -/
structure Lib where
  /-- `html.parser.HTMLParser.feed(text)`: the start tags reported, in order, or an exception -/
  html : Cps → Except Err (List StartTag)
  /-- `m = Message(); m['content-type'] = c; (m.get_content_type(), m.get_param('charset'))`, or an exception -/
  msg : Cps → Except Err (Cps × Param)

/-- front of `getMetaInfo` (`:305-317`): what its tail (`Encutils.getMetaInfo`) receives -/
def metaRawOf (L : Lib) (text : Cps) : MetaRaw :=
  match L.html text with                              -- :310 p.feed(text)
  | .error _ => .raises
  | .ok evs =>
    match metaScan evs with                           -- :312 `if p.content_type:`
    | some (c :: cs) =>
      match L.msg (c :: cs) with                      -- :313-317
      | .error _ => .raises
      | .ok (mt, p) => .found mt p
    | _ => .absent

/-- `getMetaInfo(text)` (`:292-329`) on a document -/
def getMetaInfoDoc (L : Lib) (d : Doc) : Except Err (Option Cps × Option Cps) :=
  getMetaInfo (metaRawOf L d.asText)                  -- :307-309 decode first

/-! ## `getEncodingInfo` on documents -/

/-- what the response object answers; `read()` may hand out `str` or `bytes` -/
structure RespD where
  mediaType : Option Cps
  charset : Option Cps
  body : Option Doc          -- `none` = `read()` raised `OSError`
deriving Repr

def RespD.head (r : RespD) : Resp := ⟨r.mediaType, r.charset, r.body.map Doc.asText⟩

/-- `:585-594`: the given document, else what `response.read()` returns, else `''` -/
def effDoc (response : Option RespD) (text : Option Doc) : Except Err Doc :=
  match text, response with
  | some t, _ => .ok t
  | none, some r => .ok (r.body.getD (.text []))
  | none, none => .error .attributeError

/-- `:603-608` -/
def typeOfD (response : Option RespD) (d : Doc) : Nat :=
  match response with
  | some r => textTypeByMediaType (getHTTPInfo r.head).1
  | none => textTypeOfDoc d

/-- `try: detectXMLEncoding(text, …) except (AttributeError, ValueError): None` -/
def sniffCaughtD (d : Doc) (includeDefault : Bool) : Except Err (Option Cps) :=
  match detectXMLDoc d includeDefault with
  | .ok r => .ok r
  | .error .valueError => .ok none
  | .error .attributeError => .ok none
  | .error e => .error e

/-- `:606-622` (`sniffable = len(text) >= 4`: characters of a `str`, bytes of a `bytes` document) -/
def xmlOfD (tt : Nat) (d : Doc) : Except Err (Option Cps) :=
  let sniffable := decide (4 ≤ d.asText.length)
  match (if tt == C20.XML_APPLICATION_TYPE && sniffable then sniffCaughtD d true else .ok none) with
  | .error e => .error e
  | .ok x1 => if tt == C20.HTML_TEXT_TYPE && sniffable then sniffCaughtD d false else .ok x1

/-- `:625-626`: the meta stage runs for text/html and other text types only -/
def metaOfD (L : Lib) (tt : Nat) (d : Doc) : Except Err (Option Cps × Option Cps) :=
  if tt == C20.HTML_TEXT_TYPE || tt == C20.TEXT_TYPE then getMetaInfoDoc L d else .ok (none, none)

/-- `getEncodingInfo(response, text)` (`:585-698`) with the document kinds kept apart and the meta stage inside -/
def getEncodingInfoD (L : Lib) (response : Option RespD) (text : Option Doc) (tryEnc : Option Cps) : Except Err Info :=
  match effDoc response text with
  | .error e => .error e
  | .ok d =>
    let tt := typeOfD response d
    match xmlOfD tt d with
    | .error e => .error e
    | .ok xml =>
      match metaOfD L tt d with
      | .error e => .error e
      | .ok metaI => .ok (assemble tt (httpOf (response.map RespD.head)) xml metaI tryEnc)

/-- `EncodingInfo.__str__` (`:139-144`): the guessed encoding itself or the empty string -/
def Info.str (i : Info) : Cps :=
  if truthy i.encoding then i.encoding.getD [] else []

end CssVerif.Encutils
