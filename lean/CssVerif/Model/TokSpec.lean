import CssVerif.Model.Tok
/-!
# Specification functions for C05 (no regular expressions, no reference to the model's control flow)

`unescape`, `stringValue` — independent one-pass scanners for token values; `lc` — line/column of a text position;
`tokenValue` — value of a token by type. The theorems of `Props/C05.lean` are stated against these functions; the
driver exposes them so that the harness can compare them with the Python oracle's own specification functions.

Core Lean only.
-/
namespace CssVerif.Tok
open CssVerif CssVerif.Gen.C05

/-- number of leading code points satisfying `p`, at most `n` -/
def runLen (p : Nat → Bool) : Cps → Nat → Nat
  | _, 0 => 0
  | [], _ + 1 => 0
  | c :: t, n + 1 => if p c then 1 + runLen p t n else 0

def isWs (c : Nat) : Bool := c == 9 || c == 13 || c == 10 || c == 12 || c == 32

/-- length of the optional terminator of a hex escape: CR LF counts as one -/
def wsLen (s : Cps) : Nat :=
  match s with
  | [] => 0
  | c :: t => if c = 13 ∧ t.head? = some 10 then 2 else if isWs c then 1 else 0

/-- length of the unit `unicodesub` replaces at the start of `s`: an escaped backslash, or a backslash with
1–6 hex digits and the optional terminator -/
def escLen (s : Cps) : Option Nat :=
  match s with
  | [] => none
  | c :: t =>
    if c ≠ 92 then none
    else if t.head? = some 92 then some 2
    else if runLen isHex t 6 = 0 then none
    else some (1 + runLen isHex t 6 + wsLen (t.drop (runLen isHex t 6)))

/-- what a hex escape denotes: `ds` its hex digits, `asWritten` its source text -/
def decodeHex (ds asWritten : Cps) : Cps :=
  if hexNum ds = 0x5C then [92, 92] else if hexNum ds ≤ 0x10FFFF then [hexNum ds] else asWritten

/-- **Independent escape decoder** (no regular expression): one left-to-right pass.
`\\` is a unit and stays; `\` + 1–6 hex digits + optional terminator (one white-space code point, CR LF counting
as one) is replaced by what it denotes; everything else is copied. The `Nat` is fuel (≥ length). -/
def unescapeF : Nat → Cps → Cps
  | 0, _ => []
  | _ + 1, [] => []
  | f + 1, c :: t =>
    if c ≠ 92 then c :: unescapeF f t
    else match t with
      | [] => [92]
      | d :: u =>
        if d = 92 then 92 :: 92 :: unescapeF f u
        else if isHex d then
          decodeHex (t.take (runLen isHex t 6))
              (92 :: t.take (runLen isHex t 6 + wsLen (t.drop (runLen isHex t 6))))
            ++ unescapeF f (t.drop (runLen isHex t 6 + wsLen (t.drop (runLen isHex t 6))))
        else 92 :: unescapeF f t

def unescape (s : Cps) : Cps := unescapeF s.length s

def isNl (c : Nat) : Bool := c == 10 || c == 13 || c == 12

/-- line and column of the code point that follows the text `pre`: lines are counted by line feeds,
the column is 1 + the distance to the previous line feed -/
def lc (pre : Cps) : Nat × Nat := (1 + pre.count 10, 1 + (pre.reverse.takeWhile (· != 10)).length)

/-- length of the unit `stringsub` replaces at the start of `s`: an escaped backslash, a line continuation
(backslash + newline, CR LF being one newline), or a hex escape with its optional terminator -/
def strLen (s : Cps) : Option Nat :=
  match s with
  | [] => none
  | c :: t =>
    if c ≠ 92 then none
    else match t with
      | [] => none
      | d :: u =>
        if d = 92 then some 2
        else if d = 13 ∧ u.head? = some 10 then some 3
        else if isNl d then some 2
        else if runLen isHex t 6 = 0 then none
        else some (1 + runLen isHex t 6 + wsLen (t.drop (runLen isHex t 6)))

/-- **Independent one-pass decoder for string tokens** (STRING, INVALID, URI): an escaped backslash stays,
backslash-newline is dropped, a hex escape is decoded — all decided on the source text, left to right. -/
def stringValueF : Nat → Cps → Cps
  | 0, _ => []
  | _ + 1, [] => []
  | f + 1, c :: t =>
    if c ≠ 92 then c :: stringValueF f t
    else match t with
      | [] => [92]
      | d :: u =>
        if d = 92 then 92 :: 92 :: stringValueF f u
        else if d = 13 ∧ u.head? = some 10 then stringValueF f (u.drop 1)
        else if isNl d then stringValueF f u
        else if isHex d then
          decodeHex (t.take (runLen isHex t 6))
              (92 :: t.take (runLen isHex t 6 + wsLen (t.drop (runLen isHex t 6))))
            ++ stringValueF f (t.drop (runLen isHex t 6 + wsLen (t.drop (runLen isHex t 6))))
        else 92 :: stringValueF f t

def stringValue (s : Cps) : Cps := stringValueF s.length s

/-- value of a token of type `typ` whose text (with completion) is `found`: the one-pass string decoding for
STRING, INVALID and URI, the escape decoding for the other listed types, the text itself otherwise (comments are
verbatim) -/
def tokenValue (typ : String) (found : Cps) : Cps :=
  if unescTypes.contains typ then
    (if cleanTypes.contains typ then stringValue found else unescape found)
  else found

end CssVerif.Tok
