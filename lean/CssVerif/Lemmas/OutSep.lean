import CssVerif.Lemmas.Out
/-!
# The separation invariant of `Out.append` and the `+ > ~` handling (fix 9620553)
-/
namespace CssVerif.Out
open CssVerif.Proto (Cps)

/-- types for which `Out.append` has no special PRE/POST treatment -/
def GenericTy (ty : Cps) : Bool :=
  ty != t_COMMENT && ty != t_S && ty != t_STRING && ty != t_URI && ty != t_HASH && ty != t_FUNCTION && ty != t_styletext

/-- a value that takes none of the punctuation branches: a "word". It does not end with a space — unless that space
is backslash-escaped, i.e. part of a name (`b\ `), which since the repair of `Out.append` counts as a word too -/
def Plain (w : Cps) : Bool :=
  !w.isEmpty && !isInfix w c_punctPre && !isInfix w c_noSpace && (!endsSp w || endsEscSp w)

/-- the gap `Out.append` leaves after a word: the spacer, or one space when the spacer is empty
(`serialize.py:300-307`, the special case) -/
def gapOf (p : Prefs) : Cps := if p.spacer.isEmpty then [32] else p.spacer

/-- the pieces (reversed) `Out.append` leaves after a word -/
def gapPieces (p : Prefs) : List Cps := if p.spacer.isEmpty then [[32], []] else [p.spacer]

theorem gapOf_ne_nil (p : Prefs) : gapOf p ≠ [] := by
  unfold gapOf
  split
  · simp
  · rename_i h; intro e; simp [e] at h

theorem gapPieces_flatten (p : Prefs) : (gapPieces p).reverse.flatten = gapOf p := by
  unfold gapPieces gapOf
  split <;> simp

theorem isInfix_comb_of_punct {w : Cps} (h : isInfix w c_punctPre = false) : isInfix w c_comb = false := by
  -- '+>~' is a prefix of '+>~,:{;)]/=}': every infix of the former is an infix of the latter
  cases hc : isInfix w c_comb
  · rfl
  · exfalso
    have : isInfix w c_punctPre = true := by
      simp only [c_comb, c_punctPre, isInfix, Bool.or_eq_true] at hc ⊢
      rcases hc with hc | hc | hc | hc
      · cases w with
        | nil => simp
        | cons a t =>
          cases t with
          | nil => left; simp at hc ⊢; exact hc
          | cons b t' =>
            cases t' with
            | nil => left; simp at hc ⊢; exact hc
            | cons c t'' =>
              cases t'' with
              | nil => left; simp at hc ⊢; exact hc
              | cons d u => simp at hc
      · right; left
        cases w with
        | nil => simp
        | cons a t =>
          cases t with
          | nil => simp at hc ⊢; exact hc
          | cons b t' =>
            cases t' with
            | nil => simp at hc ⊢; exact hc
            | cons c u => simp at hc
      · right; right; left
        cases w with
        | nil => simp
        | cons a t =>
          cases t with
          | nil => simp at hc ⊢; exact hc
          | cons b u => simp at hc
      · cases w with
        | nil => left; simp
        | cons a t => simp at hc
    rw [h] at this; exact absurd this (by decide)


theorem ne_single_of_not_infix {w : Cps} (h : isInfix w c_punctPre = false) (c : Nat)
    (hc : isInfix [c] c_punctPre = true) : (w == [c]) = false := by
  cases e : w == [c]
  · rfl
  · have : w = [c] := by simpa using e
    subst this; rw [hc] at h; exact absurd h (by decide)

/-- **One word.** A word appended with the default flags is followed by the gap, under EVERY preference record. -/
theorem append_word' (p : Prefs) (il : Nat) (o : O) (w ty : Cps) (hw : Plain w = true) (ht : GenericTy ty = true) :
    append p il o (.str w) ty {} = gapPieces p ++ w :: (if wouldFuse o w then [32] :: o else o) := by
  simp only [Plain, Bool.and_eq_true, Bool.not_eq_true'] at hw
  obtain ⟨⟨⟨h1, h2⟩, h3⟩, h4'⟩ := hw
  have h4 : (endsSp w && !endsEscSp w) = false := by
    cases h5 : endsSp w <;> cases h6 : endsEscSp w <;> simp [h5, h6] at h4' ⊢
  simp only [GenericTy, Bool.and_eq_true, bne_iff_ne, ne_eq] at ht
  obtain ⟨⟨⟨⟨⟨⟨t1, t2⟩, t3⟩, t4⟩, t5⟩, t6⟩, t7⟩ := ht
  have b1 : (ty == t_COMMENT) = false := by simpa using t1
  have b2 : (ty == t_S) = false := by simpa using t2
  have b3 : (ty == t_STRING) = false := by simpa using t3
  have b4 : (ty == t_URI) = false := by simpa using t4
  have b5 : (ty == t_HASH) = false := by simpa using t5
  have b6 : (ty == t_FUNCTION) = false := by simpa using t6
  have b7 : (ty == t_styletext) = false := by simpa using t7
  have hcomb := isInfix_comb_of_punct h2
  have e41 := ne_single_of_not_infix h2 41 (by decide)
  have e44 := ne_single_of_not_infix h2 44 (by decide)
  have e58 := ne_single_of_not_infix h2 58 (by decide)
  have e123 := ne_single_of_not_infix h2 123 (by decide)
  have e59 := ne_single_of_not_infix h2 59 (by decide)
  have e125 := ne_single_of_not_infix h2 125 (by decide)
  have htr : (AVal.str w).truthy = true := by simp [AVal.truthy, h1]
  unfold append
  simp only [htr, Bool.true_or, Bool.not_true, Bool.false_eq_true, if_false]
  unfold appendPre
  simp only [b1, b2, b3, b4, b5, Bool.false_eq_true, if_false, AVal.text, h2, Bool.false_and]
  unfold appendMid appendPost
  simp only [e125, Bool.false_and, Bool.or_false, Bool.false_eq_true, if_false, h4, hcomb, e41, e44, e58, e123,
    e59, b7, h3, Bool.not_false, Bool.true_and, b6, bne, Bool.and_true, if_true, b3]
  unfold gapPieces
  by_cases hs : p.spacer.isEmpty = true
  · have : p.spacer = [] := by simpa using hs
    simp [this, endsSp]
  · simp [hs]

theorem lastPiece_cons_of_ne_nil {x : Cps} (hx : x ≠ []) (r : O) : lastPiece (x :: r) = some x := by
  cases x with
  | nil => exact absurd rfl hx
  | cons a t => simp [lastPiece, List.find?]

theorem lastPiece_cons_nil (r : O) : lastPiece ([] :: r) = lastPiece r := by
  simp [lastPiece, List.find?]

theorem wouldFuse_of_last_ne {o : O} (h : lastPiece o ≠ some [47]) {w : Cps} (hw : Plain w = true) :
    wouldFuse o w = false := by
  have h61 : (w == [61]) = false := by
    simp only [Plain, Bool.and_eq_true, Bool.not_eq_true'] at hw
    exact ne_single_of_not_infix hw.1.1.2 61 (by decide)
  unfold wouldFuse
  cases hl : lastPiece o with
  | none => rfl
  | some x =>
    have hx : (x == [47]) = false := by
      cases e : x == [47]
      · rfl
      · exact absurd (by rw [hl]; simpa using e) h
    simp [hx, h61]

/-- a word appended to a list that does not end in `/` (the case d39f9c4 treats) -/
theorem append_word (p : Prefs) (il : Nat) (o : O) (w ty : Cps) (hw : Plain w = true) (ht : GenericTy ty = true)
    (ho : lastPiece o ≠ some [47]) : append p il o (.str w) ty {} = gapPieces p ++ w :: o := by
  rw [append_word' p il o w ty hw ht, wouldFuse_of_last_ne ho hw]; rfl

theorem gapPieces_head_ne (p : Prefs) (hsp : p.spacer ≠ [47]) (w : Cps) (o : O) :
    lastPiece (gapPieces p ++ w :: o) ≠ some [47] := by
  unfold gapPieces
  split
  · simp [lastPiece, List.find?]
  · rename_i he
    have hne : p.spacer ≠ [] := by intro e; simp [e] at he
    rw [List.singleton_append, lastPiece_cons_of_ne_nil hne]
    simpa using hsp

/-- **Many words.** -/
theorem runCalls_words (p : Prefs) (il : Nat) (ty : Cps) (ht : GenericTy ty = true) (hsp : p.spacer ≠ [47]) :
    ∀ (ws : List Cps) (o : O), (∀ w ∈ ws, Plain w = true) → lastPiece o ≠ some [47] →
      runCalls p il (ws.map fun w => ({ v := .str w, ty := ty } : Call)) o
        = (ws.reverse.flatMap fun w => gapPieces p ++ [w]) ++ o
  | [], o, _, _ => by simp [runCalls]
  | w :: rest, o, hw, ho => by
    have h1 := append_word p il o w ty (hw w List.mem_cons_self) ht ho
    have ih := runCalls_words p il ty ht hsp rest (gapPieces p ++ w :: o)
      (fun x hx => hw x (List.mem_cons_of_mem _ hx)) (gapPieces_head_ne p hsp w o)
    simp only [List.map_cons, runCalls, List.foldl_cons] at ih ⊢
    rw [h1, ih]
    simp [List.flatMap_append]


/-- **Two words** are separated by the (never empty) gap in the text, under every preference record whose spacer
is CSS white space (a spacer of other blank characters is not removed at the end of a value since 5c3733f) -/
theorem two_words_text (p : Prefs) (il : Nat) (ty : Cps) (ht : GenericTy ty = true) (w1 w2 : Cps)
    (h1 : Plain w1 = true) (h2 : Plain w2 = true) (hs : allCssWs p.spacer = true) :
    value (runCalls p il [{ v := .str w1, ty := ty }, { v := .str w2, ty := ty }]) = w1 ++ gapOf p ++ w2 := by
  have hsp : p.spacer ≠ [47] := by
    intro e; rw [e] at hs; exact absurd hs (by decide)
  have := runCalls_words p il ty ht hsp [w1, w2] [] (by
    intro w hw
    simp at hw
    rcases hw with rfl | rfl <;> assumption) (by simp [lastPiece])
  simp only [List.map_cons, List.map_nil] at this
  rw [this]
  unfold gapPieces gapOf value
  by_cases he : p.spacer.isEmpty = true
  · have e : p.spacer = [] := by simpa using he
    simp [e, removeLastIfS, allCssWs, isCssWs]
  · simp [he, removeLastIfS, hs]

/-! ### `+ > ~` (fix 9620553) -/

/-- a `+`, `>` or `~` that is NOT a selector combinator item keeps one space on each side under EVERY preference
record; a combinator item gets `selectorCombinatorSpacer` on each side -/
theorem append_comb_char (p : Prefs) (il : Nat) (o : O) (c : Nat) (hc : c = 43 ∨ c = 62 ∨ c = 126) (ty : Cps)
    (ht : GenericTy ty = true) :
    append p il o (.str [c]) ty {} =
      (if isCombTy ty then p.selectorCombinatorSpacer else [32]) :: [c]
        :: (if isCombTy ty then p.selectorCombinatorSpacer else [32]) :: removeLastIfS o := by
  simp only [GenericTy, Bool.and_eq_true, bne_iff_ne, ne_eq] at ht
  obtain ⟨⟨⟨⟨⟨⟨t1, t2⟩, t3⟩, t4⟩, t5⟩, t6⟩, t7⟩ := ht
  have b1 : (ty == t_COMMENT) = false := by simpa using t1
  have b2 : (ty == t_S) = false := by simpa using t2
  have b3 : (ty == t_STRING) = false := by simpa using t3
  have b4 : (ty == t_URI) = false := by simpa using t4
  have b5 : (ty == t_HASH) = false := by simpa using t5
  rcases hc with rfl | rfl | rfl <;>
  · unfold append
    simp only [AVal.truthy, List.isEmpty_cons, Bool.not_false, Bool.true_or, Bool.not_true, Bool.false_eq_true,
      if_false]
    unfold appendPre
    simp only [b1, b2, b3, b4, b5, Bool.false_eq_true, if_false, AVal.text]
    unfold appendMid appendPost
    simp [isInfix, c_punctPre, c_comb, c_calcOps, endsSp, insertBeforeLast, wouldFuse]
    cases lastPiece (removeLastIfS o) <;> simp

end CssVerif.Out
