import CssVerif.Model.SelSpec
/-!
# `Selector._prepare_tokens` on written selectors: `prepare s.raw = s.cooked`

`prepAcc out toks` folds `prepStep` over `toks` with the reversed output list `out`. For every piece `P` of a
written selector: `prepAcc out P.raw = P.cooked.reverse ++ out`, provided the token before the piece (the head
of `out`) cannot be regrouped with the piece's first token.
-/
namespace CssVerif.Sel
open CssVerif.Gen.C16 CssVerif.Proto

/-- an IDENT after this token stays an IDENT: it is not `.`, and not a `:name` that still takes a name -/
def identSafe (l : Tok) : Bool := !(l.val == [46]) && !(startsWith l.val [58] && !(endsWith l.val [40]))
/-- a type selector / attribute name / prefix may start after this token -/
def opener (l : Tok) : Bool :=
  identSafe l && !(l.typ == .nsPrefix) && !(l.typ == .ident) && !(l.typ == .universal)
def noColon (l : Tok) : Bool := !(l.val == [58])

def headP (p : Tok → Bool) (out : List Tok) : Prop := ∀ l, out.head? = some l → p l = true

theorem headP_nil (p : Tok → Bool) : headP p [] := by intro l h; simp at h
theorem headP_cons {p : Tok → Bool} {l : Tok} (h : p l = true) (out : List Tok) : headP p (l :: out) := by
  intro l' h'; simp at h'; subst h'; exact h

theorem opener_noColon {l : Tok} (h : opener l = true) : noColon l = true := by
  simp only [opener, identSafe, Bool.and_eq_true, Bool.not_eq_true', Bool.and_eq_false_iff] at h
  simp only [noColon, Bool.not_eq_true']
  cases hv : (l.val == [58]) with
  | false => rfl
  | true =>
    have : l.val = [58] := by simpa using hv
    have e1 : startsWith [58] [58] = true := by decide
    have e2 : endsWith [58] [40] = false := by decide
    rcases h.1.1.1.2 with h2 | h2 <;> simp [this, e1, e2] at h2

theorem opener_identSafe {l : Tok} (h : opener l = true) : identSafe l = true := by
  simp only [opener, Bool.and_eq_true] at h; exact h.1.1.1

theorem headP_mono {p q : Tok → Bool} (hpq : ∀ l, p l = true → q l = true) {out : List Tok} (h : headP p out) :
    headP q out := fun l hl => hpq l (h l hl)

theorem prepAcc_append (out : List Tok) (l1 l2 : List Tok) :
    prepAcc out (l1 ++ l2) = prepAcc (prepAcc out l1) l2 := by simp [prepAcc, List.foldl_append]

theorem prepAcc_cons (out : List Tok) (t : Tok) (ts : List Tok) :
    prepAcc out (t :: ts) = prepAcc (prepStep out t) ts := rfl

@[simp] theorem prepAcc_nil (out : List Tok) : prepAcc out [] = out := rfl

/-! ## single tokens -/

/-- a token that takes part in no regrouping rule as the *current* token -/
def plainTok (t : Tok) : Bool :=
  !(t.val == [58]) && !(t.val == [42]) && !(t.val == [124]) && !(t.typ == .ident) && !(t.typ == .function)

theorem prepStep_plain (out : List Tok) (t : Tok) (h : plainTok t = true) : prepStep out t = t :: out := by
  simp only [plainTok, Bool.and_eq_true, Bool.not_eq_true'] at h
  obtain ⟨⟨⟨⟨h1, h2⟩, h3⟩, h4⟩, h5⟩ := h
  cases out with
  | nil => simp [prepStep, h2, h3]
  | cons l r => simp [prepStep, h1, h2, h3, h4, h5]

theorem prepStep_ident (out : List Tok) (v : Cps) (ho : headP identSafe out)
    (h1 : (v == [58]) = false) (h2 : (v == [42]) = false) (h3 : (v == [124]) = false) :
    prepStep out ⟨.ident, v⟩ = ⟨.ident, v⟩ :: out := by
  cases out with
  | nil => simp [prepStep, h2, h3]
  | cons l r =>
    have hl := ho l rfl
    simp only [identSafe, Bool.and_eq_true, Bool.not_eq_true'] at hl
    simp [prepStep, h1, h2, h3, hl.1, hl.2]

theorem prepStep_colon (out : List Tok) (ho : headP noColon out) :
    prepStep out ⟨.char, [58]⟩ = ⟨.char, [58]⟩ :: out := by
  cases out with
  | nil => simp [prepStep]
  | cons l r =>
    have hl := ho l rfl
    simp only [noColon, Bool.not_eq_true'] at hl
    simp [prepStep, hl]

theorem prepStep_colon2 (out : List Tok) :
    prepStep (⟨.char, [58]⟩ :: out) ⟨.char, [58]⟩ = ⟨.char, [58, 58]⟩ :: out := by
  simp [prepStep]

theorem prepStep_pseudo_ident (out : List Tok) (two : Bool) (n : Cps) (hn : (n == [58]) = false) :
    prepStep (⟨.char, colons two⟩ :: out) ⟨.ident, n⟩ = ⟨pseudoTT two, colons two ++ n⟩ :: out := by
  have e1 : startsWith [58] [58] = true := by decide
  have e2 : endsWith [58] [40] = false := by decide
  have e3 : startsWith [58, 58] [58] = true := by decide
  have e4 : endsWith [58, 58] [40] = false := by decide
  have e5 : startsWith [58, 58] [58, 58] = true := by decide
  have e6 : startsWith [58] [58, 58] = false := by decide
  cases two <;> simp [prepStep, colons, pseudoTT, hn, e1, e2, e3, e4, e5, e6]

theorem prepStep_class_ident (out : List Tok) (n : Cps) (hn : (n == [58]) = false) :
    prepStep (⟨.char, [46]⟩ :: out) ⟨.ident, n⟩ = ⟨.cls, 46 :: n⟩ :: out := by
  simp [prepStep, hn]

theorem endsWith_paren_ne (f x : Cps) (hf : endsWith f [40] = true) (hx : endsWith x [40] = false) : (f == x) = false := by
  cases h : (f == x) with
  | false => rfl
  | true =>
    have : f = x := by simpa using h
    rw [this, hx] at hf; cases hf

theorem prepStep_pseudo_func (out : List Tok) (two : Bool) (f : Cps) (hf : endsWith f [40] = true)
    (hnot : two = true ∨ (normalize f == sNotOpen) = false) :
    prepStep (⟨.char, colons two⟩ :: out) ⟨.function, f⟩ = ⟨pseudoTT two, colons two ++ f⟩ :: out := by
  have h58 : (f == [58]) = false := endsWith_paren_ne f [58] hf (by decide)
  have e1 : startsWith [58] [58] = true := by decide
  have e3 : startsWith [58, 58] [58] = true := by decide
  have e5 : startsWith [58, 58] [58, 58] = true := by decide
  have e6 : startsWith [58] [58, 58] = false := by decide
  cases two with
  | true => simp [prepStep, colons, pseudoTT, h58, e3, e5]
  | false =>
    rcases hnot with h | h
    · cases h
    · simp [prepStep, colons, pseudoTT, h58, h, e1, e6]

theorem prepStep_not (out : List Tok) (f : Cps) (hf : endsWith f [40] = true) (hnot : (normalize f == sNotOpen) = true) :
    prepStep (⟨.char, [58]⟩ :: out) ⟨.function, f⟩ = ⟨.negation, 58 :: f⟩ :: out := by
  have h58 : (f == [58]) = false := endsWith_paren_ne f [58] hf (by decide)
  simp [prepStep, h58, hnot]

theorem prepStep_star (out : List Tok) (ho : headP (fun l => !(l.typ == .nsPrefix)) out) :
    prepStep out ⟨.char, [42]⟩ = ⟨.universal, [42]⟩ :: out := by
  cases out with
  | nil => simp [prepStep]
  | cons l r =>
    have hl := ho l rfl
    simp only [Bool.not_eq_true'] at hl
    simp [prepStep, hl]

theorem prepStep_star_after_prefix (out : List Tok) (p : Cps) :
    prepStep (⟨.nsPrefix, p ++ [124]⟩ :: out) ⟨.char, [42]⟩ = ⟨.universal, p ++ [124, 42]⟩ :: out := by
  simp [prepStep, endsWith]

theorem prepStep_bar_after_ident (out : List Tok) (p : Cps) (hp : hasCp 124 p = false) :
    prepStep (⟨.ident, p⟩ :: out) ⟨.char, [124]⟩ = ⟨.nsPrefix, p ++ [124]⟩ :: out := by
  simp [prepStep, hp]

theorem prepStep_bar_after_star (out : List Tok) :
    prepStep (⟨.universal, [42]⟩ :: out) ⟨.char, [124]⟩ = ⟨.nsPrefix, [42, 124]⟩ :: out := by
  simp [prepStep, hasCp]

theorem prepStep_bar (out : List Tok) (ho : headP opener out) :
    prepStep out ⟨.char, [124]⟩ = ⟨.nsPrefix, [124]⟩ :: out := by
  cases out with
  | nil => simp [prepStep]
  | cons l r =>
    have hl := ho l rfl
    simp only [opener, Bool.and_eq_true, Bool.not_eq_true'] at hl
    simp [prepStep, hl.1.2, hl.2]


/-! ## lists of plain tokens -/

theorem prepAcc_plain (l : List Tok) (hl : ∀ t ∈ l, plainTok t = true) (out : List Tok) :
    prepAcc out l = l.reverse ++ out := by
  induction l generalizing out with
  | nil => simp
  | cons t ts ih =>
    rw [prepAcc_cons, prepStep_plain out t (hl t (by simp)), ih (fun x hx => hl x (by simp [hx]))]
    simp

theorem headP_rev_append {p : Tok → Bool} (l : List Tok) (hl : ∀ t ∈ l, p t = true) {out : List Tok}
    (ho : headP p out) : headP p (l.reverse ++ out) := by
  induction l generalizing out with
  | nil => simpa using ho
  | cons t ts ih =>
    simp only [List.reverse_cons, List.append_assoc, List.singleton_append]
    exact ih (fun x hx => hl x (by simp [hx])) (headP_cons (hl t (by simp)) out)

theorem headP_rev_append_ne {p : Tok → Bool} (l : List Tok) (hl : ∀ t ∈ l, p t = true) (hne : l ≠ [])
    (out : List Tok) : headP p (l.reverse ++ out) := by
  intro x hx
  have hr0 : l.reverse ≠ [] := by simpa using hne
  cases hr : l.reverse with
  | nil => exact absurd hr hr0
  | cons a as =>
    rw [hr] at hx
    simp at hx
    subst hx
    apply hl
    have : a ∈ l.reverse := by rw [hr]; simp
    simpa using this

theorem inert_ne_colon {v : Cps} (h : inert v = true) : (v == [58]) = false := by
  simp only [inert, Bool.and_eq_true, Bool.not_eq_true'] at h
  cases hv : (v == [58]) with
  | false => rfl
  | true =>
    have : v = [58] := by simpa using hv
    have e : startsWith [58] [58] = true := by decide
    rw [this, e] at h; exact absurd h.2 (by simp)

theorem inert_parts {v : Cps} (h : inert v = true) :
    (v == [46]) = false ∧ (v == [42]) = false ∧ (v == [124]) = false ∧ startsWith v [58] = false ∧ (v == [58]) = false := by
  have h58 := inert_ne_colon h
  simp only [inert, Bool.and_eq_true, Bool.not_eq_true'] at h
  exact ⟨h.1.1.1, h.1.1.2, h.1.2, h.2, h58⟩

theorem Fill.plain {f : Fill} (h : f.ok = true) : plainTok f.tok = true := by
  cases f <;> (have := inert_parts h; simp [Fill.tok, plainTok, this])

theorem Fill.opener {f : Fill} (h : f.ok = true) : opener f.tok = true := by
  cases f <;> (have := inert_parts h; simp [Fill.tok, Sel.opener, identSafe, this])

theorem fills_plain (f : List Fill) (hf : f.all Fill.ok = true) : ∀ t ∈ f.map Fill.tok, plainTok t = true := by
  intro t ht
  simp only [List.mem_map] at ht
  obtain ⟨x, hx, rfl⟩ := ht
  exact Fill.plain (List.all_eq_true.mp hf x hx)

theorem fills_opener (f : List Fill) (hf : f.all Fill.ok = true) : ∀ t ∈ f.map Fill.tok, opener t = true := by
  intro t ht
  simp only [List.mem_map] at ht
  obtain ⟨x, hx, rfl⟩ := ht
  exact Fill.opener (List.all_eq_true.mp hf x hx)

theorem prep_fills (f : List Fill) (hf : f.all Fill.ok = true) (out : List Tok) :
    prepAcc out (f.map Fill.tok) = (f.map Fill.tok).reverse ++ out :=
  prepAcc_plain _ (fills_plain f hf) out

/-! ## namespace prefixes and type selectors -/

def Pfx.cooked : Pfx → List Tok
  | .none => []
  | p => [⟨.nsPrefix, p.str ++ [124]⟩]

theorem nameOk_parts {v : Cps} (h : nameOk v = true) :
    v ≠ [] ∧ (v == [46]) = false ∧ (v == [42]) = false ∧ (v == [124]) = false ∧ startsWith v [58] = false ∧
      (v == [58]) = false := by
  simp only [nameOk, Bool.and_eq_true, Bool.not_eq_true'] at h
  have := inert_parts h.2
  refine ⟨?_, this⟩
  intro hv; simp [hv] at h

theorem identSafe_ident {v : Cps} (h : nameOk v = true) : identSafe ⟨.ident, v⟩ = true := by
  have := nameOk_parts h
  simp [identSafe, this]

theorem startsWith_append_of_ne (p q x : Cps) (hp : p ≠ []) (h : startsWith p x = false) (hx : x.length = 1) :
    startsWith (p ++ q) x = false := by
  cases p with
  | nil => exact absurd rfl hp
  | cons a t =>
    cases x with
    | nil => simp at hx
    | cons b u =>
      cases u with
      | nil => simpa [startsWith, List.isPrefixOf] using h
      | cons _ _ => simp at hx

theorem identSafe_prefix (ns : NsMap) (p : Pfx) (hp : p.ok ns = true) (hn : p ≠ .none) :
    identSafe ⟨.nsPrefix, p.str ++ [124]⟩ = true := by
  cases p with
  | none => exact absurd rfl hn
  | any => decide
  | empty => decide
  | named q =>
    simp only [Pfx.ok, Bool.and_eq_true] at hp
    obtain ⟨hne, _, _, _, hs, _⟩ := nameOk_parts hp.1.1.1
    have h1 : startsWith (q ++ [124]) [58] = false := startsWith_append_of_ne q [124] [58] hne hs rfl
    have h2 : (q ++ [124] == [46]) = false := by
      cases q with
      | nil => exact absurd rfl hne
      | cons a t => cases t <;> simp
    simp [identSafe, Pfx.str, h1, h2]

/-- the prefix part: `P|` becomes one `namespace_prefix` token -/
theorem prep_pfx (ns : NsMap) (p : Pfx) (hp : p.ok ns = true) (out : List Tok) (ho : headP opener out) :
    prepAcc out p.raw = p.cooked.reverse ++ out := by
  cases p with
  | none => simp [Pfx.raw, Pfx.cooked]
  | any =>
    have hs : headP (fun l => !(l.typ == .nsPrefix)) out := by
      intro l hl
      have := ho l hl
      simp only [opener, Bool.and_eq_true] at this
      exact this.1.1.2
    simp [Pfx.raw, Pfx.cooked, Pfx.str, prepAcc_cons, prepStep_star out hs, prepStep_bar_after_star]
  | empty => simp [Pfx.raw, Pfx.cooked, Pfx.str, prepAcc_cons, prepStep_bar out ho]
  | named q =>
    simp only [Pfx.ok, Bool.and_eq_true, Bool.not_eq_true'] at hp
    obtain ⟨_, _, h42, h124, _, h58⟩ := nameOk_parts hp.1.1.1
    simp [Pfx.raw, Pfx.cooked, Pfx.str, prepAcc_cons,
      prepStep_ident out q (headP_mono (fun _ => opener_identSafe) ho) h58 h42 h124,
      prepStep_bar_after_ident out q hp.1.1.2]

theorem TypeSel.cooked_eq (t : TypeSel) :
    t.cooked = match t.name with
      | some n => t.pfx.cooked ++ [⟨.ident, n⟩]
      | none => (match t.pfx with
          | .none => [⟨.universal, [42]⟩]
          | p => [⟨.universal, p.str ++ [124, 42]⟩]) := by
  obtain ⟨pfx, name⟩ := t
  cases pfx <;> cases name <;> simp [TypeSel.cooked, Pfx.cooked]

theorem prep_typeSel (ns : NsMap) (t : TypeSel) (ht : t.ok ns = true) (out : List Tok) (ho : headP opener out) :
    prepAcc out t.raw = t.cooked.reverse ++ out := by
  obtain ⟨pfx, name⟩ := t
  simp only [TypeSel.ok, Bool.and_eq_true] at ht
  obtain ⟨hp, hn⟩ := ht
  rw [TypeSel.cooked_eq]
  simp only [TypeSel.raw, prepAcc_append, prep_pfx ns pfx hp out ho]
  cases name with
  | some n =>
    simp only [] at hn
    obtain ⟨_, _, h42, h124, _, h58⟩ := nameOk_parts hn
    have hsafe : headP identSafe (pfx.cooked.reverse ++ out) := by
      by_cases hpn : pfx = .none
      · subst hpn; simpa [Pfx.cooked] using headP_mono (fun _ => opener_identSafe) ho
      · have : pfx.cooked = [⟨.nsPrefix, pfx.str ++ [124]⟩] := by cases pfx <;> simp_all [Pfx.cooked]
        rw [this]
        exact headP_cons (identSafe_prefix ns pfx hp hpn) _
    simp [prepAcc_cons, prepStep_ident _ n hsafe h58 h42 h124]
  | none =>
    cases pfx with
    | none =>
      have hs : headP (fun l => !(l.typ == .nsPrefix)) out := by
        intro l hl
        have := ho l hl
        simp only [opener, Bool.and_eq_true] at this
        exact this.1.1.2
      simp [Pfx.cooked, prepAcc_cons, prepStep_star out hs]
    | any => simp [Pfx.cooked, prepAcc_cons, Pfx.str]; exact prepStep_star_after_prefix out [42]
    | empty => simp [Pfx.cooked, prepAcc_cons, Pfx.str]; exact prepStep_star_after_prefix out []
    | named q => simp [Pfx.cooked, prepAcc_cons, prepStep_star_after_prefix, Pfx.str]


/-! ## attribute selectors -/

theorem Attr.pfxCooked_eq (a : Attr) : a.pfxCooked = a.pfx.cooked := by
  cases h : a.pfx <;> simp [Attr.pfxCooked, Pfx.cooked, h]

theorem AttOp.plain (o : AttOp) : plainTok o.tok = true := by cases o <;> decide
theorem AttOp.identSafe (o : AttOp) : identSafe o.tok = true := by cases o <;> decide

theorem prep_ident (out : List Tok) (v : Cps) (hv : nameOk v = true) (ho : headP identSafe out) :
    prepAcc out [⟨.ident, v⟩] = ⟨.ident, v⟩ :: out := by
  obtain ⟨_, _, h42, h124, _, h58⟩ := nameOk_parts hv
  simp [prepAcc_cons, prepStep_ident out v ho h58 h42 h124]

theorem lbrack_opener : opener ⟨.char, [91]⟩ = true := by decide
theorem rbrack_plain : plainTok ⟨.char, [93]⟩ = true := by decide
theorem rpar_plain : plainTok ⟨.char, [41]⟩ = true := by decide

theorem prep_attr (ns : NsMap) (a : Attr) (ha : a.ok ns = true) (out : List Tok) :
    prepAcc out a.raw = a.cooked.reverse ++ out := by
  simp only [Attr.ok, Bool.and_eq_true] at ha
  obtain ⟨⟨⟨⟨hf1, hpfx⟩, hname⟩, hf2⟩, hopv⟩ := ha
  simp only [Attr.raw, Attr.cooked, Attr.pfxCooked_eq, Attr.tail, List.cons_append, List.nil_append,
    List.append_assoc, prepAcc_cons, prepAcc_append]
  rw [prepStep_plain out _ (by decide)]
  rw [prep_fills a.f1 hf1]
  have ho1 : headP opener ((a.f1.map Fill.tok).reverse ++ ⟨.char, [91]⟩ :: out) :=
    headP_rev_append _ (fills_opener a.f1 hf1) (headP_cons lbrack_opener out)
  rw [prep_pfx ns a.pfx hpfx _ ho1]
  have hsafe : headP identSafe (a.pfx.cooked.reverse ++ ((a.f1.map Fill.tok).reverse ++ ⟨.char, [91]⟩ :: out)) := by
    by_cases hpn : a.pfx = .none
    · rw [hpn]; simpa [Pfx.cooked] using headP_mono (fun _ => opener_identSafe) ho1
    · have : a.pfx.cooked = [⟨.nsPrefix, a.pfx.str ++ [124]⟩] := by
        cases h : a.pfx <;> simp_all [Pfx.cooked]
      rw [this]
      exact headP_cons (identSafe_prefix ns a.pfx hpfx hpn) _
  obtain ⟨_, _, h42, h124, _, h58⟩ := nameOk_parts hname
  rw [prepStep_ident _ a.name hsafe h58 h42 h124]
  rw [prep_fills a.f2 hf2]
  cases hov : a.opv with
  | none =>
    simp only [Attr.opvToks, hov, prepAcc_nil, prepAcc_cons]
    rw [prepStep_plain _ _ rbrack_plain]
    simp
  | some q =>
    obtain ⟨o, f3, v, f4⟩ := q
    rw [hov] at hopv
    simp only [Bool.and_eq_true] at hopv
    obtain ⟨⟨hf3, hv⟩, hf4⟩ := hopv
    simp only [Attr.opvToks, hov, List.cons_append, List.nil_append, List.append_assoc, prepAcc_cons, prepAcc_append]
    rw [prepStep_plain _ _ (AttOp.plain o)]
    rw [prep_fills f3 hf3]
    have hv' : prepStep ((f3.map Fill.tok).reverse ++ o.tok :: ((a.f2.map Fill.tok).reverse ++ ⟨.ident, a.name⟩ ::
        (a.pfx.cooked.reverse ++ ((a.f1.map Fill.tok).reverse ++ ⟨.char, [91]⟩ :: out)))) v.tok
        = v.tok :: ((f3.map Fill.tok).reverse ++ o.tok :: ((a.f2.map Fill.tok).reverse ++ ⟨.ident, a.name⟩ ::
        (a.pfx.cooked.reverse ++ ((a.f1.map Fill.tok).reverse ++ ⟨.char, [91]⟩ :: out)))) := by
      cases v with
      | ident x =>
        obtain ⟨_, _, x42, x124, _, x58⟩ := nameOk_parts hv
        exact prepStep_ident _ x
          (headP_rev_append _ (fun t ht => opener_identSafe (fills_opener f3 hf3 t ht)) (headP_cons (AttOp.identSafe o) _))
          x58 x42 x124
      | string raw =>
        simp only [AttVal.ok, Bool.and_eq_true] at hv
        have := inert_parts hv.2
        exact prepStep_plain _ _ (by simp [AttVal.tok, plainTok, this])
    rw [hv']
    rw [prep_fills f4 hf4]
    simp only [prepAcc_nil]
    rw [prepStep_plain _ _ rbrack_plain]
    simp


/-! ## pseudos, functions, negation -/

theorem prep_pseudo (out : List Tok) (two : Bool) (n : Cps) (hn : nameOk n = true) (ho : headP noColon out) :
    prepAcc out (colonsRaw two ++ [⟨.ident, n⟩]) = ⟨pseudoTT two, colons two ++ n⟩ :: out := by
  obtain ⟨_, _, _, _, _, h58⟩ := nameOk_parts hn
  cases two with
  | false =>
    simp only [colonsRaw, Bool.false_eq_true, if_false, List.cons_append, List.nil_append, prepAcc_cons, prepAcc_nil]
    rw [prepStep_colon out ho]
    exact prepStep_pseudo_ident out false n h58
  | true =>
    simp only [colonsRaw, if_true, List.cons_append, List.nil_append, prepAcc_cons, prepAcc_nil]
    rw [prepStep_colon out ho, prepStep_colon2]
    exact prepStep_pseudo_ident out true n h58

theorem endsWith_append_right (p f x : Cps) (h : endsWith f x = true) : endsWith (p ++ f) x = true := by
  simp only [endsWith, List.isSuffixOf_iff_suffix] at h ⊢
  obtain ⟨t, ht⟩ := h
  exact ⟨p ++ t, by simp [← ht]⟩

theorem ArgTok.plain_or_ident (a : ArgTok) (ha : a.ok = true) :
    plainTok a.tok = true ∨ ∃ v, a = .ident v ∧ nameOk v = true := by
  cases a with
  | plus => left; decide
  | minus => left; decide
  | num v => left; have := inert_parts ha; simp [ArgTok.tok, plainTok, this]
  | dim v => left; have := inert_parts ha; simp [ArgTok.tok, plainTok, this]
  | str raw =>
    left
    simp only [ArgTok.ok, Bool.and_eq_true] at ha
    have := inert_parts ha.2; simp [ArgTok.tok, plainTok, this]
  | ident v => right; exact ⟨v, rfl, ha⟩
  | ws v => left; have := inert_parts ha; simp [ArgTok.tok, plainTok, this]
  | cm v => left; have := inert_parts ha; simp [ArgTok.tok, plainTok, this]

theorem ArgTok.identSafe (a : ArgTok) (ha : a.ok = true) : identSafe a.tok = true := by
  cases a with
  | plus => decide
  | minus => decide
  | num v => have := inert_parts ha; simp [ArgTok.tok, Sel.identSafe, this]
  | dim v => have := inert_parts ha; simp [ArgTok.tok, Sel.identSafe, this]
  | str raw =>
    simp only [ArgTok.ok, Bool.and_eq_true] at ha
    have := inert_parts ha.2; simp [ArgTok.tok, Sel.identSafe, this]
  | ident v => exact identSafe_ident ha
  | ws v => have := inert_parts ha; simp [ArgTok.tok, Sel.identSafe, this]
  | cm v => have := inert_parts ha; simp [ArgTok.tok, Sel.identSafe, this]

theorem prep_args (args : List ArgTok) (hargs : args.all ArgTok.ok = true) (out : List Tok)
    (ho : headP identSafe out) :
    prepAcc out (args.map ArgTok.tok) = (args.map ArgTok.tok).reverse ++ out := by
  induction args generalizing out with
  | nil => simp
  | cons a t ih =>
    simp only [List.all_cons, Bool.and_eq_true] at hargs
    simp only [List.map_cons, prepAcc_cons]
    have hstep : prepStep out a.tok = a.tok :: out := by
      rcases ArgTok.plain_or_ident a hargs.1 with hp | ⟨v, rfl, hv⟩
      · exact prepStep_plain out _ hp
      · obtain ⟨_, _, h42, h124, _, h58⟩ := nameOk_parts hv
        exact prepStep_ident out v ho h58 h42 h124
    rw [hstep, ih hargs.2 _ (headP_cons (ArgTok.identSafe a hargs.1) out)]
    simp

theorem identSafe_of_paren (ty : TT) (v : Cps) (h46 : (v == [46]) = false) (hv : endsWith v [40] = true) :
    identSafe ⟨ty, v⟩ = true := by
  simp [identSafe, h46, hv]

theorem colons_append_ne_dot (two : Bool) (f : Cps) : (colons two ++ f == [46]) = false := by
  cases two <;> simp [colons]

theorem prep_func (out : List Tok) (two : Bool) (f : Cps) (args : List ArgTok)
    (hs : funcOk two f args = true) (ho : headP noColon out) :
    prepAcc out (funcRaw two f args) = (funcCooked two f args).reverse ++ out := by
  simp only [funcOk, Bool.and_eq_true, Bool.or_eq_true, Bool.not_eq_true'] at hs
  obtain ⟨⟨⟨⟨hf, _⟩, hnot⟩, hargs⟩, _⟩ := hs
  have hopen : prepAcc out (colonsRaw two ++ [⟨.function, f⟩]) = ⟨pseudoTT two, colons two ++ f⟩ :: out := by
    cases two with
    | false =>
      simp only [colonsRaw, Bool.false_eq_true, if_false, List.cons_append, List.nil_append, prepAcc_cons, prepAcc_nil]
      rw [prepStep_colon out ho]
      exact prepStep_pseudo_func out false f hf (by simpa using hnot)
    | true =>
      simp only [colonsRaw, if_true, List.cons_append, List.nil_append, prepAcc_cons, prepAcc_nil]
      rw [prepStep_colon out ho, prepStep_colon2]
      exact prepStep_pseudo_func out true f hf (Or.inl rfl)
  have hsafe : identSafe ⟨pseudoTT two, colons two ++ f⟩ = true :=
    identSafe_of_paren _ _ (colons_append_ne_dot two f) (endsWith_append_right _ _ _ hf)
  simp only [funcRaw, funcCooked, List.append_assoc, prepAcc_append]
  rw [← prepAcc_append out (colonsRaw two), hopen]
  rw [prep_args args hargs _ (headP_cons hsafe out)]
  simp only [prepAcc_cons, prepAcc_nil]
  rw [prepStep_plain _ _ rpar_plain]
  simp

theorem hash_plain (v : Cps) (h : startsWith v [35] = true) : plainTok ⟨.hash, v⟩ = true := by
  cases v with
  | nil => simp [startsWith] at h
  | cons a t =>
    have : a = 35 := by
      have h' : 35 = a := by simpa [startsWith, List.isPrefixOf] using h
      exact h'.symm
    subst this
    simp [plainTok]

theorem negation_opener (fv : Cps) (hf : endsWith fv [40] = true) : opener ⟨.negation, 58 :: fv⟩ = true := by
  have h1 : endsWith (58 :: fv) [40] = true := endsWith_append_right [58] fv [40] hf
  simp [opener, identSafe, h1]

theorem prep_negArg (ns : NsMap) (x : NegArg) (hx : x.ok ns = true) (out : List Tok) (ho : headP opener out) :
    prepAcc out x.raw = x.cooked.reverse ++ out := by
  cases x with
  | type t => exact prep_typeSel ns t hx out ho
  | id v => simp [NegArg.raw, NegArg.cooked, prepAcc_cons, prepStep_plain out _ (hash_plain v hx)]
  | cls n =>
    obtain ⟨_, _, _, _, _, h58⟩ := nameOk_parts hx
    simp [NegArg.raw, NegArg.cooked, prepAcc_cons, prepStep_plain out ⟨.char, [46]⟩ (by decide),
      prepStep_class_ident out n h58]
  | attr a => exact prep_attr ns a hx out
  | pseudo two n =>
    simp only [NegArg.ok, pseudoOk, Bool.and_eq_true] at hx
    simp [NegArg.raw, NegArg.cooked, prep_pseudo out two n hx.1 (headP_mono (fun _ => opener_noColon) ho)]
  | func two f args => exact prep_func out two f args hx (headP_mono (fun _ => opener_noColon) ho)

theorem prep_not (ns : NsMap) (out : List Tok) (fv : Cps) (f1 : List Fill) (x : NegArg) (f2 : List Fill)
    (hs : (Simple.not fv f1 x f2).ok ns = true) (ho : headP noColon out) :
    prepAcc out (Simple.not fv f1 x f2).raw = (Simple.not fv f1 x f2).cooked.reverse ++ out := by
  simp only [Simple.ok, Bool.and_eq_true] at hs
  obtain ⟨⟨⟨⟨hnot, hf⟩, hf1⟩, hx⟩, hf2⟩ := hs
  simp only [Simple.raw, Simple.cooked, List.cons_append, List.nil_append, List.append_assoc, prepAcc_cons,
    prepAcc_append]
  rw [prepStep_colon out ho, prepStep_not out fv hf hnot]
  rw [prep_fills f1 hf1]
  rw [prep_negArg ns x hx _ (headP_rev_append _ (fills_opener f1 hf1) (headP_cons (negation_opener fv hf) out))]
  rw [prep_fills f2 hf2]
  simp only [prepAcc_nil]
  rw [prepStep_plain _ _ rpar_plain]
  simp

/-! ## simple selectors, compounds -/

theorem prep_simple (ns : NsMap) (s : Simple) (hs : s.ok ns = true) (out : List Tok) (ho : headP noColon out) :
    prepAcc out s.raw = s.cooked.reverse ++ out := by
  cases s with
  | id v => simp [Simple.raw, Simple.cooked, prepAcc_cons, prepStep_plain out _ (hash_plain v hs)]
  | cls n =>
    obtain ⟨_, _, _, _, _, h58⟩ := nameOk_parts hs
    simp [Simple.raw, Simple.cooked, prepAcc_cons, prepStep_plain out ⟨.char, [46]⟩ (by decide),
      prepStep_class_ident out n h58]
  | attr a => exact prep_attr ns a hs out
  | pseudo two n =>
    simp only [Simple.ok, pseudoOk, Bool.and_eq_true] at hs
    simp [Simple.raw, Simple.cooked, prep_pseudo out two n hs.1 ho]
  | func two f args => exact prep_func out two f args hs ho
  | not fv f1 x f2 => exact prep_not ns out fv f1 x f2 hs ho


theorem headP_snoc {p : Tok → Bool} (l : List Tok) (x : Tok) (hx : p x = true) (out : List Tok) :
    headP p ((l ++ [x]).reverse ++ out) := by
  simpa using headP_cons hx (l.reverse ++ out)

theorem simple_cooked_last (ns : NsMap) (s : Simple) (hs : s.ok ns = true) :
    ∃ l x, s.cooked = l ++ [x] ∧ noColon x = true := by
  cases s with
  | id v =>
    refine ⟨[], ⟨.hash, v⟩, rfl, ?_⟩
    have := hash_plain v hs
    simp only [plainTok, Bool.and_eq_true] at this
    exact this.1.1.1.1
  | cls n => exact ⟨[], ⟨.cls, 46 :: n⟩, rfl, by simp [noColon]⟩
  | attr a =>
    refine ⟨[⟨.char, [91]⟩] ++ a.f1.map Fill.tok ++ a.pfxCooked ++ ([⟨.ident, a.name⟩] ++ a.f2.map Fill.tok ++
      a.opvToks), ⟨.char, [93]⟩, ?_, by decide⟩
    simp [Simple.cooked, Attr.cooked, Attr.tail, List.append_assoc]
  | pseudo two n =>
    simp only [Simple.ok, pseudoOk, Bool.and_eq_true] at hs
    obtain ⟨hne, _⟩ := nameOk_parts hs.1
    refine ⟨[], ⟨pseudoTT two, colons two ++ n⟩, rfl, ?_⟩
    cases n with
    | nil => exact absurd rfl hne
    | cons a t => cases two <;> simp [noColon, colons]
  | func two f args =>
    exact ⟨[⟨pseudoTT two, colons two ++ f⟩] ++ args.map ArgTok.tok, ⟨.char, [41]⟩,
      by simp [Simple.cooked, funcCooked], by decide⟩
  | not fv f1 x f2 =>
    exact ⟨[⟨.negation, 58 :: fv⟩] ++ f1.map Fill.tok ++ x.cooked ++ f2.map Fill.tok, ⟨.char, [41]⟩,
      by simp [Simple.cooked], by decide⟩

theorem cmToks_plain (cs : List Cps) (hcs : cs.all inert = true) : ∀ t ∈ cmToks cs, plainTok t = true := by
  intro t ht
  simp only [cmToks, List.mem_map] at ht
  obtain ⟨v, hv, rfl⟩ := ht
  have := inert_parts (List.all_eq_true.mp hcs v hv)
  simp [plainTok, this]

theorem cmToks_noColon (cs : List Cps) (hcs : cs.all inert = true) : ∀ t ∈ cmToks cs, noColon t = true := by
  intro t ht
  simp only [cmToks, List.mem_map] at ht
  obtain ⟨v, hv, rfl⟩ := ht
  have := inert_parts (List.all_eq_true.mp hcs v hv)
  simp [noColon, this]

theorem prep_rest (ns : NsMap) (l : List (List Cps × Simple)) (hl : restOk ns l = true) (out : List Tok)
    (ho : headP noColon out) :
    prepAcc out (restRaw l) = (restCooked l).reverse ++ out ∧ headP noColon ((restCooked l).reverse ++ out) := by
  induction l generalizing out with
  | nil => simpa [restRaw, restCooked] using ho
  | cons x t ih =>
    obtain ⟨cs, s⟩ := x
    have hx : cs.all inert = true ∧ s.ok ns = true ∧ restOk ns t = true := by
      cases t with
      | nil => simp only [restOk, Bool.and_eq_true] at hl; exact ⟨hl.1, hl.2, rfl⟩
      | cons y u =>
        simp only [restOk, Bool.and_eq_true] at hl
        exact ⟨hl.1.1.1, hl.1.1.2, hl.2⟩
    obtain ⟨hcs, hs, ht⟩ := hx
    simp only [restRaw, restCooked, prepAcc_append]
    rw [prepAcc_plain _ (cmToks_plain cs hcs)]
    have h1 : headP noColon ((cmToks cs).reverse ++ out) := headP_rev_append _ (cmToks_noColon cs hcs) ho
    rw [prep_simple ns s hs _ h1]
    obtain ⟨l0, x0, hl0, hx0⟩ := simple_cooked_last ns s hs
    have h2 : headP noColon (s.cooked.reverse ++ ((cmToks cs).reverse ++ out)) := by
      rw [hl0]; exact headP_snoc l0 x0 hx0 _
    obtain ⟨e1, e2⟩ := ih ht _ h2
    constructor
    · rw [e1]; simp [List.append_assoc]
    · simpa [List.append_assoc] using e2

theorem typeSel_cooked_last (ns : NsMap) (t : TypeSel) (ht : t.ok ns = true) :
    ∃ l x, t.cooked = l ++ [x] ∧ noColon x = true := by
  obtain ⟨pfx, name⟩ := t
  simp only [TypeSel.ok, Bool.and_eq_true] at ht
  rw [TypeSel.cooked_eq]
  cases name with
  | some n =>
    obtain ⟨_, _, _, _, _, h58⟩ := nameOk_parts ht.2
    exact ⟨pfx.cooked, ⟨.ident, n⟩, rfl, by simp [noColon, h58]⟩
  | none =>
    cases pfx with
    | none => exact ⟨[], _, rfl, by decide⟩
    | any => exact ⟨[], _, rfl, by decide⟩
    | empty => exact ⟨[], _, rfl, by decide⟩
    | named q =>
      refine ⟨[], _, rfl, ?_⟩
      simp only [noColon, Pfx.str, Bool.not_eq_true']
      cases q <;> simp

theorem prep_compound (ns : NsMap) (c : Compound) (hc : c.ok ns = true) (out : List Tok) (ho : headP opener out) :
    prepAcc out c.raw = c.cooked.reverse ++ out := by
  obtain ⟨head, rest⟩ := c
  simp only [Compound.ok, Bool.and_eq_true] at hc
  obtain ⟨⟨hh, hr⟩, _⟩ := hc
  cases head with
  | some t =>
    simp only [Compound.raw, Compound.cooked, prepAcc_append]
    rw [prep_typeSel ns t hh out ho]
    obtain ⟨l0, x0, hl0, hx0⟩ := typeSel_cooked_last ns t hh
    have h2 : headP noColon (t.cooked.reverse ++ out) := by rw [hl0]; exact headP_snoc l0 x0 hx0 _
    rw [(prep_rest ns rest hr _ h2).1]
    simp [List.append_assoc]
  | none =>
    simp only [Compound.raw, Compound.cooked, List.nil_append]
    exact (prep_rest ns rest hr out (headP_mono (fun _ => opener_noColon) ho)).1

theorem Comb.plain (o : Comb) : plainTok ⟨.char, [o.cp]⟩ = true := by cases o <;> decide
theorem Comb.opener (o : Comb) : opener ⟨.char, [o.cp]⟩ = true := by cases o <;> decide

theorem prep_gap (g : Gap) (hg : g.ok = true) (out : List Tok) :
    prepAcc out g.toks = g.toks.reverse ++ out ∧ headP opener (g.toks.reverse ++ out) := by
  obtain ⟨pre, op⟩ := g
  simp only [Gap.ok, Bool.and_eq_true] at hg
  obtain ⟨hpre, hop⟩ := hg
  cases op with
  | none =>
    simp only [] at hop
    have hne : pre.map Fill.tok ≠ [] := by
      intro h
      have : pre = [] := by simpa using h
      simp [this] at hop
    simp only [Gap.toks, List.append_nil]
    exact ⟨prep_fills pre hpre out, headP_rev_append_ne _ (fills_opener pre hpre) hne out⟩
  | some q =>
    obtain ⟨o, post⟩ := q
    simp only [] at hop
    have hall : ∀ t ∈ pre.map Fill.tok ++ ⟨.char, [o.cp]⟩ :: post.map Fill.tok, plainTok t = true ∧ opener t = true := by
      intro t ht
      simp only [List.mem_append, List.mem_cons] at ht
      rcases ht with h | h | h
      · exact ⟨fills_plain pre hpre t h, fills_opener pre hpre t h⟩
      · subst h; exact ⟨Comb.plain o, Comb.opener o⟩
      · exact ⟨fills_plain post hop t h, fills_opener post hop t h⟩
    simp only [Gap.toks]
    exact ⟨prepAcc_plain _ (fun t ht => (hall t ht).1) out,
           headP_rev_append_ne _ (fun t ht => (hall t ht).2) (by simp) out⟩

theorem prep_more (ns : NsMap) (l : List (Gap × Compound)) (hl : l.all (fun gc => gc.1.ok && gc.2.ok ns) = true)
    (out : List Tok) :
    prepAcc out (moreRaw l) = (moreCooked l).reverse ++ out := by
  induction l generalizing out with
  | nil => simp [moreRaw, moreCooked]
  | cons x t ih =>
    obtain ⟨g, c⟩ := x
    simp only [List.all_cons, Bool.and_eq_true] at hl
    simp only [moreRaw, moreCooked, prepAcc_append]
    obtain ⟨e1, e2⟩ := prep_gap g hl.1.1 out
    rw [e1, prep_compound ns c hl.1.2 _ e2, ih hl.2]
    simp [List.append_assoc]

/-- **`Selector._prepare_tokens` regroups the tokenizer's tokens of a written selector as intended** -/
theorem prepare_raw (ns : NsMap) (s : Sel) (hs : s.ok ns = true) : prepare s.raw = s.cooked := by
  simp only [Sel.ok, Bool.and_eq_true] at hs
  obtain ⟨⟨⟨hlead, hf⟩, hm⟩, htrail⟩ := hs
  simp only [prepare, Sel.raw, Sel.cooked, prepAcc_append]
  rw [prep_fills s.lead hlead]
  rw [prep_compound ns s.first hf _ (headP_rev_append _ (fills_opener s.lead hlead) (headP_nil _))]
  rw [prep_more ns s.more hm]
  rw [prep_fills s.trail htrail]
  simp [List.append_assoc]

end CssVerif.Sel
