import CssVerif.Lemmas.OutSheetLayout
/-!
# The `Solid` guards of the layout theorem hold for blocks of the shape the parser builds

After the repair of `do_css_CSSStyleDeclaration` (an unknown at-rule without text is not appended) the text of a
declaration block is empty or has non-white-space content, provided its items have: comments and stray strings with
non-white-space content, ordinary properties, unknown at-rules with a keyword.
-/
namespace CssVerif.Out
open CssVerif.Proto (Cps)

/-- the item cannot be written as white space only -/
def DItem.solidSrc : DItem → Bool
  | .comment t => !(stripWs t).isEmpty
  | .prop pr => !pr.mq
  | .urule r => r.keyworded
  | .other s => !(stripWs s).isEmpty

theorem solid_of_strip_ne {t : Cps} (h : stripWs t ≠ []) : Solid t := by
  unfold Solid
  cases t with
  | nil => exact absurd rfl h
  | cons a b =>
    cases hs : stripWs (a :: b) with
    | nil => exact absurd hs h
    | cons c d => rfl

theorem strip_ne_of_solid {t : Cps} (hs : Solid t) (hne : t.isEmpty = false) : stripWs t ≠ [] := by
  unfold Solid at hs
  intro e
  rw [e, hne] at hs
  exact absurd hs (by decide)

theorem stripWs_doProperty_ne (p : Prefs) (lv : Nat) (pr : Property) (hmq : pr.mq = false)
    (hne : (doProperty p lv pr).isEmpty = false) : stripWs (doProperty p lv pr) ≠ [] := by
  have hc : (!pr.nameseq.isEmpty && pr.wf && validOk p pr.valid) = true := by
    have := doProperty_isEmpty p lv pr hmq
    rw [hne] at this
    cases h : (!pr.nameseq.isEmpty && pr.wf && validOk p pr.valid)
    · rw [h] at this; exact absurd this (by decide)
    · rfl
  rw [doProperty_eq p lv pr hmq hc]
  intro e
  simp only [stripWs_append] at e
  have h58 : stripWs [58] = [58] := by decide
  rw [h58] at e
  simp at e

/-- one item contributes nothing, or pieces with non-white-space content -/
theorem declHere_solid {r : Prefs} (hr : WsPrefs r) (lv : Nat) (sep : Cps) (om : Bool) (it : DItem)
    (hs : it.solidSrc = true) (out : List Cps) (ho : declHere r lv sep om it = .ok out) :
    out = [] ∨ stripWs out.flatten ≠ [] := by
  cases it with
  | comment t =>
    simp only [declHere, pure, Except.pure, Except.ok.injEq] at ho
    subst ho
    split
    · right
      rename_i hk
      have hne : stripWs t ≠ [] := by
        intro e; simp [DItem.solidSrc, e] at hs
      have ht : t ≠ [] := by intro e; subst e; exact hne rfl
      have : doComment r t = t := by
        unfold doComment
        simp [hk, ht]
      simp only [this, List.flatten_cons, stripWs_append]
      intro e
      exact hne (List.append_eq_nil_iff.mp e).1
    · left; rfl
  | prop pr =>
    have hmq : pr.mq = false := by simpa [DItem.solidSrc] using hs
    simp only [declHere, pure, Except.pure, Except.ok.injEq] at ho
    subst ho
    split
    · right
      rename_i hne
      have hne' : (doProperty r lv pr).isEmpty = false := by simpa using hne
      have := stripWs_doProperty_ne r lv pr hmq hne'
      split <;> (simp only [List.flatten_cons, stripWs_append]; intro e; exact this (List.append_eq_nil_iff.mp e).1)
    · left; rfl
  | urule u =>
    have hk : u.keyworded = true := by simpa [DItem.solidSrc] using hs
    simp only [declHere] at ho
    cases hu : doURule r lv u with
    | error e => rw [hu] at ho; simp at ho
    | ok t =>
      rw [hu] at ho
      simp only [pure, Except.pure, Except.ok.injEq] at ho
      subst ho
      split
      · right
        rename_i hne
        have hne' : t.isEmpty = false := by simpa using hne
        have := strip_ne_of_solid (doURule_solid hr lv u hk t hu) hne'
        simp only [List.flatten_cons, stripWs_append]
        intro e; exact this (List.append_eq_nil_iff.mp e).1
      · left; rfl
  | other s =>
    simp only [declHere, pure, Except.pure, Except.ok.injEq] at ho
    subst ho
    right
    have hne : stripWs s ≠ [] := by
      intro e; simp [DItem.solidSrc, e] at hs
    simp only [List.flatten_cons, stripWs_append]
    intro e; exact hne (List.append_eq_nil_iff.mp e).1

theorem declOut_solid {r : Prefs} (hr : WsPrefs r) (lv : Nat) (sep : Cps) (ol : Bool) :
    ∀ (items : List DItem), (∀ it ∈ items, it.solidSrc = true) → ∀ out, declOut r lv sep ol items = .ok out →
      out = [] ∨ stripWs out.flatten ≠ []
  | [], _, out, ho => by
    simp only [declOut, pure, Except.pure, Except.ok.injEq] at ho
    left; exact ho.symm
  | it :: rest, hs, out, ho => by
    simp only [declOut] at ho
    cases hh : declHere r lv sep (ol && rest.isEmpty) it with
    | error e => rw [hh] at ho; simp at ho
    | ok h1 =>
      rw [hh] at ho
      cases hr2 : declOut r lv sep ol rest with
      | error e => rw [hr2] at ho; simp at ho
      | ok m =>
        rw [hr2] at ho
        simp only [pure, Except.pure, Except.ok.injEq] at ho
        subst ho
        have a := declHere_solid hr lv sep _ it (hs it List.mem_cons_self) h1 hh
        have b := declOut_solid hr lv sep ol rest (fun x hx => hs x (List.mem_cons_of_mem _ hx)) m hr2
        rcases a with rfl | a
        · simpa using b
        · right
          simp only [List.flatten_append, stripWs_append]
          intro e; exact a (List.append_eq_nil_iff.mp e).1

/-- **The block-text guard is syntactic.** For a block whose items cannot be written as white space only, the text of
the block is empty or has non-white-space content under every record with white-space layout strings. -/
theorem declSolid_of_items {r : Prefs} (hr : WsPrefs r) (lv : Nat) (items : List DItem) (om : Bool)
    (hs : ∀ it ∈ items, it.solidSrc = true) : DeclSolid r lv items om := by
  intro t ht
  unfold doDecl at ht
  split at ht
  · simp only [pure, Except.pure, Except.ok.injEq] at ht
    subst ht; rfl
  · cases ho : declOut r lv r.lineSeparator (om && r.omitLastSemicolon) (declSeq r items) with
    | error e => rw [ho] at ht; simp [declFinish] at ht
    | ok out =>
      rw [ho] at ht
      simp only [declFinish, pure, Except.pure, Except.ok.injEq] at ht
      subst ht
      have hs' : ∀ it ∈ declSeq r items, it.solidSrc = true := fun it hit => hs it (declSeq_mem r items it hit)
      rcases declOut_solid hr lv _ _ _ hs' out ho with rfl | hne
      · rfl
      · apply solid_of_strip_ne
        rw [stripWs_dropSep hr.lineSeparator]
        exact hne

end CssVerif.Out
