import CssVerif.Lemmas.SheetSpecAt
/-!
# Lemmas for C02: `@page` — selector, margin boxes, declarations
-/
namespace CssVerif.SheetSpec
open CssVerif.Proto (Cps)
open CssVerif.Struct CssVerif.AtRules
set_option linter.unusedSimpArgs false
set_option linter.unusedVariables false

/-! ## the page selector -/

theorem pgStep_rest_le (s : PgSt) (t : Tok) (rest : List Tok) : (pgStep s t rest).2.length ≤ rest.length := by
  unfold pgStep
  split
  · split
    · split
      · simp
      · split <;> simp <;> omega
    · simp
  · simp
  · split <;> simp
  · simp
  · split
    · simp
    · exact upto_rest_le _ _ _
  · simp
  · simp

theorem pgLoop_cons (s : PgSt) (t : Tok) (ts : List Tok) :
    parseLoop pgStep s (t :: ts) = parseLoop pgStep (pgStep s t ts).1 (pgStep s t ts).2 :=
  parseLoop_cons _ _ _ _ (pgStep_rest_le s t ts)

/-- white space and comments change nothing but `lastS` -/
theorem pgLoop_gap (g : List Tok) (hg : ∀ t ∈ g, isGapTok t = true) (s : PgSt) :
    (parseLoop pgStep s g).wf = s.wf ∧ (parseLoop pgStep s g).name = s.name ∧
      (parseLoop pgStep s g).pseudo = s.pseudo := by
  induction g generalizing s with
  | nil => simp [parseLoop_nil]
  | cons t ts ih =>
    have ht := hg t (by simp)
    simp only [isGapTok, Bool.or_eq_true, beq_iff_eq] at ht
    rw [pgLoop_cons]
    rcases ht with h | h
    · simp only [pgStep, h]
      obtain ⟨a, b, c⟩ := ih (fun x hx => hg x (by simp [hx]))
        (if s.exp = .colonOrEof then { s with lastS := true } else s)
      refine ⟨a.trans ?_, b.trans ?_, c.trans ?_⟩ <;> split <;> rfl
    · simp only [pgStep, h]
      exact ih (fun x hx => hg x (by simp [hx])) s

theorem pgStep_gap_page (t : Tok) (ht : isGapTok t = true) (s : PgSt) (rest : List Tok) (hs : s.exp = .page) :
    pgStep s t rest = (s, rest) := by
  simp only [isGapTok, Bool.or_eq_true, beq_iff_eq] at ht
  rcases ht with h | h <;> simp [pgStep, h, hs]

theorem pgStep_comment (t : Tok) (ht : t.typ = .comment) (s : PgSt) (rest : List Tok) :
    pgStep s t rest = (s, rest) := by
  simp [pgStep, ht]

/-- what a spelled page selector must satisfy -/
structure PageSelWF (sel : SPageSel) : Prop where
  nameOk : ∀ n, sel.name = some n → SafeVal n ∧ normalize n ≠ CssVerif.Proto.cps "auto"
  /-- `first` / `left` / `right` in any spelling, or any other ident exactly as the abstract sheet has it -/
  pseudoOk : ∀ p, sel.pseudo = some p →
    (NameOk p ∧ knownPseudo.contains p = true) ∨
    (sel.pseudoSp = [] ∧ SafeVal p ∧ knownPseudo.contains (normalize p) = false)

theorem spell_nil (n : Cps) : spell [] n = n := by
  induction n with
  | nil => rfl
  | cons c t ih => simp only [spell, CssVerif.Normalize.spell] at ih ⊢; rw [ih]

/-- the stored pseudo-page name of a spelled one is the abstract one -/
theorem pagePseudo_spell (sel : SPageSel) (h : PageSelWF sel) (p : Cps) (hp : sel.pseudo = some p) :
    pagePseudo (spell sel.pseudoSp p) = p ∧ SafeVal (spell sel.pseudoSp p) := by
  rcases h.pseudoOk p hp with ⟨hn, hk⟩ | ⟨hm, hs, hk⟩
  · refine ⟨?_, spell_safe p _ hn⟩
    unfold pagePseudo
    rw [normalize_spell p _ hn, hk]
    rfl
  · rw [hm, spell_nil]
    refine ⟨?_, hs⟩
    unfold pagePseudo
    rw [hk]
    rfl

/-- `__parseSelectorText` on `g0 sel g1` -/
theorem pageSelector_render (g0 : Gap) (sel : SPageSel) (g1 : Gap) (h : PageSelWF sel) :
    pageSelector (Gap.toks g0 ++ (sel.toks ++ Gap.toks g1)) = some ⟨sel.name, sel.pseudo⟩ := by
  unfold pageSelector
  rw [parseLoop_skip_inv pgStep (fun s => s.exp = .page) _ _
    (fun t ht s rest hs => pgStep_gap_page t ((gapL_toks g0).isGap t ht) s rest hs) {} rfl]
  have hfin : ∀ s : PgSt, s.wf = true →
      (let s' := parseLoop pgStep s (Gap.toks g1); (if s'.wf then some (⟨s'.name, s'.pseudo⟩ : PageSel) else none))
        = some ⟨s.name, s.pseudo⟩ := by
    intro s hs
    obtain ⟨a, b, c⟩ := pgLoop_gap (Gap.toks g1) (gapL_toks g1).isGap s
    simp [a, b, c, hs]
  have hpseudo : ∀ (s : PgSt) (p : Cps), s.wf = true → s.lastS = false → (s.exp = .page ∨ s.exp = .colonOrEof) →
      s.pseudo = none → sel.pseudo = some p →
      (let s' := parseLoop pgStep s ([colonTok, identTok (spell sel.pseudoSp p)] ++ Gap.toks g1);
        (if s'.wf then some (⟨s'.name, s'.pseudo⟩ : PageSel) else none)) = some ⟨s.name, some p⟩ := by
    intro s p hw hl he hp hsp
    have hpp := (pagePseudo_spell sel h p hsp).1
    have e : pgStep s colonTok (identTok (spell sel.pseudoSp p) :: Gap.toks g1) =
        ({ s with pseudo := some p, exp := .eof }, Gap.toks g1) := by
      simp [pgStep, colonTok, charTok, identTok, hl, he, vColon, hpp]
    simp only [List.cons_append, List.nil_append]
    rw [pgLoop_cons, e]
    exact hfin _ hw
  cases hn : sel.name with
  | none =>
    cases hp : sel.pseudo with
    | none =>
      simp only [SPageSel.toks, hn, hp, List.append_nil, List.nil_append]
      exact hfin {} rfl
    | some p =>
      simp only [SPageSel.toks, hn, hp, List.nil_append]
      exact hpseudo {} p rfl rfl (Or.inl rfl) rfl hp
  | some n =>
    obtain ⟨_, hauto⟩ := h.nameOk n hn
    have e1 : ∀ rest, pgStep {} (identTok n) rest = ({ name := some n, exp := .colonOrEof }, rest) := by
      intro rest
      simp [pgStep, identTok, hauto]
    have hmid : ∀ (s : PgSt) (x : List Tok), parseLoop pgStep s (sel.mid.map commentTok ++ x) = parseLoop pgStep s x := by
      intro s x
      apply parseLoop_skip
      intro t ht s rest
      simp only [List.mem_map] at ht
      obtain ⟨b, _, rfl⟩ := ht
      exact pgStep_comment _ rfl s rest
    cases hp : sel.pseudo with
    | none =>
      simp only [SPageSel.toks, hn, hp, List.append_nil, List.cons_append]
      rw [pgLoop_cons, e1]
      simp only
      rw [hmid]
      exact hfin _ rfl
    | some p =>
      simp only [SPageSel.toks, hn, hp, List.cons_append, List.append_assoc]
      rw [pgLoop_cons, e1]
      simp only
      rw [hmid]
      exact hpseudo _ p rfl rfl (Or.inr rfl) rfl hp

/-- the tokens of a page selector never interest `_tokensupto2` -/
theorem pageSel_flat (sel : SPageSel) (h : PageSelWF sel) (m : Mode) (hm : m = .default ∨ m = .blockstart) :
    ∀ t ∈ sel.toks, Flat m t := by
  intro t ht
  have hid : ∀ v, SafeVal v → Flat m (identTok v) := fun v hv =>
    safe_flat m _ hv (by simp [identTok]) (by simp [identTok]) (by simp [identTok])
  have hcol : Flat m colonTok := by
    refine ⟨by decide, by decide, ?_⟩
    rcases hm with rfl | rfl <;> decide
  simp only [SPageSel.toks, List.mem_append] at ht
  rcases ht with ht | ht
  · cases hn : sel.name with
    | none => simp [hn] at ht
    | some n =>
      simp only [hn, List.mem_cons, List.mem_map] at ht
      rcases ht with rfl | ⟨b, _, rfl⟩
      · exact hid n (h.nameOk n hn).1
      · exact gapTok_flat m (.cm b)
  · cases hp : sel.pseudo with
    | none => simp [hp] at ht
    | some p =>
      simp only [hp, List.mem_cons, List.mem_nil_iff, or_false] at ht
      rcases ht with rfl | rfl
      · exact hcol
      · exact hid _ (pagePseudo_spell sel h p hp).2

/-! ## margin boxes -/

def marginSafe (t : Tok) : Prop := t.typ ≠ .invalid ∧ t.typ ≠ .eof ∧ t.typ ≠ .atkeyword ∧ t.val ≠ vRBrace

/-- the block of a margin box: white space and comments are dropped, everything else is stored up to the `}` -/
theorem marginBody_block (B Y : List Tok) (hB : ∀ t ∈ B, marginSafe t) :
    marginBody true (B ++ rbraceTok :: Y) = some (squeeze B, Y) := by
  induction B with
  | nil => simp [marginBody, rbraceTok, charTok, squeeze, vRBrace]
  | cons t ts ih =>
    obtain ⟨h1, h2, h3, h4⟩ := hB t (by simp)
    have ih' := ih (fun x hx => hB x (by simp [hx]))
    by_cases hg : isGapTok t = true
    · have hg' : t.typ = .s ∨ t.typ = .comment := by
        simpa [isGapTok] using hg
      simp only [List.cons_append, marginBody, hg', ↓reduceIte, ih']
      simp [squeeze, hg]
    · have hg' : ¬(t.typ = .s ∨ t.typ = .comment) := by
        simpa [isGapTok] using hg
      simp only [List.cons_append, marginBody, hg', ↓reduceIte, h1, h2, h3, h4, or_self, ih']
      simp [squeeze, hg]

theorem marginBody_render (g : Gap) (B Y : List Tok) (hB : ∀ t ∈ B, marginSafe t) :
    marginBody false (Gap.toks g ++ lbraceTok :: (B ++ rbraceTok :: Y)) = some (squeeze B, Y) := by
  induction g with
  | nil =>
    simp only [Gap.toks, List.map_nil, List.nil_append, marginBody]
    simp [lbraceTok, charTok, vLBrace, marginBody_block B Y hB]
  | cons a g ih =>
    have ha := gapTok_isGap a
    have ha' : a.tok.typ = .s ∨ a.tok.typ = .comment := by simpa [isGapTok] using ha
    simp only [Gap.toks, List.map_cons, List.cons_append, marginBody, ha', ↓reduceIte]
    exact ih

/-- `splitMargins` with the fuel its caller gives it -/
def splitM (O : Oracle) (M : List Cps) (ts : List Tok) : Option (List Margin × List Tok) :=
  splitMargins O M (ts.length + 1) ts

theorem splitMargins_fuel (O : Oracle) (M : List Cps) (n : Nat) :
    ∀ (ts : List Tok) (f : Nat), ts.length ≤ n → ts.length < f → splitMargins O M f ts = splitM O M ts := by
  induction n with
  | zero =>
    intro ts f hn hf
    have : ts = [] := List.length_eq_zero_iff.mp (by omega)
    subst this
    cases f with
    | zero => omega
    | succ f => simp [splitM, splitMargins]
  | succ n ih =>
    intro ts f hn hf
    cases ts with
    | nil =>
      cases f with
      | zero => omega
      | succ f => simp [splitM, splitMargins]
    | cons t ts =>
      cases f with
      | zero => omega
      | succ f =>
        simp only [List.length_cons] at hn hf
        unfold splitM
        simp only [List.length_cons, splitMargins]
        split
        · cases hm : marginBody false ts with
          | none => rfl
          | some p =>
            obtain ⟨st, rest⟩ := p
            have hle := marginBody_rest_le false ts st rest hm
            simp only
            rw [ih rest f (by omega) (by omega), ih rest (ts.length + 1) (by omega) (by omega)]
        · rw [ih ts f (by omega) (by omega), ih ts (ts.length + 1) (by omega) (by omega)]

theorem splitM_nil (O : Oracle) (M : List Cps) : splitM O M [] = some ([], []) := by
  simp [splitM, splitMargins]

/-- tokens that are not margin at-keywords go to the style -/
theorem splitM_plain (O : Oracle) (M : List Cps) (X Y : List Tok) (hX : ∀ t ∈ X, isMarginKw M t = false) :
    splitM O M (X ++ Y) = (splitM O M Y).map (fun p => (p.1, X ++ p.2)) := by
  induction X with
  | nil => cases h : splitM O M Y <;> simp [h]
  | cons t ts ih =>
    have ht := hX t (by simp)
    have ih' := ih (fun x hx => hX x (by simp [hx]))
    unfold splitM at ih' ⊢
    simp only [List.cons_append, List.length_cons, splitMargins, ht, Bool.false_eq_true, ↓reduceIte]
    rw [ih']
    cases h : splitMargins O M (Y.length + 1) Y with
    | none => simp
    | some p => simp

/-- a margin box is split off -/
theorem splitM_margin (O : Oracle) (M : List Cps) (kw : Tok) (g : Gap) (B Y : List Tok)
    (hk : isMarginKw M kw = true) (hB : ∀ t ∈ B, marginSafe t) :
    splitM O M (kw :: (Gap.toks g ++ lbraceTok :: (B ++ rbraceTok :: Y))) =
      match splitM O M Y with
      | none => none
      | some (ms, style) =>
        if ms.any (fun m => m.name = normalize kw.val) then none
        else some (⟨normalize kw.val, parseDecls O (squeeze B)⟩ :: ms, style) := by
  have hm := marginBody_render g B Y hB
  have hle := marginBody_rest_le false _ _ _ hm
  unfold splitM
  simp only [List.length_cons, splitMargins, hk, ↓reduceIte, hm]
  rw [splitMargins_fuel O M Y.length Y _ (Nat.le_refl _) (by omega)]
  rfl

/-! ## squeezed blocks: what a margin box hands to its style declaration -/

theorem squeeze_append (a b : List Tok) : squeeze (a ++ b) = squeeze a ++ squeeze b := by
  simp [squeeze]

theorem squeeze_gap (g : List Tok) (h : ∀ t ∈ g, isGapTok t = true) : squeeze g = [] := by
  simp only [squeeze, List.filter_eq_nil_iff]
  intro t ht
  simp [h t ht]

theorem squeeze_cons_keep (t : Tok) (l : List Tok) (h : isGapTok t = false) : squeeze (t :: l) = t :: squeeze l := by
  simp [squeeze, h]

theorem squeeze_cons_drop (t : Tok) (l : List Tok) (h : isGapTok t = true) : squeeze (t :: l) = squeeze l := by
  simp [squeeze, h]

def sqPrio : Option (Gap × Cps × Mask × Gap) → Option (Gap × Cps × Mask × Gap)
  | none => none
  | some (_, n, sp, _) => some ([], n, sp, [])

/-- a declaration without any white space or comment -/
def sqDecl (d : SDecl) : SDecl :=
  { name := d.name, nameSp := d.nameSp, value := squeeze d.value, prio := sqPrio d.prio }

def sqItems : List (SItem × WGap) → List (SItem × WGap)
  | [] => []
  | (.decl d, _) :: rest => (.decl (sqDecl d), []) :: sqItems rest
  | (.semi, _) :: rest => (.semi, []) :: sqItems rest
  | (_, _) :: rest => sqItems rest

def sqBlock (b : SBlock) : SBlock := { lead := [], items := sqItems b.items, last := b.last.map sqDecl }

theorem squeeze_renderPrio (p : Option (Gap × Cps × Mask × Gap)) : squeeze (renderPrio p) = renderPrio (sqPrio p) := by
  cases p with
  | none => rfl
  | some p =>
    obtain ⟨g4, n, sp, g5⟩ := p
    simp only [renderPrio, sqPrio]
    rw [squeeze_cons_keep _ _ (by rfl), squeeze_append, squeeze_gap _ (gapL_toks g4).isGap,
      squeeze_cons_keep _ _ (by rfl), squeeze_gap _ (gapL_toks g5).isGap]
    simp [Gap.toks]

theorem squeeze_sdecl (d : SDecl) : squeeze d.toks = (sqDecl d).toks := by
  simp only [SDecl.toks, sqDecl]
  rw [squeeze_cons_keep _ _ (by rfl), squeeze_append, squeeze_gap _ (gapL_toks d.g1).isGap,
    squeeze_cons_keep _ _ (by rfl), squeeze_append, squeeze_gap _ (gapL_toks d.g2).isGap, squeeze_append,
    squeeze_append, squeeze_gap _ (gapL_toks d.g3).isGap, squeeze_renderPrio]
  simp [Gap.toks]

def noUnknownItems (items : List (SItem × WGap)) : Prop := ∀ p ∈ items, ∀ t, p.1 ≠ .unknown t

theorem squeeze_items (items : List (SItem × WGap)) (h : noUnknownItems items) :
    squeeze (renderItems items) = renderItems (sqItems items) := by
  induction items with
  | nil => rfl
  | cons p rest ih =>
    obtain ⟨i, w⟩ := p
    have ih' := ih (fun q hq => h q (by simp [hq]))
    simp only [renderItems, squeeze_append, squeeze_gap _ (gapL_wtoks w).isGap, List.nil_append]
    cases i with
    | decl d =>
      simp only [SItem.toks, sqItems, renderItems, squeeze_append, squeeze_sdecl, ih']
      simp [squeeze, semiTok, charTok, isGapTok, WGap.toks]
    | comment b =>
      simp only [SItem.toks, sqItems, ih']
      simp [squeeze, commentTok, isGapTok]
    | unknown t => exact absurd rfl (h (_, w) (by simp) t)
    | semi =>
      simp only [SItem.toks, sqItems, renderItems, ih']
      simp [squeeze, semiTok, charTok, isGapTok, WGap.toks]

theorem squeeze_block (b : SBlock) (h : noUnknownItems b.items) : squeeze b.toks = (sqBlock b).toks := by
  simp only [SBlock.toks, sqBlock, squeeze_append, squeeze_gap _ (gapL_wtoks b.lead).isGap, squeeze_items _ h]
  cases hl : b.last with
  | none => simp [renderLast, squeeze, WGap.toks]
  | some d => simp [renderLast, squeeze_sdecl, WGap.toks]

theorem strip_squeeze (v : List Tok) : strip (squeeze v) = squeeze v := by
  simp only [strip, squeeze, List.filter_filter]
  apply List.filter_congr
  intro t _
  simp only [isGapTok, notComment]
  cases h : t.typ <;> simp

theorem sqDecl_erase (d : SDecl) : (sqDecl d).erase = d.eraseSq := by
  simp only [SDecl.erase, sqDecl, SDecl.eraseSq, strip_squeeze]
  cases d.prio with
  | none => rfl
  | some p => obtain ⟨a, b, c, e⟩ := p; rfl

theorem sqItems_erase (items : List (SItem × WGap)) :
    (sqItems items).filterMap (fun p => p.1.erase) = items.filterMap (fun p => p.1.eraseSq) := by
  induction items with
  | nil => rfl
  | cons p rest ih =>
    obtain ⟨i, w⟩ := p
    cases i with
    | decl d =>
      have e1 : (SItem.decl (sqDecl d)).erase = some d.eraseSq := by simp [SItem.erase, sqDecl_erase]
      have e2 : (SItem.decl d).eraseSq = some d.eraseSq := rfl
      simp only [sqItems, List.filterMap_cons, e1, e2, ih]
    | comment b =>
      have e2 : (SItem.comment b).eraseSq = none := rfl
      simp only [sqItems, List.filterMap_cons, e2, ih]
    | unknown t =>
      have e2 : (SItem.unknown t).eraseSq = none := rfl
      simp only [sqItems, List.filterMap_cons, e2, ih]
    | semi =>
      have e1 : SItem.semi.erase = none := rfl
      have e2 : SItem.semi.eraseSq = none := rfl
      simp only [sqItems, List.filterMap_cons, e1, e2, ih]

theorem sqBlock_erase (b : SBlock) : (sqBlock b).erase = b.eraseSq := by
  simp only [SBlock.erase, SBlock.eraseSq, sqBlock, sqItems_erase]
  congr 1
  cases b.last <;> simp [sqDecl_erase]

/-- what a spelled margin box must satisfy -/
structure MarginWF (O : Oracle) (M : List Cps) (n : Cps) (b : SBlock) : Prop where
  name : NameOk n
  inTable : M.contains (0x40 :: n) = true
  /-- no token the `ProdParser` run of `MarginRule` would treat specially: `}` ends the block, at-keywords,
  INVALID and EOF are outside the modelled fragment -/
  safe : ∀ t ∈ b.toks, marginSafe t
  noUnknown : noUnknownItems b.items
  /-- the declarations are parsed WITHOUT their white space: that is what must be well formed -/
  sqWF : (sqBlock b).WF O
  bal : nest [] b.toks = some [] ∧ noEof b.toks = true

/-! ## the block of `@page` -/

def SPageItem.isPlain (M : List Cps) : SPageItem → Prop
  | .item i => ∀ t ∈ i.toks, isMarginKw M t = false
  | .margin .. => True

def pageItemWF (O : Oracle) (M : List Cps) : SPageItem → Prop
  | .item i => i.WF O ∧ ∀ t ∈ i.toks, isMarginKw M t = false
  | .margin n _ _ b => MarginWF O M n b

def marginNames : List (SPageItem × WGap) → List Cps
  | [] => []
  | (.margin n _ _ _, _) :: rest => n :: marginNames rest
  | (.item _, _) :: rest => marginNames rest

/-- the tokens `__parseMarginAndStyle` leaves for the style declaration -/
def styleToks : List (SPageItem × WGap) → List Tok
  | [] => []
  | (.item i, w) :: rest => i.toks ++ (WGap.toks w ++ styleToks rest)
  | (.margin .., w) :: rest => WGap.toks w ++ styleToks rest

def marginsOf (O : Oracle) : List (SPageItem × WGap) → List Margin
  | [] => []
  | (.margin n _ _ b, _) :: rest => ⟨0x40 :: n, parseDecls O (squeeze b.toks)⟩ :: marginsOf O rest
  | (.item _, _) :: rest => marginsOf O rest

theorem marginsOf_names (O : Oracle) (items : List (SPageItem × WGap)) :
    (marginsOf O items).map (·.name) = (marginNames items).map (fun n => 0x40 :: n) := by
  induction items with
  | nil => rfl
  | cons p rest ih =>
    obtain ⟨i, w⟩ := p
    cases i <;> simp [marginsOf, marginNames, ih]

theorem wgap_notMargin (M : List Cps) (w : WGap) : ∀ t ∈ WGap.toks w, isMarginKw M t = false := by
  intro t ht
  simp only [WGap.toks, List.mem_map] at ht
  obtain ⟨a, _, rfl⟩ := ht
  simp [isMarginKw, Ws.tok]

theorem splitM_items (O : Oracle) (M : List Cps) (items : List (SPageItem × WGap)) (Y : List Tok)
    (h : ∀ p ∈ items, pageItemWF O M p.1) (hd : (marginNames items).Nodup)
    (hY : ∀ t ∈ Y, isMarginKw M t = false) :
    splitM O M (renderPageItems items ++ Y) = some (marginsOf O items, styleToks items ++ Y) := by
  induction items with
  | nil =>
    have := splitM_plain O M Y [] hY
    simpa [renderPageItems, marginsOf, styleToks, splitM_nil] using this
  | cons p rest ih =>
    obtain ⟨i, w⟩ := p
    have hp := h (i, w) (by simp)
    cases i with
    | item it =>
      have hp : it.WF O ∧ ∀ t ∈ it.toks, isMarginKw M t = false := hp
      have ih' := ih (fun q hq => h q (by simp [hq])) (by simpa [marginNames] using hd)
      simp only [renderPageItems, SPageItem.toks, List.append_assoc]
      rw [splitM_plain O M it.toks _ hp.2, splitM_plain O M (WGap.toks w) _ (wgap_notMargin M w), ih']
      simp [marginsOf, styleToks]
    | margin n kw g b =>
      have hp : MarginWF O M n b := hp
      simp only [marginNames, List.nodup_cons] at hd
      have ih' := ih (fun q hq => h q (by simp [hq])) hd.2
      have hkw : isMarginKw M ⟨.atkeyword, 0x40 :: spell kw n, 0⟩ = true := by
        simp only [isMarginKw, normalize_atVal n kw hp.name, hp.inTable]
        rfl
      have e : renderPageItems ((SPageItem.margin n kw g b, w) :: rest) ++ Y =
          ⟨.atkeyword, 0x40 :: spell kw n, 0⟩ :: (Gap.toks g ++ lbraceTok :: (b.toks ++ rbraceTok ::
            (WGap.toks w ++ (renderPageItems rest ++ Y)))) := by
        simp [renderPageItems, SPageItem.toks]
      rw [e, splitM_margin O M _ g b.toks _ hkw hp.safe, splitM_plain O M (WGap.toks w) _ (wgap_notMargin M w), ih']
      simp only [Option.map_some, normalize_atVal n kw hp.name]
      have hnd : (marginsOf O rest).any (fun m => decide (m.name = 0x40 :: n)) = false := by
        simp only [List.any_eq_false, decide_eq_true_eq]
        intro m hm hname
        have : (0x40 :: n) ∈ (marginsOf O rest).map (·.name) := by
          simp only [List.mem_map]; exact ⟨m, hm, hname⟩
        rw [marginsOf_names] at this
        simp only [List.mem_map, List.cons.injEq, true_and] at this
        obtain ⟨n', hn', rfl⟩ := this
        exact hd.1 hn'
      simp [hnd, marginsOf, styleToks]

/-- the plain items of a page block, as a list of block items -/
def plainItems : List (SPageItem × WGap) → List (SItem × WGap)
  | [] => []
  | (.item i, w) :: rest => (i, w) :: plainItems rest
  | (.margin .., _) :: rest => plainItems rest

theorem declTrace_styleToks (O : Oracle) (M : List Cps) (items : List (SPageItem × WGap)) (x : List Tok)
    (h : ∀ p ∈ items, pageItemWF O M p.1) :
    declTrace O (styleToks items ++ x) = (plainItems items).flatMap (fun p => p.1.trace) ++ declTrace O x := by
  induction items with
  | nil => rfl
  | cons p rest ih =>
    obtain ⟨i, w⟩ := p
    have hp := h (i, w) (by simp)
    have ih' := ih (fun q hq => h q (by simp [hq]))
    cases i with
    | item it =>
      have hp : it.WF O ∧ _ := hp
      obtain ⟨hu, htr⟩ := declTrace_sitem O it hp.1
      simp only [styleToks, List.append_assoc, plainItems, List.flatMap_cons]
      rw [declTrace_append O it.toks _ (DeclSeq.single hu), htr, declTrace_wgap, ih']
    | margin n kw g b =>
      simp only [styleToks, List.append_assoc, plainItems]
      rw [declTrace_wgap, ih']

/-- what a spelled `@page` rule must satisfy -/
structure PageWF (O : Oracle) (M : List Cps) (sel : SPageSel) (blk : SPageBlock) : Prop where
  selWF : PageSelWF sel
  itemsWF : ∀ p ∈ blk.items, pageItemWF O M p.1
  lastWF : ∀ d, blk.last = some d → d.WF O ∧ ∀ t ∈ d.toks, isMarginKw M t = false
  /-- a margin box is written once (`csspagerule.py:262-267` merges repeated ones: not modelled) -/
  distinct : (marginNames blk.items).Nodup

theorem renderLast_notMargin (O : Oracle) (M : List Cps) (last : Option SDecl)
    (h : ∀ d, last = some d → d.WF O ∧ ∀ t ∈ d.toks, isMarginKw M t = false) :
    ∀ t ∈ renderLast last, isMarginKw M t = false := by
  cases last with
  | none => simp [renderLast]
  | some d => exact (h d rfl).2

/-- `__parseMarginAndStyle` on a rendered page block -/
theorem splitM_pageBlock (O : Oracle) (M : List Cps) (sel : SPageSel) (blk : SPageBlock) (h : PageWF O M sel blk) :
    splitM O M blk.toks =
      some (marginsOf O blk.items, WGap.toks blk.lead ++ (styleToks blk.items ++ renderLast blk.last)) := by
  simp only [SPageBlock.toks]
  rw [splitM_plain O M _ _ (wgap_notMargin M blk.lead),
    splitM_items O M blk.items _ h.itemsWF h.distinct (renderLast_notMargin O M blk.last h.lastWF)]
  rfl

theorem declTrace_pageStyle (O : Oracle) (M : List Cps) (sel : SPageSel) (blk : SPageBlock) (h : PageWF O M sel blk) :
    declTrace O (WGap.toks blk.lead ++ (styleToks blk.items ++ renderLast blk.last)) =
      (plainItems blk.items).flatMap (fun p => p.1.trace) ++ (blk.last.map fun d => Item.decl d.parsed).toList := by
  rw [declTrace_wgap, declTrace_styleToks O M blk.items _ h.itemsWF]
  cases hl : blk.last with
  | none => simp [renderLast, declTrace, parseLoop_nil]
  | some d => simp [renderLast, declTrace_sdecl_last O d (h.lastWF d hl).1]

/-! ## the page rule -/

theorem bal_append' {a b : List Tok} (ha : nest [] a = some []) (hb : nest [] b = some []) :
    nest [] (a ++ b) = some [] := by rw [nest_append, ha]; exact hb

/-- the tokens between `@page` and `{` -/
def pageHead (g0 : Gap) (sel : SPageSel) (g1 : Gap) : List Tok := Gap.toks g0 ++ (sel.toks ++ Gap.toks g1)

theorem pageHead_flat (g0 : Gap) (sel : SPageSel) (g1 : Gap) (h : PageSelWF sel) (m : Mode)
    (hm : m = .default ∨ m = .blockstart) : ∀ t ∈ pageHead g0 sel g1, Flat m t := by
  intro t ht
  simp only [pageHead, List.mem_append] at ht
  rcases ht with ht | ht | ht
  · exact gap_flat m g0 t ht
  · exact pageSel_flat sel h m hm t ht
  · exact gap_flat m g1 t ht

theorem pageItems_bal (O : Oracle) (M : List Cps) (items : List (SPageItem × WGap))
    (h : ∀ p ∈ items, pageItemWF O M p.1) :
    nest [] (renderPageItems items) = some [] ∧ noEof (renderPageItems items) = true := by
  induction items with
  | nil => exact ⟨rfl, rfl⟩
  | cons p rest ih =>
    obtain ⟨i, w⟩ := p
    obtain ⟨b1, b2⟩ := ih (fun q hq => h q (by simp [hq]))
    have hw := (gapL_wtoks w).qb .default
    have hp := h (i, w) (by simp)
    have hi : nest [] i.toks = some [] ∧ noEof i.toks = true := by
      cases i with
      | item it => exact SItem.bal O it hp.1
      | margin n kw g b =>
        have hp : MarginWF O M n b := hp
        have hf : Flat .default (⟨.atkeyword, 0x40 :: spell kw n, 0⟩ : Tok) :=
          safe_flat .default _ (atVal_safe _) (by simp) (by simp) (by simp)
        have hb1 := hp.bal.1
        have hb2 := hp.bal.2
        have hg := (gapL_toks g).qb .default
        have hbr : nest [] (lbraceTok :: (b.toks ++ [rbraceTok])) = some [] := bal_braces hb1
        constructor
        · simp only [SPageItem.toks]
          have : nest [] ([(⟨.atkeyword, 0x40 :: spell kw n, 0⟩ : Tok)] ++ (Gap.toks g ++ lbraceTok :: (b.toks ++ [rbraceTok])))
              = some [] :=
            bal_append' (nest_flat [] _ (by simpa using hf.2.1)) (bal_append' hg.2 hbr)
          simpa using this
        · simp only [SPageItem.toks]
          have e : (⟨.atkeyword, 0x40 :: spell kw n, 0⟩ : Tok) :: (Gap.toks g ++ lbraceTok :: (b.toks ++ [rbraceTok])) =
              [(⟨.atkeyword, 0x40 :: spell kw n, 0⟩ : Tok)] ++ (Gap.toks g ++ (lbraceTok :: (b.toks ++ [rbraceTok]))) := by
            simp
          rw [e, noEof_append, noEof_append, hg.noEof, noEof_braces hb2]
          simp [noEof]
    simp only [renderPageItems]
    exact ⟨bal_append' hi.1 (bal_append' hw.2 b1), by rw [noEof_append, noEof_append, hi.2, hw.noEof, b2]; rfl⟩

theorem SPageBlock.bal (O : Oracle) (M : List Cps) (sel : SPageSel) (blk : SPageBlock) (h : PageWF O M sel blk) :
    nest [] blk.toks = some [] ∧ noEof blk.toks = true := by
  have hw := (gapL_wtoks blk.lead).qb .default
  obtain ⟨a1, a2⟩ := pageItems_bal O M blk.items h.itemsWF
  have hl : nest [] (renderLast blk.last) = some [] ∧ noEof (renderLast blk.last) = true := by
    cases hl : blk.last with
    | none => exact ⟨rfl, rfl⟩
    | some d => have := SDecl.qb O d (h.lastWF d hl).1; exact ⟨this.2, this.noEof⟩
  unfold SPageBlock.toks
  exact ⟨bal_append' hw.2 (bal_append' a1 hl.1), by rw [noEof_append, noEof_append, hw.noEof, a2, hl.2]; rfl⟩

/-- what `CSSPageRule.cssText = tokens` sets on a rendered `@page` rule -/
def SRule.pageParsed (O : Oracle) (sel : SPageSel) (blk : SPageBlock) : Page :=
  ⟨⟨sel.name, sel.pseudo⟩,
   parseDecls O (WGap.toks blk.lead ++ (styleToks blk.items ++ renderLast blk.last)),
   marginsOf O blk.items⟩

theorem pageRule_render (O : Oracle) (M : List Cps) (kw : Mask) (g0 : Gap) (sel : SPageSel) (g1 : Gap)
    (blk : SPageBlock) (h : PageWF O M sel blk) :
    pageRule O M (SRule.page kw g0 sel g1 blk).toks = .parsed (SRule.pageParsed O sel blk) := by
  obtain ⟨b1, b2⟩ := SPageBlock.bal O M sel blk h
  have hflat := pageHead_flat g0 sel g1 h.selWF .blockstart (Or.inr rfl)
  have hq : QB .blockstart (pageHead g0 sel g1) := QB.flat hflat
  have e0 : (SRule.page kw g0 sel g1 blk).toks =
      atTok .pageSym kw "page" :: (pageHead g0 sel g1 ++ lbraceTok :: (blk.toks ++ [rbraceTok])) := by
    simp [SRule.toks, pageHead]
  have e1 : upto .blockstart none (pageHead g0 sel g1 ++ lbraceTok :: (blk.toks ++ [rbraceTok])) =
      (pageHead g0 sel g1 ++ [lbraceTok], blk.toks ++ [rbraceTok]) :=
    upto_blockstart _ lbraceTok _ hq.2 (noBrace_of _ (fun t ht => (hflat t ht).2.1)) hq.noEof rfl
  have e2 : upto .blockend none (blk.toks ++ [rbraceTok]) = (blk.toks ++ [rbraceTok], []) :=
    upto_blockend_closed .blockend (Or.inl rfl) blk.toks rbraceTok [] b1 b2 rfl
  have hsel : pageSelector (pageHead g0 sel g1) = some ⟨sel.name, sel.pseudo⟩ := pageSelector_render g0 sel g1 h.selWF
  have hsplit : splitMargins O M (blk.toks.length + 1) blk.toks =
      some (marginsOf O blk.items, WGap.toks blk.lead ++ (styleToks blk.items ++ renderLast blk.last)) :=
    splitM_pageBlock O M sel blk h
  have t3 : rbraceTok.typ ≠ TT.eof := by decide
  have t4 : rbraceTok.val = vRBrace := rfl
  have t2 : lbraceTok.val = vLBrace := rfl
  rw [e0]
  simp only [pageRule, atTok, e1, e2, sepEnd, List.dropLast_concat, List.getLast?_concat, hsel, t3, t4, t2,
    SRule.pageParsed]
  simp only [ne_eq, not_true_eq_false, ↓reduceIte, false_and, not_false_eq_true, Option.map_some, and_self]
  rw [hsplit]
  simp [t2]

theorem plainItems_erase (items : List (SPageItem × WGap)) :
    (plainItems items).filterMap (fun p => p.1.erase) = items.filterMap (fun p => p.1.eraseItem) := by
  induction items with
  | nil => rfl
  | cons p rest ih =>
    obtain ⟨i, w⟩ := p
    cases i with
    | item it => simp only [plainItems, List.filterMap_cons, SPageItem.eraseItem, ih]
    | margin n kw g b => simp only [plainItems, List.filterMap_cons, SPageItem.eraseItem, ih]

/-- the projection of what `CSSPageRule` sets is the abstract page rule -/
theorem projPage_render (O : Oracle) (M : List Cps) (sel : SPageSel) (blk : SPageBlock) (h : PageWF O M sel blk) :
    projItems (SRule.pageParsed O sel blk).items = blk.eraseItems ∧
      (SRule.pageParsed O sel blk).margins.map projMargin = blk.eraseMargins := by
  constructor
  · simp only [SRule.pageParsed, projItems, parseDecls]
    rw [declTrace_pageStyle O M sel blk h]
    have hk : ∀ x ∈ ((plainItems blk.items).flatMap (fun p => p.1.trace) ++
        (blk.last.map fun d => Item.decl d.parsed).toList), x.kept = true := by
      intro x hx
      simp only [List.mem_append, List.mem_flatMap] at hx
      rcases hx with ⟨p, _, hp⟩ | hx
      · exact SItem.trace_kept p.1 x hp
      · cases hl : blk.last <;> simp_all [Item.kept]
    rw [List.filter_eq_self.mpr hk, List.filterMap_append]
    unfold SPageBlock.eraseItems
    congr 1
    · rw [← plainItems_erase]
      have hi : ∀ p ∈ plainItems blk.items, p.1.WF O := by
        have := h.itemsWF
        generalize blk.items = items at this
        induction items with
        | nil => intro p hp; simp [plainItems] at hp
        | cons q rest ih =>
          obtain ⟨i, w⟩ := q
          intro p hp
          cases i with
          | item it =>
            simp only [plainItems, List.mem_cons] at hp
            rcases hp with rfl | hp
            · have hw : it.WF O ∧ _ := this (SPageItem.item it, w) (by simp)
              exact hw.1
            · exact ih (fun r hr => this r (by simp [hr])) p hp
          | margin n kw g b =>
            simp only [plainItems] at hp
            exact ih (fun r hr => this r (by simp [hr])) p hp
      generalize plainItems blk.items = items at hi
      induction items with
      | nil => rfl
      | cons p rest ih =>
        simp only [List.flatMap_cons, List.filterMap_append, List.filterMap_cons]
        rw [projItem_trace O p.1 (hi p (by simp)), ih (fun q hq => hi q (by simp [hq]))]
        cases p.1.erase <;> simp
    · cases hl : blk.last with
      | none => rfl
      | some d => simp [projItem_parsed O d (h.lastWF d hl).1]
  · simp only [SRule.pageParsed, SPageBlock.eraseMargins]
    have := h.itemsWF
    generalize blk.items = items at this
    induction items with
    | nil => rfl
    | cons q rest ih =>
      obtain ⟨i, w⟩ := q
      have ih' := ih (fun r hr => this r (by simp [hr]))
      cases i with
      | item it => simpa [marginsOf, SPageItem.eraseMargin] using ih'
      | margin n kw g b =>
        have hp : MarginWF O M n b := this (SPageItem.margin n kw g b, w) (by simp)
        simp only [marginsOf, List.map_cons, List.filterMap_cons, SPageItem.eraseMargin, ih']
        have : projItems (parseDecls O (squeeze b.toks)) = b.eraseSq := by
          rw [squeeze_block b hp.noUnknown]
          have := parseDecls_block O (sqBlock b) hp.sqWF
          rw [sqBlock_erase] at this
          exact this
        simp [projMargin, this]

end CssVerif.SheetSpec
