import CssVerif.Model.SheetRaw
import CssVerif.Lemmas.SheetList
/-!
# C09 — lemmas about the edits that go around the DOM methods (`Model/SheetRaw.lean`)
-/
namespace CssVerif.SheetEdit

theorem rawDelete_topOK (st : St) (i : Int) (h : TopOK st.rules) : TopOK (rawDelete st i).1.rules := by
  unfold rawDelete
  split
  · exact h
  · split
    · exact h
    · exact topOK_sublist h (List.eraseIdx_sublist _ _)

theorem rawDelete_live (st : St) (i : Int) (h : Live st) : Live (rawDelete st i).1 := by
  unfold rawDelete
  split
  · exact h
  · rename_i n _
    split
    · exact h
    · have hsub : (st.rules.eraseIdx n).Sublist st.rules := List.eraseIdx_sublist _ _
      exact ⟨fun x hx => h.kids x (hsub.subset hx), fun x hx => h.links x (hsub.subset hx),
        fun x hx => h.ids x (hsub.subset hx)⟩

/-- the tree after a raw delete in a nested list is the tree after `deleteRule` there -/
theorem nRawDelete_rules (st : St) (path : List Nat) (i : Int) :
    (nRawDelete st path i).1.rules = (nDelete st path i).1.rules ∧
      (nRawDelete st path i).1.next = (nDelete st path i).1.next := by
  unfold nRawDelete nDelete
  cases hc : atPath st.rules path with
  | none => exact ⟨rfl, rfl⟩
  | some c =>
    by_cases hcont : isContainer c
    · simp only [hcont, Bool.not_true, Bool.false_eq_true, if_false]
      unfold cDelete
      cases hn : pyIndex c.kids.length i with
      | none => exact ⟨(setPath_self _ _ _ hc).symm, rfl⟩
      | some n =>
        dsimp only
        cases hk : c.kids[n]? with
        | none => exact ⟨(setPath_self _ _ _ hc).symm, rfl⟩
        | some k => exact ⟨rfl, rfl⟩
    · simp [hcont]

theorem nRawDelete_topOK (st : St) (path : List Nat) (i : Int) (h : TopOK st.rules) :
    TopOK (nRawDelete st path i).1.rules := by
  rw [(nRawDelete_rules st path i).1]
  unfold TopOK; rw [nDelete_kinds]; exact h

theorem nRawDelete_live (st : St) (path : List Nat) (i : Int) (h : Live st) : Live (nRawDelete st path i).1 := by
  have hd := nDelete_live st path i h
  obtain ⟨e1, e2⟩ := nRawDelete_rules st path i
  exact ⟨fun x hx => hd.kids x (e1 ▸ hx), fun x hx => hd.links x (e1 ▸ hx), fun x hx => by
    rw [e2]; exact hd.ids x (e1 ▸ hx)⟩

mutual
theorem adoptDeep_kind (i : Nat) : (r : Rule) → (r.adoptDeep i).kind = r.kind
  | ⟨_, _, _, _, _, _, _, _, _⟩ => by simp [Rule.adoptDeep]
end

theorem kindsOf_adoptDeepL (i : Nat) (l : List Rule) : kindsOf (Rule.adoptDeepL i l) = kindsOf l := by
  induction l with
  | nil => rfl
  | cons r rs ih =>
    simp only [Rule.adoptDeepL, kindsOf, List.map_cons, adoptDeep_kind] at *
    rw [ih]

/-- re-inserting a contained rule object goes through the position checks: the order is kept -/
theorem reinsert_topOK (st : St) (path : List Nat) (index : Option Int) (h : TopOK st.rules) :
    TopOK (reinsert st path index).1.rules := by
  unfold reinsert
  split
  · exact h
  · split
    · exact h
    · split
      · exact h
      · split
        · exact h
        · exact h
        · rename_i i hp
          unfold TopOK
          rw [kindsOf_adoptDeepL, kindsOf_pyInsert]
          exact place_topK _ _ _ _ _ h hp

end CssVerif.SheetEdit
