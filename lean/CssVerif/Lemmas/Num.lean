import CssVerif.Model.Num
/-!
Helper lemmas for C18 (numbers): digit strings as numbers, zero stripping, the regex split on a rendered literal.
-/
namespace CssVerif.Num
open CssVerif.Proto

deriving instance DecidableEq for Except

/-! ## digit strings -/

/-- every element is an ASCII digit -/
def Digits (ds : Cps) : Prop := ∀ c ∈ ds, isDigit c = true

theorem Digits.nil : Digits [] := by intro c h; cases h
theorem Digits.cons {c : Nat} {t : Cps} (h : Digits (c :: t)) : isDigit c = true ∧ Digits t :=
  ⟨h c (by simp), fun d hd => h d (by simp [hd])⟩
theorem Digits.append {a b : Cps} (ha : Digits a) (hb : Digits b) : Digits (a ++ b) := by
  intro c hc; rcases List.mem_append.mp hc with h | h
  · exact ha c h
  · exact hb c h
theorem Digits.of_append_left {a b : Cps} (h : Digits (a ++ b)) : Digits a :=
  fun c hc => h c (List.mem_append.mpr (Or.inl hc))
theorem Digits.of_append_right {a b : Cps} (h : Digits (a ++ b)) : Digits b :=
  fun c hc => h c (List.mem_append.mpr (Or.inr hc))

theorem isDigit_zero : isDigit cZero = true := by decide
theorem Digits.replicate_zero (k : Nat) : Digits (List.replicate k cZero) := by
  intro c hc; rw [List.eq_of_mem_replicate hc]; exact isDigit_zero

theorem foldl_digits (ds : Cps) (acc : Nat) :
    ds.foldl (fun a c => a * 10 + (c - cZero)) acc = acc * 10 ^ ds.length + natOfDigits ds := by
  induction ds generalizing acc with
  | nil => simp [natOfDigits]
  | cons c t ih =>
    simp only [List.foldl_cons, List.length_cons, natOfDigits]
    rw [ih, ih (0 * 10 + (c - cZero))]
    simp [Nat.pow_succ]
    grind

theorem natOfDigits_nil : natOfDigits [] = 0 := rfl

theorem natOfDigits_cons (c : Nat) (t : Cps) :
    natOfDigits (c :: t) = (c - cZero) * 10 ^ t.length + natOfDigits t := by
  simp only [natOfDigits, List.foldl_cons]
  rw [foldl_digits]; simp [natOfDigits]

theorem natOfDigits_append (a b : Cps) :
    natOfDigits (a ++ b) = natOfDigits a * 10 ^ b.length + natOfDigits b := by
  simp only [natOfDigits, List.foldl_append]
  rw [foldl_digits]; simp [natOfDigits]

theorem natOfDigits_replicate_zero (k : Nat) : natOfDigits (List.replicate k cZero) = 0 := by
  induction k with
  | zero => rfl
  | succ n ih => rw [List.replicate_succ, natOfDigits_cons, ih]; simp

theorem natOfDigits_append_zeros (a : Cps) (k : Nat) :
    natOfDigits (a ++ List.replicate k cZero) = natOfDigits a * 10 ^ k := by
  rw [natOfDigits_append, natOfDigits_replicate_zero]; simp

theorem allZero_iff (ds : Cps) : E.allZero ds = true ↔ ds = List.replicate ds.length cZero := by
  induction ds with
  | nil => simp [E.allZero]
  | cons c t ih =>
    simp only [E.allZero, List.all_cons, Bool.and_eq_true, beq_iff_eq, List.length_cons, List.replicate_succ,
      List.cons.injEq]
    unfold E.allZero at ih
    rw [ih]

theorem natOfDigits_allZero {ds : Cps} (h : E.allZero ds = true) : natOfDigits ds = 0 := by
  rw [(allZero_iff ds).mp h]; exact natOfDigits_replicate_zero _

theorem digit_sub_pos {c : Nat} (hd : isDigit c = true) (hz : c ≠ cZero) : 0 < c - cZero := by
  simp [isDigit, cZero] at *; omega

theorem allZero_of_natOfDigits {ds : Cps} (hd : Digits ds) (h : natOfDigits ds = 0) : E.allZero ds = true := by
  induction ds with
  | nil => rfl
  | cons c t ih =>
    rw [natOfDigits_cons] at h
    have h1 : (c - cZero) * 10 ^ t.length = 0 := by omega
    have h2 : natOfDigits t = 0 := by omega
    have hc : c = cZero := by
      by_cases hc : c = cZero
      · exact hc
      · have := digit_sub_pos hd.cons.1 hc
        have hp : 0 < 10 ^ t.length := Nat.pow_pos (by decide)
        have : 0 < (c - cZero) * 10 ^ t.length := Nat.mul_pos this hp
        omega
    simp only [E.allZero, List.all_cons, Bool.and_eq_true, beq_iff_eq]
    exact ⟨hc, ih hd.cons.2 h2⟩

theorem stripLZ_digits {ds : Cps} (h : Digits ds) : Digits (E.stripLZ ds) :=
  fun c hc => h c ((List.dropWhile_sublist _).subset hc)

theorem natOfDigits_stripLZ (ds : Cps) : natOfDigits (E.stripLZ ds) = natOfDigits ds := by
  induction ds with
  | nil => rfl
  | cons c t ih =>
    unfold E.stripLZ at *
    rw [List.dropWhile_cons]
    split
    · rename_i h
      rw [ih, natOfDigits_cons]
      have : c = cZero := by simpa using h
      subst this; simp
    · rfl

theorem stripLZ_length_le (ds : Cps) : (E.stripLZ ds).length ≤ ds.length := by
  unfold E.stripLZ
  exact (List.dropWhile_sublist _).length_le

theorem stripLZ_eq_nil_iff (ds : Cps) : E.stripLZ ds = [] ↔ E.allZero ds = true := by
  unfold E.stripLZ E.allZero
  induction ds with
  | nil => simp
  | cons c t ih =>
    rw [List.dropWhile_cons]
    by_cases h : (c == cZero) = true
    · simp only [h, if_true, List.all_cons, Bool.true_and]; exact ih
    · simp [h]


/-! ## `rstrip('0')` -/

theorem rstripZeros_append_zeros (a : Cps) (k : Nat) :
    rstripZeros (a ++ List.replicate k cZero) = rstripZeros a := by
  unfold rstripZeros
  rw [List.reverse_append, List.reverse_replicate, List.dropWhile_append_of_pos]
  intro c hc; rw [List.eq_of_mem_replicate hc]; simp

theorem rstripZeros_eq_nil {a : Cps} (h : E.allZero a = true) : rstripZeros a = [] := by
  rw [(allZero_iff a).mp h]
  have := rstripZeros_append_zeros [] a.length
  simpa [rstripZeros] using this

theorem dropWhile_zero_eq_nil_iff (ds : Cps) : ds.dropWhile (· == cZero) = [] ↔ E.allZero ds = true :=
  stripLZ_eq_nil_iff ds

theorem rstripZeros_cons (d : Nat) (t : Cps) :
    rstripZeros (d :: t) =
      if E.allZero t then (if d = cZero then [] else [d]) else d :: rstripZeros t := by
  unfold rstripZeros
  rw [List.reverse_cons, List.dropWhile_append]
  by_cases ht : E.allZero t = true
  · have : (List.dropWhile (fun x => x == cZero) t.reverse) = [] := by
      rw [dropWhile_zero_eq_nil_iff]; unfold E.allZero at *; rw [List.all_reverse]; exact ht
    simp only [this, List.isEmpty_nil, if_true, ht]
    by_cases hd : d = cZero
    · simp [hd]
    · simp [hd]
  · have : (List.dropWhile (fun x => x == cZero) t.reverse) ≠ [] := by
      intro h; apply ht
      rw [dropWhile_zero_eq_nil_iff] at h; unfold E.allZero at *; rw [List.all_reverse] at h; exact h
    have e : (List.dropWhile (fun x => x == cZero) t.reverse).isEmpty = false := by
      cases hh : List.dropWhile (fun x => x == cZero) t.reverse with
      | nil => exact absurd hh this
      | cons _ _ => rfl
    simp [e, ht]

/-- a digit string is its `rstrip('0')` followed by zeros -/
theorem rstripZeros_decomp (a : Cps) : ∃ k, a = rstripZeros a ++ List.replicate k cZero := by
  induction a with
  | nil => exact ⟨0, rfl⟩
  | cons d t ih =>
    rw [rstripZeros_cons]
    by_cases ht : E.allZero t = true
    · simp only [ht, if_true]
      by_cases hd : d = cZero
      · refine ⟨t.length + 1, ?_⟩
        simp only [hd, if_true, List.nil_append, List.replicate_succ, List.cons.injEq, true_and]
        exact (allZero_iff t).mp ht
      · refine ⟨t.length, ?_⟩
        simp only [hd, if_false, List.singleton_append, List.cons.injEq, true_and]
        exact (allZero_iff t).mp ht
    · obtain ⟨k, hk⟩ := ih
      refine ⟨k, ?_⟩
      simp only [ht, Bool.false_eq_true, if_false, List.cons_append, List.cons.injEq, true_and]
      exact hk

theorem rstripZeros_length_le (a : Cps) : (rstripZeros a).length ≤ a.length := by
  obtain ⟨k, hk⟩ := rstripZeros_decomp a
  have := congrArg List.length hk
  simp at this; omega

theorem rstripZeros_digits {a : Cps} (h : Digits a) : Digits (rstripZeros a) := by
  obtain ⟨k, hk⟩ := rstripZeros_decomp a
  rw [hk] at h; exact h.of_append_left

theorem rstripZeros_ne_nil {a : Cps} (h : E.allZero a = false) : rstripZeros a ≠ [] := by
  intro e
  obtain ⟨k, hk⟩ := rstripZeros_decomp a
  rw [e, List.nil_append] at hk
  have : E.allZero a = true := by
    rw [hk]; simp [E.allZero]
  rw [this] at h; cases h

/-- value of a fraction does not change: `fp = rstrip(fp) ++ 0…0` -/
theorem natOfDigits_rstrip (a : Cps) :
    natOfDigits a = natOfDigits (rstripZeros a) * 10 ^ (a.length - (rstripZeros a).length) := by
  obtain ⟨k, hk⟩ := rstripZeros_decomp a
  have hl : a.length = (rstripZeros a).length + k := by
    have := congrArg List.length hk; simpa using this
  have : a.length - (rstripZeros a).length = k := by omega
  rw [this]
  conv => lhs; rw [hk]
  exact natOfDigits_append_zeros _ _

/-- `rstrip('0')` is idempotent -/
theorem rstripZeros_idem (a : Cps) : rstripZeros (rstripZeros a) = rstripZeros a := by
  obtain ⟨k, hk⟩ := rstripZeros_decomp a
  conv => rhs; rw [hk, rstripZeros_append_zeros]

/-! ## `'%f'` padding and `_strip_zeros` -/

theorem pad6_eq {fs : Cps} (h : fs.length ≤ 6) : E.pad6 fs = fs ++ List.replicate (6 - fs.length) cZero := by
  unfold E.pad6
  rw [List.take_append]
  have : List.take 6 fs = fs := List.take_of_length_le h
  rw [this, List.take_replicate]
  congr 2
  omega

/-- the heart of `_strip_zeros('%f' % x)` for a fraction that is not all zeros: the first fraction digit is
kept, the rest is right-stripped; together this is the right-stripped fraction -/
theorem strip_pad6 {fs : Cps} (h6 : fs.length ≤ 6) (hz : E.allZero fs = false) :
    (E.pad6 fs).take 1 ++ rstripZeros ((E.pad6 fs).drop 1) = rstripZeros fs := by
  rw [pad6_eq h6]
  cases fs with
  | nil => simp [E.allZero] at hz
  | cons d t =>
    simp only [List.cons_append, List.take_succ_cons, List.take_zero, List.drop_succ_cons, List.drop_zero]
    rw [rstripZeros_append_zeros, rstripZeros_cons]
    by_cases ht : E.allZero t = true
    · have hd : d ≠ cZero := by
        intro e; subst e
        simp [E.allZero] at hz ht
        obtain ⟨x, hx, hne⟩ := hz
        exact hne (ht x hx)
      simp [ht, hd, rstripZeros_eq_nil ht]
    · simp [ht]

theorem indexOfDot_append {pre : Cps} (h : ∀ c ∈ pre, c ≠ cDot) (t : Cps) :
    indexOfDot (pre ++ cDot :: t) = some pre.length := by
  induction pre with
  | nil => simp [indexOfDot]
  | cons c r ih =>
    have hc : c ≠ cDot := h c (by simp)
    simp only [List.cons_append, indexOfDot, hc, if_false, List.length_cons]
    rw [ih (fun x hx => h x (by simp [hx]))]; rfl

theorem stripZeros_pctF {pre fs : Cps} (hpre : ∀ c ∈ pre, c ≠ cDot) (h6 : fs.length ≤ 6)
    (hz : E.allZero fs = false) :
    stripZeros (pre ++ cDot :: E.pad6 fs) = .ok (pre ++ cDot :: rstripZeros fs) := by
  unfold stripZeros
  rw [indexOfDot_append hpre]
  simp only
  have e1 : List.take (pre.length + 2) (pre ++ cDot :: E.pad6 fs) = pre ++ cDot :: (E.pad6 fs).take 1 := by
    rw [List.take_append]
    simp [List.take_of_length_le]
  have e2 : List.drop (pre.length + 2) (pre ++ cDot :: E.pad6 fs) = (E.pad6 fs).drop 1 := by
    rw [List.drop_append]
    simp [List.drop_of_length_le]
  rw [e1, e2, List.append_assoc, List.cons_append, strip_pad6 h6 hz]


/-! ## a numeric literal given by its parts (specification side) -/

/-- sign, integer digits, optional fraction digits, unit — the parts of a CSS `num` followed by an
identifier / `%` / nothing -/
structure Lit where
  sign : Cps
  ip : Cps
  fp : Option Cps
  unit : Cps
deriving DecidableEq, Repr

def fracText : Option Cps → Cps
  | some f => cDot :: f
  | none => []

/-- the source text -/
def Lit.text (l : Lit) : Cps := l.sign ++ (l.ip ++ (fracText l.fp ++ l.unit))

/-- the text is what the tokenizer hands over as one DIMENSION / NUMBER / PERCENTAGE token: `[+-]?`, digits,
optional `.digits`, and a unit that does not start with a digit or a dot and has no backslash (escapes in
units are resolved by the tokenizer and are outside C18, see docs/C18.md) -/
structure Lit.Wf (l : Lit) : Prop where
  sign : l.sign = [] ∨ l.sign = [cPlus] ∨ l.sign = [cMinus]
  ip : Digits l.ip
  fp : ∀ f, l.fp = some f → Digits f ∧ f ≠ []
  ipne : l.fp = none → l.ip ≠ []
  unitPlain : ∀ c ∈ l.unit, c ≠ cBackslash
  unitStart : ∀ c, l.unit.head? = some c → isDigit c = false ∧ c ≠ cDot

/-- the same literal with the unit in lower case -/
def Lit.lower (l : Lit) : Lit := { l with unit := l.unit.map lowerAscii }

theorem lowerAscii_idem (c : Nat) : lowerAscii (lowerAscii c) = lowerAscii c := by
  unfold lowerAscii; split <;> (try split) <;> omega

theorem lowerAscii_digit {c : Nat} (h : isDigit c = true) : lowerAscii c = c := by
  simp [isDigit, lowerAscii] at *; omega

theorem lowerAscii_eq_backslash {c : Nat} (h : lowerAscii c = cBackslash) : c = cBackslash := by
  unfold lowerAscii cBackslash at *; split at h <;> omega

theorem isDigit_lowerAscii (c : Nat) : isDigit (lowerAscii c) = isDigit c := by
  unfold lowerAscii; split
  · rename_i h
    have h1 : isDigit (c + 32) = false := by simp [isDigit]; omega
    have h2 : isDigit c = false := by simp [isDigit]; omega
    rw [h1, h2]
  · rfl

theorem lowerAscii_eq_dot {c : Nat} (h : lowerAscii c = cDot) : c = cDot := by
  unfold lowerAscii cDot at *; split at h <;> omega

theorem map_lower_digits {ds : Cps} (h : Digits ds) : ds.map lowerAscii = ds := by
  induction ds with
  | nil => rfl
  | cons c t ih => simp [lowerAscii_digit h.cons.1, ih h.cons.2]

theorem Lit.Wf.lower {l : Lit} (h : l.Wf) : l.lower.Wf where
  sign := h.sign
  ip := h.ip
  fp := h.fp
  ipne := h.ipne
  unitPlain := by
    intro c hc e
    simp only [Lit.lower, List.mem_map] at hc
    obtain ⟨a, ha, rfl⟩ := hc
    exact h.unitPlain a ha (lowerAscii_eq_backslash e)
  unitStart := by
    intro c hc
    simp only [Lit.lower, List.head?_map] at hc
    cases hu : l.unit.head? with
    | none => simp [hu] at hc
    | some a =>
      simp only [hu, Option.map_some, Option.some.injEq] at hc
      subst hc
      have := h.unitStart a hu
      exact ⟨by rw [isDigit_lowerAscii]; exact this.1, fun e => this.2 (lowerAscii_eq_dot e)⟩

theorem Lit.lower_lower (l : Lit) : l.lower.lower = l.lower := by
  simp [Lit.lower, lowerAscii_idem]

theorem unescSimple_id {s : Cps} (h : ∀ c ∈ s, c ≠ cBackslash) : unescSimple s = s := by
  induction s with
  | nil => rfl
  | cons c t ih =>
    cases t with
    | nil => rfl
    | cons d r =>
      have hc : c ≠ cBackslash := h c (by simp)
      simp only [unescSimple, hc, if_false]
      rw [ih (fun x hx => h x (by simp [hx]))]

theorem sign_plain {sg : Cps} (h : sg = [] ∨ sg = [cPlus] ∨ sg = [cMinus]) :
    (∀ c ∈ sg, c ≠ cBackslash) ∧ sg.map lowerAscii = sg := by
  rcases h with h | h | h <;> subst h <;> decide

theorem digits_plain {ds : Cps} (h : Digits ds) : ∀ c ∈ ds, c ≠ cBackslash := by
  intro c hc e; have := h c hc; subst e; revert this; decide

theorem digits_no_dot {ds : Cps} (h : Digits ds) : ∀ c ∈ ds, c ≠ cDot := by
  intro c hc e; have := h c hc; subst e; revert this; decide

theorem Lit.text_plain {l : Lit} (h : l.Wf) : ∀ c ∈ l.text, c ≠ cBackslash := by
  intro c hc
  simp only [Lit.text, List.mem_append] at hc
  rcases hc with hc | hc | hc | hc
  · exact (sign_plain h.sign).1 c hc
  · exact digits_plain h.ip c hc
  · cases hf : l.fp with
    | none => simp [hf, fracText] at hc
    | some f =>
      simp only [hf, fracText, List.mem_cons] at hc
      rcases hc with hc | hc
      · subst hc; decide
      · exact digits_plain (h.fp f hf).1 c hc
  · exact h.unitPlain c hc

theorem Lit.text_ne_nil {l : Lit} (h : l.Wf) : l.text ≠ [] := by
  intro e
  simp only [Lit.text, List.append_eq_nil_iff] at e
  cases hf : l.fp with
  | none => exact h.ipne hf e.2.1
  | some f => simp [hf, fracText] at e

/-- `helper.normalize` only lower-cases the unit of a well-formed literal -/
theorem normalize_text {l : Lit} (h : l.Wf) : normalize l.text = l.lower.text := by
  unfold normalize
  have : l.text.isEmpty = false := by
    cases ht : l.text with
    | nil => exact absurd ht (Lit.text_ne_nil h)
    | cons _ _ => rfl
  simp only [this, Bool.false_eq_true, if_false]
  rw [unescSimple_id (Lit.text_plain h)]
  simp only [Lit.text, Lit.lower, List.map_append]
  rw [(sign_plain h.sign).2, map_lower_digits h.ip]
  cases hf : l.fp with
  | none => simp [fracText]
  | some f =>
    simp only [fracText, List.map_cons]
    rw [map_lower_digits (h.fp f hf).1]
    rfl

/-! ## the regex split of a well-formed literal -/

theorem takeWhile_digits {ds tail : Cps} (hd : Digits ds) (ht : ∀ c, tail.head? = some c → isDigit c = false) :
    (ds ++ tail).takeWhile isDigit = ds ∧ (ds ++ tail).dropWhile isDigit = tail := by
  rw [List.takeWhile_append_of_pos hd, List.dropWhile_append_of_pos hd]
  cases tail with
  | nil => simp
  | cons c r =>
    have := ht c rfl
    simp [List.takeWhile_cons, List.dropWhile_cons, this]

theorem splitNum_text {l : Lit} (h : l.Wf) :
    splitNum l.text = some (l.sign, l.ip ++ fracText l.fp, l.unit) := by
  -- the part after the sign
  have hrest : ∀ c, (l.ip ++ (fracText l.fp ++ l.unit)).head? = some c → c ≠ cPlus ∧ c ≠ cMinus := by
    intro c hc
    cases hip : l.ip with
    | cons d t =>
      rw [hip] at hc; simp at hc; subst hc
      have := h.ip d (by rw [hip]; simp)
      constructor <;> (intro e; subst e; revert this; decide)
    | nil =>
      rw [hip] at hc
      cases hf : l.fp with
      | none => exact absurd hip (h.ipne hf)
      | some f =>
        rw [hf] at hc; simp [fracText] at hc; subst hc; decide
  have htail : ∀ c, (fracText l.fp ++ l.unit).head? = some c → isDigit c = false := by
    intro c hc
    cases hf : l.fp with
    | none => rw [hf] at hc; simp [fracText] at hc; exact (h.unitStart c hc).1
    | some f => rw [hf] at hc; simp [fracText] at hc; subst hc; decide
  -- what the function computes once the sign is known
  have core : ∀ sg : Cps, splitAfterSign sg (l.ip ++ (fracText l.fp ++ l.unit))
      = some (sg, l.ip ++ fracText l.fp, l.unit) := by
    intro sg
    unfold splitAfterSign
    obtain ⟨e1, e2⟩ := takeWhile_digits h.ip htail
    simp only [e1, e2]
    cases hf : l.fp with
    | none =>
      have hne := h.ipne hf
      have hemp : l.ip.isEmpty = false := by
        cases hip : l.ip with
        | nil => exact absurd hip hne
        | cons _ _ => rfl
      simp only [fracText, List.nil_append, List.append_nil, hemp, Bool.false_eq_true, if_false]
      cases hu : l.unit with
      | nil => rfl
      | cons c r =>
        have := (h.unitStart c (by rw [hu]; rfl)).2
        simp [this]
    | some f =>
      obtain ⟨hfd, hfne⟩ := h.fp f hf
      have hu : ∀ c, l.unit.head? = some c → isDigit c = false := fun c hc => (h.unitStart c hc).1
      obtain ⟨f1, f2⟩ := takeWhile_digits hfd hu
      have hemp : f.isEmpty = false := by
        cases hff : f with
        | nil => exact absurd hff hfne
        | cons _ _ => rfl
      simp only [fracText, List.cons_append, if_true, f1, f2, hemp, Bool.false_eq_true, if_false]
  unfold splitNum
  rcases h.sign with hs | hs | hs
  · -- no sign
    have e : l.text = l.ip ++ (fracText l.fp ++ l.unit) := by simp [Lit.text, hs]
    have hsg : signOf l.text = [] := by
      rw [e]; unfold signOf
      cases hr : l.ip ++ (fracText l.fp ++ l.unit) with
      | nil => rfl
      | cons c t =>
        have := hrest c (by rw [hr]; rfl)
        simp [this.1, this.2]
    rw [hsg, e, hs]
    exact core []
  · have e : l.text = cPlus :: (l.ip ++ (fracText l.fp ++ l.unit)) := by simp [Lit.text, hs]
    have hsg : signOf l.text = [cPlus] := by rw [e]; simp [signOf]
    rw [hsg, e, hs]
    exact core [cPlus]
  · have e : l.text = cMinus :: (l.ip ++ (fracText l.fp ++ l.unit)) := by simp [Lit.text, hs]
    have hsg : signOf l.text = [cMinus] := by rw [e]; simp [signOf]
    rw [hsg, e, hs]
    exact core [cMinus]


/-- the literal is rejected as 'Number too large' (`value.py:576-592`): a decimal whose float is infinite, or an
integer with more digits than `int()` converts -/
def Lit.tooLarge (l : Lit) : Bool :=
  match l.fp with
  | none => decide (l.ip.length > Gen.C18.maxStrDigits)
  | some _ => floatOverflows l.ip

/-! ## `parseDim` on a well-formed literal -/

theorem contains_dot_digits {ds : Cps} (h : Digits ds) : ds.contains cDot = false := by
  cases hc : ds.contains cDot with
  | false => rfl
  | true =>
    have := List.contains_iff_mem.mp hc
    exact absurd rfl (digits_no_dot h cDot this)

theorem takeWhile_ne_dot {ds : Cps} (h : Digits ds) (t : Cps) :
    (ds ++ cDot :: t).takeWhile (· != cDot) = ds ∧ (ds ++ cDot :: t).dropWhile (· != cDot) = cDot :: t := by
  have hp : ∀ a ∈ ds, (a != cDot) = true := by
    intro a ha; simp [digits_no_dot h a ha]
  rw [List.takeWhile_append_of_pos hp, List.dropWhile_append_of_pos hp]
  simp

theorem parseDim_text {l : Lit} (h : l.Wf) (typ : NumType) (hov : l.tooLarge = false) :
    parseDim typ l.text =
      .ok { sign := l.sign, ip := l.ip, fp := l.fp, dim := l.unit.map lowerAscii, typ := typ } := by
  unfold parseDim
  have hn : normalize (if typ = .dimension then normalize l.text else l.text) = l.lower.text := by
    split
    · rw [normalize_text h, normalize_text h.lower, Lit.lower_lower]
    · exact normalize_text h
  simp only [hn, splitNum_text h.lower]
  cases hf : l.fp with
  | none =>
    have : (Lit.lower l).fp = none := hf
    simp only [this, fracText, List.append_nil]
    have e : (Lit.lower l).ip = l.ip := rfl
    rw [e, contains_dot_digits h.ip]
    have hl : ¬ (l.ip.length > Gen.C18.maxStrDigits) := by
      simpa [Lit.tooLarge, hf] using hov
    simp [Lit.lower, hl]
  | some f =>
    have : (Lit.lower l).fp = some f := hf
    have e : (Lit.lower l).ip = l.ip := rfl
    simp only [this, fracText, e]
    have hc : (l.ip ++ cDot :: f).contains cDot = true := by
      apply List.contains_iff_mem.mpr; simp
    obtain ⟨t1, t2⟩ := takeWhile_ne_dot h.ip f
    have hov : floatOverflows l.ip = false := by simpa [Lit.tooLarge, hf] using hov
    simp only [hc, if_true, t1, t2, hov, Bool.false_eq_true, if_false, List.drop_succ_cons, List.drop_zero]
    simp [Lit.lower]

/-! ## `Out.append` / `Out.value` return a numeric text unchanged -/

theorem isPrefixOf_mem {n h : Cps} (hp : n.isPrefixOf h = true) : ∀ c ∈ n, c ∈ h := by
  intro c hc
  have := List.isPrefixOf_iff_prefix.mp hp
  exact this.subset hc

theorem isSubstr_mem {n : Cps} : ∀ {h : Cps}, isSubstr n h = true → ∀ c ∈ n, c ∈ h := by
  intro h
  induction h with
  | nil =>
    intro hs c hc
    simp [isSubstr] at hs
    subst hs; cases hc
  | cons a t ih =>
    intro hs c hc
    simp only [isSubstr, Bool.or_eq_true] at hs
    rcases hs with hs | hs
    · exact isPrefixOf_mem hs c hc
    · exact List.mem_cons_of_mem _ (ih hs c hc)

/-- the punctuation `Out.append` looks for -/
def outPunct : Cps := cps "+>~,:{;)]/=}[("

/-- a text with a character outside `hay` is not a substring of `hay` -/
theorem isSubstr_false_of_mem {t h : Cps} (ht : ∃ c ∈ t, c ∉ h) : isSubstr t h = false := by
  cases hs : isSubstr t h with
  | false => rfl
  | true =>
    obtain ⟨c, hc, hn⟩ := ht
    exact absurd (isSubstr_mem hs c hc) hn

theorem ne_of_mem {t h : Cps} (ht : ∃ c ∈ t, c ∉ h) : t ≠ h := by
  intro e; subst e
  obtain ⟨c, hc, hn⟩ := ht
  exact hn hc

theorem notin_sub {c : Nat} {small big : Cps} (hsub : ∀ x ∈ small, x ∈ big) (h : c ∉ big) : c ∉ small :=
  fun hc => h (hsub c hc)

theorem outPush_nil (val : Cps) : outPush [] val = [val] := by
  simp [outPush, wouldFuse, removeLastIfS]

/-- `Out.append` then `Out.value` on an empty `Out` return a plain text item as it is, when the text has a
character that is no punctuation, the type is not one of the specially treated ones and the spacer is blank -/
theorem outValue_outAppend_text (p : Prefs) (hsp : isCssBlank p.spacer = true) (t : Cps) (ty : ItemType)
    (ht : ∃ c ∈ t, c ∉ outPunct)
    (hty : ty ≠ .string ∧ ty ≠ .uri ∧ ty ≠ .hash ∧ ty ≠ .s ∧ ty ≠ .function) (isObj : Bool) :
    outValue (outAppend p [] t isObj ty) = t := by
  have hne : t.isEmpty = false := by
    obtain ⟨c, hc, _⟩ := ht
    cases t with
    | nil => cases hc
    | cons _ _ => rfl
  obtain ⟨c, hc, hn⟩ := ht
  have sub : ∀ small : Cps, (∀ x ∈ small, x ∈ outPunct) → ∃ c ∈ t, c ∉ small :=
    fun small hs => ⟨c, hc, notin_sub hs hn⟩
  have h1 : isSubstr t (cps "+>~,:{;)]/=}") = false := isSubstr_false_of_mem (sub _ (by decide))
  have h2 : isSubstr t (cps "+>~") = false := isSubstr_false_of_mem (sub _ (by decide))
  have h3 : isSubstr t (cps "}[]()/=") = false := isSubstr_false_of_mem (sub _ (by decide))
  have n1 : t ≠ cps ")" := ne_of_mem (sub _ (by decide))
  have n2 : t ≠ cps "," := ne_of_mem (sub _ (by decide))
  have n3 : t ≠ cps ":" := ne_of_mem (sub _ (by decide))
  have n4 : t ≠ cps "{" := ne_of_mem (sub _ (by decide))
  have n5 : t ≠ cps ";" := ne_of_mem (sub _ (by decide))
  obtain ⟨y1, y2, y3, y4, y5⟩ := hty
  unfold outAppend
  simp only [hne, Bool.false_eq_true, Bool.false_and, if_false, y1, y2, y3, y4, y5, h1, h2, h3, n1, n2, n3, n4, n5,
    removeLastIfS, List.getLast?_nil, List.nil_append, ite_self, or_self, Bool.not_false, Bool.true_and,
    ne_eq, not_false_eq_true, decide_true, Bool.and_true, if_true, outPush_nil]
  by_cases he : p.spacer.isEmpty = true
  · have : p.spacer = [] := List.isEmpty_iff.mp he
    have sp : (32 : Nat) ∈ Gen.C18.spaceChars := by decide
    simp [this, outValue, removeLastIfS, isCssBlank, isCssSpace]
  · simp only [he, Bool.false_eq_true, Bool.false_and, if_false]
    simp [outValue, removeLastIfS, hsp]

theorem digit_notin_punct {c : Nat} (h : isDigit c = true) : c ∉ outPunct := by
  intro hc
  have : ∀ x ∈ outPunct, isDigit x = false := by decide
  rw [this c hc] at h; cases h

theorem outValue_outAppend_num (p : Prefs) (hsp : isCssBlank p.spacer = true) (t : Cps) (typ : NumType)
    (ht : ∃ c ∈ t, isDigit c = true) :
    outValue (outAppend p [] t false typ.toItem) = t := by
  obtain ⟨c, hc, hd⟩ := ht
  exact outValue_outAppend_text p hsp t _ ⟨c, hc, digit_notin_punct hd⟩ (by cases typ <;> simp [NumType.toItem]) false

/-! ## the canonical literal — what normalisation must produce (specification) -/

/-- leading zeros of the integer part and trailing zeros of the fraction dropped, unit in lower case; zero is
`0` (without unit after a zero-length unit, without sign); a number below one keeps a single `0` before the
point unless `omitLeadingZero`; the sign is kept as written -/
def canonLit (olz : Bool) (l : Lit) : Lit :=
  let u := l.unit.map lowerAscii
  if E.allZero l.ip && E.allZero (l.fp.getD []) then
    { sign := [], ip := [cZero], fp := none, unit := if zeroLenUnits.contains u then [] else u }
  else if E.allZero (l.fp.getD []) then { sign := l.sign, ip := E.stripLZ l.ip, fp := none, unit := u }
  else { sign := l.sign, ip := if E.allZero l.ip then (if olz then [] else [cZero]) else E.stripLZ l.ip,
         fp := some (rstripZeros (l.fp.getD [])), unit := u }

theorem canonLit_zero (olz : Bool) {l : Lit} (hi : E.allZero l.ip = true) (hf : E.allZero (l.fp.getD []) = true) :
    canonLit olz l = { sign := [], ip := [cZero], fp := none,
                       unit := if zeroLenUnits.contains (l.unit.map lowerAscii) then []
                               else l.unit.map lowerAscii } := by
  simp [canonLit, hi, hf]

theorem canonLit_int (olz : Bool) {l : Lit} (hi : E.allZero l.ip = false) (hf : E.allZero (l.fp.getD []) = true) :
    canonLit olz l = { sign := l.sign, ip := E.stripLZ l.ip, fp := none, unit := l.unit.map lowerAscii } := by
  simp [canonLit, hi, hf]

theorem canonLit_frac (olz : Bool) {l : Lit} (hf : E.allZero (l.fp.getD []) = false) :
    canonLit olz l = { sign := l.sign,
                       ip := if E.allZero l.ip then (if olz then [] else [cZero]) else E.stripLZ l.ip,
                       fp := some (rstripZeros (l.fp.getD [])), unit := l.unit.map lowerAscii } := by
  simp [canonLit, hf]

theorem stripLZ_idem (ds : Cps) : E.stripLZ (E.stripLZ ds) = E.stripLZ ds := by
  unfold E.stripLZ
  induction ds with
  | nil => rfl
  | cons c t ih =>
    rw [List.dropWhile_cons]
    split
    · exact ih
    · rename_i h
      rw [List.dropWhile_cons]; simp [h]

theorem stripLZ_ne_nil {ds : Cps} (h : E.allZero ds = false) : E.stripLZ ds ≠ [] := by
  intro e; rw [(stripLZ_eq_nil_iff ds).mp e] at h; cases h

theorem allZero_stripLZ {ds : Cps} (h : E.allZero ds = false) : E.allZero (E.stripLZ ds) = false := by
  cases hh : E.allZero (E.stripLZ ds) with
  | false => rfl
  | true =>
    have := (stripLZ_eq_nil_iff (E.stripLZ ds)).mpr hh
    rw [stripLZ_idem] at this
    exact absurd this (stripLZ_ne_nil h)

theorem allZero_rstrip {ds : Cps} (h : E.allZero ds = false) : E.allZero (rstripZeros ds) = false := by
  cases hh : E.allZero (rstripZeros ds) with
  | false => rfl
  | true =>
    have := rstripZeros_eq_nil hh
    rw [rstripZeros_idem] at this
    exact absurd this (rstripZeros_ne_nil h)

theorem fracDigits {l : Lit} (h : l.Wf) : Digits (l.fp.getD []) := by
  cases hf : l.fp with
  | none => exact Digits.nil
  | some f => exact (h.fp f hf).1

theorem Wf.canon {l : Lit} (h : l.Wf) (olz : Bool) : (canonLit olz l).Wf := by
  have hF : Digits (rstripZeros (l.fp.getD [])) := rstripZeros_digits (fracDigits h)
  have hu := h.lower
  have hd0 : Digits [cZero] := by intro c hc; simp at hc; subst hc; decide
  cases hf : E.allZero (l.fp.getD []) with
  | true =>
    cases hi : E.allZero l.ip with
    | true =>
      rw [canonLit_zero olz hi hf]
      exact { sign := Or.inl rfl, ip := hd0,
              fp := (by intro f hf; cases hf), ipne := (by intro _; simp),
              unitPlain := (by
                dsimp only; split
                · intro c hc; cases hc
                · exact hu.unitPlain),
              unitStart := (by
                dsimp only; split
                · intro c hc; cases hc
                · exact hu.unitStart) }
    | false =>
      rw [canonLit_int olz hi hf]
      exact { sign := h.sign, ip := stripLZ_digits h.ip, fp := (by intro f hf; cases hf),
              ipne := (by intro _; exact stripLZ_ne_nil hi), unitPlain := hu.unitPlain, unitStart := hu.unitStart }
  | false =>
    rw [canonLit_frac olz hf]
    exact { sign := h.sign,
            ip := (by
              dsimp only; split
              · split
                · exact Digits.nil
                · exact hd0
              · exact stripLZ_digits h.ip),
            fp := (by intro f hf'; cases hf'; exact ⟨hF, rstripZeros_ne_nil hf⟩),
            ipne := (by intro e; cases e),
            unitPlain := hu.unitPlain, unitStart := hu.unitStart }

/-- the canonical literal is a fixed point -/
theorem canonLit_idem (l : Lit) (olz : Bool) (hz : zeroLenUnits.contains [] = false) :
    canonLit olz (canonLit olz l) = canonLit olz l := by
  have a0 : E.allZero [cZero] = true := by decide
  have an : E.allZero ([] : Cps) = true := by decide
  cases hf : E.allZero (l.fp.getD []) with
  | true =>
    cases hi : E.allZero l.ip with
    | true =>
      rw [canonLit_zero olz hi hf]
      rw [canonLit_zero olz (by exact a0) (by exact an)]
      have hm : (l.unit.map lowerAscii).map lowerAscii = l.unit.map lowerAscii := by
        rw [List.map_map]; apply List.map_congr_left; intro c _; exact lowerAscii_idem c
      cases hc : zeroLenUnits.contains (l.unit.map lowerAscii) with
      | true => simp only [if_true, List.map_nil, hz, Bool.false_eq_true, if_false]
      | false => simp only [Bool.false_eq_true, if_false, hm, hc]
    | false =>
      rw [canonLit_int olz hi hf]
      rw [canonLit_int olz (by exact allZero_stripLZ hi) (by exact an)]
      simp [stripLZ_idem, lowerAscii_idem]
  | false =>
    rw [canonLit_frac olz hf]
    rw [canonLit_frac olz (by simpa using allZero_rstrip hf)]
    simp only [Option.getD_some, rstripZeros_idem, List.map_map, Lit.mk.injEq, true_and]
    refine ⟨?_, ?_⟩
    · cases hi : E.allZero l.ip with
      | true =>
        cases olz
        · simp [a0]
        · simp [an]
      | false => simp [allZero_stripLZ hi, stripLZ_idem]
    · apply List.map_congr_left; intro c _; exact lowerAscii_idem c

/-! ## the serializer writes the canonical literal -/

def Lit.toDimVal (l : Lit) (typ : NumType) : DimVal :=
  { sign := l.sign, ip := l.ip, fp := l.fp, dim := l.unit.map lowerAscii, typ := typ }

/-- `'%f' % x` of the exact layer, with the integer part spelled out -/
theorem pctF_eq (l : Lit) (typ : NumType) (hf : E.allZero (l.fp.getD []) = false) :
    E.pctF (l.toDimVal typ) =
      ((if l.sign = [cMinus] then [cMinus] else []) ++
        (if E.allZero l.ip then [cZero] else E.stripLZ l.ip)) ++ cDot :: E.pad6 (l.fp.getD []) := by
  unfold E.pctF E.isNeg E.isZero Lit.toDimVal
  simp only [hf, Bool.and_false, Bool.not_false, Bool.and_true, List.append_assoc]
  congr 1
  · by_cases hs : l.sign = [cMinus] <;> simp [hs]
  · congr 1
    rcases Bool.eq_false_or_eq_true (E.allZero l.ip) with hi | hi
    · simp [hi, (stripLZ_eq_nil_iff l.ip).mpr hi]
    · have := stripLZ_ne_nil hi
      simp [hi, this]

theorem pre_no_dot {l : Lit} (h : l.Wf) :
    ∀ c ∈ ((if l.sign = [cMinus] then [cMinus] else []) ++
        (if E.allZero l.ip then [cZero] else E.stripLZ l.ip) : Cps), c ≠ cDot := by
  intro c hc
  rcases List.mem_append.mp hc with hc | hc
  · split at hc
    · simp at hc; subst hc; decide
    · cases hc
  · split at hc
    · simp at hc; subst hc; decide
    · exact digits_no_dot (stripLZ_digits h.ip) c hc

theorem numText_canon {l : Lit} (h : l.Wf) (p : Prefs) (typ : NumType)
    (h6 : (l.fp.getD []).length ≤ 6) :
    numText exactOps p (l.toDimVal typ) = .ok (canonLit p.omitLeadingZero l).text := by
  unfold numText
  simp only [exactOps]
  rcases Bool.eq_false_or_eq_true (E.allZero (l.fp.getD [])) with hf | hf
  · simp only [Lit.toDimVal, E.isZero, E.isIntegral, E.absLtOne]
    rcases Bool.eq_false_or_eq_true (E.allZero l.ip) with hi | hi
    · rw [canonLit_zero _ hi hf]
      simp [hi, hf, Lit.text, fracText, bind, Except.bind, pure, Except.pure]
    · rw [canonLit_int _ hi hf]
      simp only [hi, hf, Lit.text, fracText, bind, Except.bind, pure, Except.pure, E.strInt, E.isNeg, E.isZero]
      have hI := stripLZ_ne_nil hi
      rcases h.sign with hs | hs | hs <;> simp [hs, hI, cPlus, cMinus]
  · rw [canonLit_frac _ hf, pctF_eq l typ hf, stripZeros_pctF (pre_no_dot h) h6 hf]
    simp only [Lit.toDimVal, E.isZero, E.isIntegral, E.absLtOne, hf, Bool.and_false, Bool.false_eq_true, if_false,
      Lit.text, fracText, bind, Except.bind, pure, Except.pure]
    rcases Bool.eq_false_or_eq_true (E.allZero l.ip) with hi | hi
    · cases holz : p.omitLeadingZero
      · rcases h.sign with hs | hs | hs <;> simp [hs, hi, cPlus, cMinus]
      · rcases h.sign with hs | hs | hs <;> simp [hs, hi, cPlus, cMinus]
    · rcases h.sign with hs | hs | hs <;> simp [hs, hi, cPlus, cMinus]

theorem Lit.text_has_digit {l : Lit} (h : l.Wf) : ∃ c ∈ l.text, isDigit c = true := by
  cases hf : l.fp with
  | none =>
    cases hip : l.ip with
    | nil => exact absurd hip (h.ipne hf)
    | cons d t => exact ⟨d, by simp [Lit.text, hip], h.ip d (by simp [hip])⟩
  | some f =>
    obtain ⟨hd, hne⟩ := h.fp f hf
    cases hff : f with
    | nil => exact absurd hff hne
    | cons d t => exact ⟨d, by simp [Lit.text, hf, fracText, hff], hd d (by simp [hff])⟩

/-- `DimensionValue(text).cssText` is the canonical literal, for every preference record whose spacer is blank -/
theorem roundTrip_canon {l : Lit} (h : l.Wf) (p : Prefs) (typ : NumType) (hsp : isCssBlank p.spacer = true)
    (h6 : (l.fp.getD []).length ≤ 6) (hov : l.tooLarge = false) :
    roundTrip p typ l.text = .ok (canonLit p.omitLeadingZero l).text := by
  unfold roundTrip fmtNum
  rw [parseDim_text h typ hov]
  have := numText_canon h p typ h6
  unfold Lit.toDimVal at this
  simp only [bind, Except.bind, this, pure, Except.pure]
  rw [outValue_outAppend_num p hsp _ typ (Lit.text_has_digit (Wf.canon h _))]

theorem canon_frac_le {l : Lit} (h6 : (l.fp.getD []).length ≤ 6) (olz : Bool) :
    ((canonLit olz l).fp.getD []).length ≤ 6 := by
  rcases Bool.eq_false_or_eq_true (E.allZero (l.fp.getD [])) with hf | hf
  · rcases Bool.eq_false_or_eq_true (E.allZero l.ip) with hi | hi
    · rw [canonLit_zero olz hi hf]; simp
    · rw [canonLit_int olz hi hf]; simp
  · rw [canonLit_frac olz hf]
    have := rstripZeros_length_le (l.fp.getD [])
    simp only [Option.getD_some]; omega

/-- a digit string without leading zero is at least `10^(len-1)` -/
theorem pow_le_natOfDigits {c : Nat} {t : Cps} (hd : isDigit c = true) (hz : c ≠ cZero) :
    10 ^ t.length ≤ natOfDigits (c :: t) := by
  rw [natOfDigits_cons]
  have := digit_sub_pos hd hz
  calc 10 ^ t.length = 1 * 10 ^ t.length := by simp
    _ ≤ (c - cZero) * 10 ^ t.length := Nat.mul_le_mul_right _ this
    _ ≤ _ := Nat.le_add_right _ _

theorem stripLZ_head_ne_zero (ds : Cps) : ∀ c t, E.stripLZ ds = c :: t → c ≠ cZero := by
  unfold E.stripLZ
  induction ds with
  | nil => intro c t h; cases h
  | cons d r ih =>
    intro c t h
    rw [List.dropWhile_cons] at h
    split at h
    · exact ih c t h
    · rename_i hd
      cases h
      intro e; subst e; simp at hd

/-- a float literal that does not overflow has a short integer part once leading zeros are gone -/
theorem stripLZ_length_of_no_overflow {ip : Cps} (hd : Digits ip) (hov : floatOverflows ip = false) :
    (E.stripLZ ip).length ≤ Gen.C18.maxStrDigits := by
  cases hs : E.stripLZ ip with
  | nil => simp
  | cons c t =>
    have hc := stripLZ_head_ne_zero ip c t hs
    have hdc : isDigit c = true := stripLZ_digits hd c (by rw [hs]; simp)
    have h1 := pow_le_natOfDigits (t := t) hdc hc
    rw [← hs, natOfDigits_stripLZ] at h1
    have h2 : natOfDigits ip < 2 ^ 1024 - 2 ^ 970 := by
      unfold floatOverflows at hov; exact Nat.lt_of_not_ge (of_decide_eq_false hov)
    have h3 : (2 : Nat) ^ 1024 - 2 ^ 970 < 10 ^ 309 := by decide +kernel
    have h4 : 10 ^ t.length < 10 ^ 309 := by omega
    have h5 : t.length < 309 := (Nat.pow_lt_pow_iff_right (by decide)).mp h4
    have : Gen.C18.maxStrDigits = 4300 := rfl
    simp only [List.length_cons]; omega

theorem canon_not_tooLarge {l : Lit} (h : l.Wf) (hov : l.tooLarge = false) (olz : Bool) :
    (canonLit olz l).tooLarge = false := by
  have z : floatOverflows [cZero] = false := by decide +kernel
  have zn : floatOverflows [] = false := by decide +kernel
  have hm : Gen.C18.maxStrDigits = 4300 := rfl
  rcases Bool.eq_false_or_eq_true (E.allZero (l.fp.getD [])) with hf | hf
  · rcases Bool.eq_false_or_eq_true (E.allZero l.ip) with hi | hi
    · rw [canonLit_zero olz hi hf]; simp [Lit.tooLarge, hm]
    · rw [canonLit_int olz hi hf]
      simp only [Lit.tooLarge, decide_eq_false_iff_not, Nat.not_lt]
      cases hfp : l.fp with
      | none =>
        have : ¬ (l.ip.length > Gen.C18.maxStrDigits) := by simpa [Lit.tooLarge, hfp] using hov
        have := stripLZ_length_le l.ip
        omega
      | some f =>
        have : floatOverflows l.ip = false := by simpa [Lit.tooLarge, hfp] using hov
        exact stripLZ_length_of_no_overflow h.ip this
  · rw [canonLit_frac olz hf]
    cases hfp : l.fp with
    | none => rw [hfp] at hf; simp [E.allZero] at hf
    | some f =>
      have hov' : floatOverflows l.ip = false := by simpa [Lit.tooLarge, hfp] using hov
      have hs : floatOverflows (E.stripLZ l.ip) = false := by
        unfold floatOverflows at *; rw [natOfDigits_stripLZ]; exact hov'
      simp only [Lit.tooLarge]
      split
      · split
        · exact zn
        · exact z
      · exact hs

/-! ## denotation -/

/-- what the parts of a literal denote -/
def Lit.den (l : Lit) : Den :=
  { neg := l.sign = [cMinus], mant := natOfDigits (l.ip ++ l.fp.getD []), scale := (l.fp.getD []).length,
    unit := l.unit.map lowerAscii }

theorem denoteAfterSign_text {l : Lit} (h : l.Wf) (neg : Bool) :
    denoteAfterSign neg (l.ip ++ (fracText l.fp ++ l.unit)) =
      some { neg := neg, mant := natOfDigits (l.ip ++ l.fp.getD []), scale := (l.fp.getD []).length,
             unit := l.unit.map lowerAscii } := by
  have htail : ∀ c, (fracText l.fp ++ l.unit).head? = some c → isDigit c = false := by
    intro c hc
    cases hf : l.fp with
    | none => rw [hf] at hc; simp [fracText] at hc; exact (h.unitStart c hc).1
    | some f => rw [hf] at hc; simp [fracText] at hc; subst hc; decide
  unfold denoteAfterSign
  obtain ⟨e1, e2⟩ := takeWhile_digits h.ip htail
  simp only [e1, e2]
  cases hf : l.fp with
  | none =>
    have hne := h.ipne hf
    have hemp : l.ip.isEmpty = false := by
      cases hip : l.ip with
      | nil => exact absurd hip hne
      | cons _ _ => rfl
    simp only [fracText, List.nil_append, hemp, Bool.false_eq_true, if_false, Option.getD_none, List.append_nil,
      List.length_nil]
    cases hu : l.unit with
    | nil => rfl
    | cons c r =>
      have := (h.unitStart c (by rw [hu]; rfl)).2
      cases r with
      | nil => rfl
      | cons e r2 => simp [this]
  | some f =>
    obtain ⟨hfd, hfne⟩ := h.fp f hf
    have hu : ∀ c, l.unit.head? = some c → isDigit c = false := fun c hc => (h.unitStart c hc).1
    obtain ⟨f1, f2⟩ := takeWhile_digits hfd hu
    cases hff : f with
    | nil => exact absurd hff hfne
    | cons e t =>
      have he : isDigit e = true := hfd e (by simp [hff])
      rw [hff] at f1 f2
      simp only [fracText, List.cons_append, he, and_self, if_true, Option.getD_some]
      simp only [List.cons_append] at f1 f2
      rw [f1, f2]

theorem denote_text {l : Lit} (h : l.Wf) : denote l.text = some l.den := by
  have hrest : ∀ c, (l.ip ++ (fracText l.fp ++ l.unit)).head? = some c → c ≠ cPlus ∧ c ≠ cMinus := by
    intro c hc
    cases hip : l.ip with
    | cons d t =>
      rw [hip] at hc; simp at hc; subst hc
      have := h.ip d (by rw [hip]; simp)
      constructor <;> (intro e; subst e; revert this; decide)
    | nil =>
      rw [hip] at hc
      cases hf : l.fp with
      | none => exact absurd hip (h.ipne hf)
      | some f =>
        rw [hf] at hc; simp [fracText] at hc; subst hc; decide
  unfold denote Lit.den
  rcases h.sign with hs | hs | hs
  · have e : l.text = l.ip ++ (fracText l.fp ++ l.unit) := by simp [Lit.text, hs]
    rw [e]
    cases hr : l.ip ++ (fracText l.fp ++ l.unit) with
    | nil =>
      have := Lit.text_ne_nil h; rw [e, hr] at this; exact absurd rfl this
    | cons c t =>
      have := hrest c (by rw [hr]; rfl)
      simp only [this.1, this.2, if_false]
      rw [← hr, denoteAfterSign_text h false, hs]
      simp [cMinus]
  · have e : l.text = cPlus :: (l.ip ++ (fracText l.fp ++ l.unit)) := by simp [Lit.text, hs]
    rw [e]; simp only [if_true]
    rw [denoteAfterSign_text h false, hs]; simp [cPlus, cMinus]
  · have e : l.text = cMinus :: (l.ip ++ (fracText l.fp ++ l.unit)) := by simp [Lit.text, hs]
    rw [e]
    have : cMinus ≠ cPlus := by decide
    simp only [this, if_false, if_true]
    rw [denoteAfterSign_text h true, hs]; simp

/-- the same real number: cross-multiplied mantissas agree, and the signs agree unless the number is zero -/
def Den.SameValue (a b : Den) : Prop :=
  a.mant * 10 ^ b.scale = b.mant * 10 ^ a.scale ∧ (a.mant = 0 ∨ a.neg = b.neg)

/-- the rational number an exact decimal stands for -/
def Den.toRat (d : Den) : Rat := (if d.neg then -1 else 1) * ((d.mant : Rat) / (10 : Rat) ^ d.scale)

theorem pow10_ne (j : Nat) : ((10 : Rat) ^ j) ≠ 0 := by
  induction j with
  | zero => simp
  | succ n ih =>
    rw [Rat.pow_succ]; intro h
    rcases Rat.mul_eq_zero.mp h with h | h
    · exact ih h
    · revert h; decide

theorem Den.toRat_eq_of_sameValue {a b : Den} (h : a.SameValue b) : a.toRat = b.toRat := by
  obtain ⟨hm, hs⟩ := h
  have hj := pow10_ne a.scale
  have hk := pow10_ne b.scale
  have h' : (a.mant : Rat) * (10 : Rat) ^ b.scale = (b.mant : Rat) * (10 : Rat) ^ a.scale := by
    have := congrArg (fun n : Nat => (n : Rat)) hm
    simp [Rat.natCast_mul, Rat.natCast_pow] at this
    exact this
  have key : (a.mant : Rat) / (10 : Rat) ^ a.scale = (b.mant : Rat) / (10 : Rat) ^ b.scale := by grind
  unfold Den.toRat
  rcases hs with hs | hs
  · have hb : b.mant = 0 := by
      rw [hs] at hm
      have hp : 0 < 10 ^ a.scale := Nat.pow_pos (by decide)
      have : b.mant * 10 ^ a.scale = 0 := by omega
      rcases Nat.mul_eq_zero.mp this with h0 | h0
      · exact h0
      · omega
    have z : ∀ x : Rat, (0 : Rat) / x = 0 := by intro x; rw [Rat.div_def]; simp
    have c0 : ((0 : Nat) : Rat) = 0 := rfl
    rw [hs, hb, c0, z, z]
    simp [Rat.mul_zero]
  · rw [hs, key]

theorem canon_sameValue {l : Lit} (olz : Bool) : (canonLit olz l).den.SameValue l.den := by
  have n0 : natOfDigits [cZero] = 0 := by decide
  rcases Bool.eq_false_or_eq_true (E.allZero (l.fp.getD [])) with hf | hf
  · rcases Bool.eq_false_or_eq_true (E.allZero l.ip) with hi | hi
    · rw [canonLit_zero olz hi hf]
      simp [Den.SameValue, Lit.den, natOfDigits_append, natOfDigits_allZero hi, natOfDigits_allZero hf, n0]
    · rw [canonLit_int olz hi hf]
      simp [Den.SameValue, Lit.den, natOfDigits_append, natOfDigits_allZero hf, natOfDigits_stripLZ]
  · rw [canonLit_frac olz hf]
    obtain ⟨k, hk⟩ := rstripZeros_decomp (l.fp.getD [])
    have hI : natOfDigits (if E.allZero l.ip then (if olz then [] else [cZero]) else E.stripLZ l.ip)
        = natOfDigits l.ip := by
      rcases Bool.eq_false_or_eq_true (E.allZero l.ip) with hi | hi
      · cases olz <;> simp [hi, natOfDigits_allZero hi, n0, natOfDigits_nil]
      · simp [hi, natOfDigits_stripLZ]
    have hl : (l.fp.getD []).length = (rstripZeros (l.fp.getD [])).length + k := by
      have := congrArg List.length hk; simpa using this
    have hn : natOfDigits (l.fp.getD []) = natOfDigits (rstripZeros (l.fp.getD [])) * 10 ^ k := by
      conv => lhs; rw [hk]
      exact natOfDigits_append_zeros _ _
    simp only [Den.SameValue, Lit.den, Option.getD_some, natOfDigits_append, hI, hn, hl, Nat.pow_add, or_true,
      and_true]
    grind

theorem canon_unit (olz : Bool) (l : Lit) :
    (canonLit olz l).den.unit = l.den.unit ∨
      (l.den.mant = 0 ∧ l.den.unit ∈ zeroLenUnits ∧ (canonLit olz l).den.unit = []) := by
  have hm : ∀ u : Cps, (u.map lowerAscii).map lowerAscii = u.map lowerAscii := by
    intro u; rw [List.map_map]; apply List.map_congr_left; intro c _; exact lowerAscii_idem c
  rcases Bool.eq_false_or_eq_true (E.allZero (l.fp.getD [])) with hf | hf
  · rcases Bool.eq_false_or_eq_true (E.allZero l.ip) with hi | hi
    · rw [canonLit_zero olz hi hf]
      cases hc : zeroLenUnits.contains (l.unit.map lowerAscii) with
      | true =>
        right
        refine ⟨?_, List.contains_iff_mem.mp hc, ?_⟩
        · simp [Lit.den, natOfDigits_append, natOfDigits_allZero hi, natOfDigits_allZero hf]
        · simp [Lit.den, hc]
      | false => left; simp [Lit.den, hc, hm]
    · rw [canonLit_int olz hi hf]; left; simp [Lit.den, hm]
  · rw [canonLit_frac olz hf]; left; simp [Lit.den, hm]


/-- the number the parts of a literal stand for, written out -/
def Lit.value (l : Lit) : Rat :=
  (if l.sign = [cMinus] then -1 else 1) *
    ((natOfDigits l.ip : Rat) + (natOfDigits (l.fp.getD []) : Rat) / (10 : Rat) ^ (l.fp.getD []).length)

theorem Lit.den_toRat (l : Lit) : l.den.toRat = l.value := by
  unfold Den.toRat Lit.den Lit.value
  simp only [natOfDigits_append, decide_eq_true_eq]
  have hk := pow10_ne (l.fp.getD []).length
  have : ((natOfDigits l.ip * 10 ^ (l.fp.getD []).length + natOfDigits (l.fp.getD []) : Nat) : Rat)
      = (natOfDigits l.ip : Rat) * (10 : Rat) ^ (l.fp.getD []).length + (natOfDigits (l.fp.getD []) : Rat) := by
    simp [Rat.natCast_add, Rat.natCast_mul, Rat.natCast_pow]
  rw [this]
  congr 1
  grind

end CssVerif.Num
