import CssVerif.Lemmas.CodecChunk
/-!
Round trip of the unit codecs: what an encoder writes for a character, the decoder reads back as that
character (arithmetic on the byte values, by `omega`).
-/
namespace CssVerif.Codec

theorem rt8 (c : Nat) (u : List Nat) (h : encUnit8 c = some u) :
    ∃ x t, u = x :: t ∧ ∀ rest, (first8 x).run (t ++ rest) 0 = .done c t.length := by
  unfold encUnit8 at h
  split at h
  · simp only [Option.some.injEq] at h; subst h
    refine ⟨_, _, rfl, fun rest => ?_⟩
    simp only [first8]
    rw [if_pos (by omega)]
    rfl
  · split at h
    · simp only [Option.some.injEq] at h; subst h
      refine ⟨_, _, rfl, fun rest => ?_⟩
      simp only [first8, List.cons_append, List.nil_append]
      rw [if_neg (by omega), if_neg (by omega), if_pos (by omega)]
      simp only [Rd.run]
      rw [if_pos (by omega)]
      simp only [Rd.run, List.length_cons, List.length_nil, Unit1.done.injEq]
      (try simp only [and_true]); omega
    · split at h
      · split at h
        · cases h
        · simp only [Option.some.injEq] at h; subst h
          refine ⟨_, _, rfl, fun rest => ?_⟩
          simp only [first8, List.cons_append, List.nil_append]
          rw [if_neg (by omega), if_neg (by omega), if_neg (by omega), if_pos (by omega)]
          simp only [Rd.run]
          rw [if_neg (by omega), if_neg (by omega), if_neg (by omega)]
          simp only [Rd.run]
          rw [if_pos (by omega)]
          simp only [Rd.run, List.length_cons, List.length_nil, Unit1.done.injEq]
          (try simp only [and_true]); omega
      · split at h
        · simp only [Option.some.injEq] at h; subst h
          refine ⟨_, _, rfl, fun rest => ?_⟩
          simp only [first8, List.cons_append, List.nil_append]
          rw [if_neg (by omega), if_neg (by omega), if_neg (by omega), if_neg (by omega), if_pos (by omega)]
          simp only [Rd.run]
          rw [if_neg (by omega), if_neg (by omega), if_neg (by omega)]
          simp only [Rd.run]
          rw [if_neg (by omega)]
          simp only [Rd.run]
          rw [if_pos (by omega)]
          simp only [Rd.run, List.length_cons, List.length_nil, Unit1.done.injEq]
          (try simp only [and_true]); omega
        · cases h

theorem rt16 (be : Bool) (c : Nat) (u : List Nat) (h : encUnit16 be c = some u) :
    ∃ x t, u = x :: t ∧ ∀ rest, (first16 be x).run (t ++ rest) 0 = .done c t.length := by
  unfold encUnit16 at h
  split at h
  · split at h
    · cases h
    · simp only [Option.some.injEq] at h; subst h
      cases be
      · refine ⟨_, _, rfl, fun rest => ?_⟩
        simp only [first16, u16, Rd.run, List.cons_append, List.nil_append, Bool.false_eq_true, if_false]
        rw [if_pos (by omega)]
        simp only [Rd.run, List.length_cons, List.length_nil, Unit1.done.injEq]
        (try simp only [and_true]); omega
      · refine ⟨_, _, rfl, fun rest => ?_⟩
        simp only [first16, u16, Rd.run, List.cons_append, List.nil_append, if_true]
        rw [if_pos (by omega)]
        simp only [Rd.run, List.length_cons, List.length_nil, Unit1.done.injEq]
        (try simp only [and_true]); omega
  · split at h
    · obtain ⟨q, r, hc, hr, hq, e1, e2⟩ : ∃ q r, c = 65536 + q * 1024 + r ∧ r < 1024 ∧ q < 1024 ∧
          (c - 65536) / 1024 = q ∧ (c - 65536) % 1024 = r :=
        ⟨(c - 65536) / 1024, (c - 65536) % 1024, by omega, by omega, by omega, rfl, rfl⟩
      rw [e1, e2] at h
      subst hc
      cases be
      · simp only [bytes16, Bool.false_eq_true, if_false, List.cons_append, List.nil_append,
          Option.some.injEq] at h
        subst h
        refine ⟨_, _, rfl, fun rest => ?_⟩
        simp only [first16, u16, Rd.run, List.cons_append, List.nil_append, Bool.false_eq_true, if_false]
        rw [if_neg (by omega), if_neg (by omega)]
        simp only [Rd.run]
        rw [if_pos (by omega)]
        simp only [Rd.run, List.length_cons, List.length_nil, Unit1.done.injEq]
        (try simp only [and_true]); omega
      · simp only [bytes16, if_true, List.cons_append, List.nil_append, Option.some.injEq] at h
        subst h
        refine ⟨_, _, rfl, fun rest => ?_⟩
        simp only [first16, u16, Rd.run, List.cons_append, List.nil_append, if_true]
        rw [if_neg (by omega), if_neg (by omega)]
        simp only [Rd.run]
        rw [if_pos (by omega)]
        simp only [Rd.run, List.length_cons, List.length_nil, Unit1.done.injEq]
        (try simp only [and_true]); omega
    · cases h

theorem rt32 (be : Bool) (c : Nat) (u : List Nat) (h : encUnit32 be c = some u) :
    ∃ x t, u = x :: t ∧ ∀ rest, (first32 be x).run (t ++ rest) 0 = .done c t.length := by
  unfold encUnit32 at h
  split at h
  · simp only [Option.some.injEq] at h; subst h
    cases be
    · refine ⟨_, _, rfl, fun rest => ?_⟩
      simp only [first32, u32, Rd.run, List.cons_append, List.nil_append, Bool.false_eq_true, if_false]
      rw [if_pos (by omega)]
      simp only [Rd.run, List.length_cons, List.length_nil, Unit1.done.injEq]
      (try simp only [and_true]); omega
    · refine ⟨_, _, rfl, fun rest => ?_⟩
      simp only [first32, u32, Rd.run, List.cons_append, List.nil_append, if_true]
      rw [if_pos (by omega)]
      simp only [Rd.run, List.length_cons, List.length_nil, Unit1.done.injEq]
      (try simp only [and_true]); omega
  · cases h

/-- what the unit encoder of a codec writes for a character, its unit decoder reads back -/
theorem rtKind (k : Kind) (c : Nat) (u : List Nat) (h : k.encUnit c = some u) :
    ∃ x t, u = x :: t ∧ ∀ rest, (k.first x).run (t ++ rest) 0 = .done c t.length := by
  cases k with
  | u8 => exact rt8 c u h
  | u16le => exact rt16 false c u h
  | u16be => exact rt16 true c u h
  | u32le => exact rt32 false c u h
  | u32be => exact rt32 true c u h
  | l1 =>
    simp only [Kind.encUnit] at h
    split at h
    · simp only [Option.some.injEq] at h; subst h
      exact ⟨_, _, rfl, fun rest => rfl⟩
    · cases h
  | ascii =>
    simp only [Kind.encUnit] at h
    split at h
    · simp only [Option.some.injEq] at h; subst h
      refine ⟨_, _, rfl, fun rest => ?_⟩
      simp only [Kind.first, firstAscii]
      rw [if_pos (by omega)]
      rfl
    · cases h

theorem scanS_skip (first : Nat → Rd) (p r : List Nat) (f : Bool) :
    scanS first (p ++ r) p.length f = scanS first r 0 f := by
  induction p with
  | nil => rfl
  | cons x t ih => simpa [scanS] using ih

/-- **decode ∘ encode = id** for every unit codec: a text the encoder accepts is read back exactly, with
nothing pending and no error -/
theorem scan_encScan (k : Kind) (t bs : List Nat) (f : Bool) (h : encScan k t = (bs, true)) :
    scan k.first bs f = ⟨t, [], false⟩ := by
  induction t generalizing bs with
  | nil =>
    simp only [encScan, Prod.mk.injEq] at h
    obtain ⟨h, _⟩ := h; subst h; rfl
  | cons c t ih =>
    simp only [encScan] at h
    cases hu : k.encUnit c with
    | none => simp [hu] at h
    | some u =>
      simp only [hu, Prod.mk.injEq] at h
      obtain ⟨h1, h2⟩ := h
      obtain ⟨x, ut, hxu, hrun⟩ := rtKind k c u hu
      have hrest : encScan k t = ((encScan k t).1, true) := by rw [← h2]
      have := ih _ hrest
      subst h1; subst hxu
      unfold scan at *
      simp only [List.cons_append, scanS, hrun, scanS_skip, this, Res.cons]

end CssVerif.Codec
