import CssVerif.Lemmas.SheetSpecSheet
import CssVerif.Lemmas.SheetSpecNoC
import CssVerif.Gen.C02Margins
/-!
# C02: an example spelled sheet with every rule kind, and the proof that it is well formed
(used by the non-vacuity examples of Props/C02.lean)
-/
namespace CssVerif.C02
open CssVerif.SheetSpec CssVerif.Struct CssVerif.AtRules
open CssVerif.Proto (Cps cps)

theorem nameOk_of (n : Cps) (h1 : ∀ c ∈ n, c ≠ 0x5C ∧ CssVerif.Normalize.lowerAscii c = c)
    (h2 : ∃ c cs, n = c :: cs ∧ c ∉ delims) : NameOk n := ⟨h1, h2⟩

theorem core_of (c : List Tok) (h1 : ∃ t ts, c = t :: ts ∧ isS t = false)
    (h2 : ∃ ts t, c = ts ++ [t] ∧ isS t = false) : Core c := ⟨h1, h2⟩

namespace Ex2
open CssVerif.Struct.Ex
def M := CssVerif.Gen.C02.margins
def O : Oracle := withAtRules Ex.yes
def sp1 : Ws := ⟨.space, []⟩
def g : Gap := [.ws sp1]
def gc : Gap := [.ws sp1, .cm (cps "c"), .ws ⟨.lf, [.tab]⟩]
def dColor : SDecl :=
  { name := cps "color", nameSp := [(true, false), (true, true), (true, false)], g1 := gc,
    g2 := g, value := [idt "red" 7], g3 := g,
    prio := some (g, cps "important", [(true, false), (true, true)], g) }
def dTop : SDecl := { name := cps "top", g1 := g, g2 := g, value := [num "0", sp, num "1"], g3 := g }
def blk : SBlock := { lead := [sp1], items := [(.decl dColor, [sp1]), (.semi, [sp1]), (.comment (cps "k"), [sp1])], last := some dTop }
def sel : SSel := { first := [idt "a" 1], post := g, more := [(gc, [idt "b" 2], g)] }
def style : SRule := .style sel blk
def unk : List Tok := [atk "@x", sp, idt "y", sp, semi]
def media : SRule := .media [(true, false)] g [idt "print"] gc (some (.sq, cps "nm", gc)) [sp1] (.cons style [sp1] (.cons (.comment (cps "in")) [] .nil))
def psel : SPageSel :=
  { name := some (cps "cover"), mid := [cps "m"], pseudo := some (cps "first"), pseudoSp := [(true, false), (false, true)] }
def mblk : SBlock := { last := some dTop }
def pblk : SPageBlock :=
  { lead := [sp1], items := [(.item (.decl dTop), [sp1]), (.margin (cps "top-left") [(true, false)] gc mblk, [sp1])],
    last := none }
def page : SRule := .page [] g psel g pblk
def href : SHref := .url [(true, false), (false, true), (true, false)] [.space] [] (some .sq) (cps "a.css")
def vd1 : SVarDecl :=
  { name := cps "c1", nameSp := [(true, false)], g1 := gc, g2 := gc, value := [idt "red" 7], g3 := g }
def vd2 : SVarDecl := { name := cps "w", g2 := g, value := [num "0", sp, num "1"] }
/-- `c1` is declared twice (the second time in upper case): the later value takes the place of the first -/
def vd3 : SVarDecl := { name := cps "c1", nameSp := [(true, false)], g2 := g, value := [num "2"] }
def vblk : SVarBlock := { lead := gc, items := [(vd1, gc), (vd3, [])], last := some vd2 }
def sheet : SSheet :=
  { charset := some (.dq, cps "utf-8"), lead := [sp1],
    imports := [(.import_ [(true, false)] g href g (some ([idt "print"], g)) (some (.dq, cps "imp", g)), [sp1])],
    namespaces := [(.namespace_ [] g (some (cps "p", g)) (.str .dq (cps "urn:x")) [], [sp1])],
    variables := [(.variables [(true, false)] gc vblk, [sp1]), (.comment (cps "v"), [])],
    rules := .cons style [sp1, sp1] (.cons (.unknown unk) [] (.cons media [] (.cons (.fontface [] g blk) [] (.cons page [] .nil)))) }

theorem dColor_wf (O : Oracle) (h : ∀ l, O.valueOk l = true) : dColor.WF O :=
  ⟨nameOk_of _ (by decide) ⟨_, _, rfl, by decide⟩,
   ⟨core_of _ ⟨_, _, rfl, by decide⟩ ⟨[], _, rfl, by decide⟩, by decide, by decide⟩,
   by intro p hp; simp [dColor] at hp; subst hp; exact nameOk_of _ (by decide) ⟨_, _, rfl, by decide⟩, h _⟩

theorem dTop_wf (O : Oracle) (h : ∀ l, O.valueOk l = true) : dTop.WF O :=
  ⟨nameOk_of _ (by decide) ⟨_, _, rfl, by decide⟩,
   ⟨core_of _ ⟨_, _, rfl, by decide⟩ ⟨[num "0", sp], _, rfl, by decide⟩, by decide, by decide⟩,
   by intro p hp; simp [dTop] at hp, h _⟩

theorem blk_wf (O : Oracle) (h : ∀ l, O.valueOk l = true) : blk.WF O := by
  refine ⟨?_, ?_⟩
  · intro q hq
    simp only [blk, List.mem_cons, List.mem_nil_iff, or_false] at hq
    rcases hq with rfl | rfl | rfl
    · exact dColor_wf O h
    · trivial
    · trivial
  · intro d hd
    simp only [blk, Option.some.injEq] at hd
    subst hd
    exact dTop_wf O h

/-- a declaration with comments inside its value and its gaps -/
def dCm : SDecl :=
  { name := cps "top", nameSp := [(true, false)], g1 := gc, g2 := gc,
    value := [num "0", commentTok (cps "v"), sp, num "1"], g3 := gc,
    prio := some (gc, cps "important", [], gc) }
/-- a block with comment items, a declaration with comments, a stand-alone `;` -/
def blkCm : SBlock :=
  { lead := [sp1], items := [(.comment (cps "k"), [sp1]), (.decl dCm, [sp1]), (.semi, []), (.comment (cps "e"), [])],
    last := some dTop }

theorem dCm_noC_wf (O : Oracle) (h : ∀ l, O.valueOk l = true) : dCm.noC.WF O :=
  ⟨nameOk_of _ (by decide) ⟨_, _, rfl, by decide⟩,
   ⟨core_of _ ⟨_, _, rfl, by decide⟩ ⟨[num "0", sp], _, rfl, by decide⟩, by decide, by decide⟩,
   by intro p hp; simp [dCm, SDecl.noC, noCPrio] at hp; subst hp; exact nameOk_of _ (by decide) ⟨_, _, rfl, by decide⟩,
   h _⟩

theorem dTop_noC_wf (O : Oracle) (h : ∀ l, O.valueOk l = true) : dTop.noC.WF O :=
  ⟨nameOk_of _ (by decide) ⟨_, _, rfl, by decide⟩,
   ⟨core_of _ ⟨_, _, rfl, by decide⟩ ⟨[num "0", sp], _, rfl, by decide⟩, by decide, by decide⟩,
   by intro p hp; simp [dTop, SDecl.noC, noCPrio] at hp, h _⟩

theorem blkCm_noC_wf (O : Oracle) (h : ∀ l, O.valueOk l = true) : blkCm.noC.WF O := by
  refine ⟨?_, ?_⟩
  · intro q hq
    simp only [blkCm, SBlock.noC, noCItems, List.mem_cons, List.mem_nil_iff, or_false] at hq
    rcases hq with rfl | rfl
    · exact dCm_noC_wf O h
    · trivial
  · intro d hd
    simp only [blkCm, SBlock.noC, Option.map_some, Option.some.injEq] at hd
    subst hd
    exact dTop_noC_wf O h

theorem selCore (c : List Tok) (h1 : Core (strip c)) (h2 : Quiet .default [] c = true) (h3 : nest [] c = some [])
    (h4 : Quiet .listsep [] c = true) (h5 : noBrace c = true) : SelCoreOk c := ⟨h1, ⟨h2, h3⟩, h4, h5⟩

theorem sel_wf : sel.WF := by
  refine ⟨selCore _ (core_of _ ⟨_, _, rfl, by decide⟩ ⟨[], _, rfl, by decide⟩) (by decide) (by decide) (by decide) (by decide),
    ⟨_, _, rfl, by decide, by decide⟩, ?_⟩
  intro q hq
  simp only [sel, List.mem_cons, List.mem_nil_iff, or_false] at hq
  subst hq
  exact selCore _ (core_of _ ⟨_, _, rfl, by decide⟩ ⟨[], _, rfl, by decide⟩) (by decide) (by decide) (by decide) (by decide)

theorem yes_value : ∀ l, O.valueOk l = true := fun _ => rfl

theorem style_wf (ns : List (Cps × Cps)) : StyleWF O ns sel blk := ⟨sel_wf, blk_wf O yes_value, rfl⟩

theorem unk_ok : UnknownRuleOk M unk := by
  refine ⟨⟨_, _, rfl, rfl, by decide, ⟨[sp, idt "y", sp], semi, [], rfl, by decide, by decide, by decide, by decide, by decide⟩,
    by decide, by decide, by decide⟩, by decide, by decide, by decide +kernel⟩

theorem sel_noC_wf : sel.noC.WF := by
  refine ⟨selCore _ (core_of _ ⟨_, _, rfl, by decide⟩ ⟨[], _, rfl, by decide⟩) (by decide) (by decide) (by decide) (by decide),
    ⟨_, _, rfl, by decide, by decide⟩, ?_⟩
  intro q hq
  simp only [sel, SSel.noC, noCMore, List.mem_cons, List.mem_nil_iff, or_false] at hq
  subst hq
  exact selCore _ (core_of _ ⟨_, _, rfl, by decide⟩ ⟨[], _, rfl, by decide⟩) (by decide) (by decide) (by decide) (by decide)

/-- `/*c*/ a , /*c*/ b { /*k*/ TOP /*c*/ : /*c*/ 0/*v*/ 1 /*c*/ ! /*c*/ important /*c*/ ; ; /*e*/ top : 0 1 } /*e*/` -/
def sheetCm : SSheet :=
  { rules := .cons (.comment (cps "c")) [sp1] (.cons (.style sel blkCm) [sp1] (.cons (.comment (cps "e")) [] .nil)) }

theorem sheetCm_noC_wf : sheetCm.noC.WF O M := by
  refine ⟨?_, ?_, ?_, by decide, by decide, ?_, ?_⟩
  · intro c hc; simp [sheetCm, SSheet.noC] at hc
  · intro p hp; simp [sheetCm, SSheet.noC, noCImps] at hp
  · intro p hp; simp [sheetCm, SSheet.noC, noCNss, noCImps] at hp
  · intro p hp; simp [sheetCm, SSheet.noC, noCVars] at hp
  · exact And.intro (show StyleWF O _ sel.noC blkCm.noC from ⟨sel_noC_wf, blkCm_noC_wf O yes_value, rfl⟩) trivial

theorem mq_ok : MqOk [idt "print"] :=
  ⟨core_of _ ⟨_, _, rfl, by decide⟩ ⟨[], _, rfl, by decide⟩, ⟨by decide, by decide⟩, by decide, by decide⟩

theorem vd1_wf : vd1.WF O :=
  ⟨nameOk_of _ (by decide) ⟨_, _, rfl, by decide⟩,
   ⟨core_of _ ⟨_, _, rfl, by decide⟩ ⟨[], _, rfl, by decide⟩, by decide, by decide⟩, ⟨_, _, rfl, by decide⟩, rfl⟩

theorem vd2_wf : vd2.WF O :=
  ⟨nameOk_of _ (by decide) ⟨_, _, rfl, by decide⟩,
   ⟨core_of _ ⟨_, _, rfl, by decide⟩ ⟨[num "0", sp], _, rfl, by decide⟩, by decide, by decide⟩,
   ⟨_, _, rfl, by decide⟩, rfl⟩

theorem vd3_wf : vd3.WF O :=
  ⟨nameOk_of _ (by decide) ⟨_, _, rfl, by decide⟩,
   ⟨core_of _ ⟨_, _, rfl, by decide⟩ ⟨[], _, rfl, by decide⟩, by decide, by decide⟩, ⟨_, _, rfl, by decide⟩, rfl⟩

theorem vblk_wf : vblk.WF O := by
  refine ⟨?_, ?_⟩
  · intro q hq
    simp only [vblk, List.mem_cons, List.mem_nil_iff, or_false] at hq
    rcases hq with rfl | rfl
    · exact vd1_wf
    · exact vd3_wf
  · intro d hd
    simp only [vblk, Option.some.injEq] at hd
    subst hd
    exact vd2_wf

theorem sheet_wf : sheet.WF O M := by
  refine ⟨?_, ?_, ?_, by decide, by decide, ?_, ?_⟩
  · intro c hc
    simp only [sheet, Option.some.injEq] at hc
    subst hc
    exact ⟨by decide, rfl⟩
  · intro p hp
    simp only [sheet, List.mem_cons, List.mem_nil_iff, or_false] at hp
    subst hp
    refine ⟨by show (0x5C : Nat) ∉ cps "a.css"; decide, by decide, ?_,
      by intro q hq; simp only [Option.some.injEq] at hq; subst hq; show (0x5C : Nat) ∉ cps "imp"; decide⟩
    intro q hq
    simp only [Option.some.injEq] at hq
    subst hq
    exact ⟨⟨core_of _ ⟨_, _, rfl, by decide⟩ ⟨[], _, rfl, by decide⟩, ⟨_, _, rfl, Or.inl rfl⟩, by decide, ⟨by decide, by decide⟩⟩, rfl⟩
  · intro p hp
    simp only [sheet, List.mem_cons, List.mem_nil_iff, or_false] at hp
    subst hp
    refine ⟨by show (0x5C : Nat) ∉ cps "urn:x"; decide, ?_⟩
    intro q hq
    simp only [Option.some.injEq] at hq
    subst hq
    exact ⟨_, _, rfl, by decide⟩
  · intro p hp
    simp only [sheet, List.mem_cons, List.mem_nil_iff, or_false] at hp
    rcases hp with rfl | rfl
    · exact vblk_wf
    · trivial
  · refine And.intro (show StyleWF O _ sel blk from style_wf _) (And.intro (show UnknownRuleOk M unk from unk_ok)
      (And.intro (show MqOk _ ∧ O.mediaOk _ = true ∧ SRules.WF O M _ true _ ∧ NameWF _ from
          ⟨mq_ok, rfl, ⟨show StyleWF O _ sel blk from style_wf _, trivial, trivial⟩,
            by intro q hq; simp only [Option.some.injEq] at hq; subst hq; show (0x5C : Nat) ∉ cps "nm"; decide⟩)
        (And.intro (show false = false ∧ blk.WF O from ⟨rfl, blk_wf O yes_value⟩) (And.intro ?_ trivial))))
    show PageWF O M psel pblk
    refine ⟨⟨?_, ?_⟩, ?_, ?_, by decide⟩
    · intro n hn; simp only [psel, Option.some.injEq] at hn; subst hn; exact ⟨⟨_, _, rfl, by decide⟩, by decide⟩
    · intro n hn; simp only [psel, Option.some.injEq] at hn; subst hn
      exact Or.inl ⟨nameOk_of _ (by decide) ⟨_, _, rfl, by decide⟩, by decide⟩
    · intro q hq
      simp only [pblk, List.mem_cons, List.mem_nil_iff, or_false] at hq
      rcases hq with rfl | rfl
      · exact ⟨dTop_wf O yes_value, by decide⟩
      · refine ⟨nameOk_of _ (by decide) ⟨_, _, rfl, by decide⟩, by decide, ?_, ?_, ?_, by decide, by decide⟩
        · show ∀ t ∈ mblk.toks, t.typ ≠ .invalid ∧ t.typ ≠ .eof ∧ t.typ ≠ .atkeyword ∧ t.val ≠ vRBrace
          decide
        · intro q hq; simp [mblk] at hq
        · refine ⟨by intro q hq; simp [sqBlock, mblk, sqItems] at hq, ?_⟩
          intro d hd
          simp only [sqBlock, mblk, Option.map_some, Option.some.injEq] at hd
          subst hd
          exact ⟨nameOk_of _ (by decide) ⟨_, _, rfl, by decide⟩,
            ⟨core_of _ ⟨_, _, rfl, by decide⟩ ⟨[num "0"], _, rfl, by decide⟩, by decide, by decide⟩,
            by intro p hp; simp [sqDecl, dTop, sqPrio] at hp, rfl⟩
    · intro d hd; simp [pblk] at hd
end Ex2


end CssVerif.C02
