import CssVerif.Lemmas.SheetSpecVars
/-!
# Lemmas for C02: the sheet — `@charset`, the `@import` section, the `@namespace` section, the body
-/
namespace CssVerif.SheetSpec
open CssVerif.Proto (Cps)
open CssVerif.Struct CssVerif.AtRules
set_option linter.unusedSimpArgs false
set_option linter.unusedVariables false

def SImp.WF (O : Oracle) (M : List Cps) : SImp → Prop
  | .comment _ => True
  | .unknown t => UnknownRuleOk M t
  | .import_ _ _ href _ mq name => ImportWF O href mq name

def SImp.parsed : SImp → Rule
  | .comment b => .comment (commentTok b)
  | .unknown t => .unknown t
  | .import_ kw g1 href g2 mq name => .at_ .import_ (SImp.import_ kw g1 href g2 mq name).toks

def SNs.parsed : SNs → Rule
  | .comment b => .comment (commentTok b)
  | .unknown t => .unknown t
  | .namespace_ kw g1 pfx uri g2 =>
    .ns ((pfx.map (·.1)).getD []) uri.value (SNs.namespace_ kw g1 pfx uri g2).toks

def SNs.pair : SNs → Option (Cps × Cps)
  | .namespace_ _ _ pfx uri _ => some ((pfx.map (·.1)).getD [], uri.value)
  | _ => none

/-- the namespace bindings a `@namespace` section declares, in order -/
def nsPairs (l : List (SNs × WGap)) : List (Cps × Cps) := l.filterMap (fun p => p.1.pair)

/-- rules that must not stand before an `@import` (`cssstylesheet.py:700-727`) -/
def blocksImport (r : Rule) : Bool := r.kind.isBody || r.kind = .namespace_ || r.kind = .variables
/-- rules that must not stand before a `@namespace` (`cssstylesheet.py:758-800`) -/
def blocksNs (r : Rule) : Bool := r.kind.isBody || r.kind = .variables

/-! ## `@charset` -/

theorem charset_shape (c : Quote × Cps) :
    StmtShape ⟨.charsetSym, CssVerif.Proto.cps "@charset ", 0⟩ [⟨.string, quoteStr c.1 c.2, 0⟩, semiTok] := by
  have hf : Flat .default (⟨.charsetSym, CssVerif.Proto.cps "@charset ", 0⟩ : Tok) :=
    safe_flat .default _ ⟨0x40, _, rfl, by simp [delims]⟩ (by simp) (by simp) (by simp)
  have hs : Flat .default (SHref.str c.1 c.2).tok := SHref.tok_flat _
  exact stmtShape_semi _ [_] hf (QB.flat (by simpa [SHref.tok] using hs))

theorem sheetLoop_charset (O : Oracle) (M : List Cps) (c : Quote × Cps) (x : List Tok)
    (hO : O.atOk .charsetSym false (charsetToks c) = true) :
    sheetLoop O M {} (charsetToks c ++ x) =
      sheetLoop O M { expected := 1, rules := [.at_ .charset (charsetToks c)], nsmap := [] } x := by
  have := sheetLoop_shape O M {} _ _ x (charset_shape c) (by simp) (by simp) (by simp) (by simp)
  simp only [charsetToks] at hO ⊢
  rw [show [(⟨.charsetSym, CssVerif.Proto.cps "@charset ", 0⟩ : Tok), ⟨.string, quoteStr c.1 c.2, 0⟩, semiTok] ++ x =
    ⟨.charsetSym, CssVerif.Proto.cps "@charset ", 0⟩ :: [⟨.string, quoteStr c.1 c.2, 0⟩, semiTok] ++ x from rfl, this]
  simp [stmtEffect, hO, sheetInsert, Rule.kind]

/-! ## the `@import` section -/

theorem import_shape (kw : Mask) (g1 : Gap) (href : SHref) (g2 : Gap) (mq : Option (List Tok × Gap)) (name : SName)
    (hm : ∀ p, mq = some p → QB .default p.1) :
    ∃ rest, (SImp.import_ kw g1 href g2 mq name).toks = atTok .importSym kw "import" :: rest ∧
      StmtShape (atTok .importSym kw "import") rest := by
  have hmq : QB .default (impMqToks mq) := by
    cases mq with
    | none => exact QB.nil _
    | some p => obtain ⟨m, g3⟩ := p; exact (hm (m, g3) rfl).append ((gapL_toks g3).qb _)
  have hg : QB .default (Gap.toks g1 ++ href.tok :: (Gap.toks g2 ++ (impMqToks mq ++ nameToks name))) :=
    ((gapL_toks g1).qb _).append (QB.cons href.tok_flat (((gapL_toks g2).qb _).append
      (hmq.append (nameToks_qb .default rfl name))))
  refine ⟨(Gap.toks g1 ++ href.tok :: (Gap.toks g2 ++ (impMqToks mq ++ nameToks name))) ++ [semiTok], ?_,
    stmtShape_semi _ _ (atTok_default_flat .importSym kw "import" (by decide) (by decide) (by decide)) hg⟩
  simp [SImp.toks]

theorem sheetInsert_import (st : SheetSt) (toks : List Tok) (h : st.rules.any blocksImport = false) :
    sheetInsert st (.at_ .import_ toks) = { st with rules := st.rules ++ [.at_ .import_ toks] } := by
  have e : sheetInsert st (.at_ .import_ toks) =
      if st.rules.any blocksImport then st else { st with rules := st.rules ++ [.at_ .import_ toks] } := rfl
  rw [e, h]; rfl

theorem sheetLoop_simp (O : Oracle) (M : List Cps) (hO : AtFaithful O) (i : SImp) (x : List Tok) (st : SheetSt)
    (h : i.WF O M) (he : st.expected ≤ 1) (hb : st.rules.any blocksImport = false) :
    ∃ st', sheetLoop O M st (i.toks ++ x) = sheetLoop O M st' x ∧ st'.rules = st.rules ++ [i.parsed] ∧
      st'.nsmap = st.nsmap ∧ st'.expected ≤ 1 ∧ st'.rules.any blocksImport = false := by
  cases i with
  | comment b =>
    refine ⟨_, by simpa [SImp.toks] using sheetLoop_commentTok O M b x st, ?_, ?_, ?_, ?_⟩
    · simp [sheetInsert_comment, SImp.parsed]
    · simp [sheetInsert_comment]
    · simp; omega
    · simp [sheetInsert_comment, hb, blocksImport, Rule.kind, Kind.isBody]
  | unknown toks =>
    have h : UnknownRuleOk M toks := h
    refine ⟨_, by simpa [SImp.toks] using sheetLoop_unknown O M toks x st h, ?_, ?_, ?_, ?_⟩
    · simp [SImp.parsed]
    · simp
    · simp; omega
    · simp [hb, blocksImport, Rule.kind, Kind.isBody]
  | import_ kw g1 href g2 mq name =>
    have h : ImportWF O href mq name := h
    obtain ⟨rest, e, hs⟩ := import_shape kw g1 href g2 mq name (fun p hp => (h.mqWF p hp).1.qd)
    have hr := importRule_render O kw g1 href g2 mq name h
    have hok : O.atOk .importSym false (SImp.import_ kw g1 href g2 mq name).toks = true := by
      rw [hO.import_, hr]; rfl
    have ht : (atTok .importSym kw "import").typ = .importSym := rfl
    have he' : ¬ st.expected > 1 := by omega
    rw [e, sheetLoop_shape O M st _ rest x hs (by simp [atTok]) (by simp [atTok]) (by simp [atTok])
      (by simp [atTok]), ← e]
    refine ⟨_, rfl, ?_, ?_, ?_, ?_⟩
    · simp only [stmtEffect, ht, he', ↓reduceIte, hok, sheetInsert_import st _ hb]
      simp [SImp.parsed]
    · simp only [stmtEffect, ht, he', ↓reduceIte, hok, sheetInsert_import st _ hb]
    · simp only [stmtEffect, ht, he', ↓reduceIte, hok, sheetInsert_import st _ hb]
      simp
    · simp only [stmtEffect, ht, he', ↓reduceIte, hok, sheetInsert_import st _ hb]
      simp [hb, blocksImport, Rule.kind, Kind.isBody]

theorem sheetLoop_imps (O : Oracle) (M : List Cps) (hO : AtFaithful O) (l : List (SImp × WGap)) (x : List Tok)
    (st : SheetSt) (h : ∀ p ∈ l, p.1.WF O M) (he : st.expected ≤ 1) (hb : st.rules.any blocksImport = false) :
    ∃ st', sheetLoop O M st (renderImps l ++ x) = sheetLoop O M st' x ∧
      st'.rules = st.rules ++ l.map (·.1.parsed) ∧ st'.nsmap = st.nsmap ∧ st'.expected ≤ 1 ∧
      st'.rules.any blocksImport = false := by
  induction l generalizing st with
  | nil => exact ⟨st, rfl, by simp, rfl, he, hb⟩
  | cons p rest ih =>
    obtain ⟨i, w⟩ := p
    obtain ⟨st1, a1, a2, a3, a4, a5⟩ := sheetLoop_simp O M hO i (WGap.toks w ++ (renderImps rest ++ x)) st
      (h (i, w) (by simp)) he hb
    obtain ⟨st2, b1, b2, b3, _, b5⟩ := sheetLoop_ws O M w (renderImps rest ++ x) st1
    obtain ⟨st3, c1, c2, c3, c4, c5⟩ := ih st2 (fun q hq => h q (by simp [hq])) (by omega) (by rw [b2]; exact a5)
    refine ⟨st3, ?_, ?_, ?_, c4, c5⟩
    · simp only [renderImps, List.append_assoc]
      rw [a1, b1, c1]
    · rw [c2, b2, a2]; simp
    · rw [c3, b3, a3]

/-! ## the `@namespace` section -/

theorem ns_shape (kw : Mask) (g1 : Gap) (pfx : Option (Cps × Gap)) (uri : SHref) (g2 : Gap)
    (hp : ∀ p, pfx = some p → SafeVal p.1) :
    ∃ rest, (SNs.namespace_ kw g1 pfx uri g2).toks = atTok .namespaceSym kw "namespace" :: rest ∧
      StmtShape (atTok .namespaceSym kw "namespace") rest := by
  have hpf : QB .default (nsPfxToks pfx) := by
    cases pfx with
    | none => exact QB.nil _
    | some p =>
      obtain ⟨pn, g⟩ := p
      exact QB.cons (safe_flat .default _ (hp (pn, g) rfl) (by simp [identTok]) (by simp [identTok])
        (by simp [identTok])) ((gapL_toks g).qb _)
  have hg : QB .default (Gap.toks g1 ++ (nsPfxToks pfx ++ uri.tok :: Gap.toks g2)) :=
    ((gapL_toks g1).qb _).append (hpf.append (QB.cons uri.tok_flat ((gapL_toks g2).qb _)))
  refine ⟨(Gap.toks g1 ++ (nsPfxToks pfx ++ uri.tok :: Gap.toks g2)) ++ [semiTok], ?_, stmtShape_semi _ _
    (atTok_default_flat .namespaceSym kw "namespace" (by decide) (by decide) (by decide)) hg⟩
  simp [SNs.toks]

/-- what a spelled `@namespace` must satisfy -/
structure NsWF (pfx : Option (Cps × Gap)) (uri : SHref) : Prop where
  uriWF : uri.WF
  pfxOk : ∀ p, pfx = some p → SafeVal p.1

def SNs.WF (M : List Cps) : SNs → Prop
  | .comment _ => True
  | .unknown t => UnknownRuleOk M t
  | .namespace_ _ _ pfx uri _ => NsWF pfx uri

theorem nsLookup_none (m : List (Cps × Cps)) (p : Cps) (h : p ∉ m.map (·.1)) : nsLookup m p = none := by
  simp only [nsLookup, Option.map_eq_none_iff, List.find?_eq_none]
  intro e he
  simp only [decide_eq_true_eq]
  intro hh
  exact h (by simp only [List.mem_map]; exact ⟨e, he, hh⟩)

theorem nsSet_new (m : List (Cps × Cps)) (p u : Cps) (h : p ∉ m.map (·.1)) : nsSet m p u = m ++ [(p, u)] := by
  have : m.any (fun e => decide (e.1 = p)) = false := by
    simp only [List.any_eq_false, decide_eq_true_eq]
    intro e he hh
    exact h (by simp only [List.mem_map]; exact ⟨e, he, hh⟩)
  simp [nsSet, this]

theorem sheetInsert_ns (st : SheetSt) (p u : Cps) (toks : List Tok) (h : st.rules.any blocksNs = false)
    (hp : p ∉ st.nsmap.map (·.1)) :
    sheetInsert st (.ns p u toks) = { st with rules := st.rules ++ [.ns p u toks] } := by
  have e : sheetInsert st (.ns p u toks) =
      if st.rules.any blocksNs then st
      else if nsLookup st.nsmap p = some u then st else { st with rules := st.rules ++ [.ns p u toks] } := rfl
  rw [e, h, nsLookup_none st.nsmap p hp]; rfl

theorem sheetLoop_sns (O : Oracle) (M : List Cps) (hO : AtFaithful O) (i : SNs) (x : List Tok) (st : SheetSt)
    (h : i.WF M) (he : st.expected ≤ 2) (hb : st.rules.any blocksNs = false)
    (hp : ∀ q, i.pair = some q → q.1 ∉ st.nsmap.map (·.1)) :
    ∃ st', sheetLoop O M st (i.toks ++ x) = sheetLoop O M st' x ∧ st'.rules = st.rules ++ [i.parsed] ∧
      st'.nsmap = st.nsmap ++ i.pair.toList ∧ st'.expected ≤ 2 ∧ st'.rules.any blocksNs = false := by
  cases i with
  | comment b =>
    refine ⟨_, by simpa [SNs.toks] using sheetLoop_commentTok O M b x st, ?_, ?_, ?_, ?_⟩
    · simp [sheetInsert_comment, SNs.parsed]
    · simp [sheetInsert_comment, SNs.pair]
    · simp; omega
    · simp [sheetInsert_comment, hb, blocksNs, Rule.kind, Kind.isBody]
  | unknown toks =>
    have h : UnknownRuleOk M toks := h
    refine ⟨_, by simpa [SNs.toks] using sheetLoop_unknown O M toks x st h, ?_, ?_, ?_, ?_⟩
    · simp [SNs.parsed]
    · simp [SNs.pair]
    · simp; omega
    · simp [hb, blocksNs, Rule.kind, Kind.isBody]
  | namespace_ kw g1 pfx uri g2 =>
    have h : NsWF pfx uri := h
    obtain ⟨rest, e, hs⟩ := ns_shape kw g1 pfx uri g2 h.pfxOk
    have hr := nsRule_render kw g1 pfx uri g2 h.uriWF
    have hinfo : O.nsInfo (SNs.namespace_ kw g1 pfx uri g2).toks = some ((pfx.map (·.1)).getD [], uri.value) := by
      rw [hO.ns, hr]
    have ht : (atTok .namespaceSym kw "namespace").typ = .namespaceSym := rfl
    have he' : ¬ st.expected > 2 := by omega
    have hnew := hp _ rfl
    rw [e, sheetLoop_shape O M st _ rest x hs (by simp [atTok]) (by simp [atTok]) (by simp [atTok])
      (by simp [atTok]), ← e]
    refine ⟨_, rfl, ?_, ?_, ?_, ?_⟩
    · simp only [stmtEffect, ht, he', ↓reduceIte, hinfo, nsLookup_none _ _ hnew, Option.isNone_none,
        sheetInsert_ns st _ _ _ hb hnew]
      simp [SNs.parsed]
    · simp only [stmtEffect, ht, he', ↓reduceIte, hinfo, nsLookup_none _ _ hnew, Option.isNone_none,
        sheetInsert_ns st _ _ _ hb hnew]
      simp [nsSet_new _ _ _ hnew, SNs.pair]
    · simp only [stmtEffect, ht, he', ↓reduceIte, hinfo, nsLookup_none _ _ hnew, Option.isNone_none,
        sheetInsert_ns st _ _ _ hb hnew]
      simp
    · simp only [stmtEffect, ht, he', ↓reduceIte, hinfo, nsLookup_none _ _ hnew, Option.isNone_none,
        sheetInsert_ns st _ _ _ hb hnew]
      simp [hb, blocksNs, Rule.kind, Kind.isBody]

theorem sheetLoop_nss (O : Oracle) (M : List Cps) (hO : AtFaithful O) (l : List (SNs × WGap)) (x : List Tok)
    (st : SheetSt) (h : ∀ p ∈ l, p.1.WF M) (he : st.expected ≤ 2) (hb : st.rules.any blocksNs = false)
    (hd : ((st.nsmap ++ nsPairs l).map (·.1)).Nodup) :
    ∃ st', sheetLoop O M st (renderNss l ++ x) = sheetLoop O M st' x ∧
      st'.rules = st.rules ++ l.map (·.1.parsed) ∧ st'.nsmap = st.nsmap ++ nsPairs l ∧ st'.expected ≤ 2 ∧
      st'.rules.any blocksNs = false := by
  induction l generalizing st with
  | nil => exact ⟨st, rfl, by simp, by simp [nsPairs], he, hb⟩
  | cons p rest ih =>
    obtain ⟨i, w⟩ := p
    have hpairs : nsPairs ((i, w) :: rest) = i.pair.toList ++ nsPairs rest := by
      simp only [nsPairs, List.filterMap_cons]
      cases i.pair <;> simp
    rw [hpairs] at hd
    have hnew : ∀ q, i.pair = some q → q.1 ∉ st.nsmap.map (·.1) := by
      intro q hq hmem
      rw [hq] at hd
      simp only [Option.toList_some, List.map_append, List.map_cons] at hd
      have := (List.nodup_append.mp hd).2.2
      exact this q.1 hmem q.1 (by simp) rfl
    obtain ⟨st1, a1, a2, a3, a4, a5⟩ := sheetLoop_sns O M hO i (WGap.toks w ++ (renderNss rest ++ x)) st
      (h (i, w) (by simp)) he hb hnew
    obtain ⟨st2, b1, b2, b3, _, b5⟩ := sheetLoop_ws O M w (renderNss rest ++ x) st1
    obtain ⟨st3, c1, c2, c3, c4, c5⟩ := ih st2 (fun q hq => h q (by simp [hq])) (by omega) (by rw [b2]; exact a5)
      (by rw [b3, a3, List.append_assoc]; exact hd)
    refine ⟨st3, ?_, ?_, ?_, c4, c5⟩
    · simp only [renderNss, List.append_assoc]
      rw [a1, b1, c1]
    · rw [c2, b2, a2]; simp
    · rw [c3, b3, a3, hpairs]; simp

/-! ## the `@variables` section -/

/-- rules that must not stand before `@variables` (`cssstylesheet.py:818-842`) -/
def blocksVars (r : Rule) : Bool := r.kind.isBody

def SVar.WF (O : Oracle) (M : List Cps) : SVar → Prop
  | .comment _ => True
  | .unknown t => UnknownRuleOk M t
  | .variables _ _ blk => blk.WF O

def SVar.parsed : SVar → Rule
  | .comment b => .comment (commentTok b)
  | .unknown t => .unknown t
  | .variables kw g0 blk => .at_ .variables (SVar.variables kw g0 blk).toks

theorem sheetInsert_variables (st : SheetSt) (toks : List Tok) (h : st.rules.any blocksVars = false) :
    sheetInsert st (.at_ .variables toks) = { st with rules := st.rules ++ [.at_ .variables toks] } := by
  have e : sheetInsert st (.at_ .variables toks) =
      if st.rules.any blocksVars then st else { st with rules := st.rules ++ [.at_ .variables toks] } := rfl
  rw [e, h]; rfl

theorem sheetLoop_svar (O : Oracle) (M : List Cps) (hO : AtFaithful O) (i : SVar) (x : List Tok) (st : SheetSt)
    (h : i.WF O M) (he : st.expected ≤ 2) (hb : st.rules.any blocksVars = false) :
    ∃ st', sheetLoop O M st (i.toks ++ x) = sheetLoop O M st' x ∧ st'.rules = st.rules ++ [i.parsed] ∧
      st'.nsmap = st.nsmap ∧ st'.expected ≤ 2 ∧ st'.rules.any blocksVars = false := by
  cases i with
  | comment b =>
    refine ⟨_, by simpa [SVar.toks] using sheetLoop_commentTok O M b x st, ?_, ?_, ?_, ?_⟩
    · simp [sheetInsert_comment, SVar.parsed]
    · simp [sheetInsert_comment]
    · simp; omega
    · simp [sheetInsert_comment, hb, blocksVars, Rule.kind, Kind.isBody]
  | unknown toks =>
    have h : UnknownRuleOk M toks := h
    refine ⟨_, by simpa [SVar.toks] using sheetLoop_unknown O M toks x st h, ?_, ?_, ?_, ?_⟩
    · simp [SVar.parsed]
    · simp
    · simp; omega
    · simp [hb, blocksVars, Rule.kind, Kind.isBody]
  | variables kw g0 blk =>
    have h : blk.WF O := h
    obtain ⟨b1, b2⟩ := SVarBlock.bal O blk h
    have e : (SVar.variables kw g0 blk).toks =
        atTok .variablesSym kw "variables" :: (Gap.toks g0 ++ lbraceTok :: (blk.toks ++ [rbraceTok])) := by
      simp [SVar.toks]
    have hs := stmtShape_block (atTok .variablesSym kw "variables") (Gap.toks g0) blk.toks
      (atTok_default_flat _ _ _ (by decide) (by decide) (by decide)) ((gapL_toks g0).qb _) b1 b2
    have ht : (atTok .variablesSym kw "variables").typ = .variablesSym := rfl
    have he' : ¬ st.expected > 2 := by omega
    rw [e, sheetLoop_shape O M st _ _ x hs (by simp [atTok]) (by simp [atTok]) (by simp [atTok])
      (by simp [atTok]), ← e]
    refine ⟨_, rfl, ?_, ?_, ?_, ?_⟩
    · simp only [stmtEffect, ht, he', ↓reduceIte, hO.variables, sheetInsert_variables st _ hb]
      simp [SVar.parsed]
    · simp only [stmtEffect, ht, he', ↓reduceIte, hO.variables, sheetInsert_variables st _ hb]
    · simp only [stmtEffect, ht, he', ↓reduceIte, hO.variables, sheetInsert_variables st _ hb]
      simp
    · simp only [stmtEffect, ht, he', ↓reduceIte, hO.variables, sheetInsert_variables st _ hb]
      simp [hb, blocksVars, Rule.kind, Kind.isBody]

theorem sheetLoop_vars (O : Oracle) (M : List Cps) (hO : AtFaithful O) (l : List (SVar × WGap)) (x : List Tok)
    (st : SheetSt) (h : ∀ p ∈ l, p.1.WF O M) (he : st.expected ≤ 2) (hb : st.rules.any blocksVars = false) :
    ∃ st', sheetLoop O M st (renderVars l ++ x) = sheetLoop O M st' x ∧
      st'.rules = st.rules ++ l.map (·.1.parsed) ∧ st'.nsmap = st.nsmap := by
  induction l generalizing st with
  | nil => exact ⟨st, rfl, by simp, rfl⟩
  | cons p rest ih =>
    obtain ⟨i, w⟩ := p
    obtain ⟨st1, a1, a2, a3, a4, a5⟩ := sheetLoop_svar O M hO i (WGap.toks w ++ (renderVars rest ++ x)) st
      (h (i, w) (by simp)) he hb
    obtain ⟨st2, b1, b2, b3, _, b5⟩ := sheetLoop_ws O M w (renderVars rest ++ x) st1
    obtain ⟨st3, c1, c2, c3⟩ := ih st2 (fun q hq => h q (by simp [hq])) (by omega) (by rw [b2]; exact a5)
    refine ⟨st3, ?_, ?_, ?_⟩
    · simp only [renderVars, List.append_assoc]
      rw [a1, b1, c1]
    · rw [c2, b2, a2]; simp
    · rw [c3, b3, a3]

/-! ## `_cleanNamespaces` keeps everything when prefixes and URIs are distinct -/

def nsPairOf : Rule → Option (Cps × Cps)
  | .ns p u _ => some (p, u)
  | _ => none

theorem uniqFold_distinct (l acc : List (Cps × Cps))
    (hd : ((acc ++ l).map (·.2)).Nodup) :
    l.foldl (fun acc e => if acc.any (·.2 = e.2) then acc else acc ++ [e]) acc = acc ++ l := by
  induction l generalizing acc with
  | nil => simp
  | cons e rest ih =>
    have hnot : acc.any (fun x => decide (x.2 = e.2)) = false := by
      simp only [List.any_eq_false, decide_eq_true_eq]
      intro x hx hh
      simp only [List.map_append, List.map_cons] at hd
      have := (List.nodup_append.mp hd).2.2 x.2 (by simp only [List.mem_map]; exact ⟨x, hx, rfl⟩) e.2 (by simp)
      exact this hh
    simp only [List.foldl_cons, hnot, Bool.false_eq_true, ↓reduceIte]
    rw [ih (acc ++ [e]) (by simpa using hd)]
    simp

theorem nsSetFold_distinct (l acc : List (Cps × Cps))
    (hd : ((acc ++ l).map (·.1)).Nodup) :
    l.foldl (fun acc e => nsSet acc e.1 e.2) acc = acc ++ l := by
  induction l generalizing acc with
  | nil => simp
  | cons e rest ih =>
    have hnot : e.1 ∉ acc.map (·.1) := by
      intro hx
      simp only [List.map_append, List.map_cons] at hd
      exact (List.nodup_append.mp hd).2.2 e.1 hx e.1 (by simp) rfl
    simp only [List.foldl_cons, nsSet_new acc e.1 e.2 hnot]
    rw [ih (acc ++ [e]) (by simpa using hd)]
    simp

theorem nodup_reverse' {α : Type} {l : List α} (h : l.Nodup) : l.reverse.Nodup := by
  unfold List.Nodup at h ⊢
  rw [List.pairwise_reverse]
  exact h.imp (fun hab => fun hba => hab hba.symm)

theorem cleanNamespaces_distinct (rules : List Rule)
    (h1 : ((rules.filterMap nsPairOf).map (·.1)).Nodup) (h2 : ((rules.filterMap nsPairOf).map (·.2)).Nodup) :
    cleanNamespaces rules = rules := by
  unfold cleanNamespaces
  have eff0 : effectiveNs rules =
      ((rules.reverse.filterMap nsPairOf).foldl
        (fun acc e => if acc.any (·.2 = e.2) then acc else acc ++ [e]) []).foldl
        (fun acc e => nsSet acc e.1 e.2) [] := rfl
  have eff : effectiveNs rules = (rules.filterMap nsPairOf).reverse := by
    rw [eff0, List.filterMap_reverse]
    rw [uniqFold_distinct _ [] (by simpa using nodup_reverse' h2)]
    simp only [List.nil_append]
    rw [nsSetFold_distinct _ [] (by simpa using nodup_reverse' h1)]
    simp
  apply List.filter_eq_self.mpr
  intro r hr
  cases r with
  | ns p u toks =>
    simp only [eff, List.contains_eq_mem, List.mem_reverse, decide_eq_true_eq]
    simp only [List.mem_filterMap]
    exact ⟨_, hr, rfl⟩
  | _ => rfl

/-! ## the whole sheet -/

/-- what a spelled sheet must satisfy -/
structure SSheet.WF (O : Oracle) (M : List Cps) (s : SSheet) : Prop where
  /-- the encoding string has no backslash and `CSSCharsetRule` accepts the rule (a known codec) -/
  charsetOk : ∀ c, s.charset = some c → 0x5C ∉ c.2 ∧ O.atOk .charsetSym false (charsetToks c) = true
  importsOk : ∀ p ∈ s.imports, p.1.WF O M
  namespacesOk : ∀ p ∈ s.namespaces, p.1.WF M
  /-- every prefix and every URI is declared once (else `_cleanNamespaces` drops the earlier rule) -/
  prefixes : ((nsPairs s.namespaces).map (·.1)).Nodup
  uris : ((nsPairs s.namespaces).map (·.2)).Nodup
  variablesOk : ∀ p ∈ s.variables, p.1.WF O M
  /-- the rules of the body, with the namespaces the sheet declares -/
  rulesOk : s.rules.WF O M (nsPairs s.namespaces) false

/-- the rules the parser builds from a spelled sheet -/
def SSheet.parsed (O : Oracle) (s : SSheet) : List Rule :=
  (s.charset.map (fun c => Rule.at_ .charset (charsetToks c))).toList ++ s.imports.map (·.1.parsed) ++
    s.namespaces.map (·.1.parsed) ++ s.variables.map (·.1.parsed) ++ s.rules.parsed O (nsPairs s.namespaces)

theorem SRule.parsed_nsPairOf (O : Oracle) (ns : List (Cps × Cps)) (r : SRule) : nsPairOf (r.parsed O ns) = none := by
  cases r <;> rfl

theorem SRules.parsed_nsPairs (O : Oracle) (ns : List (Cps × Cps)) :
    ∀ rs : SRules, (rs.parsed O ns).filterMap nsPairOf = []
  | .nil => by simp [SRules.parsed]
  | .cons r w rest => by
    simp [SRules.parsed, SRule.parsed_nsPairOf O ns r, SRules.parsed_nsPairs O ns rest]

theorem SSheet.parsed_nsPairs (O : Oracle) (s : SSheet) :
    (s.parsed O).filterMap nsPairOf = nsPairs s.namespaces := by
  have h1 : (s.charset.map (fun c => Rule.at_ .charset (charsetToks c))).toList.filterMap nsPairOf = [] := by
    cases s.charset <;> simp [nsPairOf]
  have h2 : (s.imports.map (·.1.parsed)).filterMap nsPairOf = [] := by
    rw [List.filterMap_eq_nil_iff]
    intro r hr
    simp only [List.mem_map] at hr
    obtain ⟨p, _, rfl⟩ := hr
    obtain ⟨i, w⟩ := p
    cases i <;> rfl
  have h3 : (s.namespaces.map (·.1.parsed)).filterMap nsPairOf = nsPairs s.namespaces := by
    simp only [nsPairs, List.filterMap_map]
    congr 1
    funext p
    obtain ⟨i, w⟩ := p
    cases i <;> rfl
  have h4 : (s.variables.map (·.1.parsed)).filterMap nsPairOf = [] := by
    rw [List.filterMap_eq_nil_iff]
    intro r hr
    simp only [List.mem_map] at hr
    obtain ⟨p, _, rfl⟩ := hr
    obtain ⟨i, w⟩ := p
    cases i <;> rfl
  simp only [SSheet.parsed, List.filterMap_append, h1, h2, h3, h4, SRules.parsed_nsPairs]
  simp

/-- the rules `CSSStyleSheet.cssText = tokens` builds from a rendered spelled sheet -/
theorem parseSheet_render (O : Oracle) (M : List Cps) (hO : AtFaithful O) (s : SSheet) (h : s.WF O M) :
    parseSheet O M (render s) = s.parsed O := by
  have hclean : cleanNamespaces (s.parsed O) = s.parsed O :=
    cleanNamespaces_distinct _ (by rw [SSheet.parsed_nsPairs]; exact h.prefixes)
      (by rw [SSheet.parsed_nsPairs]; exact h.uris)
  unfold parseSheet
  rw [← hclean]
  congr 1
  unfold render
  generalize hT : renderVars s.variables ++ (s.rules.toks ++ [eofTok]) = T
  -- @charset
  obtain ⟨st0, a0, r0, n0, e0, b0⟩ : ∃ st0 : SheetSt,
      sheetLoop O M {} (charsetPart s.charset ++ (WGap.toks s.lead ++ (renderImps s.imports ++ (renderNss s.namespaces ++ T)))) =
      sheetLoop O M st0 (WGap.toks s.lead ++ (renderImps s.imports ++ (renderNss s.namespaces ++ T))) ∧
      st0.rules = (s.charset.map (fun c => Rule.at_ .charset (charsetToks c))).toList ∧ st0.nsmap = [] ∧
      st0.expected ≤ 1 ∧ st0.rules.any blocksImport = false := by
    cases hc : s.charset with
    | none => exact ⟨{}, rfl, rfl, rfl, by simp, rfl⟩
    | some c =>
      simp only [charsetPart]
      refine ⟨_, sheetLoop_charset O M c _ (h.charsetOk c hc).2, rfl, rfl, by simp, ?_⟩
      simp [blocksImport, Rule.kind, Kind.isBody]
  obtain ⟨st1, a1, r1, n1, _, e1⟩ := sheetLoop_ws O M s.lead (renderImps s.imports ++ (renderNss s.namespaces ++ T)) st0
  obtain ⟨st2, a2, r2, n2, e2, b2⟩ := sheetLoop_imps O M hO s.imports (renderNss s.namespaces ++ T) st1
    h.importsOk (by omega) (by rw [r1]; exact b0)
  have b2' : st2.rules.any blocksNs = false := by
    simp only [List.any_eq_false] at b2 ⊢
    intro r hr hb
    apply b2 r hr
    simp only [blocksNs, Bool.or_eq_true] at hb
    simp only [blocksImport, Bool.or_eq_true]
    rcases hb with hb | hb
    · exact Or.inl (Or.inl hb)
    · exact Or.inr hb
  obtain ⟨st3, a3, r3, n3, e3, b3⟩ := sheetLoop_nss O M hO s.namespaces T st2 h.namespacesOk
    (by omega) b2' (by rw [n2, n1, n0]; simpa using h.prefixes)
  have n3' : st3.nsmap = nsPairs s.namespaces := by rw [n3, n2, n1, n0]; simp
  have b3' : st3.rules.any blocksVars = false := by
    simp only [List.any_eq_false] at b3 ⊢
    intro r hr hb
    apply b3 r hr
    simp only [blocksVars] at hb
    simp [blocksNs, hb]
  subst hT
  obtain ⟨st4, a4, r4, n4⟩ := sheetLoop_vars O M hO s.variables (s.rules.toks ++ [eofTok]) st3 h.variablesOk e3 b3'
  obtain ⟨st5, a5, r5, n5⟩ := sheetLoop_srules O M hO s.rules [eofTok] st4 (by rw [n4, n3']; exact h.rulesOk)
  rw [a0, a1, a2, a3, a4, a5]
  have : sheetLoop O M st5 [eofTok] = st5 := by
    rw [sheetLoop_cons]; simp [sheetStep, eofTok, sheetLoop_nil]
  rw [this, r5, r4, r3, r2, r1, r0, n4, n3']
  simp [SSheet.parsed]

theorem projRules_eq_map (O : Oracle) (M : List Cps) (l : List Rule) : projRules O M l = l.map (projRule O M) := by
  induction l with
  | nil => simp [projRules]
  | cons r rs ih => simp [projRules, ih]

theorem SImp.proj_parsed (O : Oracle) (M : List Cps) (i : SImp) (h : i.WF O M) :
    projRule O M i.parsed = i.erase := by
  cases i with
  | comment b => simp [SImp.parsed, projRule, SImp.erase, commentTok, commentBody, commentVal]
  | unknown t => simp [SImp.parsed, projRule, SImp.erase]
  | import_ kw g1 href g2 mq name =>
    have h : ImportWF O href mq name := h
    simp only [SImp.parsed, projRule, projAt, importRule_render O kw g1 href g2 mq name h, SImp.erase]
    cases mq with
    | none => rfl
    | some p =>
      obtain ⟨m, g3⟩ := p
      have := clean_padded [] (Gap.toks g3) m (by simp) (gapL_toks g3).isGap (h.mqWF (m, g3) rfl).1.core
      simp only [List.nil_append] at this
      simp [this]

theorem SNs.proj_parsed (O : Oracle) (M : List Cps) (i : SNs) : projRule O M i.parsed = i.erase := by
  cases i with
  | comment b => simp [SNs.parsed, projRule, SNs.erase, commentTok, commentBody, commentVal]
  | unknown t => simp [SNs.parsed, projRule, SNs.erase]
  | namespace_ kw g1 pfx uri g2 => simp [SNs.parsed, projRule, SNs.erase]

theorem SVar.proj_parsed (O : Oracle) (M : List Cps) (i : SVar) (h : i.WF O M) :
    projRule O M i.parsed = i.erase := by
  cases i with
  | comment b => simp [SVar.parsed, projRule, SVar.erase, commentTok, commentBody, commentVal]
  | unknown t => simp [SVar.parsed, projRule, SVar.erase]
  | variables kw g0 blk =>
    have h : blk.WF O := h
    simp only [SVar.parsed, projRule, projAt, variablesRule_render O kw g0 blk h, SVar.erase,
      SVarBlock.proj_parsed O blk h]

/-- the projection of what the parser builds from a spelled sheet is the abstract sheet -/
theorem projSheet_parsed (O : Oracle) (M : List Cps) (s : SSheet) (h : s.WF O M) :
    projSheet O M (s.parsed O) = s.erase := by
  unfold projSheet SSheet.parsed SSheet.erase
  rw [projRules_eq_map]
  simp only [List.map_append, List.map_map]
  rw [← projRules_eq_map O M (s.rules.parsed O _), projRules_parsed O M _ false s.rules h.rulesOk]
  congr 1
  congr 1
  congr 1
  congr 1
  · cases hc : s.charset with
    | none => rfl
    | some c =>
      have := stringValue_quoteStr c.1 c.2 (h.charsetOk c hc).1
      simp [projRule, projAt, charsetToks, charsetEncoding, this]
  · apply List.map_congr_left
    intro p hp
    exact SImp.proj_parsed O M p.1 (h.importsOk p hp)
  · apply List.map_congr_left
    intro p _
    exact SNs.proj_parsed O M p.1
  · apply List.map_congr_left
    intro p hp
    exact SVar.proj_parsed O M p.1 (h.variablesOk p hp)

end CssVerif.SheetSpec
