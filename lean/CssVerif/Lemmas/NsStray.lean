import CssVerif.Lemmas.NsShare
/-!
The region of C15-rule-in-two-sheets as a predicate on the two-sheet model, and how it is entered.
-/
namespace CssVerif.Ns
open CssVerif.Proto

/-- the followed object sits in the list of a sheet that is not its parent -/
def Stray (w : World) : Prop := ∃ o side, w.obj = some o ∧ o.pos side ≠ none ∧ o.owner ≠ some side

/-- the one way into that region: `to.insertRule(obj)` while the other sheet lists the object -/
def EntersStray (w : World) : WOp → Prop
  | .share to _ _ => ∃ o, w.obj = some o ∧ o.pos (!to) ≠ none
  | _ => False

theorem not_stray_iff {w : World} :
    ¬ Stray w ↔ ∀ o, w.obj = some o → ∀ side, o.pos side ≠ none → o.owner = some side := by
  constructor
  · intro h o ho side hp
    apply Classical.byContradiction
    intro hne
    exact h ⟨o, side, ho, hp, hne⟩
  · intro h hs
    obtain ⟨o, side, ho, hp, hne⟩ := hs
    exact hne (h o ho side hp)

/-- outside the region the object is in at most one list -/
theorem one_list {o : Obj} (h : ∀ side, o.pos side ≠ none → o.owner = some side) (side : Bool)
    (hp : o.pos side ≠ none) : o.pos (!side) = none := by
  apply Classical.byContradiction
  intro hq
  have h1 := h side hp
  have h2 := h (!side) hq
  rw [h1] at h2
  cases side <;> simp at h2

@[simp] theorem Obj.pos_setPos_same (o : Obj) (side : Bool) (p : Option Nat) : (o.setPos side p).pos side = p := by
  cases side <;> rfl

@[simp] theorem Obj.pos_setPos_other (o : Obj) (side : Bool) (p : Option Nat) :
    (o.setPos side p).pos (!side) = o.pos (!side) := by
  cases side <;> rfl

@[simp] theorem Obj.owner_setPos (o : Obj) (side : Bool) (p : Option Nat) : (o.setPos side p).owner = o.owner := by
  cases side <;> rfl

theorem Obj.pos_setPos (o : Obj) (side sd : Bool) (p : Option Nat) :
    (o.setPos side p).pos sd = if sd = side then p else o.pos sd := by
  cases side <;> cases sd <;> rfl

/-- ownership discipline of an object: every list that has it belongs to its parent -/
def Owned (o : Obj) : Prop := ∀ side, o.pos side ≠ none → o.owner = some side

theorem owned_shiftIns {o : Obj} (h : Owned o) (side : Bool) (k : Nat) : Owned (o.shiftIns side k) := by
  unfold Obj.shiftIns
  cases hp : o.pos side with
  | none => exact h
  | some p =>
    simp only
    split
    · intro sd hsd
      rw [Obj.owner_setPos]
      rw [Obj.pos_setPos] at hsd
      by_cases e : sd = side
      · subst e; exact h sd (by simp [hp])
      · simp only [e, if_false] at hsd; exact h sd hsd
    · exact h

theorem owned_shiftDel {o : Obj} (h : Owned o) (side : Bool) (k : Nat) : Owned (o.shiftDel side k) := by
  unfold Obj.shiftDel
  cases hp : o.pos side with
  | none => exact h
  | some p =>
    simp only
    split
    · intro sd hsd
      rw [Obj.owner_setPos]
      rw [Obj.pos_setPos] at hsd
      by_cases e : sd = side
      · subst e; exact h sd (by simp [hp])
      · simp only [e, if_false] at hsd; exact h sd hsd
    · exact h

/-- what `objSetSel` does to the followed object: positions and parent stay -/
theorem objSetSel_obj (w : World) (o : Obj) (sels : List SSel) (ho : w.obj = some o) :
    ∃ o', (objSetSel w o sels).1.obj = some o' ∧ o'.posA = o.posA ∧ o'.posB = o.posB ∧ o'.owner = o.owner := by
  unfold objSetSel
  split
  · exact ⟨o, ho, rfl, rfl, rfl⟩
  · cases resolveSels (w.objDict o) sels with
    | error e => exact ⟨o, ho, rfl, rfl, rfl⟩
    | ok x => exact ⟨_, rfl, rfl, rfl, rfl⟩

theorem owned_of_same {o o' : Obj} (h : Owned o) (ha : o'.posA = o.posA) (hb : o'.posB = o.posB)
    (hw : o'.owner = o.owner) : Owned o' := by
  intro sd hsd
  rw [hw]
  apply h sd
  cases sd
  · simpa [Obj.pos, ha] using hsd
  · simpa [Obj.pos, hb] using hsd

end CssVerif.Ns

namespace CssVerif.Ns
open CssVerif.Proto

@[simp] theorem Obj.pos_with_owner (o : Obj) (x : Option Bool) (sd : Bool) :
    ({ o with owner := x } : Obj).pos sd = o.pos sd := by cases sd <;> rfl

theorem eq_or_not (sd side : Bool) : sd = side ∨ sd = !side := by cases sd <;> cases side <;> simp

theorem owned_reparent {o : Obj} (h : Owned o) (side : Bool) (hp : o.pos side ≠ none) :
    Owned { o with owner := some side } := by
  intro sd hsd
  rw [Obj.pos_with_owner] at hsd
  rcases eq_or_not sd side with e | e
  · subst e; rfl
  · subst e; exact absurd (one_list h side hp) hsd

theorem owned_detach {o : Obj} (h : Owned o) (side : Bool) (hp : o.pos side ≠ none) :
    Owned { (o.setPos side none) with owner := none } := by
  intro sd hsd
  rw [Obj.pos_with_owner] at hsd
  rcases eq_or_not sd side with e | e
  · subst e; simp at hsd
  · subst e; rw [Obj.pos_setPos_other] at hsd; exact absurd (one_list h side hp) hsd

theorem owned_share {o : Obj} (side : Bool) (hq : o.pos (!side) = none) (p : Nat) :
    Owned { (o.setPos side (some p)) with owner := some side } := by
  intro sd hsd
  rw [Obj.pos_with_owner] at hsd
  rcases eq_or_not sd side with e | e
  · subst e; rfl
  · subst e; rw [Obj.pos_setPos_other] at hsd; exact absurd hq hsd

theorem objIndex_pos {w : World} {o : Obj} {side : Bool} {i : Nat} (ho : w.obj = some o)
    (h : w.objIndex side = some i) : o.pos side ≠ none := by
  intro hp
  simp [World.objIndex, ho, hp] at h

/-- the region of C15-rule-in-two-sheets is entered by `insertRule(obj)` while another sheet lists the object,
and by nothing else: every other operation keeps "each list that has the object belongs to its parent" -/
theorem owned_wstep (w : World) (op : WOp) (h : ∀ o, w.obj = some o → Owned o) (hne : ¬ EntersStray w op) :
    ∀ o', (wstep w op).1.obj = some o' → Owned o' := by
  cases op with
  | objSel sels =>
    intro o' ho'
    simp only [wstep] at ho'
    cases ho : w.obj with
    | none => simp [ho] at ho'
    | some o =>
      simp only [ho] at ho'
      obtain ⟨o2, h2, ha, hb, hw⟩ := objSetSel_obj w o sels ho
      rw [h2] at ho'
      cases ho'
      exact owned_of_same (h o ho) ha hb hw
  | share to idx io =>
    intro o' ho'
    simp only [wstep] at ho'
    cases ho : w.obj with
    | none => simp [ho] at ho'
    | some o =>
      simp only [ho] at ho'
      cases hp : o.pos to with
      | some k => simp only [hp] at ho'; rw [ho] at ho'; cases ho'; exact h _ ho
      | none =>
        simp only [hp] at ho'
        split at ho'
        · simp only [Option.some.injEq] at ho'
          subst ho'
          apply owned_share
          apply Classical.byContradiction
          intro hq
          exact hne ⟨o, ho, hq⟩
        · rw [ho] at ho'; cases ho'; exact h _ ho
  | grab side i sels =>
    intro o' ho'
    simp only [wstep] at ho'
    split at ho'
    · split at ho'
      · exact h o' ho'
      · split at ho'
        · exact h o' ho'
        · simp only [Option.some.injEq] at ho'
          subst ho'
          intro sd hsd
          rw [Obj.owner_setPos]
          rcases eq_or_not sd side with e | e
          · subst e; rfl
          · subst e
            rw [Obj.pos_setPos_other] at hsd
            cases side <;> simp [Obj.pos] at hsd
    · exact h o' ho'
  | on side op =>
    intro o' ho'
    cases op with
    | parse init src =>
      simp only [wstep] at ho'
      split at ho'
      · rename_i hn
        simp [hn] at ho'
      · exact h o' ho'
    | insStyleObj x idx io => simp only [wstep] at ho'; exact h o' ho'
    | rawDel i => simp only [wstep] at ho'; exact h o' ho'
    | setSelText i sels =>
      simp only [wstep] at ho'
      split at ho'
      · cases ho : w.obj with
        | none => simp [ho] at ho'
        | some o =>
          simp only [ho] at ho'
          obtain ⟨o2, h2, ha, hb, hw⟩ := objSetSel_obj w o sels ho
          rw [h2] at ho'
          cases ho'
          exact owned_of_same (h o ho) ha hb hw
      · simp only [World.setSheet_obj] at ho'; exact h o' ho'
    | delRule i =>
      simp only [wstep] at ho'
      split at ho'
      · split at ho'
        · simp only [World.setSheet_obj] at ho'; exact h o' ho'
        · cases ho : w.obj with
          | none => simp [ho] at ho'
          | some o =>
            simp only [ho] at ho'
            split at ho'
            · rename_i hidx
              simp only [Option.some.injEq] at ho'
              subst ho'
              exact owned_detach (h o ho) side (objIndex_pos ho hidx)
            · simp only [Option.some.injEq] at ho'
              subst ho'
              exact owned_shiftDel (h o ho) side _
      · simp only [World.setSheet_obj] at ho'; exact h o' ho'
    | insStyleText x idx io =>
      simp only [wstep] at ho'
      split at ho'
      · cases ho : w.obj with
        | none => simp [ho] at ho'
        | some o =>
          simp only [ho, Option.some.injEq] at ho'
          subst ho'
          exact owned_shiftIns (h o ho) side _
      · simp only [World.setSheet_obj] at ho'; exact h o' ho'
    | insNs p u idx io =>
      simp only [wstep] at ho'
      cases ho : w.obj with
      | none => simp [ho] at ho'
      | some o =>
        simp only [ho] at ho'
        split at ho'
        · rename_i hc
          simp only [Option.some.injEq] at ho'
          subst ho'
          exact owned_reparent (h o ho) side hc.2
        · simp only [World.setSheet_obj] at ho'; rw [ho] at ho'; cases ho'; exact h _ ho
    | insNsText p u c0 c1 c2 idx io =>
      simp only [wstep] at ho'
      cases ho : w.obj with
      | none => simp [ho] at ho'
      | some o =>
        simp only [ho] at ho'
        split at ho'
        · rename_i hc
          simp only [Option.some.injEq] at ho'
          subst ho'
          exact owned_reparent (h o ho) side hc.2
        · simp only [World.setSheet_obj] at ho'; rw [ho] at ho'; cases ho'; exact h _ ho
    | setNs p u =>
      simp only [wstep] at ho'
      cases ho : w.obj with
      | none => simp [ho] at ho'
      | some o =>
        simp only [ho] at ho'
        split at ho'
        · rename_i hc
          simp only [Option.some.injEq] at ho'
          subst ho'
          exact owned_reparent (h o ho) side hc.2
        · simp only [World.setSheet_obj] at ho'; rw [ho] at ho'; cases ho'; exact h _ ho
    | delNs p =>
      simp only [wstep] at ho'
      cases ho : w.obj with
      | none => simp [ho] at ho'
      | some o =>
        simp only [ho] at ho'
        split at ho'
        · rename_i hc
          simp only [Option.some.injEq] at ho'
          subst ho'
          exact owned_reparent (h o ho) side hc.2
        · simp only [World.setSheet_obj] at ho'; rw [ho] at ho'; cases ho'; exact h _ ho
    | setPrefix i q =>
      simp only [wstep] at ho'
      cases ho : w.obj with
      | none => simp [ho] at ho'
      | some o =>
        simp only [ho] at ho'
        split at ho'
        · rename_i hc
          simp only [Option.some.injEq] at ho'
          subst ho'
          exact owned_reparent (h o ho) side hc.2
        · simp only [World.setSheet_obj] at ho'; rw [ho] at ho'; cases ho'; exact h _ ho
    | setNsText i p u c0 c1 c2 =>
      simp only [wstep] at ho'
      cases ho : w.obj with
      | none => simp [ho] at ho'
      | some o =>
        simp only [ho] at ho'
        split at ho'
        · rename_i hc
          simp only [Option.some.injEq] at ho'
          subst ho'
          exact owned_reparent (h o ho) side hc.2
        · simp only [World.setSheet_obj] at ho'; rw [ho] at ho'; cases ho'; exact h _ ho
    | insMediaText i x idx =>
      simp only [wstep] at ho'
      cases ho : w.obj with
      | none => simp [ho] at ho'
      | some o =>
        simp only [ho] at ho'
        split at ho'
        · rename_i hc
          simp only [Option.some.injEq] at ho'
          subst ho'
          exact owned_reparent (h o ho) side hc.2
        · simp only [World.setSheet_obj] at ho'; rw [ho] at ho'; cases ho'; exact h _ ho

end CssVerif.Ns

namespace CssVerif.Ns

/-- the guards of the two-sheet operations outside the region of C15-rule-in-two-sheets: nothing is asked of
`selectorText =` any more -/
def WOpOkUnshared (w : World) : WOp → Prop
  | .on side op => OpOk (w.sheet side) op
  | .share to idx io =>
    (∀ o, w.obj = some o → ∀ u ∈ selsUris o.sels, u ∈ nsUris (w.sheet to)) ∧ ¬ EntersStray w (.share to idx io)
  | _ => True

def WAllOkUnshared : World → List WOp → Prop
  | _, [] => True
  | w, op :: t => WOpOkUnshared w op ∧ WAllOkUnshared (wstep w op).1 t

theorem wopOk_of_unshared {w : World} {op : WOp} (hs : ¬ Stray w) (hok : WOpOkUnshared w op) :
    WOpOk w op ∧ ¬ EntersStray w op := by
  have hown := not_stray_iff.mp hs
  cases op with
  | on side op =>
    refine ⟨⟨hok, ?_⟩, fun hf => hf⟩
    intro i sels _ _ o ho sd hsd
    exact Or.inl (hown o ho sd hsd)
  | grab side i sels => exact ⟨trivial, fun hf => hf⟩
  | share to idx io => exact ⟨hok.1, hok.2⟩
  | objSel sels =>
    refine ⟨?_, fun hf => hf⟩
    intro o ho sd hsd
    exact Or.inl (hown o ho sd hsd)

end CssVerif.Ns
