import CssVerif.Lemmas.CodecSniff
/-!
Chunking invariance of CPython's incremental decoders (as modelled), errors included, and the instance of
the abstract `Inner` that the incremental CSS decoder is proved about.
-/
namespace CssVerif.Codec

/-- the buffer of a decoder object holds nothing that could be decoded yet -/
def Stable (c : CName) (s : ISt) : Prop := ifeed c s.mode s.buf false = ⟨s.mode, ⟨[], s.buf, false⟩⟩

theorem stable_init (c : CName) : Stable c c.init := by
  cases c with
  | plain k => rfl
  | u8sig => rfl
  | u16 => rfl
  | u32 => rfl

theorem stable_after (c : CName) (m : Option Kind) (a : List Nat) (h : (ifeed c m a false).res.err = false) :
    Stable c ⟨(ifeed c m a false).mode, (ifeed c m a false).res.pend⟩ := by
  obtain ⟨h1, h2⟩ := ifeed_splits c m a [] false
  have h2 := h2 h
  simp only [List.append_nil] at h1 h2
  unfold Stable
  rcases hr : ifeed c m a false with ⟨rm, ⟨rt, rp, re⟩⟩
  rw [hr] at h1 h2 h
  simp only at h1 h2 h ⊢
  subst h
  rcases hq : ifeed c rm rp false with ⟨qm, ⟨qt, qp, qe⟩⟩
  simp only [Res.andThen, Bool.false_eq_true, if_false, hq, Res.mk.injEq] at h1 h2
  obtain ⟨a1, a2, a3⟩ := h1
  have a1' : qt = [] := by simpa using a1.symm
  subst a1'; subst a2; subst a3; subst h2
  rfl

/-- what a decoder object has done after the chunks `cs` depends on their concatenation only -/
theorem irun_eq (c : CName) (s : ISt) (hs : Stable c s) (cs : List (List Nat)) :
    irun c s cs =
      (if (ifeed c s.mode (s.buf ++ cs.flatten) false).res.err then none
       else some (⟨(ifeed c s.mode (s.buf ++ cs.flatten) false).mode,
                   (ifeed c s.mode (s.buf ++ cs.flatten) false).res.pend⟩,
                  (ifeed c s.mode (s.buf ++ cs.flatten) false).res.text)) := by
  induction cs generalizing s with
  | nil =>
    unfold Stable at hs
    simp only [irun, List.flatten_nil, List.append_nil, hs]
    simp
  | cons x xs ih =>
    obtain ⟨h1, h2⟩ := ifeed_splits c s.mode (s.buf ++ x) xs.flatten false
    have e : s.buf ++ (x :: xs).flatten = (s.buf ++ x) ++ xs.flatten := by simp
    rw [e]
    simp only [irun, istep]
    cases he : (ifeed c s.mode (s.buf ++ x) false).res.err with
    | true =>
      simp only [if_true]
      have : (ifeed c s.mode (s.buf ++ x ++ xs.flatten) false).res.err = true := by
        rw [h1]; simp [Res.andThen, he]
      simp only [this, if_true]
    | false =>
      simp only [Bool.false_eq_true, if_false]
      have st := stable_after c s.mode (s.buf ++ x) he
      rw [ih _ st]
      have h2 := h2 he
      simp only at h2 ⊢
      rw [h1, h2]
      simp only [Res.andThen, he, Bool.false_eq_true, if_false]
      cases (ifeed c (ifeed c s.mode (s.buf ++ x) false).mode
        ((ifeed c s.mode (s.buf ++ x) false).res.pend ++ xs.flatten) false).res.err <;> simp

theorem ifeed_init (c : CName) (d : List Nat) (f : Bool) : ifeed c c.init.mode d f = sniff c d f := by
  cases c <;> rfl

/-- **chunking invariance of the inner incremental decoders, errors included**: feeding the chunks one by
one and then `decode(b"", True)` raises iff the whole data is ill-formed for the decoder, and otherwise
returns the text of the whole data -/
theorem incDecode_eq (c : CName) (cs : List (List Nat)) :
    incDecode c cs = (if (incOut c cs.flatten true).err then none else some (incOut c cs.flatten true).text) := by
  unfold incDecode incOut
  rw [irun_eq c c.init (stable_init c) cs]
  have e0 : c.init.buf = [] := by cases c <;> rfl
  rw [e0, List.nil_append]
  obtain ⟨h1, _⟩ := ifeed_splits c c.init.mode cs.flatten [] true
  simp only [List.append_nil, ifeed_init] at h1
  rw [ifeed_init] at *
  rw [h1]
  cases he : (sniff c cs.flatten false).res.err with
  | true => simp [Res.andThen, he]
  | false =>
    simp only [Bool.false_eq_true, if_false, istep, List.append_nil, Res.andThen, he]
    cases (ifeed c (sniff c cs.flatten false).mode (sniff c cs.flatten false).res.pend true).res.err <;> simp

theorem incOut_mono (c : CName) (a b : List Nat) (f : Bool) :
    ∃ ext, (incOut c (a ++ b) f).text = (incOut c a false).text ++ ext := by
  unfold incOut
  obtain ⟨h1, _⟩ := ifeed_splits c c.init.mode a b f
  simp only [ifeed_init] at h1
  rw [h1]
  unfold Res.andThen
  cases (sniff c a false).res.err with
  | true => exact ⟨[], by simp⟩
  | false => exact ⟨_, rfl⟩

theorem incOut_nil (c : CName) : (incOut c [] false).text = [] := by
  cases c <;> rfl

/-- CPython's decoders as an instance of the abstract inner codec of `Model/CodecInc.lean` -/
def cpyInner : Inner where
  out := cpyOut
  mono := by
    intro e a b f
    unfold cpyOut
    cases lookupName e with
    | none => exact ⟨[], rfl⟩
    | some c => exact incOut_mono c a b f
  out_nil := by
    intro e
    unfold cpyOut
    cases lookupName e with
    | none => rfl
    | some c => exact incOut_nil c

end CssVerif.Codec
