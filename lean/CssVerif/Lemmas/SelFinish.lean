import CssVerif.Lemmas.SelRun
/-! the post-conditions of `Selector._setSelectorText` on the final state of a written selector -/
namespace CssVerif.Sel
open CssVerif.Gen.C16 CssVerif.Proto

theorem fillQuiet_ne (rs : List Item) (f : List Fill) (h : rs ≠ []) : fillQuiet rs f ≠ [] := by
  induction f generalizing rs with
  | nil => exact h
  | cons x t ih => cases x <;> simp only [fillQuiet] <;> apply ih <;> simp [h]

theorem fillDesc_ne (rs : List Item) (f : List Fill) (h : rs ≠ []) : fillDesc rs f ≠ [] := by
  induction f generalizing rs with
  | nil => exact h
  | cons x t ih => cases x <;> simp only [fillDesc] <;> apply ih <;> simp

theorem cmPush_ne (rs : List Item) (cs : List Cps) (h : rs ≠ []) : cmPush rs cs ≠ [] := by
  induction cs generalizing rs with
  | nil => exact h
  | cons x t ih => simp only [cmPush]; apply ih; simp

theorem Simple.rpush_ne (ns : NsMap) (s : Simple) (rs : List Item) : s.rpush ns rs ≠ [] := by
  cases s <;> simp [Simple.rpush, Attr.rpush, funcPush]

theorem restPush_ne (ns : NsMap) (l : List (List Cps × Simple)) (rs : List Item) (h : rs ≠ [] ∨ l ≠ []) :
    restPush ns rs l ≠ [] := by
  induction l generalizing rs with
  | nil => simpa [restPush] using h
  | cons x t ih =>
    obtain ⟨cs, s⟩ := x
    simp only [restPush]
    exact ih _ (Or.inl (Simple.rpush_ne ns s _))

theorem Compound.rpush_ne (ns : NsMap) (c : Compound) (hc : c.ok ns = true) (rs : List Item) : c.rpush ns rs ≠ [] := by
  obtain ⟨head, rest⟩ := c
  simp only [Compound.ok, Bool.and_eq_true] at hc
  cases head with
  | some t => exact restPush_ne ns rest _ (Or.inl (by simp))
  | none =>
    refine restPush_ne ns rest _ (Or.inr ?_)
    intro h
    simp [h] at hc

theorem putComb_ne (o : Comb) (rs : List Item) : putComb o rs ≠ [] := by
  unfold putComb
  split
  · split <;> simp
  · simp

theorem Gap.rpush_ne (g : Gap) (rs : List Item) (h : rs ≠ []) : g.rpush rs ≠ [] := by
  obtain ⟨pre, op⟩ := g
  cases op with
  | none => exact fillDesc_ne rs pre h
  | some q => exact fillQuiet_ne _ _ (putComb_ne _ _)

theorem morePush_ne (ns : NsMap) (l : List (Gap × Compound)) (hl : l.all (fun gc => gc.1.ok && gc.2.ok ns) = true)
    (rs : List Item) (h : rs ≠ []) : morePush ns rs l ≠ [] := by
  induction l generalizing rs with
  | nil => exact h
  | cons x t ih =>
    simp only [List.all_cons, Bool.and_eq_true] at hl
    simp only [morePush]
    exact ih hl.2 _ (Compound.rpush_ne ns x.2 hl.1.2 _)

theorem Sel.rpush_ne (ns : NsMap) (s : Sel) (hs : s.ok ns = true) : s.rpush ns ≠ [] := by
  simp only [Sel.ok, Bool.and_eq_true] at hs
  exact fillDesc_ne _ _ (morePush_ne ns _ hs.1.2 _ (Compound.rpush_ne ns _ hs.1.1.2 _))

/-- the post-conditions pass: one context level, items present, neither an open prefix nor a dangling combinator -/
theorem finishCore_ok (el : Option Val) (b c d : Nat) (rs : List Item) (e : Cps) (hrs : rs ≠ []) (he : CombOk e) :
    finishCore ⟨[cxRoot], el, none, b, c, d, true, rs, e⟩
      = some { b := b, c := c, d := d, seq := (dropBlank rs).reverse, element := el } := by
  cases rs with
  | nil => exact absurd rfl hrs
  | cons it t =>
    obtain ⟨v, ty⟩ := it
    rcases he with rfl | rfl | rfl <;> cases v <;> simp [finishCore, dropBlank] <;> split <;> simp

theorem run_sel_finish (ns : NsMap) (s : Sel) (hs : s.ok ns = true) :
    (run ns {} s.cooked >>= fun st => pure (finishCore st))
      = .ok (some { b := s.count.1, c := s.count.2.1, d := s.count.2.2, seq := s.items ns, element := s.element ns }) := by
  rw [run_sel ns s hs]
  simp only [bind, Except.bind, pure, Except.pure]
  rw [finishCore_ok _ _ _ _ _ _ (Sel.rpush_ne ns s hs) s.after_comb]
  rfl

theorem countKinds_counting (l : List (Kind × Bool)) :
    countKinds l = ((l.map (·.1)).count .id, (l.map (·.1)).count .cls + (l.map (·.1)).count .attr,
                    (l.map (·.1)).count .type + (l.map (·.1)).count .pelem) := by
  induction l with
  | nil => rfl
  | cons k t ih =>
    obtain ⟨kd, ng⟩ := k
    rw [countKinds_cons, ih]
    cases kd <;> simp [add3, Kind.count, List.count_cons] <;> omega


end CssVerif.Sel
