import CssVerif.Lemmas.TokLex2
/-!
# UNICODE-RANGE class, interval form `U+0-7F`
-/
namespace CssVerif.Tok
open CssVerif CssVerif.Gen.C05

def hexOnly : List (Nat × Nat) := [(48, 57), (65, 70), (97, 102)]

theorem first_rep01 (a : Re) (s : Cps) (l : Nat) (h : a.first s = some l) :
    (Re.rep a 0 1 true).first s = some l := by
  unfold Re.first at h ⊢
  cases hm : a.ms s with
  | nil => rw [hm] at h; cases h
  | cons x xs =>
    rw [hm] at h
    simp only [List.head?_cons, Option.some.injEq] at h
    subst h
    simp [Re.ms, Re.repMs, hm]

theorem ur_interval_first (u h : Nat) (hs : Cps) (h2 : Nat) (hs2 stop : Cps) (hu : IsU u)
    (hh : ∀ x ∈ h :: hs, inR hexq x = true) (hlen : (h :: hs).length ≤ 6)
    (hh2 : ∀ x ∈ h2 :: hs2, inR hexOnly x = true) (hlen2 : (h2 :: hs2).length ≤ 6) (hst : Sep stop) :
    reUNICODE_RANGE.first (u :: 43 :: (h :: hs ++ 45 :: (h2 :: hs2 ++ stop))) =
      some ((h :: hs).length + 2 + (1 + (h2 :: hs2).length)) := by
  have hstop1 : HeadIn (fun c => Re.inCls false hexq c = false) (45 :: (h2 :: hs2 ++ stop)) := headIn_cons (by decide)
  have hstop2 : HeadIn (fun c => Re.inCls false hexOnly c = false) stop := by
    rcases hst with rfl | ⟨rest, rfl⟩
    · left; rfl
    · exact headIn_cons (by decide)
  have hrun : (Re.rep (Re.cls false hexq) 1 6 true).first (h :: hs ++ 45 :: (h2 :: hs2 ++ stop)) =
      some (h :: hs).length := by
    rw [first_rep_cls, runLen_run _ (h :: hs) _ 6 (fun x hx => by rw [← inR_eq_inCls]; exact hh x hx) hlen hstop1]
    simp
  have hrun2 : (Re.rep (Re.cls false hexOnly) 1 6 true).first (h2 :: hs2 ++ stop) = some (h2 :: hs2).length := by
    rw [first_rep_cls, runLen_run _ (h2 :: hs2) _ 6 (fun x hx => by rw [← inR_eq_inCls]; exact hh2 x hx) hlen2 hstop2]
    simp
  have hdash : (Re.seq (Re.cls false [(45, 45)]) (Re.rep (Re.cls false hexOnly) 1 6 true)).first
      (45 :: (h2 :: hs2 ++ stop)) = some (1 + (h2 :: hs2).length) := by
    rw [first_seq_cls_cons, hrun2]; rfl
  have hopt := first_rep01 _ _ _ hdash
  have h2' := first_seq_some hrun (by rw [drop_length_append]; exact hopt)
  rw [reUR_eq, first_seq_of_ms_one (uriU_ms u hu _), first_seq_cls_cons]
  show (if Re.inCls false [(43, 43)] 43 = true then Option.map (fun x => 1 + x)
    ((Re.seq (Re.rep (Re.cls false hexq) 1 6 true) (Re.rep (Re.seq (Re.cls false [(45, 45)])
      (Re.rep (Re.cls false hexOnly) 1 6 true)) 0 1 true)).first (h :: hs ++ 45 :: (h2 :: hs2 ++ stop))) else none).map
        (fun x => 1 + x) = _
  rw [h2']
  simp [Re.inCls]
  omega

/-- **UNICODE-RANGE class, interval**: `U+`/`u+`, one to six hex digits or `?`, `-`, one to six hex digits, followed
by the end of the text or a space -/
theorem scan_urange_interval (doC : Bool) (u h : Nat) (hs : Cps) (h2 : Nat) (hs2 stop : Cps) (hu : IsU u)
    (hh : ∀ x ∈ h :: hs, inR hexq x = true) (hlen : (h :: hs).length ≤ 6)
    (hh2 : ∀ x ∈ h2 :: hs2, inR hexOnly x = true) (hlen2 : (h2 :: hs2).length ≤ 6) (hst : Sep stop) :
    scan false doC (u :: 43 :: (h :: hs ++ 45 :: (h2 :: hs2 ++ stop))) productions =
      .hit "UNICODE-RANGE" ((h :: hs).length + 2 + (1 + (h2 :: hs2).length)) := by
  have hp : productions = ("S", reS) :: ("URI", reURI) :: ("UNICODE-RANGE", reUNICODE_RANGE) :: productions.drop 3 := by
    decide
  have hS : reS.first (u :: 43 :: (h :: hs ++ 45 :: (h2 :: hs2 ++ stop))) = none := by
    rcases hu with rfl | rfl
    · exact first_none_of_noStart (cs := [(85, 85)]) (by decide) (by decide) _
    · exact first_none_of_noStart (cs := [(117, 117)]) (by decide) (by decide) _
  have hURI : reURI.first (u :: 43 :: (h :: hs ++ 45 :: (h2 :: hs2 ++ stop))) = none := by
    apply first_none_of_ms_nil
    rw [reURI_eq, seq_ms_of_ms_one (uriU_ms u hu _)]
    rw [noStart_sound (cs := [(43, 43)]) (by decide) (by decide)]
    rfl
  rw [hp, scan_false_none hS, scan_false_none hURI]
  apply scan_false_hit (ur_interval_first u h hs h2 hs2 stop hu hh hlen hh2 hlen2 hst)
  simp [identContinue]

end CssVerif.Tok
