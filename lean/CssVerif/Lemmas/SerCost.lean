import CssVerif.Model.SerCost
namespace CssVerif.SerCost

mutual
  theorem visits_one : ∀ v : V, visits 1 v = fnCount v
    | .leaf => by simp [visits, fnCount]
    | .fn args => by simp [visits, fnCount, visitsL_one args]
  theorem visitsL_one : ∀ l : List V, visitsL 1 l = fnCountL l
    | [] => by simp [visitsL, fnCountL]
    | a :: as => by simp [visitsL, fnCountL, visits_one a, visitsL_one as]
end

theorem visits_chain_two : ∀ d, visits 2 (chain d) + 1 = 2 ^ d
  | 0 => by simp [chain, visits]
  | d + 1 => by
    have ih := visits_chain_two d
    simp only [chain, visits, visitsL, Nat.add_zero]
    rw [Nat.pow_succ]; omega

theorem fnCount_chain : ∀ d, fnCount (chain d) = d
  | 0 => by simp [chain, fnCount]
  | d + 1 => by simp [chain, fnCount, fnCountL, fnCount_chain d]; omega

end CssVerif.SerCost
