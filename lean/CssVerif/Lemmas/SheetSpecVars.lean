import CssVerif.Lemmas.SheetSpecHead
/-!
# Lemmas for C02: `@variables` — the block (`CSSVariablesDeclaration`), the rule, its projection
-/
namespace CssVerif.SheetSpec
open CssVerif.Proto (Cps)
open CssVerif.Struct CssVerif.AtRules
set_option linter.unusedSimpArgs false
set_option linter.unusedVariables false

/-! ## `skipGap` -/

theorem skipGap_gap (g x : List Tok) (hg : ∀ t ∈ g, isGapTok t = true) : skipGap (g ++ x) = skipGap x := by
  induction g with
  | nil => rfl
  | cons t ts ih =>
    have ht := hg t (by simp)
    simp only [isGapTok, Bool.or_eq_true, beq_iff_eq] at ht
    simp only [List.cons_append, skipGap, ht, ↓reduceIte]
    exact ih (fun a ha => hg a (by simp [ha]))

theorem skipGap_cons (t : Tok) (x : List Tok) (ht : isGapTok t = false) : skipGap (t :: x) = t :: x := by
  simp only [isGapTok, Bool.or_eq_false_iff, beq_eq_false_iff_ne] at ht
  simp [skipGap, ht.1, ht.2]

theorem skipGap_all (g : List Tok) (hg : ∀ t ∈ g, isGapTok t = true) : skipGap g = [] := by
  have := skipGap_gap g [] hg
  simpa [skipGap] using this

/-! ## one declaration -/

/-- what a spelled variable declaration must satisfy: the name is a name, the value an opaque value that does not
start with a comment (a comment there is moved to the `seq` by the `ProdParser` run, like the gap before it), and the
value parser accepts the value tokens as written (with the gap after them) -/
structure SVarDecl.WF (O : Oracle) (d : SVarDecl) : Prop where
  name : NameOk d.name
  value : ValueOk d.value
  head : ∃ t ts, d.value = t :: ts ∧ isGapTok t = false
  accepts : O.valueOk (d.value ++ Gap.toks d.g3) = true

def SVarDecl.nameTok (d : SVarDecl) : Tok := identTok (spell d.nameSp d.name)

/-- the variable `CSSVariablesDeclaration` makes of the tokens of a spelled declaration -/
def SVarDecl.parsed (d : SVarDecl) : Var := (d.nameTok, d.value ++ Gap.toks d.g3)

theorem SVarDecl.valueQB (O : Oracle) (d : SVarDecl) (h : d.WF O) : QB .semicolon (d.value ++ Gap.toks d.g3) :=
  (h.value.qb.mono endTok_semicolon_propvalue).append ((gapL_toks _).qb _)

theorem SVarDecl.value_ne (O : Oracle) (d : SVarDecl) (h : d.WF O) : d.value ++ Gap.toks d.g3 ≠ [] := by
  obtain ⟨t, ts, e, _⟩ := h.head
  simp [e]

theorem semi_semicolon : push [] semiTok = some [] ∧ endTok .semicolon semiTok = true := by
  constructor
  · simp [push, Tok.br, semiTok, charTok]
  · decide

/-- the tokens of a declaration are balanced and have no EOF -/
theorem SVarDecl.bal (O : Oracle) (d : SVarDecl) (h : d.WF O) : nest [] d.toks = some [] ∧ noEof d.toks = true := by
  have hc : colonTok.typ = .char ∧ colonTok.val = vColon := ⟨rfl, rfl⟩
  have q : QB .semicolon d.toks := by
    unfold SVarDecl.toks
    refine QB.cons (identTok_flat _ _ _ h.name) ((gapL_toks _).qb _ |>.append ?_)
    exact QB.cons (colon_flat _ (by simp) _ hc.1 hc.2) ((gapL_toks _).qb _ |>.append (SVarDecl.valueQB O d h))
  exact ⟨q.2, q.noEof⟩

/-- one step of the loop: `G name g1 : g2 value g3 ;` -/
theorem varsLoop_decl_semi (O : Oracle) (d : SVarDecl) (h : d.WF O) (G x : List Tok) (hG : GapL G)
    (f : Nat) (acc : List Var) :
    varsLoop O (f + 1) acc (G ++ (d.toks ++ semiTok :: x)) = varsLoop O f (varsAdd acc d.parsed) x := by
  obtain ⟨t, ts, hv, ht⟩ := h.head
  have hq := SVarDecl.valueQB O d h
  have e1 : skipGap (G ++ (d.toks ++ semiTok :: x)) =
      d.nameTok :: (Gap.toks d.g1 ++ colonTok :: (Gap.toks d.g2 ++ (d.value ++ Gap.toks d.g3)) ++ semiTok :: x) := by
    rw [skipGap_gap _ _ hG.isGap]
    simp only [SVarDecl.toks, List.cons_append]
    rw [skipGap_cons _ _ (by simp [isGapTok, identTok])]
    simp [SVarDecl.nameTok]
  have e2 : skipGap (Gap.toks d.g1 ++ colonTok :: (Gap.toks d.g2 ++ (d.value ++ Gap.toks d.g3)) ++ semiTok :: x) =
      colonTok :: (Gap.toks d.g2 ++ ((d.value ++ Gap.toks d.g3) ++ semiTok :: x)) := by
    rw [List.append_assoc, skipGap_gap _ _ (gapL_toks d.g1).isGap]
    simp only [List.cons_append]
    rw [skipGap_cons _ _ (by decide)]
    simp
  have e3 : skipGap (Gap.toks d.g2 ++ ((d.value ++ Gap.toks d.g3) ++ semiTok :: x)) =
      (d.value ++ Gap.toks d.g3) ++ semiTok :: x := by
    rw [skipGap_gap _ _ (gapL_toks d.g2).isGap, hv]
    simp only [List.cons_append]
    rw [skipGap_cons _ _ ht]
  have e4 : upto .semicolon none ((d.value ++ Gap.toks d.g3) ++ semiTok :: x) =
      ((d.value ++ Gap.toks d.g3) ++ [semiTok], x) :=
    upto_none_end .semicolon [] [] _ semiTok x rfl hq.1 hq.2 semi_semicolon.1 semi_semicolon.2
  have hne := SVarDecl.value_ne O d h
  have hacc := h.accepts
  rw [varsLoop]
  simp only [e1]
  have hid : d.nameTok.typ = .ident := rfl
  simp only [hid, ne_eq, not_true_eq_false, ↓reduceIte, e2]
  have hc : colonTok.typ = TT.char ∧ colonTok.val = vColon := ⟨rfl, rfl⟩
  simp only [hc.1, hc.2, and_self, not_true_eq_false, ↓reduceIte, e3, e4, List.getLast?_concat, Option.map_some,
    List.dropLast_concat]
  have hs : semiTok.val = vSemi := rfl
  simp only [hs, ↓reduceIte, hne, hacc, SVarDecl.parsed]

/-- the last declaration, written without `;` -/
theorem varsLoop_decl_last (O : Oracle) (d : SVarDecl) (h : d.WF O) (G : List Tok) (hG : GapL G)
    (f : Nat) (acc : List Var) :
    varsLoop O (f + 2) acc (G ++ d.toks) = some (varsAdd acc d.parsed) := by
  obtain ⟨t, ts, hv, ht⟩ := h.head
  have hq := SVarDecl.valueQB O d h
  have e1 : skipGap (G ++ d.toks) =
      d.nameTok :: (Gap.toks d.g1 ++ colonTok :: (Gap.toks d.g2 ++ (d.value ++ Gap.toks d.g3))) := by
    rw [skipGap_gap _ _ hG.isGap]
    simp only [SVarDecl.toks]
    rw [skipGap_cons _ _ (by simp [isGapTok, identTok])]
    simp [SVarDecl.nameTok]
  have e2 : skipGap (Gap.toks d.g1 ++ colonTok :: (Gap.toks d.g2 ++ (d.value ++ Gap.toks d.g3))) =
      colonTok :: (Gap.toks d.g2 ++ (d.value ++ Gap.toks d.g3)) := by
    rw [skipGap_gap _ _ (gapL_toks d.g1).isGap, skipGap_cons _ _ (by decide)]
  have e3 : skipGap (Gap.toks d.g2 ++ (d.value ++ Gap.toks d.g3)) = d.value ++ Gap.toks d.g3 := by
    rw [skipGap_gap _ _ (gapL_toks d.g2).isGap, hv]
    simp only [List.cons_append]
    rw [skipGap_cons _ _ ht]
  have e4 : upto .semicolon none (d.value ++ Gap.toks d.g3) = (d.value ++ Gap.toks d.g3, []) :=
    upto_none_nil .semicolon [] [] _ rfl hq.1 hq.2
  have hne := SVarDecl.value_ne O d h
  obtain ⟨l, hl⟩ : ∃ l, (d.value ++ Gap.toks d.g3).getLast? = some l := by
    cases hx : (d.value ++ Gap.toks d.g3).getLast? with
    | none => exact absurd (List.getLast?_eq_none_iff.mp hx) hne
    | some x => exact ⟨x, rfl⟩
  have hls : l.val ≠ vSemi := by
    have := quiet_last_noEnd .semicolon [] _ l hq.1 hq.2 hl
    intro hb
    simp [endTok, hb, Mode.ends, isInfixOf, Mode.endString] at this
  have hacc := h.accepts
  rw [varsLoop]
  simp only [e1]
  have hid : d.nameTok.typ = .ident := rfl
  simp only [hid, ne_eq, not_true_eq_false, ↓reduceIte, e2]
  have hc : colonTok.typ = TT.char ∧ colonTok.val = vColon := ⟨rfl, rfl⟩
  simp only [hc.1, hc.2, and_self, not_true_eq_false, ↓reduceIte, e3, e4, hl, Option.map_some, Option.some.injEq,
    hls, hne, hacc, SVarDecl.parsed]
  rw [varsLoop]
  simp [skipGap]

/-- the end of the block: only white space and comments are left -/
theorem varsLoop_end (O : Oracle) (G : List Tok) (hG : GapL G) (f : Nat) (acc : List Var) :
    varsLoop O (f + 1) acc G = some acc := by
  rw [varsLoop]
  simp [skipGap_all G hG.isGap]

/-! ## the block -/

structure SVarBlock.WF (O : Oracle) (b : SVarBlock) : Prop where
  items : ∀ p ∈ b.items, p.1.WF O
  last : ∀ d, b.last = some d → d.WF O

/-- the declarations of a spelled block, as the parser meets them -/
def SVarBlock.decls (b : SVarBlock) : List Var :=
  b.items.map (·.1.parsed) ++ (b.last.map SVarDecl.parsed).toList

/-- the variables of a spelled block, as the parser builds them: a name (compared in normalised form) that is
declared again replaces its first declaration in place -/
def SVarBlock.parsed (b : SVarBlock) : List Var := b.decls.foldl varsAdd []

theorem varsLoop_items (O : Oracle) (last : Option SVarDecl) (hl : ∀ d, last = some d → d.WF O) :
    ∀ (items : List (SVarDecl × Gap)), (∀ p ∈ items, p.1.WF O) → ∀ (G : List Tok), GapL G → ∀ (f : Nat) (acc : List Var),
      items.length + last.toList.length + 1 ≤ f →
      varsLoop O f acc (G ++ (renderVarItems items ++ renderLastVar last)) =
        some ((items.map (·.1.parsed) ++ (last.map SVarDecl.parsed).toList).foldl varsAdd acc)
  | [], _, G, hG, f, acc, hf => by
    cases last with
    | none =>
      obtain ⟨f', rfl⟩ : ∃ f', f = f' + 1 := ⟨f - 1, by simp at hf; omega⟩
      simp only [renderVarItems, renderLastVar, List.append_nil, List.map_nil, Option.map_none, Option.toList_none,
        List.foldl_nil]
      exact varsLoop_end O G hG f' acc
    | some d =>
      obtain ⟨f', rfl⟩ : ∃ f', f = f' + 2 := ⟨f - 2, by simp at hf; omega⟩
      simp only [renderVarItems, renderLastVar, List.nil_append, List.map_nil, Option.map_some, Option.toList_some,
        List.foldl_cons, List.foldl_nil]
      exact varsLoop_decl_last O d (hl d rfl) G hG f' acc
  | (d, g) :: rest, h, G, hG, f, acc, hf => by
    obtain ⟨f', rfl⟩ : ∃ f', f = f' + 1 := ⟨f - 1, by simp at hf; omega⟩
    simp only [renderVarItems, List.append_assoc, List.cons_append]
    rw [varsLoop_decl_semi O d (h (d, g) (by simp)) G _ hG f' acc]
    rw [varsLoop_items O last hl rest (fun q hq => h q (by simp [hq])) (Gap.toks g) (gapL_toks g) f' _
      (by simp at hf; omega)]
    simp

/-- `varsAdd` and its abstract counterpart commute with the projection (the key of the mapping is the normalised
name) -/
theorem varsAdd_proj (acc : List Var) (v : Var) :
    (varsAdd acc v).map projVar = aVarsAdd (acc.map projVar) (projVar v) := by
  have hany : (acc.map projVar).any (fun e => decide (e.1 = (projVar v).1)) =
      acc.any (fun e => decide (normalize e.1.val = normalize v.1.val)) := by
    simp only [List.any_map, projVar, Function.comp_def]
    rfl
  unfold varsAdd aVarsAdd
  rw [hany]
  split
  · simp only [List.map_map]
    apply List.map_congr_left
    intro e _
    simp only [Function.comp, projVar]
    split <;> simp_all
  · simp

theorem varsFold_proj (l acc : List Var) :
    (l.foldl varsAdd acc).map projVar = (l.map projVar).foldl aVarsAdd (acc.map projVar) := by
  induction l generalizing acc with
  | nil => rfl
  | cons v rest ih => simp only [List.foldl_cons, List.map_cons, ih, varsAdd_proj]

theorem SVarDecl.parsed_name (O : Oracle) (d : SVarDecl) (h : d.WF O) : normalize d.parsed.1.val = d.name := by
  simp only [SVarDecl.parsed, SVarDecl.nameTok, identTok]
  exact normalize_spell _ _ h.name

theorem renderVarItems_length (items : List (SVarDecl × Gap)) : items.length ≤ (renderVarItems items).length := by
  induction items with
  | nil => simp
  | cons p rest ih =>
    obtain ⟨d, g⟩ := p
    simp only [renderVarItems, SVarDecl.toks, List.length_append, List.length_cons]
    omega

theorem SVarBlock.fuel_bound (b : SVarBlock) : b.items.length + b.last.toList.length + 1 ≤ b.toks.length + 1 := by
  have h1 := renderVarItems_length b.items
  simp only [SVarBlock.toks, List.length_append]
  cases hl : b.last with
  | none => simp; omega
  | some d =>
    simp only [renderLastVar, SVarDecl.toks, List.length_cons, Option.toList_some, List.length_nil]; omega

/-- the loop on the tokens of a spelled block, with any fuel from one unit per declaration + 1 on -/
theorem varsLoop_block (O : Oracle) (b : SVarBlock) (h : b.WF O) (f : Nat)
    (hf : b.items.length + b.last.toList.length + 1 ≤ f) : varsLoop O f [] b.toks = some b.parsed := by
  rw [show varsLoop O f [] b.toks =
    varsLoop O f [] (Gap.toks b.lead ++ (renderVarItems b.items ++ renderLastVar b.last)) from rfl,
    varsLoop_items O b.last h.last b.items h.items _ (gapL_toks b.lead) _ [] hf]
  rfl

/-- `CSSVariablesDeclaration.cssText = tokens` on the tokens of a spelled block -/
theorem varsDecl_block (O : Oracle) (b : SVarBlock) (h : b.WF O) : varsDecl O b.toks = some b.parsed :=
  varsLoop_block O b h _ b.fuel_bound

theorem projVar_parsed (O : Oracle) (d : SVarDecl) (h : d.WF O) : projVar d.parsed = d.erase := by
  simp only [projVar, SVarDecl.erase, SVarDecl.parsed_name O d h]
  have := clean_padded [] (Gap.toks d.g3) d.value (by simp) (gapL_toks d.g3).isGap h.value.core
  simp only [List.nil_append] at this
  simp [SVarDecl.parsed, this]

theorem SVarBlock.proj_decls (O : Oracle) (b : SVarBlock) (h : b.WF O) :
    b.decls.map projVar = b.items.map (fun p => p.1.erase) ++ (b.last.map SVarDecl.erase).toList := by
  simp only [SVarBlock.decls, List.map_append, List.map_map]
  congr 1
  · apply List.map_congr_left
    intro p hp
    exact projVar_parsed O p.1 (h.items p hp)
  · cases hl : b.last with
    | none => rfl
    | some d => simp [projVar_parsed O d (h.last d hl)]

theorem SVarBlock.proj_parsed (O : Oracle) (b : SVarBlock) (h : b.WF O) : b.parsed.map projVar = b.erase := by
  simp only [SVarBlock.parsed, SVarBlock.erase, varsFold_proj, SVarBlock.proj_decls O b h, List.map_nil]

/-! ## the block is balanced -/

theorem renderVarItems_bal (O : Oracle) (items : List (SVarDecl × Gap)) (h : ∀ p ∈ items, p.1.WF O) :
    nest [] (renderVarItems items) = some [] ∧ noEof (renderVarItems items) = true := by
  induction items with
  | nil => exact ⟨rfl, rfl⟩
  | cons p rest ih =>
    obtain ⟨d, g⟩ := p
    obtain ⟨a1, a2⟩ := SVarDecl.bal O d (h (d, g) (by simp))
    obtain ⟨b1, b2⟩ := ih (fun q hq => h q (by simp [hq]))
    have hg := (gapL_toks g).qb .default
    have hs : nest [] [semiTok] = some [] := by decide
    have e : renderVarItems ((d, g) :: rest) = d.toks ++ ([semiTok] ++ (Gap.toks g ++ renderVarItems rest)) := rfl
    rw [e]
    refine ⟨bal_append a1 (bal_append hs (bal_append hg.2 b1)), ?_⟩
    rw [noEof_append, noEof_append, noEof_append, a2, hg.noEof, b2]
    decide

theorem SVarBlock.bal (O : Oracle) (b : SVarBlock) (h : b.WF O) : nest [] b.toks = some [] ∧ noEof b.toks = true := by
  have hw := (gapL_toks b.lead).qb .default
  obtain ⟨a1, a2⟩ := renderVarItems_bal O b.items h.items
  have hl : nest [] (renderLastVar b.last) = some [] ∧ noEof (renderLastVar b.last) = true := by
    cases hl : b.last with
    | none => exact ⟨rfl, rfl⟩
    | some d => exact SVarDecl.bal O d (h.last d hl)
  unfold SVarBlock.toks
  exact ⟨bal_append hw.2 (bal_append a1 hl.1), by simp [noEof_append, hw.noEof, a2, hl.2]⟩

/-! ## the rule -/

theorem nameOk_variables : NameOk (CssVerif.Proto.cps "variables") :=
  nameOk_cps _ (by decide) ⟨_, _, rfl, by decide⟩

/-- `CSSVariablesRule.cssText = tokens` on a rendered `@variables` rule -/
theorem variablesRule_render (O : Oracle) (kw : Mask) (g0 : Gap) (blk : SVarBlock) (h : blk.WF O) :
    variablesRule O (SVar.variables kw g0 blk).toks = .parsed blk.parsed := by
  obtain ⟨b1, b2⟩ := SVarBlock.bal O blk h
  have hg := gapL_toks g0
  have e1 : upto .blockstart none (Gap.toks g0 ++ lbraceTok :: (blk.toks ++ [rbraceTok])) =
      (Gap.toks g0 ++ [lbraceTok], blk.toks ++ [rbraceTok]) :=
    upto_blockstart _ lbraceTok _ (hg.qb .default).2 hg.noBrace (hg.qb .default).noEof rfl
  have e2 : upto .blockend none (blk.toks ++ [rbraceTok]) = (blk.toks ++ [rbraceTok], []) :=
    upto_blockend_closed .blockend (Or.inl rfl) blk.toks rbraceTok [] b1 b2 rfl
  simp only [SVar.toks, variablesRule, atTok, e1, e2, sepEnd, List.dropLast_concat, List.getLast?_concat]
  simp [bareOk_gap _ hg.isGap, rbraceTok, lbraceTok, charTok, vRBrace, vLBrace, varsDecl_block O blk h]

end CssVerif.SheetSpec
