import CssVerif.Model.Decl
/-!
Specification-level definitions and helper lemmas for C10 (declaration block, DOM names, variables block).
The property theorems are in `Props/C10.lean`.
-/
namespace CssVerif.Decl
open CssVerif.Proto

/-! ## the specification: an ordered list of entries -/

/-- the entries of a block, in order (comments and unknown rules are not entries) -/
def props : List Item → List Pty
  | [] => []
  | .prop p :: r => p :: props r
  | _ :: r => props r

/-- the items that are not entries -/
def nonProps : List Item → List Item
  | [] => []
  | .prop _ :: r => nonProps r
  | it :: r => it :: nonProps r

/-- the last entry satisfying `q` -/
def lastP (q : Pty → Bool) : List Pty → Option Pty
  | [] => none
  | e :: rest => match lastP q rest with
    | some x => some x
    | none => if q e then some e else none

/-- "the last `!important` entry among those selected by `m`, else the last entry selected by `m`" -/
def effectiveBy (m : Pty → Bool) (ps : List Pty) : Option Pty :=
  match lastP (fun p => m p && p.prio != []) ps with
  | some x => some x
  | none => lastP m ps

/-- the effective entry for a normalised name -/
def effective (ps : List Pty) (n : Cps) : Option Pty := effectiveBy (fun p => p.name == n) ps

/-- keep an occurrence iff there is no later one -/
def lastOcc : List Cps → List Cps
  | [] => []
  | a :: t => if t.contains a then lastOcc t else a :: lastOcc t

/-- the distinct normalised names, ordered by last occurrence -/
def specNames (ps : List Pty) : List Cps := lastOcc (ps.map (·.name))

/-- every entry's normalised name is the normalisation of its literal name -/
def NameInv (seq : List Item) : Prop := ∀ p ∈ props seq, p.name = normalize p.lit

/-! ## generic list lemmas -/

/-- index of the last element satisfying `q` -/
def lastIdx {α : Type} (q : α → Bool) : List α → Option Nat
  | [] => none
  | a :: t => match lastIdx q t with
    | some i => some (i + 1)
    | none => if q a then some 0 else none

theorem lastIdx_append_single {α : Type} (q : α → Bool) (l : List α) (x : α) :
    lastIdx q (l ++ [x]) = if q x then some l.length else lastIdx q l := by
  induction l with
  | nil => simp [lastIdx]
  | cons a t ih =>
    simp only [List.cons_append, lastIdx, ih]
    by_cases h : q x <;> simp [h]

theorem lastIdx_congr {α : Type} (q q' : α → Bool) (l : List α) (h : ∀ a ∈ l, q a = q' a) :
    lastIdx q l = lastIdx q' l := by
  induction l with
  | nil => rfl
  | cons a t ih =>
    have h1 : q a = q' a := h a (by simp)
    have h2 : lastIdx q t = lastIdx q' t := ih (fun b hb => h b (by simp [hb]))
    simp [lastIdx, h1, h2]

theorem lastIdx_some {α : Type} (q : α → Bool) (l : List α) (i : Nat) (h : lastIdx q l = some i) :
    ∃ a, l[i]? = some a ∧ q a = true := by
  induction l generalizing i with
  | nil => simp [lastIdx] at h
  | cons a t ih =>
    simp only [lastIdx] at h
    cases ht : lastIdx q t with
    | some j =>
      simp only [ht] at h
      obtain ⟨b, hb, hq⟩ := ih j ht
      have : i = j + 1 := by injection h with h; omega
      subst this
      exact ⟨b, by simpa using hb, hq⟩
    | none =>
      simp only [ht] at h
      by_cases hq : q a
      · simp only [hq, if_true] at h
        have : i = 0 := by injection h with h; omega
        subst this
        exact ⟨a, by simp, hq⟩
      · simp [hq] at h

theorem lastIdx_none {α : Type} (q : α → Bool) (l : List α) (h : lastIdx q l = none) :
    ∀ a ∈ l, q a = false := by
  induction l with
  | nil => simp
  | cons a t ih =>
    simp only [lastIdx] at h
    cases ht : lastIdx q t with
    | some j => simp [ht] at h
    | none =>
      simp only [ht] at h
      by_cases hq : q a
      · simp [hq] at h
      · intro b hb
        simp only [List.mem_cons] at hb
        rcases hb with rfl | hb
        · simpa using hq
        · exact ih ht b hb

/-! ## `props` -/

theorem props_append (a b : List Item) : props (a ++ b) = props a ++ props b := by
  induction a with
  | nil => rfl
  | cons x t ih => cases x <;> simp [props, ih]

theorem props_reverse (l : List Item) : props l.reverse = (props l).reverse := by
  induction l with
  | nil => rfl
  | cons x t ih => cases x <;> simp [props, props_append, ih]

/-- lift a predicate on entries to items -/
def liftQ (q : Pty → Bool) : Item → Bool
  | .prop p => q p
  | _ => false

theorem propAt_cons_succ (x : Item) (t : List Item) (i : Nat) : propAt (x :: t) (i + 1) = propAt t i := by
  simp [propAt]

theorem lastIdx_liftQ_propAt (q : Pty → Bool) (seq : List Item) (i : Nat)
    (h : lastIdx (liftQ q) seq = some i) : ∃ p, propAt seq i = some p ∧ q p = true := by
  obtain ⟨a, ha, hq⟩ := lastIdx_some _ _ _ h
  cases a with
  | prop p => exact ⟨p, by simp [propAt, ha], hq⟩
  | comment t => simp [liftQ] at hq
  | other t => simp [liftQ] at hq

/-- the entry at the last item index satisfying `q` is the last entry satisfying `q` -/
theorem lastIdx_lastP (q : Pty → Bool) (seq : List Item) :
    (lastIdx (liftQ q) seq).bind (propAt seq) = lastP q (props seq) := by
  induction seq with
  | nil => rfl
  | cons x t ih =>
    simp only [lastIdx]
    cases ht : lastIdx (liftQ q) t with
    | some j =>
      obtain ⟨p, hp, _⟩ := lastIdx_liftQ_propAt q t j ht
      have ih' : lastP q (props t) = some p := by rw [← ih, ht]; simpa using hp
      cases x <;> simp [props, lastP, ih', propAt_cons_succ, hp]
    | none =>
      have ih' : lastP q (props t) = none := by rw [← ih, ht]; rfl
      cases x with
      | prop p =>
        by_cases hq : q p <;> simp [props, lastP, ih', liftQ, hq, propAt]
      | comment c => simp [props, ih', liftQ]
      | other c => simp [props, ih', liftQ]

/-! ## `getProperty`: the reversed scan with the priority short-cut -/

def gpMatch (nname name : Cps) (norm : Bool) (p : Pty) : Bool := (norm && nname == p.name) || name == p.lit
def gpImp (nname name : Cps) (norm : Bool) (p : Pty) : Bool := gpMatch nname name norm p && p.prio != []

theorem scanBy_spec (m : Pty → Bool) (rev : List Item) (found : Option Nat) :
    scanBy m rev found =
      match lastIdx (liftQ (fun p => m p && p.prio != [])) rev.reverse with
      | some i => some i
      | none => match found with
        | some f => some f
        | none => lastIdx (liftQ m) rev.reverse := by
  induction rev generalizing found with
  | nil => cases found <;> simp [scanBy, lastIdx]
  | cons x rest ih =>
    simp only [List.reverse_cons, lastIdx_append_single, List.length_reverse]
    cases x with
    | prop p =>
      simp only [scanBy, liftQ]
      by_cases hm : m p = true
      · by_cases hi : (p.prio != []) = true
        · simp [hm, hi]
        · cases found with
          | none => simp [hm, hi, ih]
          | some f => simp [hm, hi, ih]
      · simp [hm, ih]
    | comment c => simp [scanBy, liftQ, ih]
    | other c => simp [scanBy, liftQ, ih]

theorem getPropertyIdx_spec (seq : List Item) (name : Cps) (norm : Bool) :
    getPropertyIdx seq name norm =
      match lastIdx (liftQ (gpImp (normalize name) name norm)) seq with
      | some i => some i
      | none => lastIdx (liftQ (gpMatch (normalize name) name norm)) seq := by
  unfold getPropertyIdx
  rw [scanBy_spec]
  simp only [List.reverse_reverse]
  rfl

theorem effectiveIdx_spec (seq : List Item) (n : Cps) :
    effectiveIdx seq n =
      match lastIdx (liftQ (fun p => p.name == n && p.prio != [])) seq with
      | some i => some i
      | none => lastIdx (liftQ (fun p => p.name == n)) seq := by
  unfold effectiveIdx
  rw [scanBy_spec]
  simp only [List.reverse_reverse]

/-- `__effective(n)` is the effective entry of the specification — for every block and every name -/
theorem effectiveOf_effective (seq : List Item) (n : Cps) : effectiveOf seq n = effective (props seq) n := by
  unfold effectiveOf effective effectiveBy
  rw [effectiveIdx_spec]
  have h1 := lastIdx_lastP (fun p => p.name == n && p.prio != []) seq
  have h2 := lastIdx_lastP (fun p => p.name == n) seq
  rw [← h1, ← h2]
  cases hi : lastIdx (liftQ (fun p => p.name == n && p.prio != [])) seq with
  | some i =>
    obtain ⟨p, hp, _⟩ := lastIdx_liftQ_propAt _ _ _ hi
    simp [hp]
  | none => simp

theorem getProperty_effectiveBy (seq : List Item) (name : Cps) (norm : Bool) :
    getProperty seq name norm = effectiveBy (gpMatch (normalize name) name norm) (props seq) := by
  unfold getProperty effectiveBy
  rw [getPropertyIdx_spec]
  have h1 := lastIdx_lastP (gpImp (normalize name) name norm) seq
  have h2 := lastIdx_lastP (gpMatch (normalize name) name norm) seq
  have e : (fun p => gpMatch (normalize name) name norm p && p.prio != []) = gpImp (normalize name) name norm := rfl
  rw [e, ← h1, ← h2]
  cases hi : lastIdx (liftQ (gpImp (normalize name) name norm)) seq with
  | some i =>
    obtain ⟨p, hp, _⟩ := lastIdx_liftQ_propAt _ _ _ hi
    simp [hp]
  | none => simp

theorem lastP_congr (q q' : Pty → Bool) (l : List Pty) (h : ∀ a ∈ l, q a = q' a) : lastP q l = lastP q' l := by
  induction l with
  | nil => rfl
  | cons a t ih =>
    have h1 : q a = q' a := h a (by simp)
    have h2 : lastP q t = lastP q' t := ih (fun b hb => h b (by simp [hb]))
    simp [lastP, h1, h2]

theorem effectiveBy_congr (m m' : Pty → Bool) (l : List Pty) (h : ∀ a ∈ l, m a = m' a) :
    effectiveBy m l = effectiveBy m' l := by
  unfold effectiveBy
  have e1 : lastP (fun p => m p && p.prio != []) l = lastP (fun p => m' p && p.prio != []) l :=
    lastP_congr _ _ l (fun a ha => by simp [h a ha])
  rw [e1, lastP_congr m m' l h]

/-! ## `__nnames` -/

/-- the loop of `__nnames` on the names alone -/
def nnGo : List Cps → List Cps → List Cps
  | [], acc => acc
  | n :: r, acc => if acc.contains n then nnGo r acc else nnGo r (acc ++ [n])

theorem nnScan_nnGo (rev : List Item) (acc : List Cps) :
    nnScan rev acc = nnGo ((props rev).map (·.name)) acc := by
  induction rev generalizing acc with
  | nil => rfl
  | cons x t ih =>
    cases x with
    | prop p =>
      simp only [nnScan, props, List.map_cons, nnGo]
      split <;> exact ih _
    | comment c => simpa [nnScan, props] using ih acc
    | other c => simpa [nnScan, props] using ih acc

/-- `lastOcc` that also drops the names in `ex` -/
def lastOccEx (ex : List Cps) : List Cps → List Cps
  | [] => []
  | a :: t => if t.contains a || ex.contains a then lastOccEx ex t else a :: lastOccEx ex t

theorem lastOccEx_nil (l : List Cps) : lastOccEx [] l = lastOcc l := by
  induction l with
  | nil => rfl
  | cons a t ih => simp [lastOccEx, lastOcc, ih]

theorem lastOccEx_snoc_new (ex m : List Cps) (n : Cps) (h : ex.contains n = false) :
    lastOccEx ex (m ++ [n]) = lastOccEx (ex ++ [n]) m ++ [n] := by
  have hn : n ∉ ex := by simpa using h
  induction m with
  | nil => simp [lastOccEx, hn]
  | cons a t ih =>
    simp only [List.cons_append, lastOccEx, ih]
    have : ((t ++ [n]).contains a || ex.contains a) = (t.contains a || (ex ++ [n]).contains a) := by
      simp only [List.contains_eq_mem, List.mem_append, List.mem_singleton]
      by_cases h1 : a ∈ t <;> by_cases h2 : a ∈ ex <;> by_cases h3 : a = n <;> simp [h1, h2, h3]
    rw [this]
    split <;> simp

theorem lastOccEx_snoc_old (ex m : List Cps) (n : Cps) (h : ex.contains n = true) :
    lastOccEx ex (m ++ [n]) = lastOccEx ex m := by
  have hn : n ∈ ex := by simpa using h
  induction m with
  | nil => simp [lastOccEx, hn]
  | cons a t ih =>
    simp only [List.cons_append, lastOccEx, ih]
    have : ((t ++ [n]).contains a || ex.contains a) = (t.contains a || ex.contains a) := by
      by_cases h3 : a = n
      · subst h3; simp [hn]
      · simp [h3]
    rw [this]

theorem nnGo_spec (l acc : List Cps) : nnGo l acc = acc ++ (lastOccEx acc l.reverse).reverse := by
  induction l generalizing acc with
  | nil => simp [nnGo, lastOccEx]
  | cons n r ih =>
    simp only [nnGo, List.reverse_cons]
    by_cases h : acc.contains n = true
    · simp only [h, if_true]
      rw [ih, lastOccEx_snoc_old _ _ _ h]
    · have h' : acc.contains n = false := by simpa using h
      simp only [h', Bool.false_eq_true, if_false]
      rw [ih, lastOccEx_snoc_new _ _ _ h']
      simp

theorem nnames_lastOcc (seq : List Item) : nnames seq = lastOcc ((props seq).map (·.name)) := by
  unfold nnames
  rw [nnScan_nnGo, nnGo_spec, props_reverse]
  simp [lastOccEx_nil]

theorem lastOcc_cons_mem (b : Cps) (t : List Cps) (h : b ∈ t) : lastOcc (b :: t) = lastOcc t := by
  simp [lastOcc, h]

theorem lastOcc_cons_not_mem (b : Cps) (t : List Cps) (h : b ∉ t) : lastOcc (b :: t) = b :: lastOcc t := by
  simp [lastOcc, h]

theorem mem_lastOcc (l : List Cps) (a : Cps) : a ∈ lastOcc l ↔ a ∈ l := by
  induction l with
  | nil => simp [lastOcc]
  | cons b t ih =>
    by_cases h : b ∈ t
    · rw [lastOcc_cons_mem b t h, ih, List.mem_cons]
      constructor
      · intro x; exact Or.inr x
      · rintro (rfl | x)
        · exact h
        · exact x
    · rw [lastOcc_cons_not_mem b t h]
      simp [ih]

theorem lastOcc_nodup (l : List Cps) : (lastOcc l).Nodup := by
  induction l with
  | nil => simp [lastOcc]
  | cons b t ih =>
    by_cases h : b ∈ t
    · rw [lastOcc_cons_mem b t h]; exact ih
    · rw [lastOcc_cons_not_mem b t h, List.nodup_cons]
      exact ⟨by rw [mem_lastOcc]; exact h, ih⟩

theorem lastOcc_sublist (l : List Cps) : (lastOcc l).Sublist l := by
  induction l with
  | nil => simp [lastOcc]
  | cons b t ih =>
    simp only [lastOcc]
    split
    · exact List.Sublist.cons _ ih
    · exact List.Sublist.cons_cons _ ih

/-! ## `lastP`, `effective` -/

theorem lastP_some (q : Pty → Bool) (l : List Pty) (x : Pty) (h : lastP q l = some x) : x ∈ l ∧ q x = true := by
  induction l with
  | nil => simp [lastP] at h
  | cons a t ih =>
    simp only [lastP] at h
    cases ht : lastP q t with
    | some y =>
      simp only [ht] at h
      injection h with h; subst h
      exact ⟨by simp [(ih ht).1], (ih ht).2⟩
    | none =>
      simp only [ht] at h
      by_cases hq : q a
      · simp only [hq, if_true] at h
        injection h with h; subst h
        exact ⟨by simp, hq⟩
      · simp [hq] at h

theorem lastP_none (q : Pty → Bool) (l : List Pty) : lastP q l = none ↔ ∀ a ∈ l, q a = false := by
  induction l with
  | nil => simp [lastP]
  | cons a t ih =>
    simp only [lastP]
    cases ht : lastP q t with
    | some y =>
      have := lastP_some q t y ht
      simp only [List.mem_cons, forall_eq_or_imp]
      constructor
      · intro h; cases h
      · intro h; have := h.2 y this.1; simp_all
    | none =>
      have h1 := ih.mp ht
      by_cases hq : q a
      · simp [hq]
      · simp only [hq, Bool.false_eq_true, if_false, List.mem_cons, forall_eq_or_imp, true_iff]
        exact ⟨by simpa using hq, h1⟩

theorem lastP_isSome_of_mem (q : Pty → Bool) (l : List Pty) (a : Pty) (ha : a ∈ l) (hq : q a = true) :
    ∃ x, lastP q l = some x := by
  cases h : lastP q l with
  | some x => exact ⟨x, rfl⟩
  | none => have := (lastP_none q l).mp h a ha; simp [hq] at this

theorem lastP_filter (q keep : Pty → Bool) (l : List Pty) (h : ∀ a ∈ l, q a = true → keep a = true) :
    lastP q (l.filter keep) = lastP q l := by
  induction l with
  | nil => rfl
  | cons a t ih =>
    have iht := ih (fun b hb => h b (by simp [hb]))
    by_cases hk : keep a = true
    · simp [List.filter_cons, hk, lastP, iht]
    · have hqa : q a = false := by
        cases hq : q a with
        | false => rfl
        | true => exact absurd (h a (by simp) hq) hk
      rw [List.filter_cons_of_neg hk, iht]
      simp only [lastP, hqa]
      cases lastP q t <;> simp

theorem effectiveBy_some (m : Pty → Bool) (l : List Pty) (x : Pty) (h : effectiveBy m l = some x) :
    x ∈ l ∧ m x = true := by
  unfold effectiveBy at h
  cases hi : lastP (fun p => m p && p.prio != []) l with
  | some y =>
    simp only [hi] at h
    injection h with h; subst h
    have := lastP_some _ _ _ hi
    exact ⟨this.1, by have := this.2; simp at this; exact this.1⟩
  | none =>
    simp only [hi] at h
    exact lastP_some _ _ _ h

theorem effectiveBy_none (m : Pty → Bool) (l : List Pty) : effectiveBy m l = none ↔ ∀ a ∈ l, m a = false := by
  unfold effectiveBy
  cases hi : lastP (fun p => m p && p.prio != []) l with
  | some y =>
    have := lastP_some _ _ _ hi
    constructor
    · intro h; cases h
    · intro h; have h2 := h y this.1; have h3 := this.2; simp [h2] at h3
  | none => exact lastP_none m l

theorem effectiveBy_isSome_of_mem (m : Pty → Bool) (l : List Pty) (a : Pty) (ha : a ∈ l) (hm : m a = true) :
    ∃ x, effectiveBy m l = some x := by
  cases h : effectiveBy m l with
  | some x => exact ⟨x, rfl⟩
  | none => have := (effectiveBy_none m l).mp h a ha; simp [hm] at this

theorem effectiveBy_filter (m keep : Pty → Bool) (l : List Pty) (h : ∀ a ∈ l, m a = true → keep a = true) :
    effectiveBy m (l.filter keep) = effectiveBy m l := by
  unfold effectiveBy
  rw [lastP_filter _ keep l (fun a ha hq => h a ha (by simp at hq; exact hq.1)), lastP_filter m keep l h]

/-- the important-first rule spelled out: if some selected entry is important the answer is important and no later
selected entry is; otherwise the answer is the last selected entry -/
theorem lastP_last (q : Pty → Bool) (pre post : List Pty) (x : Pty) (hx : q x = true)
    (hpost : ∀ a ∈ post, q a = false) : lastP q (pre ++ x :: post) = some x := by
  induction pre with
  | nil =>
    have : lastP q post = none := (lastP_none q post).mpr hpost
    simp [lastP, this, hx]
  | cons a t ih => simp [lastP, ih]

/-! ## names stable under `normalize` -/

/-- `normalize` is not idempotent (`\\g` ↦ `\g` ↦ `g`); the blocks all of whose names are fixpoints -/
def Stable (seq : List Item) : Prop := ∀ p ∈ props seq, normalize p.name = p.name

/-! ## removal -/

@[simp] theorem isPropNamed_prop (nn : Cps) (p : Pty) : isPropNamed nn (.prop p) = (p.name == nn) := rfl
@[simp] theorem isPropNamed_comment (nn c : Cps) : isPropNamed nn (.comment c) = false := rfl
@[simp] theorem isPropNamed_other (nn c : Cps) : isPropNamed nn (.other c) = false := rfl
@[simp] theorem isPropLit_prop (nn : Cps) (p : Pty) : isPropLit nn (.prop p) = (p.lit == nn) := rfl
@[simp] theorem isPropLit_comment (nn c : Cps) : isPropLit nn (.comment c) = false := rfl
@[simp] theorem isPropLit_other (nn c : Cps) : isPropLit nn (.other c) = false := rfl

theorem props_filter_gen (qi : Item → Bool) (qp : Pty → Bool) (hp : ∀ p, qi (.prop p) = qp p)
    (hc : ∀ c, qi (.comment c) = false) (ho : ∀ c, qi (.other c) = false) (seq : List Item) :
    props (seq.filter (fun it => !qi it)) = (props seq).filter (fun p => !qp p) := by
  induction seq with
  | nil => rfl
  | cons x t ih =>
    cases x with
    | prop p =>
      by_cases h : qp p = true
      · rw [List.filter_cons_of_neg (by simp [hp, h])]
        simp only [props]
        rw [List.filter_cons_of_neg (by simp [h])]
        exact ih
      · rw [List.filter_cons_of_pos (by simp [hp, h])]
        simp only [props]
        rw [List.filter_cons_of_pos (by simp [h]), ih]
    | comment c =>
      rw [List.filter_cons_of_pos (by simp [hc])]
      simp only [props]
      exact ih
    | other c =>
      rw [List.filter_cons_of_pos (by simp [ho])]
      simp only [props]
      exact ih

theorem props_filter_named (nn : Cps) (seq : List Item) :
    props (seq.filter (fun it => !isPropNamed nn it)) = (props seq).filter (fun p => !(p.name == nn)) :=
  props_filter_gen (isPropNamed nn) (fun p => p.name == nn) (fun _ => rfl) (fun _ => rfl) (fun _ => rfl) seq

theorem props_filter_lit (name : Cps) (seq : List Item) :
    props (seq.filter (fun it => !isPropLit name it)) = (props seq).filter (fun p => !(p.lit == name)) :=
  props_filter_gen (isPropLit name) (fun p => p.lit == name) (fun _ => rfl) (fun _ => rfl) (fun _ => rfl) seq

theorem nonProps_filter (q : Item → Bool) (seq : List Item) (h : ∀ it, (∀ p, it ≠ .prop p) → q it = true) :
    nonProps (seq.filter q) = nonProps seq := by
  induction seq with
  | nil => rfl
  | cons x t ih =>
    cases x with
    | prop p => by_cases hq : q (.prop p) = true <;> simp [List.filter_cons, hq, nonProps, ih]
    | comment c =>
      have := h (.comment c) (by intro p hp; cases hp)
      simp [List.filter_cons, this, nonProps, ih]
    | other c =>
      have := h (.other c) (by intro p hp; cases hp)
      simp [List.filter_cons, this, nonProps, ih]

theorem lastOcc_filter (keep : Cps → Bool) (l : List Cps) :
    lastOcc (l.filter keep) = (lastOcc l).filter keep := by
  induction l with
  | nil => rfl
  | cons a t ih =>
    by_cases hk : keep a = true
    · by_cases hm : a ∈ t
      · have hm' : a ∈ t.filter keep := by simp [hm, hk]
        rw [List.filter_cons_of_pos hk, lastOcc_cons_mem a _ hm', lastOcc_cons_mem a t hm, ih]
      · have hm' : a ∉ t.filter keep := by simp [hm]
        rw [List.filter_cons_of_pos hk, lastOcc_cons_not_mem a _ hm', lastOcc_cons_not_mem a t hm,
          List.filter_cons_of_pos hk, ih]
    · by_cases hm : a ∈ t
      · rw [List.filter_cons_of_neg hk, lastOcc_cons_mem a t hm, ih]
      · rw [List.filter_cons_of_neg hk, lastOcc_cons_not_mem a t hm, List.filter_cons_of_neg hk, ih]

/-! ## update in place -/

/-- replace the last element satisfying `q` by `f` of it -/
def updLast {α : Type} (q : α → Bool) (f : α → α) : List α → List α
  | [] => []
  | a :: t => if t.any q then a :: updLast q f t else if q a then f a :: t else a :: t

theorem lastIdx_any {α : Type} (q : α → Bool) (l : List α) : (lastIdx q l).isSome = l.any q := by
  induction l with
  | nil => rfl
  | cons a t ih =>
    simp only [lastIdx, List.any_cons]
    cases ht : lastIdx q t with
    | some j =>
      rw [ht] at ih
      have : t.any q = true := by rw [← ih]; rfl
      simp [this]
    | none =>
      rw [ht] at ih
      have : t.any q = false := by rw [← ih]; rfl
      by_cases hq : q a <;> simp [hq, this]

theorem set_lastIdx {α : Type} (q : α → Bool) (f : α → α) (l : List α) (i : Nat) (a : α)
    (h : lastIdx q l = some i) (ha : l[i]? = some a) : l.set i (f a) = updLast q f l := by
  induction l generalizing i with
  | nil => simp [lastIdx] at h
  | cons b t ih =>
    simp only [lastIdx] at h
    have hany := lastIdx_any q t
    cases ht : lastIdx q t with
    | some j =>
      simp only [ht] at h
      have : i = j + 1 := by injection h with h; omega
      subst this
      simp only [ht, Option.isSome_some] at hany
      simp only [updLast, ← hany, if_true, List.set_cons_succ]
      rw [ih j ht (by simpa using ha)]
    | none =>
      simp only [ht] at h
      simp only [ht, Option.isSome_none] at hany
      by_cases hq : q b
      · simp only [hq, if_true] at h
        have : i = 0 := by injection h with h; omega
        subst this
        have : a = b := by simpa using ha.symm
        subst this
        simp [updLast, ← hany, hq]
      · simp [hq] at h

theorem updLast_congr {α : Type} (q q' : α → Bool) (f : α → α) (l : List α) (h : ∀ a ∈ l, q a = q' a) :
    updLast q f l = updLast q' f l := by
  induction l with
  | nil => rfl
  | cons a t ih =>
    have h1 : q a = q' a := h a (by simp)
    have h2 := ih (fun b hb => h b (by simp [hb]))
    have h3 : t.any q = t.any q' := by
      apply Bool.eq_iff_iff.mpr
      simp only [List.any_eq_true]
      constructor
      · rintro ⟨x, hx, hq⟩; exact ⟨x, hx, by rw [← h x (by simp [hx])]; exact hq⟩
      · rintro ⟨x, hx, hq⟩; exact ⟨x, hx, by rw [h x (by simp [hx])]; exact hq⟩
    simp [updLast, h1, h2, h3]

def liftF (f : Pty → Pty) : Item → Item
  | .prop p => .prop (f p)
  | x => x

theorem any_liftQ (q : Pty → Bool) (seq : List Item) : seq.any (liftQ q) = (props seq).any q := by
  induction seq with
  | nil => rfl
  | cons x t ih => cases x <;> simp [props, liftQ, ih]

theorem props_updLast (q : Pty → Bool) (f : Pty → Pty) (seq : List Item) :
    props (updLast (liftQ q) (liftF f) seq) = updLast q f (props seq) := by
  induction seq with
  | nil => rfl
  | cons x t ih =>
    cases x with
    | prop p =>
      simp only [updLast, props, any_liftQ]
      by_cases h1 : (props t).any q = true
      · simp [h1, props, ih]
      · by_cases h2 : q p = true <;> simp [h1, h2, liftQ, liftF, props]
    | comment c =>
      simp only [updLast, props, any_liftQ]
      by_cases h1 : (props t).any q = true
      · simp [h1, props, ih]
      · have : updLast q f (props t) = props t := by
          have hh : ∀ l : List Pty, l.any q = false → updLast q f l = l := by
            intro l; induction l with
            | nil => intro _; rfl
            | cons a r ihr =>
              intro h; simp only [List.any_cons, Bool.or_eq_false_iff] at h
              simp [updLast, h.1, h.2]
          exact hh _ (by simpa using h1)
        simp [h1, liftQ, props, this]
    | other c =>
      simp only [updLast, props, any_liftQ]
      by_cases h1 : (props t).any q = true
      · simp [h1, props, ih]
      · have : updLast q f (props t) = props t := by
          have hh : ∀ l : List Pty, l.any q = false → updLast q f l = l := by
            intro l; induction l with
            | nil => intro _; rfl
            | cons a r ihr =>
              intro h; simp only [List.any_cons, Bool.or_eq_false_iff] at h
              simp [updLast, h.1, h.2]
          exact hh _ (by simpa using h1)
        simp [h1, liftQ, props, this]

theorem nonProps_updLast (q : Pty → Bool) (f : Pty → Pty) (seq : List Item) :
    nonProps (updLast (liftQ q) (liftF f) seq) = nonProps seq := by
  induction seq with
  | nil => rfl
  | cons x t ih =>
    cases x with
    | prop p =>
      simp only [updLast]
      split
      · simp [nonProps, ih]
      · split <;> simp [nonProps, liftF]
    | comment c =>
      simp only [updLast]
      split
      · simp [nonProps, ih]
      · simp [liftQ, nonProps]
    | other c =>
      simp only [updLast]
      split
      · simp [nonProps, ih]
      · simp [liftQ, nonProps]

/-- "update the effective entry in place": the last important entry selected by `m` if there is one, else the last
entry selected by `m`; nothing else changes -/
def updEffective (m : Pty → Bool) (f : Pty → Pty) (ps : List Pty) : List Pty :=
  if ps.any (fun p => m p && p.prio != []) then updLast (fun p => m p && p.prio != []) f ps
  else updLast m f ps

/-! ## what the `Property` setters leave alone -/

theorem setValue_frame (env : Env) (p q : Pty) (text : Cps) (h : setValue env p text = .ok q) :
    q.name = p.name ∧ q.lit = p.lit ∧ q.prio = p.prio := by
  unfold setValue at h
  cases hv : env.parseValue text with
  | some v => simp [hv] at h; subst h; simp
  | none =>
    cases hr : env.raising <;> simp [hv, logCall, hr, bind, Except.bind] at h
    subst h; simp

theorem setName_names (env : Env) (p q : Pty) (toks : List Tok) (h : setName env p toks = .ok q) :
    (q.name = normalize q.lit) ∨ (q.name = p.name ∧ q.lit = p.lit) := by
  unfold setName at h
  cases hf : toks.foldlM (nameStep env) ({} : NameAcc) with
  | error e => simp [hf, bind, Except.bind] at h
  | ok a =>
    cases hr : env.raising <;> simp only [hf, bind, Except.bind, logCall, hr] at h
    all_goals (repeat' (split at h))
    all_goals (first | (cases h; done) | (injection h with h; subst h; simp))

theorem setPriorityToks_frame (env : Env) (p q : Pty) (toks : List Tok) (g : Bool)
    (h : setPriorityToks env p toks g = .ok q) :
    q.name = p.name ∧ q.lit = p.lit ∧ q.wf = p.wf ∧ q.val = p.val ∧ q.nameSeq = p.nameSeq := by
  unfold setPriorityToks at h
  cases hf : toks.foldlM (prioStep env) ({} : PrioAcc) with
  | error e => simp [hf, bind, Except.bind] at h
  | ok a =>
    cases hr : env.raising <;> simp only [hf, bind, Except.bind, logCall, hr] at h
    all_goals (repeat' (split at h))
    all_goals (first | (cases h; done) | (injection h with h; subst h; simp))

theorem setPriorityStr_frame (env : Env) (p q : Pty) (prio : Cps) (h : setPriorityStr env p prio = .ok q) :
    q.name = p.name ∧ q.lit = p.lit ∧ q.wf = p.wf ∧ q.val = p.val ∧ q.nameSeq = p.nameSeq :=
  setPriorityToks_frame env p q _ _ h

theorem normalize_nil : normalize [] = [] := rfl

theorem mkProperty_names (env : Env) (name value prio : Cps) (q : Pty)
    (h : mkProperty env name value prio = .ok q) : q.name = normalize q.lit := by
  unfold mkProperty at h
  have key : ∀ p1 : Pty, p1.name = normalize p1.lit →
      (if prio != [] then setPriorityStr env p1 prio else pure p1) = .ok q → q.name = normalize q.lit := by
    intro p1 hp1 h2
    split at h2
    · have := setPriorityStr_frame env p1 q prio h2
      rw [this.1, this.2.1]; exact hp1
    · injection h2 with h2; subst h2; exact hp1
  by_cases hn : (name != []) = true
  · simp only [hn, if_true, bind, Except.bind] at h
    cases h1 : setName env Pty.empty (env.tokenize name) with
    | error e => simp [h1] at h
    | ok a =>
      simp only [h1] at h
      cases h2 : setValue env a value with
      | error e => simp [h2] at h
      | ok b =>
        simp only [h2] at h
        have fa := setName_names env Pty.empty a _ h1
        have fb := setValue_frame env a b value h2
        apply key b _ h
        rw [fb.1, fb.2.1]
        rcases fa with fa | fa
        · exact fa
        · rw [fa.1, fa.2]; rfl
  · simp only [hn, Bool.false_eq_true, if_false, bind, Except.bind, pure, Except.pure] at h
    exact key Pty.empty rfl h

/-- a property built from an empty name is not well-formed -/
theorem mkProperty_wf_name (env : Env) (name value prio : Cps) (q : Pty)
    (h : mkProperty env name value prio = .ok q) (hw : q.wf = true) : name ≠ [] := by
  intro hn
  subst hn
  unfold mkProperty at h
  simp only [bne_self_eq_false, Bool.false_eq_true, if_false, bind, Except.bind, pure, Except.pure] at h
  split at h
  · have := setPriorityStr_frame env Pty.empty q prio h
    rw [this.2.2.1] at hw
    cases hw
  · injection h with h; subst h; cases hw

theorem updateProp_frame (env : Env) (p newp : Pty) :
    (updateProp env p newp).p.name = p.name ∧ (updateProp env p newp).p.lit = p.lit := by
  unfold updateProp
  cases h1 : setValue env p newp.val.css with
  | error e => simp
  | ok p1 =>
    have f1 := setValue_frame env p p1 _ h1
    cases h2 : setPriorityStr env p1 newp.prio with
    | error e => simp only [h2]; exact ⟨f1.1, f1.2.1⟩
    | ok p2 =>
      have f2 := setPriorityStr_frame env p1 p2 _ h2
      simp only [h2]
      exact ⟨by rw [f2.1, f1.1], by rw [f2.2.1, f1.2.1]⟩

theorem propFromDecl_names (env : Env) (n v pr : Cps) (q : Pty) (h : propFromDecl env n v pr = .ok q) :
    q.name = normalize q.lit := by
  unfold propFromDecl at h
  cases hr : env.raising <;> simp only [bind, Except.bind, logCall, hr, pure, Except.pure] at h
  all_goals (repeat' (split at h))
  all_goals (first | (cases h; done) | (injection h with h; subst h; rfl) | skip)
  all_goals
    rename_i _ p1 h1 _ p2 h2 _
    have f1 := setName_names env _ p1 _ h1
    have f2 := setValue_frame env p1 p2 _ h2
    have f3 := setPriorityToks_frame env p2 q _ _ h
    rw [f3.1, f3.2.1, f2.1, f2.2.1]
    rcases f1 with f1 | f1
    · exact f1
    · rw [f1.1, f1.2]; rfl

/-! ## T10.1 in lemma form -/

theorem gpMatch_nameInv (name : Cps) (p : Pty) (hi : p.name = normalize p.lit) :
    gpMatch (normalize name) name true p = (p.name == normalize name) := by
  unfold gpMatch
  by_cases e : name = p.lit
  · subst e; simp [hi]
  · by_cases e2 : normalize name = p.name
    · simp [e2]
    · have e3 : ¬ p.name = normalize name := fun x => e2 x.symm
      have b1 : (normalize name == p.name) = false := beq_eq_false_iff_ne.mpr e2
      have b2 : (name == p.lit) = false := beq_eq_false_iff_ne.mpr e
      have b3 : (p.name == normalize name) = false := beq_eq_false_iff_ne.mpr e3
      simp [b1, b2, b3]

theorem getProperty_effective (seq : List Item) (name : Cps) (h : NameInv seq) :
    getProperty seq name true = effective (props seq) (normalize name) := by
  rw [getProperty_effectiveBy]
  exact effectiveBy_congr _ _ _ (fun p hp => gpMatch_nameInv name p (h p hp))

theorem getProperty_literal (seq : List Item) (name : Cps) :
    getProperty seq name false = effectiveBy (fun p => p.lit == name) (props seq) := by
  rw [getProperty_effectiveBy]
  apply effectiveBy_congr
  intro p _
  unfold gpMatch
  by_cases e : name = p.lit
  · subst e; simp
  · have e3 : ¬ p.lit = name := fun x => e x.symm
    have b1 : (name == p.lit) = false := beq_eq_false_iff_ne.mpr e
    have b2 : (p.lit == name) = false := beq_eq_false_iff_ne.mpr e3
    simp [b1, b2]

/-! ## operations, histories, and their specification on the entry list -/

/-- the operations of the property statement: set (update or add-duplicate), item assignment, removal, item
deletion, text replacement; `setReadonly` flips the block's read-only flag -/
inductive Op
  | set (name : Cps) (value : Option Cps) (prio : Cps) (repl : Bool)
  /-- `setProperty(name, value, priority, normalize=False, replace)` -/
  | setLit (name : Cps) (value : Option Cps) (prio : Cps) (repl : Bool)
  | setItem (name : Cps) (value : Option Cps) (prio : Option Cps)
  | remove (name : Cps) (norm : Bool)
  | delItem (name : Cps)
  | setText (items : List SrcItem)
  | setReadonly (b : Bool)

/-- an operation together with the error mode in force when it is called -/
structure Call where
  raising : Bool
  op : Op

def withMode (env : Env) (r : Bool) : Env := { env with raising := r }

/-- the model's transition -/
def step (env : Env) (d : Decl) (c : Call) : Res (Option Cps) :=
  match c.op with
  | .set n v p repl => setProperty (withMode env c.raising) d n v p true repl
  | .setLit n v p repl => setProperty (withMode env c.raising) d n v p false repl
  | .setItem n v p => setItem (withMode env c.raising) d n v p
  | .remove n norm => ⟨(removeProperty d n norm).st, (removeProperty d n norm).out.map some⟩
  | .delItem n => ⟨(delItem d n).st, (delItem d n).out.map some⟩
  | .setText items =>
    ⟨(setCssText (withMode env c.raising) d items).st,
     (setCssText (withMode env c.raising) d items).out.map (fun _ => none)⟩
  | .setReadonly b => ⟨{ d with readonly := b }, .ok none⟩

/-- the specification state: the ordered entries and the read-only flag -/
structure Spec where
  ps : List Pty
  readonly : Bool

structure SRes where
  st : Spec
  out : Except Err (Option Cps)

def valueOf (o : Option Pty) : Cps := (o.map (·.val.value)).getD []

/-- removal deletes every entry of the name and returns the effective value -/
def specRemove (s : Spec) (name : Cps) (norm : Bool) : SRes :=
  if s.readonly then ⟨s, .error .noModification⟩
  else if norm then
    ⟨{ s with ps := s.ps.filter (fun p => !(p.name == normalize name)) },
     .ok (some (valueOf (effective s.ps (normalize name))))⟩
  else
    ⟨{ s with ps := s.ps.filter (fun p => !(p.lit == name)) },
     .ok (some (valueOf (effectiveBy (fun p => p.lit == name) s.ps)))⟩

/-- an update modifies the effective entry in place; otherwise (or with `replace=False`) the new entry is appended -/
def specSet (env : Env) (s : Spec) (name : Cps) (value : Option Cps) (prio : Cps) (repl : Bool) : SRes :=
  if s.readonly then ⟨s, .error .noModification⟩
  else
    match value with
    | none => specRemove s name true
    | some [] => specRemove s name true
    | some v =>
      match mkProperty env name v prio with
      | .error e => ⟨s, .error e⟩
      | .ok newp =>
        if newp.wf then
          match (if repl then effective s.ps (normalize name) else none) with
          | some p =>
            ⟨{ s with ps := updEffective (fun q => q.name == normalize name)
                              (fun q => (updateProp env q newp).p) s.ps },
             match (updateProp env p newp).err with | some e => .error e | none => .ok none⟩
          | none => ⟨{ s with ps := s.ps ++ [newp] }, .ok none⟩
        else
          match logCall env with
          | .error e => ⟨s, .error e⟩
          | .ok _ => ⟨s, .ok none⟩

/-- `normalize=False`: an update modifies the LAST entry with that literal name in place (not the effective one among
them); otherwise (or with `replace=False`) the new entry is appended; an empty value removes by normalised name -/
def specSetLit (env : Env) (s : Spec) (name : Cps) (value : Option Cps) (prio : Cps) (repl : Bool) : SRes :=
  if s.readonly then ⟨s, .error .noModification⟩
  else
    match value with
    | none => specRemove s name true
    | some [] => specRemove s name true
    | some v =>
      match mkProperty env name v prio with
      | .error e => ⟨s, .error e⟩
      | .ok newp =>
        if newp.wf then
          match (if repl then lastP (fun q => q.lit == name) s.ps else none) with
          | some p =>
            ⟨{ s with ps := updLast (fun q => q.lit == name) (fun q => (updateProp env q newp).p) s.ps },
             match (updateProp env p newp).err with | some e => .error e | none => .ok none⟩
          | none => ⟨{ s with ps := s.ps ++ [newp] }, .ok none⟩
        else
          match logCall env with
          | .error e => ⟨s, .error e⟩
          | .ok _ => ⟨s, .ok none⟩

def specSrcStep (env : Env) (acc : List Pty) : SrcItem → Except Err (List Pty)
  | .decl n v p => do
    let pr ← propFromDecl env n v p
    if pr.wf then .ok (acc ++ [pr])
    else do
      logCall env
      .ok acc
  | .comment _ => .ok acc
  | .semicolon => .ok acc

/-- text replacement denotes the entries of its declarations, in order -/
def specText (env : Env) (s : Spec) (items : List SrcItem) : SRes :=
  if s.readonly then ⟨s, .error .noModification⟩
  else
    match items.foldlM (specSrcStep env) [] with
    | .error e => ⟨s, .error e⟩
    | .ok ps => ⟨{ s with ps := ps }, .ok none⟩

def specStep (env : Env) (s : Spec) (c : Call) : SRes :=
  match c.op with
  | .set n v p repl => specSet (withMode env c.raising) s n v p repl
  | .setLit n v p repl => specSetLit (withMode env c.raising) s n v p repl
  | .setItem n v p => specSet (withMode env c.raising) s n v (p.getD []) true
  | .remove n norm => specRemove s n norm
  | .delItem n => specRemove s n true
  | .setText items => specText (withMode env c.raising) s items
  | .setReadonly b => ⟨{ s with readonly := b }, .ok none⟩

def absD (d : Decl) : Spec := ⟨props d.seq, d.readonly⟩

def NameInvP (ps : List Pty) : Prop := ∀ p ∈ ps, p.name = normalize p.lit

/-! ### removal -/

theorem remove_refines (d : Decl) (name : Cps) (norm : Bool) (h : NameInv d.seq) :
    absD (removeProperty d name norm).st = (specRemove (absD d) name norm).st ∧
    (removeProperty d name norm).out.map some = (specRemove (absD d) name norm).out := by
  unfold removeProperty specRemove absD
  by_cases hr : d.readonly = true
  · simp [hr, Except.map]
  · simp only [hr, Bool.false_eq_true, if_false]
    cases norm with
    | true =>
      simp only [if_true, props_filter_named, Except.map, true_and]
      unfold getPropertyValue valueOf
      rw [getProperty_effective _ _ h]
      cases effective (props d.seq) (normalize name) <;> rfl
    | false =>
      simp only [Bool.false_eq_true, if_false, props_filter_lit, Except.map, true_and]
      unfold getPropertyValue valueOf
      rw [getProperty_literal]
      cases effectiveBy (fun p => p.lit == name) (props d.seq) <;> rfl

theorem nameInvP_filter (ps : List Pty) (k : Pty → Bool) (h : NameInvP ps) : NameInvP (ps.filter k) :=
  fun p hp => h p (List.mem_filter.mp hp).1

theorem remove_nameInv (d : Decl) (name : Cps) (norm : Bool) (h : NameInv d.seq) :
    NameInv (removeProperty d name norm).st.seq := by
  unfold removeProperty
  by_cases hr : d.readonly = true
  · simpa [hr] using h
  · simp only [hr, Bool.false_eq_true, if_false]
    cases norm with
    | true =>
      simp only [if_true]
      unfold NameInv; rw [props_filter_named]; exact nameInvP_filter _ _ h
    | false =>
      simp only [Bool.false_eq_true, if_false]
      unfold NameInv; rw [props_filter_lit]; exact nameInvP_filter _ _ h

/-! ### text replacement -/

theorem srcFold_refines (env : Env) (items : List SrcItem) (acc : List Item) :
    (items.foldlM (srcStep env) acc).map props = items.foldlM (specSrcStep env) (props acc) := by
  induction items generalizing acc with
  | nil => rfl
  | cons x xs ih =>
    simp only [List.foldlM_cons, bind, Except.bind]
    cases x with
    | decl n v p =>
      simp only [srcStep, specSrcStep, bind, Except.bind]
      cases hp : propFromDecl env n v p with
      | error e => rfl
      | ok pr =>
        simp only []
        by_cases hw : pr.wf = true
        · simp only [hw, if_true]
          have := ih (acc ++ [.prop pr])
          rw [props_append] at this
          exact this
        · simp only [hw, Bool.false_eq_true, if_false, logCall]
          cases hr : env.raising
          · simp only [Bool.false_eq_true, if_false]; exact ih acc
          · simp only [if_true]; rfl
    | comment t =>
      simp only [srcStep, specSrcStep]
      have := ih (acc ++ [.comment t])
      rw [props_append] at this
      simpa [props] using this
    | semicolon =>
      simp only [srcStep, specSrcStep]
      exact ih acc

theorem text_refines (env : Env) (d : Decl) (items : List SrcItem) :
    absD (setCssText env d items).st = (specText env (absD d) items).st ∧
    (setCssText env d items).out.map (fun _ => (none : Option Cps)) = (specText env (absD d) items).out := by
  unfold setCssText specText absD
  by_cases hr : d.readonly = true
  · simp [hr, Except.map]
  · simp only [hr, Bool.false_eq_true, if_false]
    have := srcFold_refines env items []
    simp only [props] at this
    cases h1 : items.foldlM (srcStep env) [] with
    | error e =>
      rw [h1] at this
      have h2 : items.foldlM (specSrcStep env) [] = .error e := by rw [← this]; rfl
      simp [h2, Except.map, hr]
    | ok seq =>
      rw [h1] at this
      have h2 : items.foldlM (specSrcStep env) [] = .ok (props seq) := by rw [← this]; rfl
      simp [h2, Except.map]

theorem srcFold_nameInv (env : Env) (items : List SrcItem) (acc r : List Item) (h : NameInv acc)
    (hr : items.foldlM (srcStep env) acc = .ok r) : NameInv r := by
  induction items generalizing acc with
  | nil => simp only [List.foldlM_nil, pure, Except.pure] at hr; injection hr with hr; subst hr; exact h
  | cons x xs ih =>
    simp only [List.foldlM_cons, bind, Except.bind] at hr
    cases hs : srcStep env acc x with
    | error e => simp [hs] at hr
    | ok acc' =>
      simp only [hs] at hr
      refine ih acc' ?_ hr
      cases x with
      | decl n v p =>
        simp only [srcStep, bind, Except.bind] at hs
        cases hp : propFromDecl env n v p with
        | error e => simp [hp] at hs
        | ok pr =>
          simp only [hp] at hs
          by_cases hw : pr.wf = true
          · simp only [hw, if_true] at hs
            injection hs with hs; subst hs
            intro q hq
            rw [props_append] at hq
            simp only [props, List.mem_append, List.mem_singleton] at hq
            rcases hq with hq | hq
            · exact h q hq
            · subst hq; exact propFromDecl_names env n v p q hp
          · simp only [hw, Bool.false_eq_true, if_false, logCall] at hs
            cases hr2 : env.raising <;> simp [hr2] at hs
            subst hs; exact h
      | comment t =>
        simp only [srcStep] at hs
        injection hs with hs; subst hs
        intro q hq
        rw [props_append] at hq
        simp only [props, List.append_nil] at hq
        exact h q hq
      | semicolon =>
        simp only [srcStep] at hs
        injection hs with hs; subst hs; exact h

theorem text_nameInv (env : Env) (d : Decl) (items : List SrcItem) (h : NameInv d.seq) :
    NameInv (setCssText env d items).st.seq := by
  unfold setCssText
  by_cases hr : d.readonly = true
  · simpa [hr] using h
  · simp only [hr, Bool.false_eq_true, if_false]
    cases h1 : items.foldlM (srcStep env) [] with
    | error e => simpa using h
    | ok seq => exact srcFold_nameInv env items [] seq (by intro p hp; simp [props] at hp) h1

/-! ### set -/

theorem beq_comm_cps (a b : Cps) : (a == b) = (b == a) := by
  by_cases h : a = b
  · subst h; rfl
  · have h' : ¬ b = a := fun x => h x.symm
    rw [beq_eq_false_iff_ne.mpr h, beq_eq_false_iff_ne.mpr h']

theorem propAt_some (seq : List Item) (i : Nat) (p : Pty) (h : propAt seq i = some p) : seq[i]? = some (.prop p) := by
  unfold propAt at h
  split at h
  · injection h with h; subst h; assumption
  · cases h

theorem getPropertyIdx_some (seq : List Item) (name : Cps) (norm : Bool) (i : Nat)
    (h : getPropertyIdx seq name norm = some i) :
    ∃ p, propAt seq i = some p ∧ gpMatch (normalize name) name norm p = true := by
  rw [getPropertyIdx_spec] at h
  cases h1 : lastIdx (liftQ (gpImp (normalize name) name norm)) seq with
  | some j =>
    simp only [h1] at h
    injection h with h; subst h
    obtain ⟨p, hp, hq⟩ := lastIdx_liftQ_propAt _ _ _ h1
    refine ⟨p, hp, ?_⟩
    unfold gpImp at hq
    simp only [Bool.and_eq_true] at hq
    exact hq.1
  | none =>
    simp only [h1] at h
    exact lastIdx_liftQ_propAt _ _ _ h

theorem any_congr' {α : Type} (q q' : α → Bool) (l : List α) (h : ∀ a ∈ l, q a = q' a) : l.any q = l.any q' := by
  induction l with
  | nil => rfl
  | cons a t ih =>
    simp only [List.any_cons, h a (by simp), ih (fun b hb => h b (by simp [hb]))]

theorem updEffective_congr (m m' : Pty → Bool) (f : Pty → Pty) (ps : List Pty) (h : ∀ a ∈ ps, m a = m' a) :
    updEffective m f ps = updEffective m' f ps := by
  unfold updEffective
  have h2 : ∀ a ∈ ps, (m a && a.prio != []) = (m' a && a.prio != []) := fun a ha => by rw [h a ha]
  rw [any_congr' _ _ ps h2, updLast_congr _ _ f ps h2, updLast_congr m m' f ps h]

theorem set_at_idx (seq : List Item) (name : Cps) (norm : Bool) (i : Nat) (p : Pty) (f : Pty → Pty)
    (hi : getPropertyIdx seq name norm = some i) (hp : propAt seq i = some p) :
    props (seq.set i (.prop (f p))) = updEffective (gpMatch (normalize name) name norm) f (props seq) ∧
    nonProps (seq.set i (.prop (f p))) = nonProps seq := by
  rw [getPropertyIdx_spec] at hi
  have hs := propAt_some seq i p hp
  have e : (fun q => gpMatch (normalize name) name norm q && q.prio != []) = gpImp (normalize name) name norm := rfl
  unfold updEffective
  rw [e, ← any_liftQ, ← lastIdx_any]
  cases h1 : lastIdx (liftQ (gpImp (normalize name) name norm)) seq with
  | some j =>
    simp only [h1] at hi
    injection hi with hi; subst hi
    have := set_lastIdx (liftQ (gpImp (normalize name) name norm)) (liftF f) seq j (.prop p) h1 hs
    simp only [liftF] at this
    rw [this]
    simp only [Option.isSome_some, if_true]
    exact ⟨props_updLast _ _ _, nonProps_updLast _ _ _⟩
  | none =>
    simp only [h1] at hi
    have := set_lastIdx (liftQ (gpMatch (normalize name) name norm)) (liftF f) seq i (.prop p) hi hs
    simp only [liftF] at this
    rw [this]
    simp only [Option.isSome_none, Bool.false_eq_true, if_false]
    exact ⟨props_updLast _ _ _, nonProps_updLast _ _ _⟩

theorem mem_updLast {α : Type} (q : α → Bool) (f : α → α) (l : List α) (x : α) (h : x ∈ updLast q f l) :
    x ∈ l ∨ ∃ a ∈ l, x = f a := by
  induction l with
  | nil => simp [updLast] at h
  | cons b t ih =>
    simp only [updLast] at h
    split at h
    · simp only [List.mem_cons] at h
      rcases h with h | h
      · left; simp [h]
      · rcases ih h with h | ⟨a, ha, hx⟩
        · left; simp [h]
        · right; exact ⟨a, by simp [ha], hx⟩
    · split at h
      · simp only [List.mem_cons] at h
        rcases h with h | h
        · right; exact ⟨b, by simp, h⟩
        · left; simp [h]
      · left; exact h

theorem nameInvP_updEffective (m : Pty → Bool) (f : Pty → Pty) (ps : List Pty) (h : NameInvP ps)
    (hf : ∀ a, (f a).name = a.name ∧ (f a).lit = a.lit) : NameInvP (updEffective m f ps) := by
  intro x hx
  unfold updEffective at hx
  have key : ∀ q : Pty → Bool, x ∈ updLast q f ps → x.name = normalize x.lit := by
    intro q hq
    rcases mem_updLast q f ps x hq with h1 | ⟨a, ha, hxa⟩
    · exact h x h1
    · subst hxa; rw [(hf a).1, (hf a).2]; exact h a ha
  split at hx
  · exact key _ hx
  · exact key _ hx

theorem updTarget_norm (seq : List Item) (name : Cps) (hn : name ≠ []) :
    updTarget seq (normalize name) name true (getPropertiesIdx seq name false).reverse =
      .ok (getPropertyIdx seq name true) := by
  unfold getPropertiesIdx
  have hb : (name != [] && !false) = true := by simp [hn]
  simp only [hb, if_true]
  cases hi : getPropertyIdx seq name true with
  | none => simp [updTarget]
  | some i =>
    obtain ⟨p, hp, hm⟩ := getPropertyIdx_some seq name true i hi
    unfold gpMatch at hm
    rw [beq_comm_cps (normalize name) p.name, beq_comm_cps name p.lit] at hm
    simp only [List.reverse_cons, List.reverse_nil, List.nil_append, updTarget, hp]
    rw [if_pos hm]

theorem getProperty_idx (seq : List Item) (name : Cps) (norm : Bool) :
    getProperty seq name norm = (getPropertyIdx seq name norm).bind (propAt seq) := rfl

theorem nonProps_append (a b : List Item) : nonProps (a ++ b) = nonProps a ++ nonProps b := by
  induction a with
  | nil => rfl
  | cons x t ih => cases x <;> simp [nonProps, ih]

theorem remove_nonProps (d : Decl) (name : Cps) (norm : Bool) :
    nonProps (removeProperty d name norm).st.seq = nonProps d.seq := by
  unfold removeProperty
  by_cases hr : d.readonly = true
  · simp [hr]
  · simp only [hr, Bool.false_eq_true, if_false]
    cases norm with
    | true =>
      simp only [if_true]
      exact nonProps_filter _ _ (by intro it hit; cases it with
        | prop p => exact absurd rfl (hit p)
        | comment c => rfl
        | other c => rfl)
    | false =>
      simp only [Bool.false_eq_true, if_false]
      exact nonProps_filter _ _ (by intro it hit; cases it with
        | prop p => exact absurd rfl (hit p)
        | comment c => rfl
        | other c => rfl)

theorem set_refines (env : Env) (d : Decl) (name : Cps) (value : Option Cps) (prio : Cps) (repl : Bool)
    (h : NameInv d.seq) :
    absD (setProperty env d name value prio true repl).st = (specSet env (absD d) name value prio repl).st ∧
    (setProperty env d name value prio true repl).out = (specSet env (absD d) name value prio repl).out ∧
    NameInv (setProperty env d name value prio true repl).st.seq ∧
    nonProps (setProperty env d name value prio true repl).st.seq = nonProps d.seq := by
  have hrm := remove_refines d name true h
  have hrn := remove_nameInv d name true h
  have hrp := remove_nonProps d name true
  unfold setProperty specSet
  by_cases hr : d.readonly = true
  · simp only [absD, hr, if_true]; exact ⟨trivial, trivial, h, trivial⟩
  · have hr' : (absD d).readonly = false := by simpa [absD] using hr
    simp only [hr, hr', Bool.false_eq_true, if_false]
    cases value with
    | none => exact ⟨hrm.1, hrm.2, hrn, hrp⟩
    | some v =>
      cases v with
      | nil => exact ⟨hrm.1, hrm.2, hrn, hrp⟩
      | cons c cs =>
        simp only []
        cases hmk : mkProperty env name (c :: cs) prio with
        | error e => exact ⟨rfl, rfl, h, rfl⟩
        | ok newp =>
          simp only []
          by_cases hw : newp.wf = true
          · simp only [hw, if_true]
            have hn := mkProperty_wf_name env name (c :: cs) prio newp hmk hw
            have hnm := mkProperty_names env name (c :: cs) prio newp hmk
            have happ : NameInv (d.seq ++ [Item.prop newp]) := by
              intro q hq
              rw [props_append] at hq
              simp only [props, List.mem_append, List.mem_singleton] at hq
              rcases hq with hq | hq
              · exact h q hq
              · subst hq; exact hnm
            have happ2 : nonProps (d.seq ++ [Item.prop newp]) = nonProps d.seq := by
              rw [nonProps_append]; simp [nonProps]
            cases repl with
            | false =>
              simp only [Bool.false_eq_true, if_false, absD, props_append, props]
              refine ⟨?_, ?_, happ, happ2⟩ <;> first | rfl | trivial
            | true =>
              simp only [if_true, Bool.not_true]
              rw [updTarget_norm d.seq name hn]
              have heff : effective (absD d).ps (normalize name) = getProperty d.seq name true := by
                rw [getProperty_effective _ _ h]; rfl
              rw [heff, getProperty_idx]
              cases hi : getPropertyIdx d.seq name true with
              | none =>
                simp only [Option.bind_none, absD, props_append, props]
                refine ⟨?_, ?_, happ, happ2⟩ <;> first | rfl | trivial
              | some i =>
                obtain ⟨p, hp, _⟩ := getPropertyIdx_some d.seq name true i hi
                simp only [Option.bind_some, hp]
                have hset := set_at_idx d.seq name true i p (fun q => (updateProp env q newp).p) hi hp
                have hcongr := updEffective_congr (gpMatch (normalize name) name true)
                  (fun q => q.name == normalize name) (fun q => (updateProp env q newp).p) (props d.seq)
                  (fun a ha => gpMatch_nameInv name a (h a ha))
                refine ⟨?_, rfl, ?_, hset.2⟩
                · simp only [absD]
                  rw [hset.1, hcongr]
                · unfold NameInv
                  show NameInvP (props (d.seq.set i (Item.prop (updateProp env p newp).p)))
                  rw [hset.1]
                  exact nameInvP_updEffective _ _ _ h (fun a => updateProp_frame env a newp)
          · simp only [hw, Bool.false_eq_true, if_false]
            cases logCall env with
            | error e => exact ⟨rfl, rfl, h, rfl⟩
            | ok u => exact ⟨rfl, rfl, h, rfl⟩

/-! ### `getProperties(name, all=True)` and `setProperty(normalize=False)` -/

theorem snoc_induction {α : Type} {P : List α → Prop} (hnil : P [])
    (hsnoc : ∀ (a : List α) (x : α), P a → P (a ++ [x])) (l : List α) : P l := by
  have key : ∀ r : List α, P r.reverse := by
    intro r
    induction r with
    | nil => exact hnil
    | cons x t ih => rw [List.reverse_cons]; exact hsnoc _ _ ih
  have := key l.reverse
  rwa [List.reverse_reverse] at this

theorem propIdxs_append (q : Pty → Bool) (a b : List Item) (i : Nat) :
    propIdxs q (a ++ b) i = propIdxs q a i ++ propIdxs q b (i + a.length) := by
  induction a generalizing i with
  | nil => simp [propIdxs]
  | cons x t ih =>
    have e : i + (t.length + 1) = i + 1 + t.length := by omega
    cases x with
    | prop p => by_cases hq : q p = true <;> simp [propIdxs, hq, ih, e]
    | comment c => simp [propIdxs, ih, e]
    | other c => simp [propIdxs, ih, e]

theorem propIdxs_lt (q : Pty → Bool) (l : List Item) (i j : Nat) (h : j ∈ propIdxs q l i) : j < i + l.length := by
  induction l generalizing i with
  | nil => simp [propIdxs] at h
  | cons x t ih =>
    have step : j ∈ propIdxs q t (i + 1) → j < i + (t.length + 1) := fun hm => by have := ih (i + 1) hm; omega
    cases x with
    | prop p =>
      by_cases hq : q p = true
      · simp only [propIdxs, hq, if_true, List.mem_cons] at h
        rcases h with h | h
        · subst h; simp
        · exact step h
      · simp only [propIdxs, hq] at h; exact step h
    | comment c => simp only [propIdxs] at h; exact step h
    | other c => simp only [propIdxs] at h; exact step h

theorem propAt_append_left (a b : List Item) (j : Nat) (h : j < a.length) : propAt (a ++ b) j = propAt a j := by
  unfold propAt
  rw [List.getElem?_append_left h]

theorem propAt_append_single (a : List Item) (x : Item) : propAt (a ++ [x]) a.length = propAt [x] 0 := by
  unfold propAt
  simp

/-- the entries `getProperties(name, all=True)` returns: all entries selected by `q`, in order -/
theorem propIdxs_propAt (q : Pty → Bool) (seq : List Item) :
    (propIdxs q seq 0).map (propAt seq) = ((props seq).filter q).map some := by
  induction seq using snoc_induction with
  | hnil => rfl
  | hsnoc a x ih =>
    rw [propIdxs_append, List.map_append, props_append, List.filter_append, List.map_append]
    congr 1
    · rw [← ih]
      apply List.map_congr_left
      intro j hj
      have := propIdxs_lt q a 0 j hj
      exact propAt_append_left a [x] j (by omega)
    · cases x with
      | prop p =>
        by_cases hq : q p = true
        · simp [propIdxs, hq, props, propAt_append_single, propAt]
        · simp [propIdxs, hq, props]
      | comment c => simp [propIdxs, props]
      | other c => simp [propIdxs, props]

theorem updTarget_ext (seq seq' : List Item) (nn name : Cps) (norm : Bool) (l : List (Option Nat))
    (h : ∀ j, some j ∈ l → propAt seq' j = propAt seq j) :
    updTarget seq' nn name norm l = updTarget seq nn name norm l := by
  induction l with
  | nil => rfl
  | cons o t ih =>
    cases o with
    | none => rfl
    | some j =>
      have hj := h j (by simp)
      have ht := ih (fun k hk => h k (by simp [hk]))
      simp only [updTarget, hj, ht]

/-- the update loop of `setProperty(normalize=False)`: the last entry selected by `q` whose literal name is `name` -/
theorem updTarget_lit (q : Pty → Bool) (seq : List Item) (nn name : Cps) :
    updTarget seq nn name false ((propIdxs q seq 0).map some).reverse =
      .ok (lastIdx (liftQ (fun p => q p && p.lit == name)) seq) := by
  induction seq using snoc_induction with
  | hnil => rfl
  | hsnoc a x ih =>
    rw [propIdxs_append, List.map_append, List.reverse_append, lastIdx_append_single]
    have hrest : updTarget (a ++ [x]) nn name false ((propIdxs q a 0).map some).reverse =
        .ok (lastIdx (liftQ (fun p => q p && p.lit == name)) a) := by
      rw [← ih]
      apply updTarget_ext
      intro j hj
      have hj' : j ∈ propIdxs q a 0 := by simpa using hj
      have := propIdxs_lt q a 0 j hj'
      exact propAt_append_left a [x] j (by omega)
    cases x with
    | prop p =>
      by_cases hq : q p = true
      · have hpa : propAt (a ++ [Item.prop p]) a.length = some p := by
          rw [propAt_append_single]; rfl
        simp only [propIdxs, hq, if_true, Nat.zero_add, List.map_cons, List.map_nil, List.reverse_cons,
          List.reverse_nil, List.nil_append, List.singleton_append, updTarget, hpa,
          liftQ, Bool.true_and, Bool.false_and, Bool.false_or]
        by_cases hl : (p.lit == name) = true
        · simp [hl]
        · simp only [hl, Bool.false_eq_true, if_false]; exact hrest
      · simp only [propIdxs, hq, Bool.false_eq_true, if_false, List.map_nil, List.reverse_nil, List.nil_append,
          liftQ, Bool.false_and]
        exact hrest
    | comment c => simp only [propIdxs, List.map_nil, List.reverse_nil, List.nil_append, liftQ, Bool.false_eq_true, if_false]; exact hrest
    | other c => simp only [propIdxs, List.map_nil, List.reverse_nil, List.nil_append, liftQ, Bool.false_eq_true, if_false]; exact hrest

/-- under the name invariant the entries with the literal name `name` are among those with the normalised name -/
theorem litSel_congr (seq : List Item) (name : Cps) (h : NameInv seq) :
    ∀ a ∈ props seq, ((normalize name == [] || a.name == normalize name) && a.lit == name) = (a.lit == name) := by
  intro a ha
  by_cases hl : a.lit = name
  · have := h a ha
    rw [hl] at this
    simp [hl, this]
  · simp [hl]

theorem lastIdx_congr_props (q q' : Pty → Bool) (seq : List Item) (h : ∀ a ∈ props seq, q a = q' a) :
    lastIdx (liftQ q) seq = lastIdx (liftQ q') seq := by
  apply lastIdx_congr
  intro it hit
  cases it with
  | prop p =>
    have : p ∈ props seq := by
      clear h
      induction seq with
      | nil => cases hit
      | cons x t ih =>
        simp only [List.mem_cons] at hit
        rcases hit with hx | hx
        · subst hx; simp [props]
        · cases x <;> simp [props, ih hx]
    simpa [liftQ] using h p this
  | comment c => rfl
  | other c => rfl

theorem setLit_refines (env : Env) (d : Decl) (name : Cps) (value : Option Cps) (prio : Cps) (repl : Bool)
    (h : NameInv d.seq) :
    absD (setProperty env d name value prio false repl).st = (specSetLit env (absD d) name value prio repl).st ∧
    (setProperty env d name value prio false repl).out = (specSetLit env (absD d) name value prio repl).out ∧
    NameInv (setProperty env d name value prio false repl).st.seq ∧
    nonProps (setProperty env d name value prio false repl).st.seq = nonProps d.seq := by
  have hrm := remove_refines d name true h
  have hrn := remove_nameInv d name true h
  have hrp := remove_nonProps d name true
  unfold setProperty specSetLit
  by_cases hr : d.readonly = true
  · simp only [absD, hr, if_true]; exact ⟨trivial, trivial, h, trivial⟩
  · have hr' : (absD d).readonly = false := by simpa [absD] using hr
    simp only [hr, hr', Bool.false_eq_true, if_false]
    cases value with
    | none => exact ⟨hrm.1, hrm.2, hrn, hrp⟩
    | some v =>
      cases v with
      | nil => exact ⟨hrm.1, hrm.2, hrn, hrp⟩
      | cons c cs =>
        simp only []
        cases hmk : mkProperty env name (c :: cs) prio with
        | error e => exact ⟨rfl, rfl, h, rfl⟩
        | ok newp =>
          simp only []
          by_cases hw : newp.wf = true
          · simp only [hw, if_true]
            have hnm := mkProperty_names env name (c :: cs) prio newp hmk
            have happ : NameInv (d.seq ++ [Item.prop newp]) := by
              intro q hq
              rw [props_append] at hq
              simp only [props, List.mem_append, List.mem_singleton] at hq
              rcases hq with hq | hq
              · exact h q hq
              · subst hq; exact hnm
            have happ2 : nonProps (d.seq ++ [Item.prop newp]) = nonProps d.seq := by
              rw [nonProps_append]; simp [nonProps]
            cases repl with
            | false =>
              simp only [Bool.false_eq_true, if_false, absD, props_append, props]
              refine ⟨?_, ?_, happ, happ2⟩ <;> first | rfl | trivial
            | true =>
              simp only [if_true, Bool.not_false]
              have hgp : getPropertiesIdx d.seq name true =
                  (propIdxs (fun p => normalize name == [] || p.name == normalize name) d.seq 0).map some := by
                simp [getPropertiesIdx]
              rw [hgp, updTarget_lit,
                lastIdx_congr_props _ (fun q => q.lit == name) d.seq (litSel_congr d.seq name h)]
              have hlp := lastIdx_lastP (fun q => q.lit == name) d.seq
              simp only [absD]
              rw [← hlp]
              cases hi : lastIdx (liftQ (fun q => q.lit == name)) d.seq with
              | none =>
                simp only [Option.bind_none, props_append, props]
                refine ⟨?_, ?_, happ, happ2⟩ <;> first | rfl | trivial
              | some i =>
                obtain ⟨p, hp, _⟩ := lastIdx_liftQ_propAt _ _ _ hi
                simp only [Option.bind_some, hp]
                have hset := set_lastIdx (liftQ (fun q => q.lit == name))
                  (liftF (fun q => (updateProp env q newp).p)) d.seq i (.prop p) hi (propAt_some d.seq i p hp)
                simp only [liftF] at hset
                refine ⟨?_, rfl, ?_, ?_⟩
                · rw [hset, props_updLast]
                · unfold NameInv
                  rw [hset, props_updLast]
                  intro x hx
                  rcases mem_updLast _ _ _ x hx with h1 | ⟨a, ha, hxa⟩
                  · exact h x h1
                  · subst hxa
                    rw [(updateProp_frame env a newp).1, (updateProp_frame env a newp).2]; exact h a ha
                · rw [hset]; exact nonProps_updLast _ _ _
          · simp only [hw, Bool.false_eq_true, if_false]
            cases logCall env with
            | error e => exact ⟨rfl, rfl, h, rfl⟩
            | ok u => exact ⟨rfl, rfl, h, rfl⟩

/-! ### histories -/

def run (env : Env) : Decl → List Call → Decl × List (Except Err (Option Cps))
  | d, [] => (d, [])
  | d, c :: cs => ((run env (step env d c).st cs).1, (step env d c).out :: (run env (step env d c).st cs).2)

def specRun (env : Env) : Spec → List Call → Spec × List (Except Err (Option Cps))
  | s, [] => (s, [])
  | s, c :: cs => ((specRun env (specStep env s c).st cs).1, (specStep env s c).out :: (specRun env (specStep env s c).st cs).2)

/-- the witness of the known finding `C10-escaped-backslash-name`: one entry whose literal name is `a\\g` -/
def escLit : Cps := [97, 92, 92, 103]
def escWitness : List Item :=
  [.prop { wf := true, nameSeq := [.str escLit], lit := escLit, name := normalize escLit,
           val := ⟨[114], [114]⟩, prioSeq := [], litPrio := [], prio := [] }]

/-- an environment for examples: one-token identifiers, every value accepted as it is -/
def exampleEnv : Env :=
  { raising := true
    tokenize := fun t => if t == [33, 105, 109, 112, 111, 114, 116, 97, 110, 116]
      then [⟨.char, [33]⟩, ⟨.ident, [105, 109, 112, 111, 114, 116, 97, 110, 116]⟩] else [⟨.ident, t⟩]
    parseValue := fun t => some ⟨t, t⟩
    isIdent := fun _ => true }

theorem setPriorityStr_empty (env : Env) (p : Pty) :
    setPriorityStr env p [] = .ok { p with prioSeq := [], litPrio := [], prio := [] } := rfl

theorem setPriorityStr_important (env : Env) (p : Pty)
    (htok : env.tokenize (33 :: important) = [⟨.char, [33]⟩, ⟨.ident, important⟩]) :
    setPriorityStr env p important =
      .ok { p with prioSeq := [.str [33], .str important], litPrio := important, prio := important } := by
  have e : setPriorityStr env p important = setPriorityToks env p (env.tokenize (33 :: important)) true := rfl
  rw [e, htok]
  rfl

/-! ## the variables block -/

/-- what the item list denotes: (normalised name, value) of every `'var'` item, in order -/
def varsOf : List VItem → List (Cps × Val)
  | [] => []
  | .var n v :: r => (normalize n, v) :: varsOf r
  | .other _ :: r => varsOf r

def dkeys (d : List (Cps × Val)) : List Cps := d.map (·.1)

/-- T10.7's invariant: the look-up dict is exactly what the serialisable item list denotes, without duplicates -/
def VInv (s : Vars) : Prop := s.vars = varsOf s.seq ∧ (dkeys s.vars).Nodup

theorem varsOf_append (a b : List VItem) : varsOf (a ++ b) = varsOf a ++ varsOf b := by
  induction a with
  | nil => rfl
  | cons x t ih => cases x <;> simp [varsOf, ih]

theorem vSerialized_eq (s : Vars) : vSerialized s = (varsOf s.seq).map (fun e => (e.1, e.2.css)) := by
  unfold vSerialized
  induction s.seq with
  | nil => rfl
  | cons x t ih => cases x <;> simp [varsOf, ih]

theorem dictSet_new (d : List (Cps × Val)) (k : Cps) (v : Val) (h : k ∉ dkeys d) : dictSet d k v = d ++ [(k, v)] := by
  induction d with
  | nil => rfl
  | cons e t ih =>
    simp only [dkeys, List.map_cons, List.mem_cons, not_or] at h
    have h1 : (e.1 == k) = false := beq_eq_false_iff_ne.mpr (fun x => h.1 x.symm)
    simp [dictSet, h1, ih h.2]

theorem dictSet_keys_mem (d : List (Cps × Val)) (k : Cps) (v : Val) (h : k ∈ dkeys d) :
    dkeys (dictSet d k v) = dkeys d := by
  induction d with
  | nil => simp [dkeys] at h
  | cons e t ih =>
    by_cases h1 : e.1 = k
    · simp [dictSet, h1, dkeys]
    · have h2 : (e.1 == k) = false := beq_eq_false_iff_ne.mpr h1
      simp only [dkeys, List.map_cons, List.mem_cons] at h
      rcases h with h | h
      · exact absurd h.symm h1
      · have := ih h
        simp only [dkeys] at this
        simp [dictSet, h2, dkeys, this]

@[simp] theorem isVarNamed_var (nn n : Cps) (v : Val) : isVarNamed nn (.var n v) = (normalize n == nn) := rfl
@[simp] theorem isVarNamed_other (nn t : Cps) : isVarNamed nn (.other t) = false := rfl

theorem varsOf_replaceFirst (nn lit : Cps) (v : Val) (seq : List VItem) (hl : normalize lit = nn)
    (hmem : nn ∈ dkeys (varsOf seq)) : varsOf (replaceFirst nn (.var lit v) seq) = dictSet (varsOf seq) nn v := by
  induction seq with
  | nil => simp [varsOf, dkeys] at hmem
  | cons x t ih =>
    cases x with
    | var n w =>
      by_cases h1 : normalize n = nn
      · simp [replaceFirst, varsOf, dictSet, h1, hl]
      · have h2 : (normalize n == nn) = false := beq_eq_false_iff_ne.mpr h1
        simp only [varsOf, dkeys, List.map_cons, List.mem_cons] at hmem
        rcases hmem with hmem | hmem
        · exact absurd hmem.symm h1
        · simp [replaceFirst, varsOf, dictSet, h2, ih hmem]
    | other c =>
      simp only [varsOf] at hmem
      simp [replaceFirst, varsOf, ih hmem]

theorem varsOf_filter (nn : Cps) (seq : List VItem) :
    varsOf (seq.filter (fun x => !isVarNamed nn x)) = dictDel (varsOf seq) nn := by
  induction seq with
  | nil => rfl
  | cons x t ih =>
    cases x with
    | var n w =>
      by_cases h1 : (normalize n == nn) = true
      · rw [List.filter_cons_of_neg (by simp [h1])]
        simp only [varsOf, dictDel]
        rw [List.filter_cons_of_neg (by simp [h1])]
        exact ih
      · rw [List.filter_cons_of_pos (by simp [h1])]
        simp only [varsOf, dictDel]
        rw [List.filter_cons_of_pos (by simp [h1])]
        simp only [dictDel] at ih
        rw [ih]
    | other c =>
      rw [List.filter_cons_of_pos (by simp)]
      simp only [varsOf]
      exact ih

theorem delLoop_nomatch (nn : Cps) (fuel : Nat) (rest pre : List VItem) (h : ∀ a ∈ rest, isVarNamed nn a = false) :
    delLoop nn fuel pre.length (pre ++ rest) = pre ++ rest := by
  induction fuel generalizing rest pre with
  | zero => rfl
  | succ f ih =>
    cases rest with
    | nil => simp [delLoop]
    | cons x r =>
      have hx : (pre ++ x :: r)[pre.length]? = some x := by simp
      have hm : isVarNamed nn x = false := h x (by simp)
      simp only [delLoop, hx, hm, Bool.false_eq_true, if_false]
      have := ih r (pre ++ [x]) (fun a ha => h a (by simp [ha]))
      simpa using this

/-- deleting while iterating equals filtering when at most one item matches (then nothing after a deleted item
needs to be looked at) -/
theorem delLoop_filter (nn : Cps) (rest pre : List VItem) (fuel : Nat) (hf : rest.length ≤ fuel)
    (hc : (rest.filter (isVarNamed nn)).length ≤ 1) :
    delLoop nn fuel pre.length (pre ++ rest) = pre ++ rest.filter (fun x => !isVarNamed nn x) := by
  induction rest generalizing pre fuel with
  | nil => cases fuel <;> simp [delLoop]
  | cons x r ih =>
    cases fuel with
    | zero => simp at hf
    | succ f =>
      have hf' : r.length ≤ f := by simpa using hf
      have hx : (pre ++ x :: r)[pre.length]? = some x := by simp
      simp only [delLoop, hx]
      by_cases hm : isVarNamed nn x = true
      · simp only [hm, if_true]
        have hr : r.filter (isVarNamed nn) = [] := by
          rw [List.filter_cons_of_pos hm] at hc
          simp only [List.length_cons] at hc
          exact List.eq_nil_of_length_eq_zero (by omega)
        have hr2 : r.filter (fun x => !isVarNamed nn x) = r := by
          rw [List.filter_eq_self]
          intro a ha
          have : a ∉ r.filter (isVarNamed nn) := by rw [hr]; simp
          simp only [List.mem_filter, not_and] at this
          simpa using this ha
        have he : (pre ++ x :: r).eraseIdx pre.length = pre ++ r := by
          rw [List.eraseIdx_append_of_length_le (Nat.le_refl _)]
          simp
        rw [he, List.filter_cons_of_neg (by simp [hm]), hr2]
        cases r with
        | nil => cases f <;> simp [delLoop]
        | cons y r' =>
          have hno : ∀ a ∈ r', isVarNamed nn a = false := by
            intro a ha
            have : a ∉ (y :: r').filter (isVarNamed nn) := by rw [hr]; simp
            simp only [List.mem_filter, not_and] at this
            simpa using this (by simp [ha])
          have := delLoop_nomatch nn f r' (pre ++ [y]) hno
          simpa using this
      · simp only [hm, Bool.false_eq_true, if_false]
        have := ih (pre ++ [x]) f hf' (by rw [List.filter_cons_of_neg hm] at hc; exact hc)
        simp only [List.length_append, List.length_singleton, List.append_assoc, List.singleton_append] at this
        rw [this, List.filter_cons_of_pos (by simp [hm])]

theorem mem_keys_of_named (nn : Cps) (seq : List VItem) (a : VItem) (ha : a ∈ seq) (hm : isVarNamed nn a = true) :
    nn ∈ dkeys (varsOf seq) := by
  induction seq with
  | nil => simp at ha
  | cons x t ih =>
    simp only [List.mem_cons] at ha
    rcases ha with rfl | ha
    · cases a with
      | var n w => simp only [isVarNamed_var, beq_iff_eq] at hm; simp [varsOf, dkeys, hm]
      | other c => simp at hm
    · have := ih ha
      cases x <;> simp_all [varsOf, dkeys]

theorem named_count_le_one (nn : Cps) (seq : List VItem) (h : (dkeys (varsOf seq)).Nodup) :
    (seq.filter (isVarNamed nn)).length ≤ 1 := by
  induction seq with
  | nil => simp
  | cons x t ih =>
    cases x with
    | var n w =>
      simp only [varsOf, dkeys, List.map_cons, List.nodup_cons] at h
      by_cases hm : (normalize n == nn) = true
      · rw [List.filter_cons_of_pos (by simpa using hm)]
        have : t.filter (isVarNamed nn) = [] := by
          rw [List.filter_eq_nil_iff]
          intro a ha hma
          have := mem_keys_of_named nn t a ha hma
          simp only [beq_iff_eq] at hm
          rw [← hm] at this
          exact h.1 this
        simp [this]
      · rw [List.filter_cons_of_neg (by simpa using hm)]
        exact ih h.2
    | other c =>
      rw [List.filter_cons_of_neg (by simp)]
      exact ih (by simpa [varsOf] using h)

theorem dictDel_keys_nodup (d : List (Cps × Val)) (k : Cps) (h : (dkeys d).Nodup) : (dkeys (dictDel d k)).Nodup := by
  unfold dkeys dictDel
  exact List.Nodup.sublist (List.Sublist.map _ List.filter_sublist) h

theorem dictGet_none (d : List (Cps × Val)) (k : Cps) : dictGet d k = none ↔ k ∉ dkeys d := by
  induction d with
  | nil => simp [dictGet, dkeys]
  | cons e t ih =>
    by_cases h1 : e.1 = k
    · simp [dictGet, List.find?, h1, dkeys]
    · have h2 : (e.1 == k) = false := beq_eq_false_iff_ne.mpr h1
      have h3 : ¬ k = e.1 := fun x => h1 x.symm
      unfold dictGet at ih ⊢
      simp only [List.find?, h2, dkeys, List.map_cons, List.mem_cons, h3, false_or]
      exact ih

/-- T10.7 `removeVariable` keeps the invariant and (unless the block is read-only) returns the reported value -/
theorem vRemove_inv (s : Vars) (name : Cps) (h : VInv s) :
    VInv (vRemove s name).st ∧ (s.readonly = false → (vRemove s name).out = .ok (vGet s name)) := by
  unfold vRemove vGet
  by_cases hr : s.readonly = true
  · simp only [hr, if_true]; exact ⟨h, by intro x; cases x⟩
  · simp only [hr, Bool.false_eq_true, if_false]
    cases hg : dictGet s.vars (normalize name) with
    | none => exact ⟨h, fun _ => rfl⟩
    | some r =>
      simp only []
      refine ⟨⟨?_, dictDel_keys_nodup _ _ h.2⟩, fun _ => trivial⟩
      have hc := named_count_le_one (normalize name) s.seq (by rw [← h.1]; exact h.2)
      have := delLoop_filter (normalize name) s.seq [] s.seq.length (Nat.le_refl _) hc
      simp only [List.length_nil, List.nil_append] at this
      simp only [this, varsOf_filter, h.1]

theorem vSet_unchanged_or (env : Env) (s : Vars) (name value : Cps) :
    (vSet env s name value).st = s ∨
    ∃ v lit, env.parseValue value = some v ∧ firstIdent (env.tokenize name) = some lit ∧
      (vSet env s name value).st =
        { s with seq := (if (vKeys s).contains (normalize lit)
                          then replaceFirst (normalize lit) (.var lit v) s.seq
                          else s.seq ++ [.var lit v]),
                 vars := dictSet s.vars (normalize lit) v } := by
  unfold vSet
  by_cases hr : s.readonly = true
  · left; simp [hr]
  · simp only [hr, Bool.false_eq_true, if_false]
    by_cases hi : env.isIdent name = true
    · simp only [hi, Bool.not_true, Bool.false_eq_true, if_false]
      cases hv : env.parseValue value with
      | none => left; simp only []; cases logCall env <;> rfl
      | some v =>
        simp only []
        cases hl : firstIdent (env.tokenize name) with
        | none => left; rfl
        | some lit => right; exact ⟨v, lit, rfl, rfl, rfl⟩
    · left
      simp only [hi, Bool.not_false, if_true]
      cases logCall env <;> rfl

/-- T10.7 `setVariable` keeps the invariant — for every name -/
theorem vSet_inv (env : Env) (s : Vars) (name value : Cps) (h : VInv s) : VInv (vSet env s name value).st := by
  rcases vSet_unchanged_or env s name value with hu | ⟨v, lit, _, _, hu⟩
  · rw [hu]; exact h
  · rw [hu]
    by_cases hc : (vKeys s).contains (normalize lit) = true
    · have hmem : normalize lit ∈ dkeys s.vars := by simpa [vKeys, dkeys] using hc
      simp only [hc, if_true]
      refine ⟨?_, ?_⟩
      · simp only []
        rw [varsOf_replaceFirst _ lit _ _ rfl (by rw [← h.1]; exact hmem), h.1]
      · simp only []
        rw [dictSet_keys_mem _ _ _ hmem]; exact h.2
    · have hmem : normalize lit ∉ dkeys s.vars := by simpa [vKeys, dkeys] using hc
      simp only [hc, Bool.false_eq_true, if_false]
      refine ⟨?_, ?_⟩
      · simp only []
        rw [varsOf_append, dictSet_new _ _ _ hmem, h.1]
        simp [varsOf]
      · simp only []
        rw [dictSet_new _ _ _ hmem]
        simp only [dkeys, List.map_append, List.map_cons, List.map_nil]
        rw [List.nodup_append]
        refine ⟨h.2, by simp, ?_⟩
        intro a ha b hb
        simp only [List.mem_singleton] at hb
        subst hb
        intro e; subst e; exact hmem ha

theorem varsOf_replaceAll (n : Cps) (v : Val) (seq : List VItem) :
    varsOf (replaceAll (normalize n) (.var n v) seq) =
      (varsOf seq).map (fun e => if e.1 == normalize n then (normalize n, v) else e) := by
  induction seq with
  | nil => rfl
  | cons x t ih =>
    unfold replaceAll at ih ⊢
    cases x with
    | var m w =>
      by_cases h1 : (normalize m == normalize n) = true
      · simp only [List.map_cons, isVarNamed_var, h1, if_true, varsOf]
        rw [ih]
      · simp only [List.map_cons, isVarNamed_var, h1, Bool.false_eq_true, if_false, varsOf]
        rw [ih]
    | other c =>
      simp only [List.map_cons, isVarNamed_other, Bool.false_eq_true, if_false, varsOf]
      exact ih

theorem map_self {α : Type} (f : α → α) (l : List α) (h : ∀ a ∈ l, f a = a) : l.map f = l := by
  induction l with
  | nil => rfl
  | cons a t ih => simp only [List.map_cons, h a (by simp), ih (fun b hb => h b (by simp [hb]))]

theorem dictSet_map (d : List (Cps × Val)) (k : Cps) (v : Val) (hn : (dkeys d).Nodup) (hm : k ∈ dkeys d) :
    dictSet d k v = d.map (fun e => if e.1 == k then (k, v) else e) := by
  induction d with
  | nil => simp [dkeys] at hm
  | cons e t ih =>
    simp only [dkeys, List.map_cons, List.nodup_cons] at hn
    by_cases h1 : e.1 = k
    · have hk : k ∉ dkeys t := by rw [← h1]; exact hn.1
      have : t.map (fun e => if e.1 == k then (k, v) else e) = t := by
        apply map_self
        intro a ha
        have hne : ¬ a.1 = k := fun x => hk (by rw [← x]; exact List.mem_map_of_mem ha)
        have : (a.1 == k) = false := beq_eq_false_iff_ne.mpr hne
        simp only [this, Bool.false_eq_true, if_false]
      have hb : (e.1 == k) = true := by simp [h1]
      simp only [dictSet, hb, if_true, List.map_cons, this]
    · have h2 : (e.1 == k) = false := beq_eq_false_iff_ne.mpr h1
      simp only [dkeys, List.map_cons, List.mem_cons] at hm
      rcases hm with hm | hm
      · exact absurd hm.symm h1
      · simp only [dictSet, h2, Bool.false_eq_true, if_false, List.map_cons]
        rw [ih hn.2 hm]

def AccInv (a : VAcc) : Prop := a.vars = varsOf a.seq ∧ (dkeys a.vars).Nodup

theorem vSrcStep_inv (a b : VAcc) (x : VSrc) (h : AccInv a) (hs : vSrcStep a x = .ok b) : AccInv b := by
  cases x with
  | ident n => simp only [vSrcStep] at hs; injection hs with hs; subst hs; exact h
  | other t =>
    simp only [vSrcStep] at hs; injection hs with hs; subst hs
    refine ⟨?_, h.2⟩
    simp only []
    rw [varsOf_append]; simp [varsOf, h.1]
  | value v =>
    simp only [vSrcStep] at hs
    cases hn : a.nameitem with
    | none => simp [hn] at hs
    | some n =>
      simp only [hn] at hs
      injection hs with hs; subst hs
      by_cases hc : (a.vars.map (·.1)).contains (normalize n) = true
      · have hmem : normalize n ∈ dkeys a.vars := by simpa [dkeys] using hc
        simp only [hc, if_true]
        refine ⟨?_, ?_⟩
        · simp only []
          rw [varsOf_replaceAll, dictSet_map _ _ _ h.2 hmem, h.1]
        · simp only []
          rw [dictSet_keys_mem _ _ _ hmem]; exact h.2
      · have hmem : normalize n ∉ dkeys a.vars := by simpa [dkeys] using hc
        simp only [hc, Bool.false_eq_true, if_false]
        refine ⟨?_, ?_⟩
        · simp only []
          rw [varsOf_append, dictSet_new _ _ _ hmem, h.1]
          simp [varsOf]
        · simp only []
          rw [dictSet_new _ _ _ hmem]
          simp only [dkeys, List.map_append, List.map_cons, List.map_nil]
          rw [List.nodup_append]
          refine ⟨h.2, by simp, ?_⟩
          intro a' ha b hb
          simp only [List.mem_singleton] at hb
          subst hb
          intro e; subst e; exact hmem ha

theorem vFold_inv (items : List VSrc) (a b : VAcc) (h : AccInv a) (hs : items.foldlM vSrcStep a = .ok b) :
    AccInv b := by
  induction items generalizing a with
  | nil => simp only [List.foldlM_nil, pure, Except.pure] at hs; injection hs with hs; subst hs; exact h
  | cons x xs ih =>
    simp only [List.foldlM_cons, bind, Except.bind] at hs
    cases h1 : vSrcStep a x with
    | error e => simp [h1] at hs
    | ok a' => simp only [h1] at hs; exact ih a' (vSrcStep_inv a a' x h h1) hs

/-- T10.7 `cssText = …` establishes the invariant (whatever the block held before) or leaves the block as it was -/
theorem vSetCssText_inv (s : Vars) (items : List VSrc) (h : VInv s) : VInv (vSetCssText s items).st := by
  unfold vSetCssText
  by_cases hr : s.readonly = true
  · simpa [hr] using h
  · simp only [hr, Bool.false_eq_true, if_false]
    cases hf : items.foldlM vSrcStep {} with
    | error e => exact h
    | ok a => exact vFold_inv items {} a ⟨rfl, by simp [dkeys]⟩ hf


/-- every reported key is a fixpoint of `normalize` (so that looking a listed key up finds it) -/
def KeysStable (s : Vars) : Prop := ∀ k ∈ vKeys s, normalize k = k

theorem dictGet_of_mem (d : List (Cps × Val)) (e : Cps × Val) (hn : (dkeys d).Nodup) (he : e ∈ d) :
    dictGet d e.1 = some e.2 := by
  induction d with
  | nil => simp at he
  | cons x t ih =>
    simp only [dkeys, List.map_cons, List.nodup_cons] at hn
    simp only [List.mem_cons] at he
    rcases he with rfl | he
    · simp [dictGet, List.find?]
    · have hne : ¬ x.1 = e.1 := fun h => hn.1 (by rw [h]; exact List.mem_map_of_mem he)
      have hb : (x.1 == e.1) = false := beq_eq_false_iff_ne.mpr hne
      have := ih hn.2 he
      unfold dictGet at this ⊢
      simp only [List.find?, hb]
      exact this

theorem vReported_direct (s : Vars) (hn : (dkeys s.vars).Nodup) (hk : KeysStable s) :
    vReported s = s.vars.map (fun e => (e.1, e.2.css)) := by
  unfold vReported vKeys
  rw [List.map_map]
  apply List.map_congr_left
  intro e he
  have h1 : normalize e.1 = e.1 := hk e.1 (List.mem_map_of_mem he)
  simp only [Function.comp, vGet, h1, dictGet_of_mem s.vars e hn he]

/-! ### looking a listed key up by a literal spelling of it -/

theorem unesc_requote (k : Cps) : unesc (requote k) = k := by
  induction k with
  | nil => rfl
  | cons c t ih =>
    by_cases hc : c = 92
    · subst hc
      simp [requote, unesc, isHex, ih]
    · have hb : (c == 92) = false := beq_eq_false_iff_ne.mpr hc
      simp only [requote, hb, Bool.false_eq_true, if_false]
      cases hr : requote t with
      | nil =>
        rw [hr] at ih
        simp only [unesc] at ih
        rw [← ih]; rfl
      | cons d r =>
        rw [hr] at ih
        simp only [unesc, hb, Bool.false_and, Bool.false_eq_true, if_false, ih]

theorem lowerCp_idem (c : Nat) : lowerCp (lowerCp c) = lowerCp c := by
  unfold lowerCp isUpper
  by_cases h : (65 ≤ c && c ≤ 90) = true
  · have h' := h
    simp only [Bool.and_eq_true, decide_eq_true_eq] at h'
    have h2 : (65 ≤ c + 32 && c + 32 ≤ 90) = false := by
      rw [← Bool.not_eq_true]
      simp only [Bool.and_eq_true, decide_eq_true_eq]; omega
    rw [if_pos h, h2]
    simp
  · rw [if_neg h, if_neg h]

theorem lower_idem (s : Cps) : lower (lower s) = lower s := by
  unfold lower
  rw [List.map_map]
  apply List.map_congr_left
  intro c _
  exact lowerCp_idem c

/-- `normalize(requote(k)) == k` for every normalised name `k` — also when `k` itself is not a fixpoint of `normalize` -/
theorem normalize_requote (n : Cps) : normalize (requote (normalize n)) = normalize n := by
  unfold normalize
  rw [unesc_requote, lower_idem]

theorem varsOf_keys_normal (seq : List VItem) : ∀ e ∈ varsOf seq, ∃ n, e.1 = normalize n := by
  induction seq with
  | nil => intro e he; simp [varsOf] at he
  | cons x t ih =>
    intro e he
    cases x with
    | var n v =>
      simp only [varsOf, List.mem_cons] at he
      rcases he with he | he
      · exact ⟨n, by rw [he]⟩
      · exact ih e he
    | other c => exact ih e (by simpa [varsOf] using he)

/-- under the invariant, looking every listed key up by its literal spelling reports exactly the serialisation -/
theorem vReportedQ_eq (s : Vars) (h : VInv s) : vReportedQ s = vSerialized s := by
  rw [vSerialized_eq, ← h.1]
  unfold vReportedQ vKeys
  rw [List.map_map]
  apply List.map_congr_left
  intro e he
  obtain ⟨n, hn⟩ := varsOf_keys_normal s.seq e (by rw [← h.1]; exact he)
  have h1 : normalize (requote e.1) = e.1 := by rw [hn]; exact normalize_requote n
  simp only [Function.comp, vGet, h1, dictGet_of_mem s.vars e h.2 he]

theorem dkeys_dictSet_subset (d : List (Cps × Val)) (k : Cps) (v : Val) (a : Cps) (h : a ∈ dkeys (dictSet d k v)) :
    a = k ∨ a ∈ dkeys d := by
  induction d with
  | nil => simp [dictSet, dkeys] at h; exact Or.inl h
  | cons e t ih =>
    simp only [dictSet] at h
    split at h
    · simp only [dkeys, List.map_cons, List.mem_cons] at h ⊢
      rcases h with h | h
      · exact Or.inl h
      · exact Or.inr (Or.inr h)
    · simp only [dkeys, List.map_cons, List.mem_cons] at h ⊢
      rcases h with h | h
      · exact Or.inr (Or.inl h)
      · rcases ih h with h | h
        · exact Or.inl h
        · exact Or.inr (Or.inr h)

theorem vSet_keysStable (env : Env) (s : Vars) (name value : Cps) (hk : KeysStable s)
    (hst : ∀ lit, firstIdent (env.tokenize name) = some lit → normalize (normalize lit) = normalize lit) :
    KeysStable (vSet env s name value).st := by
  rcases vSet_unchanged_or env s name value with hu | ⟨v, lit, _, hl, hu⟩
  · rw [hu]; exact hk
  · rw [hu]
    intro k hkm
    simp only [vKeys] at hkm
    rcases dkeys_dictSet_subset _ _ _ k hkm with h | h
    · rw [h]; exact hst lit hl
    · exact hk k h

theorem vRemove_keysStable (s : Vars) (name : Cps) (hk : KeysStable s) : KeysStable (vRemove s name).st := by
  unfold vRemove
  by_cases hr : s.readonly = true
  · simpa [hr] using hk
  · simp only [hr, Bool.false_eq_true, if_false]
    cases dictGet s.vars (normalize name) with
    | none => exact hk
    | some r =>
      intro k hkm
      simp only [vKeys, dictDel] at hkm
      obtain ⟨e, he, rfl⟩ := List.mem_map.mp hkm
      exact hk e.1 (List.mem_map_of_mem (List.mem_filter.mp he).1)

/-- the identifiers of a parsed variables text whose normal form is a fixpoint of `normalize` -/
def VSrcStable : VSrc → Prop
  | .ident n => normalize (normalize n) = normalize n
  | _ => True

def AccStable (a : VAcc) : Prop :=
  (∀ k ∈ dkeys a.vars, normalize k = k) ∧ (∀ n, a.nameitem = some n → normalize (normalize n) = normalize n)

theorem vFold_stable (items : List VSrc) (a b : VAcc) (h : AccStable a) (hi : ∀ x ∈ items, VSrcStable x)
    (hs : items.foldlM vSrcStep a = .ok b) : AccStable b := by
  induction items generalizing a with
  | nil => simp only [List.foldlM_nil, pure, Except.pure] at hs; injection hs with hs; subst hs; exact h
  | cons x xs ih =>
    simp only [List.foldlM_cons, bind, Except.bind] at hs
    cases h1 : vSrcStep a x with
    | error e => simp [h1] at hs
    | ok a' =>
      simp only [h1] at hs
      refine ih a' ?_ (fun y hy => hi y (by simp [hy])) hs
      have hx := hi x (by simp)
      cases x with
      | ident n =>
        simp only [vSrcStep] at h1; injection h1 with h1; subst h1
        exact ⟨h.1, by intro m hm; simp only [Option.some.injEq] at hm; subst hm; exact hx⟩
      | other t =>
        simp only [vSrcStep] at h1; injection h1 with h1; subst h1
        exact h
      | value v =>
        simp only [vSrcStep] at h1
        cases hn : a.nameitem with
        | none => simp [hn] at h1
        | some n =>
          simp only [hn] at h1
          injection h1 with h1; subst h1
          refine ⟨?_, by intro m hm; exact h.2 m (by rw [hn]; exact hm)⟩
          intro k hkm
          rcases dkeys_dictSet_subset _ _ _ k hkm with hk | hk
          · rw [hk]; exact h.2 n hn
          · exact h.1 k hk

theorem vSetCssText_keysStable (s : Vars) (items : List VSrc) (hk : KeysStable s)
    (hi : ∀ x ∈ items, VSrcStable x) : KeysStable (vSetCssText s items).st := by
  unfold vSetCssText
  by_cases hr : s.readonly = true
  · simpa [hr] using hk
  · simp only [hr, Bool.false_eq_true, if_false]
    cases hf : items.foldlM vSrcStep {} with
    | error e => exact hk
    | ok a =>
      have := vFold_stable items {} a ⟨by simp [dkeys], by intro n hn; cases hn⟩ hi hf
      exact this.1

/-- operations on a variables block -/
inductive VOp
  | set (name value : Cps)
  | remove (name : Cps)
  | setText (items : List VSrc)
  | setReadonly (b : Bool)

def vstep (env : Env) (s : Vars) (raising : Bool) : VOp → Vars
  | .set n v => (vSet (withMode env raising) s n v).st
  | .remove n => (vRemove s n).st
  | .setText items => (vSetCssText s items).st
  | .setReadonly b => { s with readonly := b }

def vrun (env : Env) : Vars → List (Bool × VOp) → Vars
  | s, [] => s
  | s, o :: os => vrun env (vstep env s o.1 o.2) os

/-- names (identifiers given to `setVariable`, identifiers of a parsed text) whose normal form is a fixpoint of
`normalize`: only then does a look-up by a *listed* key find the variable (`getVariableValue(keys()[i])`) -/
def VOpStable (env : Env) : VOp → Prop
  | .set n _ => ∀ lit, firstIdent (env.tokenize n) = some lit → normalize (normalize lit) = normalize lit
  | .setText items => ∀ x ∈ items, VSrcStable x
  | _ => True

/-- the former witness of `C10-escaped-backslash-name` in the variables block (fixed) -/
def escVars : Vars :=
  (vSet exampleEnv (vSet exampleEnv { vars := [], seq := [] } escLit [49]).st escLit [50]).st

/-! ## DOM names: the general round trip -/

def noUpper (n : Cps) : Bool := n.all (fun c => !isUpper c)

/-- `n` starts with a hyphen followed by a letter (what `_toDOMname` turns into one capital) -/
def startsHyLetter : Cps → Bool
  | c :: d :: _ => c == 45 && isLetter d
  | _ => false

/-- no `-x-y…` where the first word has a single letter: `-x` directly followed by another hyphen-letter -/
def noAdj : Cps → Bool
  | c :: d :: rest => !(c == 45 && isLetter d && startsHyLetter rest) && noAdj (d :: rest)
  | _ => true

theorem noAdj_tail (c : Nat) (t : Cps) (h : noAdj (c :: t) = true) : noAdj t = true := by
  cases t with
  | nil => rfl
  | cons d rest => simp only [noAdj, Bool.and_eq_true] at h; exact h.2

theorem upper_lower (d : Nat) (h : isLower d = true) : isUpper (upperCp d) = true ∧ lowerCp (upperCp d) = d := by
  simp only [isLower, Bool.and_eq_true, decide_eq_true_eq] at h
  have h1 : isUpper (d - 32) = true := by simp only [isUpper, Bool.and_eq_true, decide_eq_true_eq]; omega
  simp only [upperCp, isLower, h.1, h.2, decide_true, Bool.and_self, if_true, h1, lowerCp, true_and]
  omega

theorem lower_of_letter (d : Nat) (h : isLetter d = true) (hu : isUpper d = false) : isLower d = true := by
  simpa [isLetter, hu] using h

theorem head_toDOM_upper (r : Cps) (hu : noUpper r = true) (hs : startsHyLetter r = false) :
    headIsUpper (toDOM r) = false := by
  cases r with
  | nil => rfl
  | cons c t =>
    have hc : isUpper c = false := by simp [noUpper] at hu; simpa using hu.1
    cases t with
    | nil => simp [toDOM, headIsUpper, hc]
    | cons d rest =>
      simp only [startsHyLetter] at hs
      simp [toDOM, hs, headIsUpper, hc]

theorem head_toDOM_lower (r : Cps) (hs : startsHyLetter r = false) : headIsLower (toDOM r) = headIsLower r := by
  cases r with
  | nil => rfl
  | cons c t =>
    cases t with
    | nil => rfl
    | cons d rest =>
      simp only [startsHyLetter] at hs
      simp [toDOM, hs, headIsLower]

theorem toCSSgo_toDOM (n : Cps) (prevUp : Bool) (h1 : noUpper n = true) (h2 : noAdj n = true)
    (h3 : prevUp = true → startsHyLetter n = false) : toCSSgo prevUp (toDOM n) = n := by
  fun_induction toDOM n generalizing prevUp with
  | case1 => rfl
  | case2 c =>
    have hc : isUpper c = false := by simpa [noUpper] using h1
    simp [toCSSgo, hc]
  | case3 c d rest hcond ih =>
    simp only [Bool.and_eq_true, beq_iff_eq] at hcond
    have hp : prevUp = false := by
      cases prevUp with
      | false => rfl
      | true => have := h3 rfl; simp [startsHyLetter, hcond.1, hcond.2] at this
    have hdu : isUpper d = false := by simp [noUpper] at h1; simpa using h1.2.1
    have hdl := lower_of_letter d hcond.2 hdu
    have hul := upper_lower d hdl
    have hrU : noUpper rest = true := by simp [noUpper] at h1 ⊢; exact h1.2.2
    have hrs : startsHyLetter rest = false := by
      simp only [noAdj, Bool.and_eq_true, Bool.not_eq_true'] at h2
      have := h2.1
      simpa [hcond.1, hcond.2] using this
    have hrA : noAdj rest = true := noAdj_tail d rest (noAdj_tail c (d :: rest) h2)
    have ihr := ih true hrU hrA (fun _ => hrs)
    have hhu := head_toDOM_upper rest hrU hrs
    subst hp
    simp only [toCSSgo, hul.1, if_true, hul.2, hhu, Bool.not_false, Bool.and_self, ihr, hcond.1]
    split <;> rfl
  | case4 c d rest hcond ih =>
    have hc : isUpper c = false := by simp [noUpper] at h1; simpa using h1.1
    have hrU : noUpper (d :: rest) = true := by simp [noUpper] at h1 ⊢; exact h1.2
    have ihr := ih false hrU (noAdj_tail c _ h2) (by intro x; cases x)
    simp [toCSSgo, hc, ihr]

/-- names without capitals and without a single-letter word directly followed by another hyphen-letter (`-x-y`)
survive CSS name → DOM name → CSS name -/
theorem toCSS_toDOM_general (n : Cps) (h1 : noUpper n = true) (h2 : noAdj n = true) : toCSS (toDOM n) = n :=
  toCSSgo_toDOM n false h1 h2 (by intro x; cases x)


end CssVerif.Decl
