import CssVerif.Model.Decl
/-!
Helper lemmas for C10 (declaration block, DOM names, variables block).
-/
namespace CssVerif.Decl

end CssVerif.Decl
