import CssVerif.Model.Validate
/-!
Helper lemmas for C13.

* `Re.ms_fold`      — a `Re` whose classes are closed under ASCII case folding cannot tell `s` from `fold s`
* `Re.words_spec`   — for star-free patterns over positive classes the match lengths are exactly the prefixes
                      whose folding is one of finitely many words; `wordsE_spec` adds the final `$`
* verdict lemmas    — `validate`, `validateWithProfile`, `propValid`, block / sheet conjunctions
-/
namespace CssVerif
open CssVerif.Validate

namespace Validate

theorem foldc_idem (c : Nat) : foldc (foldc c) = foldc c := by
  simp only [foldc]; split <;> (try split) <;> omega

theorem fold_idem (s : Str) : fold (fold s) = fold s := by
  simp [fold, List.map_map, Function.comp_def, foldc_idem]

theorem fold_length (s : Str) : (fold s).length = s.length := by simp [fold]

theorem fold_drop (s : Str) (n : Nat) : fold (s.drop n) = (fold s).drop n := by simp [fold, List.map_drop]

theorem fold_take (s : Str) (n : Nat) : fold (s.take n) = (fold s).take n := by simp [fold, List.map_take]

theorem fold_append (s t : Str) : fold (s ++ t) = fold s ++ fold t := by simp [fold]

theorem foldc_eq_lf (c : Nat) : foldc c = 10 ↔ c = 10 := by
  unfold foldc; split <;> omega

theorem fold_eq_nil (s : Str) : fold s = [] ↔ s = [] := by simp [fold]

theorem fold_eq_lf (s : Str) : fold s = [10] ↔ s = [10] := by
  cases s with
  | nil => simp [fold]
  | cons c t =>
    cases t with
    | nil => simp [fold, foldc_eq_lf]
    | cons d u => simp [fold]

end Validate

namespace Re

/-! ## case folding -/

/-- decidable check: a class contains an upper-case ASCII letter iff it contains the lower-case one -/
def foldClosedCls (rs : List (Nat × Nat)) : Bool :=
  (List.range 26).all fun i => inCls false rs (65 + i) == inCls false rs (97 + i)

/-- every class of the pattern is closed under ASCII case folding (what compiling with `re.I` means for the
translated term) -/
def FoldClosed : Re → Bool
  | .eps => true
  | .cls _ rs => foldClosedCls rs
  | .seq a b => a.FoldClosed && b.FoldClosed
  | .alt a b => a.FoldClosed && b.FoldClosed
  | .star a _ => a.FoldClosed
  | .rep a _ _ _ => a.FoldClosed
  | .eol => true

theorem inCls_neg (neg : Bool) (rs : List (Nat × Nat)) (c : Nat) : inCls neg rs c = (inCls false rs c != neg) := by
  simp [inCls]

theorem inCls_foldc (neg : Bool) (rs : List (Nat × Nat)) (h : foldClosedCls rs = true) (c : Nat) :
    inCls neg rs (foldc c) = inCls neg rs c := by
  rw [inCls_neg neg rs (foldc c), inCls_neg neg rs c]
  congr 1
  unfold foldc
  split
  · rename_i hc
    simp only [foldClosedCls, List.all_eq_true, List.mem_range, beq_iff_eq] at h
    have := h (c - 65) (by omega)
    have e1 : 65 + (c - 65) = c := by omega
    have e2 : 97 + (c - 65) = c + 32 := by omega
    rw [e1, e2] at this
    exact this.symm
  · rfl

theorem starMs_congr {f : List Nat → List Nat} (hf : ∀ s, f (fold s) = f s) (g : Bool) :
    ∀ fuel s, starMs f g fuel (fold s) = starMs f g fuel s := by
  intro fuel
  induction fuel with
  | zero => intro s; simp [starMs]
  | succ n ih =>
    intro s
    simp only [starMs, hf, ← fold_drop, ih]

theorem repMs_congr {f : List Nat → List Nat} (hf : ∀ s, f (fold s) = f s) (g : Bool) :
    ∀ n m s, repMs f g m n (fold s) = repMs f g m n s := by
  intro n
  induction n with
  | zero => intro m s; simp [repMs]
  | succ n ih =>
    intro m s
    simp only [repMs, hf, ← fold_drop, ih]

/-- T13.2 (general lemma over `Re`): a pattern whose classes are case-folded matches `fold s` exactly as it
matches `s` — same match lengths, same order. -/
theorem ms_fold : ∀ r : Re, r.FoldClosed = true → ∀ s, r.ms (fold s) = r.ms s := by
  intro r
  induction r with
  | eps => intro _ s; simp [ms]
  | cls neg rs =>
    intro h s
    cases s with
    | nil => simp [ms, fold]
    | cons c t =>
      simp only [FoldClosed] at h
      simp only [fold, List.map_cons, ms, inCls_foldc neg rs h c]
  | seq a b iha ihb =>
    intro h s
    simp only [FoldClosed, Bool.and_eq_true] at h
    simp only [ms, iha h.1, ← fold_drop, ihb h.2]
  | alt a b iha ihb =>
    intro h s
    simp only [FoldClosed, Bool.and_eq_true] at h
    simp only [ms, iha h.1, ihb h.2]
  | star a g iha =>
    intro h s
    simp only [FoldClosed] at h
    simp only [ms, fold_length]
    exact starMs_congr (iha h) g _ s
  | rep a m n g iha =>
    intro h s
    simp only [FoldClosed] at h
    simp only [ms]
    exact repMs_congr (iha h) g n m s
  | eol =>
    intro _ s
    simp only [ms, fold_eq_nil, fold_eq_lf]

theorem accepts_fold (r : Re) (h : r.FoldClosed = true) (s : Str) : accepts r (fold s) = accepts r s := by
  simp [accepts, ms_fold r h s]

end Re
end CssVerif

/-! ## finite languages: keyword lists -/
namespace CssVerif
open CssVerif.Validate
namespace Re

/-- the code points of a list of ranges -/
def members (rs : List (Nat × Nat)) : List Nat :=
  rs.flatMap fun p => List.range' p.1 (p.2 + 1 - p.1)

theorem inCls_false (rs : List (Nat × Nat)) (c : Nat) :
    inCls false rs c = rs.any fun p => decide (p.1 ≤ c) && decide (c ≤ p.2) := by
  simp [inCls]

theorem mem_members (rs : List (Nat × Nat)) (c : Nat) : c ∈ members rs ↔ inCls false rs c = true := by
  rw [inCls_false]
  simp only [members, List.mem_flatMap, List.mem_range'_1, List.any_eq_true,
    Bool.and_eq_true, decide_eq_true_eq]
  constructor
  · rintro ⟨p, hp, h1, h2⟩; exact ⟨p, hp, h1, by omega⟩
  · rintro ⟨p, hp, h1, h2⟩; exact ⟨p, hp, h1, by omega⟩

/-- `[x ++ y | x ∈ A, y ∈ B]` -/
def prod (A B : List Str) : List Str := A.flatMap fun x => B.map fun y => x ++ y

theorem mem_prod (A B : List Str) (w : Str) : w ∈ prod A B ↔ ∃ x ∈ A, ∃ y ∈ B, w = x ++ y := by
  simp only [prod, List.mem_flatMap, List.mem_map]
  constructor
  · rintro ⟨x, hx, y, hy, rfl⟩; exact ⟨x, hx, y, hy, rfl⟩
  · rintro ⟨x, hx, y, hy, rfl⟩; exact ⟨x, hx, y, hy, rfl⟩

/-- words of `a{m,n}` given the words of `a`; mirrors `repMs` -/
def repWords (W : List Str) : Nat → Nat → List Str
  | m, 0 => if m = 0 then [[]] else []
  | m, n + 1 => prod W (repWords W (m - 1) n) ++ (if m = 0 then [[]] else [])

/-- The finite language of a star-free pattern over small positive fold-closed classes, as **folded** words;
`none` when the pattern is not of that shape (negated class, `*`, `$`, a class with more than 64 members). -/
def words : Re → Option (List Str)
  | .eps => some [[]]
  | .cls neg rs =>
    if !neg && foldClosedCls rs && (members rs).length ≤ 64 then
      some (((members rs).filter fun c => foldc c == c).map fun c => [c])
    else none
  | .seq a b => match a.words, b.words with
    | some A, some B => some (prod A B)
    | _, _ => none
  | .alt a b => match a.words, b.words with
    | some A, some B => some (A ++ B)
    | _, _ => none
  | .star _ _ => none
  | .rep a m n _ => match a.words with
    | some A => some (repWords A m n)
    | none => none
  | .eol => none

/-- the specification a `words` result satisfies -/
def WordsOf (f : Str → List Nat) (W : List Str) : Prop :=
  ∀ s l, l ∈ f s ↔ (l ≤ s.length ∧ fold (s.take l) ∈ W)

theorem take_add_fold (s : Str) (a b : Nat) :
    fold (s.take (a + b)) = fold (s.take a) ++ fold ((s.drop a).take b) := by
  rw [← fold_append, List.take_add]

theorem wordsOf_seq {f g : Str → List Nat} {A B : List Str} (hf : WordsOf f A) (hg : WordsOf g B) :
    WordsOf (fun s => (f s).flatMap fun l1 => (g (s.drop l1)).map (l1 + ·)) (prod A B) := by
  intro s l
  simp only [List.mem_flatMap, List.mem_map, mem_prod]
  constructor
  · rintro ⟨l1, h1, l2, h2, rfl⟩
    obtain ⟨h1a, h1b⟩ := (hf s l1).1 h1
    obtain ⟨h2a, h2b⟩ := (hg _ l2).1 h2
    simp only [List.length_drop] at h2a
    refine ⟨by omega, _, h1b, _, h2b, take_add_fold s l1 l2⟩
  · rintro ⟨hl, x, hx, y, hy, e⟩
    have hlen : l = x.length + y.length := by
      have := congrArg List.length e
      simp only [fold_length, List.length_take, List.length_append] at this
      omega
    have ex : fold (s.take x.length) = x := by
      have := congrArg (List.take x.length) e
      rw [← fold_take, List.take_take] at this
      simp only [List.take_left'] at this
      rw [Nat.min_eq_left (by omega)] at this
      exact this
    have ey : fold ((s.drop x.length).take y.length) = y := by
      have e2 := e
      rw [hlen, take_add_fold, ex] at e2
      exact List.append_cancel_left e2
    refine ⟨x.length, (hf s _).2 ⟨by omega, by rw [ex]; exact hx⟩, y.length,
      (hg _ _).2 ⟨by simp only [List.length_drop]; omega, by rw [ey]; exact hy⟩, by omega⟩

theorem wordsOf_rep {f : Str → List Nat} {A : List Str} (hf : WordsOf f A) (g : Bool) :
    ∀ n m, WordsOf (repMs f g m n) (repWords A m n) := by
  intro n
  induction n with
  | zero =>
    intro m s l
    simp only [repMs, repWords]
    split
    · simp only [List.mem_singleton]
      constructor
      · rintro rfl; simp [fold]
      · rintro ⟨h1, h2⟩
        have := congrArg List.length h2
        simp only [fold_length, List.length_take, List.length_nil] at this
        omega
    · simp
  | succ n ih =>
    intro m s l
    have key := wordsOf_seq hf (ih (m - 1)) s l
    simp only [repMs, repWords]
    have nil_case : l = 0 ↔ (l ≤ s.length ∧ fold (s.take l) = []) := by
      constructor
      · rintro rfl; simp [fold]
      · rintro ⟨h1, h2⟩
        have := congrArg List.length h2
        simp only [fold_length, List.length_take, List.length_nil] at this
        omega
    by_cases hm : m = 0
    · subst hm
      simp only [if_true]
      cases g
      · simp only [Bool.false_eq_true, if_false, List.mem_cons, List.mem_append, List.not_mem_nil, or_false]
        rw [key, nil_case]
        constructor
        · rintro (h | h)
          · exact ⟨h.1, Or.inr h.2⟩
          · exact ⟨h.1, Or.inl h.2⟩
        · rintro ⟨h1, h2 | h2⟩
          · exact Or.inr ⟨h1, h2⟩
          · exact Or.inl ⟨h1, h2⟩
      · simp only [if_true, List.mem_append, List.mem_singleton]
        rw [key, nil_case]
        constructor
        · rintro (h | h)
          · exact ⟨h.1, Or.inl h.2⟩
          · exact ⟨h.1, Or.inr h.2⟩
        · rintro ⟨h1, h2 | h2⟩
          · exact Or.inl ⟨h1, h2⟩
          · exact Or.inr ⟨h1, h2⟩
    · simp only [hm, if_false, List.append_nil]
      exact key

/-- general lemma: when `words r = some W`, the match lengths of `r` on `s` are exactly the lengths of the
prefixes of `s` whose ASCII folding is in `W` -/
theorem words_spec : ∀ (r : Re) (W : List Str), r.words = some W → WordsOf r.ms W := by
  intro r
  induction r with
  | eps =>
    intro W h s l
    simp only [words, Option.some.injEq] at h
    subst h
    simp only [ms, List.mem_singleton]
    constructor
    · rintro rfl; simp [fold]
    · rintro ⟨_, h2⟩
      have := congrArg List.length h2
      simp only [fold_length, List.length_take, List.length_nil] at this
      omega
  | cls neg rs =>
    intro W h s l
    simp only [words] at h
    split at h
    · rename_i hc
      simp only [Bool.and_eq_true, Bool.not_eq_true', decide_eq_true_eq] at hc
      obtain ⟨⟨hneg, hfc⟩, _⟩ := hc
      subst hneg
      simp only [Option.some.injEq] at h
      subst h
      simp only [List.mem_map, List.mem_filter, mem_members, beq_iff_eq]
      cases s with
      | nil =>
        simp only [ms, List.not_mem_nil, false_iff, List.length_nil, List.take_nil, fold, List.map_nil]
        rintro ⟨_, c, _, hc⟩
        exact absurd hc (by simp)
      | cons c t =>
        simp only [ms]
        constructor
        · intro hl
          split at hl
          · rename_i hin
            simp only [List.mem_singleton] at hl
            subst hl
            refine ⟨by simp, foldc c, ⟨?_, foldc_idem c⟩, by simp [fold]⟩
            rw [inCls_foldc false rs hfc c]; exact hin
          · simp at hl
        · rintro ⟨hl, d, ⟨hd, _⟩, e⟩
          have hlen := congrArg List.length e
          simp only [fold_length, List.length_take, List.length_cons, List.length_nil] at hlen
          have hl1 : l = 1 := by simp only [List.length_cons] at hl; omega
          subst hl1
          simp only [List.take_succ_cons, List.take_zero, fold, List.map_cons, List.map_nil,
            List.cons.injEq, and_true] at e
          subst e
          rw [inCls_foldc false rs hfc c] at hd
          simp [hd]
    · simp at h
  | seq a b iha ihb =>
    intro W h
    simp only [words] at h
    split at h
    · rename_i A B ha hb
      simp only [Option.some.injEq] at h
      subst h
      exact wordsOf_seq (iha A ha) (ihb B hb)
    · simp at h
  | alt a b iha ihb =>
    intro W h
    simp only [words] at h
    split at h
    · rename_i A B ha hb
      simp only [Option.some.injEq] at h
      subst h
      intro s l
      simp only [ms, List.mem_append, iha A ha s l, ihb B hb s l]
      constructor
      · rintro (h | h)
        · exact ⟨h.1, Or.inl h.2⟩
        · exact ⟨h.1, Or.inr h.2⟩
      · rintro ⟨h1, h2 | h2⟩
        · exact Or.inl ⟨h1, h2⟩
        · exact Or.inr ⟨h1, h2⟩
    · simp at h
  | star a g _ => intro W h; simp [words] at h
  | rep a m n g iha =>
    intro W h
    simp only [words] at h
    split at h
    · rename_i A ha
      simp only [Option.some.injEq] at h
      subst h
      exact wordsOf_rep (iha A ha) g n m
    · simp at h
  | eol => intro W h; simp [words] at h

/-- a pattern that is a `seq`-spine of word patterns ending in `$` (what `^(?:…)$` translates to) -/
def wordsE : Re → Option (List Str)
  | .eol => some [[]]
  | .seq a b => match a.words, b.wordsE with
    | some A, some B => some (prod A B)
    | _, _ => none
  | _ => none

/-- end of input as `$` sees it -/
def atEnd (s : Str) : Prop := s = [] ∨ s = [10]

theorem wordsE_ms : ∀ (r : Re) (W : List Str), r.wordsE = some W →
    ∀ s l, l ∈ r.ms s ↔ (l ≤ s.length ∧ fold (s.take l) ∈ W ∧ atEnd (s.drop l)) := by
  intro r
  induction r with
  | eol =>
    intro W h s l
    simp only [wordsE, Option.some.injEq] at h
    subst h
    simp only [ms, List.mem_singleton, atEnd]
    constructor
    · intro hl
      split at hl
      · simp only [List.mem_singleton] at hl
        subst hl
        simpa [fold] using ‹s = [] ∨ s = [10]›
      · simp at hl
    · rintro ⟨h1, h2, h3⟩
      have := congrArg List.length h2
      simp only [fold_length, List.length_take, List.length_nil] at this
      have hl : l = 0 := by omega
      subst hl
      simp only [List.drop_zero] at h3
      simp [h3]
  | seq a b _ ihb =>
    intro W h s l
    simp only [wordsE] at h
    split at h
    · rename_i A B ha hb
      simp only [Option.some.injEq] at h
      subst h
      have hA := words_spec a A ha
      have hB := ihb B hb
      simp only [ms, List.mem_flatMap, List.mem_map, mem_prod]
      constructor
      · rintro ⟨l1, h1, l2, h2, rfl⟩
        obtain ⟨h1a, h1b⟩ := (hA s l1).1 h1
        obtain ⟨h2a, h2b, h2c⟩ := (hB _ l2).1 h2
        simp only [List.length_drop] at h2a
        refine ⟨by omega, ⟨_, h1b, _, h2b, take_add_fold s l1 l2⟩, ?_⟩
        rw [List.drop_drop] at h2c
        exact h2c
      · rintro ⟨hl, ⟨x, hx, y, hy, e⟩, hend⟩
        have hlen : l = x.length + y.length := by
          have := congrArg List.length e
          simp only [fold_length, List.length_take, List.length_append] at this
          omega
        have ex : fold (s.take x.length) = x := by
          have := congrArg (List.take x.length) e
          rw [← fold_take, List.take_take] at this
          simp only [List.take_left'] at this
          rw [Nat.min_eq_left (by omega)] at this
          exact this
        have ey : fold ((s.drop x.length).take y.length) = y := by
          have e2 := e
          rw [hlen, take_add_fold, ex] at e2
          exact List.append_cancel_left e2
        refine ⟨x.length, (hA s _).2 ⟨by omega, by rw [ex]; exact hx⟩, y.length,
          (hB _ _).2 ⟨by simp only [List.length_drop]; omega, by rw [ey]; exact hy, ?_⟩, by omega⟩
        rw [List.drop_drop, ← hlen]
        exact hend
    · simp at h
  | eps => intro W h; simp [wordsE] at h
  | cls _ _ => intro W h; simp [wordsE] at h
  | alt _ _ _ _ => intro W h; simp [wordsE] at h
  | star _ _ _ => intro W h; simp [wordsE] at h
  | rep _ _ _ _ _ => intro W h; simp [wordsE] at h

/-- T13.4 (general lemma): a pattern recognised as a keyword list accepts `s` iff the ASCII folding of `s`,
or of `s` without one final line feed (`$`), is one of the keywords. -/
theorem wordsE_spec (r : Re) (W : List Str) (h : r.wordsE = some W) (s : Str) :
    accepts r s = true ↔ (fold s ∈ W ∨ ∃ t, s = t ++ [10] ∧ fold t ∈ W) := by
  have key := wordsE_ms r W h s
  simp only [accepts, Bool.not_eq_true', List.isEmpty_eq_false_iff_exists_mem]
  constructor
  · rintro ⟨l, hl⟩
    obtain ⟨h1, h2, h3⟩ := (key l).1 hl
    rcases h3 with h3 | h3
    · left
      have : s.take l = s := by
        have := List.take_append_drop l s
        rw [h3, List.append_nil] at this; exact this
      rw [this] at h2; exact h2
    · right
      refine ⟨s.take l, ?_, h2⟩
      have := List.take_append_drop l s
      rw [h3] at this; exact this.symm
  · rintro (hw | ⟨t, rfl, ht⟩)
    · exact ⟨s.length, (key _).2 ⟨Nat.le_refl _, by simpa using hw, by simp [atEnd]⟩⟩
    · refine ⟨t.length, (key _).2 ⟨by simp, by simpa using ht, by simp [atEnd]⟩⟩

/-- … and for a value that does not end in a line feed (every `Property.value`): exactly the keywords -/
theorem wordsE_spec_noLF (r : Re) (W : List Str) (h : r.wordsE = some W) (s : Str)
    (hs : s.getLast? ≠ some 10) : accepts r s = true ↔ fold s ∈ W := by
  rw [wordsE_spec r W h s]
  constructor
  · rintro (h | ⟨t, rfl, _⟩)
    · exact h
    · simp at hs
  · intro h; exact Or.inl h

end Re
end CssVerif

/-! ## verdict lemmas -/
namespace CssVerif.Validate
variable {π : Type}

theorem lookup_mem {α β : Type} [BEq α] [LawfulBEq α] :
    ∀ (l : List (α × β)) (k : α) (v : β), l.lookup k = some v → (k, v) ∈ l := by
  intro l
  induction l with
  | nil => intro k v h; simp [List.lookup] at h
  | cons x r ih =>
    intro k v h
    obtain ⟨a, b⟩ := x
    simp only [List.lookup] at h
    split at h
    · rename_i he
      simp only [Option.some.injEq] at h
      have := eq_of_beq he
      subst this; subst h
      simp
    · exact List.mem_cons_of_mem _ (ih k v h)

theorem lookup_isSome_iff {α β : Type} [BEq α] [LawfulBEq α] :
    ∀ (l : List (α × β)) (k : α), (l.lookup k).isSome = (l.map (·.1)).contains k := by
  intro l
  induction l with
  | nil => intro k; simp [List.lookup]
  | cons x r ih =>
    intro k
    obtain ⟨a, b⟩ := x
    simp only [List.lookup, List.map_cons, List.contains_cons]
    split
    · rename_i he; simp [he]
    · rename_i he; simp [he, ih k]

/-- all patterns of the registry -/
def Registry.pats (reg : Registry π) : List π := reg.profiles.flatMap fun p => p.props.map (·.2)

theorem get_mem (reg : Registry π) (pn : Str) (props : List (Str × π)) (h : reg.get pn = .ok props) :
    ∃ p ∈ reg.profiles, p.name = pn ∧ p.props = props := by
  unfold Registry.get at h
  split at h
  · rename_i p hp
    simp only [Except.ok.injEq] at h
    have h1 := List.mem_of_find?_eq_some hp
    have h2 := List.find?_some hp
    exact ⟨p, h1, by simpa using h2, h⟩
  · simp at h

theorem get_lookup_pats (reg : Registry π) (pn n : Str) (props : List (Str × π)) (pat : π)
    (h : reg.get pn = .ok props) (hl : props.lookup n = some pat) : pat ∈ reg.pats := by
  obtain ⟨p, hp, _, rfl⟩ := get_mem reg pn props h
  have := lookup_mem _ _ _ hl
  simp only [Registry.pats, List.mem_flatMap, List.mem_map]
  exact ⟨p, hp, (n, pat), this, rfl⟩

/-- the profile `pn` is registered, knows `n`, and its check accepts `v` -/
def acceptsIn (acc : π → Str → Option Bool) (reg : Registry π) (n v : Str) (pn : Str) : Bool :=
  match reg.get pn with
  | .ok props => match props.lookup n with
    | some pat => tryAcc acc pat v
    | none => false
  | .error _ => false

def registered (reg : Registry π) (pn : Str) : Bool :=
  match reg.get pn with
  | .ok _ => true
  | .error _ => false

theorem firstAccepting_congr (acc acc' : π → Str → Option Bool) (reg : Registry π) (n v v' : Str)
    (h : ∀ pat ∈ reg.pats, tryAcc acc pat v = tryAcc acc' pat v') :
    ∀ l, firstAccepting acc reg n v l = firstAccepting acc' reg n v' l := by
  intro l
  induction l with
  | nil => rfl
  | cons pn r ih =>
    simp only [firstAccepting]
    cases hg : reg.get pn with
    | error e => rfl
    | ok props =>
      simp only
      cases hl : props.lookup n with
      | none => simpa using ih
      | some pat =>
        simp only [h pat (get_lookup_pats reg pn n props pat hg hl), ih]

theorem firstAccepting_some (acc : π → Str → Option Bool) (reg : Registry π) (n v : Str) :
    ∀ l q, firstAccepting acc reg n v l = .ok (some q) → q ∈ l ∧ acceptsIn acc reg n v q = true := by
  intro l
  induction l with
  | nil => intro q h; simp [firstAccepting] at h
  | cons pn r ih =>
    intro q h
    simp only [firstAccepting] at h
    cases hg : reg.get pn with
    | error e => simp [hg] at h
    | ok props =>
      simp only [hg] at h
      cases hl : props.lookup n with
      | none =>
        simp only [hl] at h
        have := ih q h
        exact ⟨List.mem_cons_of_mem _ this.1, this.2⟩
      | some pat =>
        simp only [hl] at h
        split at h
        · rename_i ha
          simp only [Except.ok.injEq, Option.some.injEq] at h
          subst h
          exact ⟨by simp, by simp [acceptsIn, hg, hl, ha]⟩
        · have := ih q h
          exact ⟨List.mem_cons_of_mem _ this.1, this.2⟩

theorem firstAccepting_none (acc : π → Str → Option Bool) (reg : Registry π) (n v : Str) :
    ∀ l, firstAccepting acc reg n v l = .ok none →
      ∀ q ∈ l, registered reg q = true ∧ acceptsIn acc reg n v q = false := by
  intro l
  induction l with
  | nil => intro _ q hq; simp at hq
  | cons pn r ih =>
    intro h q hq
    simp only [firstAccepting] at h
    cases hg : reg.get pn with
    | error e => simp [hg] at h
    | ok props =>
      simp only [hg] at h
      have here : registered reg pn = true ∧ acceptsIn acc reg n v pn = false ∧
          firstAccepting acc reg n v r = .ok none := by
        cases hl : props.lookup n with
        | none =>
          simp only [hl] at h
          exact ⟨by simp [registered, hg], by simp [acceptsIn, hg, hl], h⟩
        | some pat =>
          simp only [hl] at h
          split at h
          · simp at h
          · rename_i ha
            exact ⟨by simp [registered, hg], by simpa [acceptsIn, hg, hl] using ha, h⟩
      simp only [List.mem_cons] at hq
      rcases hq with rfl | hq
      · exact ⟨here.1, here.2.1⟩
      · exact ih here.2.2 q hq

/-- no `KeyError` when every listed profile is registered -/
theorem firstAccepting_total (acc : π → Str → Option Bool) (reg : Registry π) (n v : Str) :
    ∀ l, (∀ q ∈ l, registered reg q = true) → ∃ o, firstAccepting acc reg n v l = .ok o := by
  intro l
  induction l with
  | nil => intro _; exact ⟨none, rfl⟩
  | cons pn r ih =>
    intro h
    have hr := h pn (by simp)
    obtain ⟨o, ho⟩ := ih (fun q hq => h q (List.mem_cons_of_mem _ hq))
    simp only [firstAccepting]
    cases hg : reg.get pn with
    | error e => simp [registered, hg] at hr
    | ok props =>
      simp only
      cases hl : props.lookup n with
      | none => exact ⟨o, ho⟩
      | some pat =>
        simp only
        split
        · exact ⟨_, rfl⟩
        · exact ⟨o, ho⟩

theorem names_registered (reg : Registry π) : ∀ q ∈ reg.names, registered reg q = true := by
  intro q hq
  simp only [Registry.names, List.mem_map] at hq
  obtain ⟨p, hp, rfl⟩ := hq
  unfold registered Registry.get
  cases hf : reg.profiles.find? (fun x => x.name == p.name) with
  | none =>
    have := List.find?_eq_none.1 hf p hp
    simp at this
  | some x => rfl

/-- the profiles `validateWithProfile` looks at first -/
def active (reg : Registry π) (profiles : Option (List Str)) : List Str :=
  match profiles with
  | none => reg.defaultProfiles
  | some [] => reg.defaultProfiles
  | some l => l

theorem vwp_unfold (acc : π → Str → Option Bool) (reg : Registry π) (n v : Str) (ps : Option (List Str)) :
    validateWithProfile acc reg n v ps =
      if !reg.knownNames.contains n then .ok (false, false, [])
      else match firstAccepting acc reg n v (active reg ps).reverse with
        | .error e => .error e
        | .ok (some pn) => .ok (true, true, [pn])
        | .ok none =>
          match firstAccepting acc reg n v (reg.names.filter fun p => !(active reg ps).contains p) with
          | .error e => .error e
          | .ok (some pn) => .ok (true, false, [pn])
          | .ok none => .ok (false, false,
              sortStrs ((reg.profiles.filter fun p => (p.props.map (·.1)).contains n).map (·.name))) := by
  unfold validateWithProfile active
  cases ps with
  | none => rfl
  | some l => cases l <;> rfl

/-- congruence: the result depends on the value only through what the registered checks say about it -/
theorem vwp_congr (acc acc' : π → Str → Option Bool) (reg : Registry π) (n v v' : Str) (ps : Option (List Str))
    (h : ∀ pat ∈ reg.pats, tryAcc acc pat v = tryAcc acc' pat v') :
    validateWithProfile acc reg n v ps = validateWithProfile acc' reg n v' ps := by
  simp only [vwp_unfold, firstAccepting_congr acc acc' reg n v v' h]

theorem propValid_congr (acc acc' : π → Str → Option Bool) (reg : Registry π) (ff : Str) (fontFace : Bool)
    (p p' : Prop') (hn : p.name = p'.name) (hp : p.priority = p'.priority)
    (he : p.value.isEmpty = p'.value.isEmpty)
    (h : ∀ pat ∈ reg.pats, tryAcc acc pat p.value = tryAcc acc' pat p'.value) :
    propValid acc reg ff fontFace p = propValid acc' reg ff fontFace p' := by
  unfold propValid
  simp only [hn, hp, he, vwp_congr acc acc' reg p'.name p.value p'.value _ h]

/-- T13.5a: a name no profile knows is never valid, whatever the value, priority and context -/
theorem propValid_unknown (acc : π → Str → Option Bool) (reg : Registry π) (ff : Str) (fontFace : Bool) (p : Prop')
    (h : reg.knownNames.contains p.name = false) : propValid acc reg ff fontFace p = .ok false := by
  unfold propValid
  simp only [h, Bool.false_eq_true, if_false, ite_self]

theorem validate_unknown (acc : π → Str → Option Bool) (reg : Registry π) (n v : Str)
    (h : reg.knownNames.contains n = false) : validate acc reg n v = false := by
  unfold validate
  rw [List.any_eq_false]
  intro p hp
  have : (p.props.lookup n).isSome = false := by
    rw [lookup_isSome_iff]
    apply Bool.eq_false_iff.2
    intro hc
    have : reg.knownNames.contains n = true := by
      simp only [Registry.knownNames, List.contains_iff_mem, List.mem_flatMap] at *
      exact ⟨p, hp, hc⟩
    rw [h] at this; exact absurd this (by simp)
  cases hl : p.props.lookup n with
  | none => simp
  | some x => simp [hl] at this

theorem vwp_unknown (acc : π → Str → Option Bool) (reg : Registry π) (n v : Str) (ps : Option (List Str))
    (h : reg.knownNames.contains n = false) : validateWithProfile acc reg n v ps = .ok (false, false, []) := by
  rw [vwp_unfold, h]; rfl

theorem acceptsIn_known (acc : π → Str → Option Bool) (reg : Registry π) (n v q : Str)
    (hq : acceptsIn acc reg n v q = true) : reg.knownNames.contains n = true := by
  unfold acceptsIn at hq
  cases hg : reg.get q with
  | error e => simp [hg] at hq
  | ok props =>
    simp only [hg] at hq
    obtain ⟨pr, hpr, _, rfl⟩ := get_mem reg q props hg
    cases hl : pr.props.lookup n with
    | none => simp [hl] at hq
    | some pat =>
      have := lookup_mem _ _ _ hl
      simp only [Registry.knownNames, List.contains_iff_mem, List.mem_flatMap, List.mem_map]
      exact ⟨pr, hpr, (n, pat), this, rfl⟩

/-- with registered active profiles `validateWithProfile` does not raise, and it reports `(True, True, _)`
exactly when one of the active profiles accepts -/
theorem vwp_ok (acc : π → Str → Option Bool) (reg : Registry π) (n v : Str) (ps : Option (List Str))
    (hreg : ∀ q ∈ active reg ps, registered reg q = true) :
    ∃ a m l, validateWithProfile acc reg n v ps = .ok (a, m, l) ∧
      ((a = true ∧ m = true) ↔ ∃ q ∈ active reg ps, acceptsIn acc reg n v q = true) := by
  rw [vwp_unfold]
  by_cases hkn : reg.knownNames.contains n = true
  · have hrev : ∀ q ∈ (active reg ps).reverse, registered reg q = true :=
      fun q hq => hreg q (List.mem_reverse.1 hq)
    obtain ⟨o, ho⟩ := firstAccepting_total acc reg n v _ hrev
    simp only [hkn, Bool.not_true, Bool.false_eq_true, if_false, ho]
    cases o with
    | some q =>
      have := firstAccepting_some acc reg n v _ q ho
      exact ⟨true, true, [q], rfl, fun _ => ⟨q, List.mem_reverse.1 this.1, this.2⟩, fun _ => ⟨rfl, rfl⟩⟩
    | none =>
      have hnone := firstAccepting_none acc reg n v _ ho
      have hno : ¬ ∃ q ∈ active reg ps, acceptsIn acc reg n v q = true := by
        rintro ⟨q, hq, ha⟩
        have := (hnone q (List.mem_reverse.2 hq)).2
        rw [this] at ha; simp at ha
      have hrest : ∀ q ∈ reg.names.filter (fun p => !(active reg ps).contains p), registered reg q = true :=
        fun q hq => names_registered reg q (List.mem_filter.1 hq).1
      obtain ⟨o2, ho2⟩ := firstAccepting_total acc reg n v _ hrest
      simp only [ho2]
      cases o2 with
      | some q => exact ⟨true, false, [q], rfl, fun h => by simp at h, fun h => absurd h hno⟩
      | none => exact ⟨false, false, _, rfl, fun h => by simp at h, fun h => absurd h hno⟩
  · have hkn' : reg.knownNames.contains n = false := by simpa using hkn
    simp only [hkn', Bool.not_false, if_true]
    refine ⟨false, false, [], rfl, fun h => by simp at h, ?_⟩
    rintro ⟨q, _, ha⟩
    have := acceptsIn_known acc reg n v q ha
    rw [hkn'] at this; simp at this

/-- the verdict of `Property.validate` is `True` exactly when name and value are non-empty, the priority is
`''` or `'important'`, and one of the ACTIVE profiles (the `@font-face` profile inside `@font-face`, else the
default profiles) has a check for the name that accepts the value (declarative form of T13.1) -/
theorem propValid_true_iff (acc : π → Str → Option Bool) (reg : Registry π) (ff : Str) (fontFace : Bool) (p : Prop')
    (hreg : ∀ q ∈ active reg (if fontFace then some [ff] else none), registered reg q = true) :
    propValid acc reg ff fontFace p = .ok true ↔
      (p.name ≠ [] ∧ p.value ≠ [] ∧ (p.priority = [] ∨ p.priority = important) ∧
        ∃ q ∈ active reg (if fontFace then some [ff] else none), acceptsIn acc reg p.name p.value q = true) := by
  obtain ⟨a, m, l, hv, hiff⟩ := vwp_ok acc reg p.name p.value _ hreg
  have hk := acceptsIn_known acc reg p.name p.value
  have hprio : (p.priority != [] && p.priority != important) = false ↔
      (p.priority = [] ∨ p.priority = important) := by
    by_cases h1 : p.priority = [] <;> by_cases h2 : p.priority = important <;> simp [h1, h2]
  rw [← hiff]
  simp only [propValid, hv]
  by_cases hne : p.name = []
  · simp [hne]
  by_cases hve : p.value = []
  · simp [hve]
  have hne' : p.name.isEmpty = false := by simpa using hne
  have hve' : p.value.isEmpty = false := by simpa using hve
  simp only [hne', hve', Bool.not_false, Bool.and_self, if_true, ne_eq, hne, hve, not_false_eq_true, true_and]
  by_cases hkn : reg.knownNames.contains p.name = true
  · simp only [hkn, if_true]
    cases hpr : (p.priority != [] && p.priority != important)
    · have := hprio.1 hpr
      cases a <;> cases m <;> simp [this]
    · have : ¬ (p.priority = [] ∨ p.priority = important) := by
        intro h; rw [← hprio, hpr] at h; simp at h
      cases a <;> cases m <;> simp [this]
  · have hkn' : reg.knownNames.contains p.name = false := by simpa using hkn
    simp only [hkn', Bool.false_eq_true, if_false]
    have hno : ¬ (a = true ∧ m = true) := by
      intro h
      obtain ⟨q, _, ha⟩ := hiff.1 h
      have := hk q ha
      rw [hkn'] at this; simp at this
    constructor
    · intro h; split at h <;> simp at h
    · rintro ⟨_, h⟩; exact absurd h hno

end CssVerif.Validate

/-! ## blocks, rules, sheets -/
namespace CssVerif.Validate
variable {π : Type}

theorem allM_true {α : Type} (f : α → Except Err Bool) : ∀ l, allM f l = .ok true ↔ ∀ x ∈ l, f x = .ok true := by
  intro l
  induction l with
  | nil => simp [allM]
  | cons x r ih =>
    simp only [allM, List.mem_cons, forall_eq_or_imp]
    cases hx : f x with
    | error e => simp
    | ok b =>
      cases b
      · simp
      · simp [ih]

theorem isTrue_iff (x : Except Err Bool) : isTrue x = true ↔ x = .ok true := by
  cases x with
  | error e => simp [isTrue]
  | ok b => cases b <;> simp [isTrue]

/-- `CSSStyleDeclaration.valid` is the conjunction over ALL declarations of the block -/
theorem declValid_true_iff (acc : π → Str → Option Bool) (reg : Registry π) (ff : Str) (fontFace : Bool) (b : Block) :
    declValid acc reg ff fontFace b = .ok true ↔ allEntriesValid acc reg ff fontFace b = true := by
  unfold declValid allEntriesValid
  rw [allM_true, List.all_eq_true]
  constructor
  · intro h p hp; exact (isTrue_iff _).2 (h p hp)
  · intro h p hp; exact (isTrue_iff _).1 (h p hp)

theorem removeFirst_subset (x : Str) : ∀ l y, y ∈ removeFirst x l → y ∈ l := by
  intro l
  induction l with
  | nil => intro y h; simp [removeFirst] at h
  | cons a r ih =>
    intro y h
    simp only [removeFirst] at h
    split at h
    · exact List.mem_cons_of_mem _ h
    · simp only [List.mem_cons] at h
      rcases h with rfl | h
      · simp
      · exact List.mem_cons_of_mem _ (ih y h)

theorem mem_removeFirst_of_ne (x : Str) : ∀ l y, y ∈ l → y ≠ x → y ∈ removeFirst x l := by
  intro l
  induction l with
  | nil => intro y h; simp at h
  | cons a r ih =>
    intro y h hne
    simp only [removeFirst]
    simp only [List.mem_cons] at h
    split
    · rename_i hax
      have : a = x := by simpa using hax
      rcases h with rfl | h
      · exact absurd this hne
      · exact h
    · rcases h with rfl | h
      · simp
      · exact List.mem_cons_of_mem _ (ih y h hne)

theorem removeFirst_nodup (x : Str) : ∀ l : List Str, l.Nodup → x ∉ removeFirst x l ∧ (removeFirst x l).Nodup := by
  intro l
  induction l with
  | nil => intro _; simp [removeFirst]
  | cons a r ih =>
    intro h
    have ⟨ha, hr⟩ := List.nodup_cons.1 h
    simp only [removeFirst]
    split
    · rename_i hax
      have : a = x := by simpa using hax
      subst this
      exact ⟨ha, hr⟩
    · rename_i hax
      have hne : ¬ a = x := by simpa using hax
      obtain ⟨h1, h2⟩ := ih hr
      refine ⟨?_, List.nodup_cons.2 ⟨fun hm => ha (removeFirst_subset x r a hm), h2⟩⟩
      simp only [List.mem_cons, not_or]
      exact ⟨fun e => hne e.symm, h1⟩

/-- the loop of `CSSFontFaceRule.valid`: all entries valid and every needed name seen -/
theorem fontFaceLoop_true_iff (acc : π → Str → Option Bool) (reg : Registry π) (ff : Str) :
    ∀ (l : List Prop') (needed : List Str), needed.Nodup →
      (fontFaceLoop acc reg ff l needed = .ok true ↔
        ((∀ p ∈ l, propValid acc reg ff true p = .ok true) ∧ ∀ n ∈ needed, ∃ p ∈ l, p.name = n)) := by
  intro l
  induction l with
  | nil =>
    intro needed _
    simp only [fontFaceLoop, Except.ok.injEq, List.isEmpty_iff, List.not_mem_nil, false_and, exists_false,
      false_imp_iff, implies_true, true_and]
    constructor
    · rintro rfl; simp
    · intro h
      cases needed with
      | nil => rfl
      | cons a r => exact absurd (h a (by simp)) (by simp)
  | cons p r ih =>
    intro needed hnd
    simp only [fontFaceLoop, List.mem_cons, forall_eq_or_imp]
    cases hp : propValid acc reg ff true p with
    | error e => simp
    | ok b =>
      cases b
      · simp
      · obtain ⟨hx, hnd'⟩ := removeFirst_nodup p.name needed hnd
        simp only [ih _ hnd', true_and]
        constructor
        · rintro ⟨h1, h2⟩
          refine ⟨h1, fun n hn => ?_⟩
          by_cases hpn : n = p.name
          · exact ⟨p, Or.inl rfl, hpn.symm⟩
          · obtain ⟨q, hq, hqn⟩ := h2 n (mem_removeFirst_of_ne p.name needed n hn hpn)
            exact ⟨q, Or.inr hq, hqn⟩
        · rintro ⟨h1, h2⟩
          refine ⟨h1, fun n hn => ?_⟩
          have hn' := removeFirst_subset p.name needed n hn
          obtain ⟨q, hq, hqn⟩ := h2 n hn'
          rcases hq with rfl | hq
          · subst hqn; exact absurd hn hx
          · exact ⟨q, hq, hqn⟩

/-- `CSSFontFaceRule.valid` ⇔ every entry (all of them, not only the effective ones) is valid in the
`@font-face` context and `font-family` and `src` are present — as its documentation says -/
theorem fontFaceValid_true_iff (acc : π → Str → Option Bool) (reg : Registry π) (ff : Str) (b : Block) :
    fontFaceValid acc reg ff b = .ok true ↔ ruleAllValid acc reg ff (.fontFace b) = true := by
  unfold fontFaceValid
  rw [fontFaceLoop_true_iff acc reg ff _ _ (by decide)]
  simp only [ruleAllValid, allEntriesValid, Bool.and_eq_true, List.all_eq_true, isTrue_iff,
    List.contains_iff_mem, List.mem_map, List.mem_cons, List.not_mem_nil, or_false, forall_eq_or_imp, forall_eq]
  constructor
  · rintro ⟨h1, ⟨p, hp, e1⟩, ⟨q, hq, e2⟩⟩; exact ⟨⟨h1, p, hp, e1⟩, q, hq, e2⟩
  · rintro ⟨⟨h1, p, hp, e1⟩, q, hq, e2⟩; exact ⟨h1, ⟨p, hp, e1⟩, ⟨q, hq, e2⟩⟩

end CssVerif.Validate

namespace CssVerif.Validate
variable {π : Type}

theorem allM_all_blocks (acc : π → Str → Option Bool) (reg : Registry π) (ff : Str) (ms : List Block) :
    allM (declValid acc reg ff false) ms = .ok true ↔ ms.all (allEntriesValid acc reg ff false) = true := by
  rw [allM_true, List.all_eq_true]
  constructor
  · intro h b hb; exact (declValid_true_iff acc reg ff false b).1 (h b hb)
  · intro h b hb; exact (declValid_true_iff acc reg ff false b).2 (h b hb)

mutual
/-- a rule that has `valid`: it is `True` iff every declaration anywhere inside the rule is valid (for
`@font-face` also the two required descriptors); a rule without `valid` has no declarations -/
theorem ruleValid_spec (acc : π → Str → Option Bool) (reg : Registry π) (ff : Str) : (r : Rule) →
    (ruleValid acc reg ff r = none ∧ ruleAllValid acc reg ff r = true) ∨
    (∃ v, ruleValid acc reg ff r = some v ∧ (v = .ok true ↔ ruleAllValid acc reg ff r = true))
  | .style b => Or.inr ⟨declValid acc reg ff false b, by simp [ruleValid], by
      simp only [ruleAllValid]; exact declValid_true_iff acc reg ff false b⟩
  | .fontFace b => Or.inr ⟨fontFaceValid acc reg ff b, by simp [ruleValid], fontFaceValid_true_iff acc reg ff b⟩
  | .media rs => Or.inr ⟨rulesValid acc reg ff rs, by simp [ruleValid], by
      simp only [ruleAllValid]; exact rulesValid_spec acc reg ff rs⟩
  | .page b ms => Or.inr ⟨pageValid acc reg ff b ms, by simp [ruleValid], by
      simp only [ruleAllValid, Bool.and_eq_true, pageValid]
      have hd := declValid_true_iff acc reg ff false b
      cases hb : declValid acc reg ff false b with
      | error e =>
        rw [hb] at hd
        constructor
        · intro h; cases h
        · intro h; cases hd.2 h.1
      | ok v =>
        rw [hb] at hd
        cases v with
        | false =>
          constructor
          · intro h; cases h
          · intro h; cases hd.2 h.1
        | true =>
          rw [allM_all_blocks]
          constructor
          · intro h; exact ⟨hd.1 rfl, h⟩
          · intro h; exact h.2⟩
  | .other => Or.inl ⟨by simp [ruleValid], by simp [ruleAllValid]⟩
theorem rulesValid_spec (acc : π → Str → Option Bool) (reg : Registry π) (ff : Str) : (rs : List Rule) →
    (rulesValid acc reg ff rs = .ok true ↔ rulesAllValid acc reg ff rs = true)
  | [] => by simp [rulesValid, rulesAllValid]
  | r :: rs => by
      have ih := rulesValid_spec acc reg ff rs
      simp only [rulesValid, rulesAllValid, Bool.and_eq_true]
      rcases ruleValid_spec acc reg ff r with ⟨h1, h2⟩ | ⟨v, h1, h2⟩
      · simp only [h1, h2, true_and]; exact ih
      · simp only [h1]
        cases v with
        | error e =>
          have : ¬ ruleAllValid acc reg ff r = true := fun h => by cases h2.2 h
          simp [this]
        | ok b =>
          cases b with
          | false =>
            have : ¬ ruleAllValid acc reg ff r = true := fun h => by cases h2.2 h
            simp [this]
          | true =>
            have : ruleAllValid acc reg ff r = true := h2.1 rfl
            simp only [this, true_and]; exact ih
end

/-- `CSSStyleSheet.valid` ⇔ every declaration anywhere in the sheet is valid -/
theorem sheet_conjunction (acc : π → Str → Option Bool) (reg : Registry π) (ff : Str) (rules : List Rule) :
    sheetValid acc reg ff rules = .ok true ↔ rulesAllValid acc reg ff rules = true :=
  rulesValid_spec acc reg ff rules

end CssVerif.Validate

/-! ## the duplicate-free evaluation used by the driver computes the same verdict -/
namespace CssVerif.Validate
open CssVerif

theorem mem_dedup : ∀ (l : List Nat) (x : Nat), x ∈ dedup l ↔ x ∈ l := by
  intro l
  induction l with
  | nil => intro x; simp [dedup]
  | cons a r ih =>
    intro x
    simp only [dedup]
    split
    · rename_i hc
      simp only [List.contains_iff_mem] at hc
      rw [ih, List.mem_cons]
      constructor
      · exact Or.inr
      · rintro (rfl | h)
        · exact (ih x).1 hc
        · exact h
    · simp only [List.mem_cons, ih]

theorem mem_starSet {f g : List Nat → List Nat} (h : ∀ s l, l ∈ f s ↔ l ∈ g s) (gr : Bool) :
    ∀ fuel s l, l ∈ starSet f fuel s ↔ l ∈ Re.starMs g gr fuel s := by
  intro fuel
  induction fuel with
  | zero => intro s l; simp [starSet, Re.starMs]
  | succ n ih =>
    intro s l
    simp only [starSet, Re.starMs, mem_dedup]
    have key : (l ∈ (((f s).filter (· > 0)).flatMap fun l1 => (starSet f n (s.drop l1)).map (l1 + ·))) ↔
        (l ∈ (((g s).filter (· > 0)).flatMap fun l1 => (Re.starMs g gr n (s.drop l1)).map (l1 + ·))) := by
      simp only [List.mem_flatMap, List.mem_filter, List.mem_map, h, ih]
    cases gr
    · simp only [Bool.false_eq_true, if_false, List.mem_cons, key]
    · simp only [if_true, List.mem_cons, List.mem_append, List.not_mem_nil, or_false, key]
      constructor
      · rintro (h | h); exact Or.inr h; exact Or.inl h
      · rintro (h | h); exact Or.inr h; exact Or.inl h

theorem mem_repSet {f g : List Nat → List Nat} (h : ∀ s l, l ∈ f s ↔ l ∈ g s) (gr : Bool) :
    ∀ n m s l, l ∈ repSet f m n s ↔ l ∈ Re.repMs g gr m n s := by
  intro n
  induction n with
  | zero => intro m s l; simp [repSet, Re.repMs]
  | succ n ih =>
    intro m s l
    simp only [repSet, Re.repMs, mem_dedup]
    have key : (l ∈ ((f s).flatMap fun l1 => (repSet f (m - 1) n (s.drop l1)).map (l1 + ·))) ↔
        (l ∈ ((g s).flatMap fun l1 => (Re.repMs g gr (m - 1) n (s.drop l1)).map (l1 + ·))) := by
      simp only [List.mem_flatMap, List.mem_map, h, ih]
    by_cases hm : m = 0
    · simp only [hm, if_true]
      cases gr
      · simp only [Bool.false_eq_true, if_false, List.mem_cons]
        rw [show (0 : Nat) - 1 = 0 from rfl] at *
        subst hm; rw [key]
      · simp only [if_true, List.mem_cons, List.mem_append, List.not_mem_nil, or_false]
        subst hm; rw [key]
        constructor
        · rintro (h | h); exact Or.inr h; exact Or.inl h
        · rintro (h | h); exact Or.inr h; exact Or.inl h
    · simp only [hm, if_false]; exact key

/-- the set evaluation has exactly the members of the list-of-successes semantics -/
theorem mem_msSet : ∀ (r : Re) (s : Str) (l : Nat), l ∈ msSet r s ↔ l ∈ r.ms s := by
  intro r
  induction r with
  | eps => intro s l; simp [msSet, Re.ms]
  | cls neg rs => intro s l; cases s <;> simp [msSet, Re.ms]
  | seq a b iha ihb =>
    intro s l
    simp only [msSet, Re.ms, mem_dedup, List.mem_flatMap, List.mem_map, iha, ihb]
  | alt a b iha ihb =>
    intro s l
    simp only [msSet, Re.ms, mem_dedup, List.mem_append, iha, ihb]
  | star a g iha => intro s l; exact mem_starSet iha g _ s l
  | rep a m n g iha => intro s l; exact mem_repSet iha g n m s l
  | eol => intro s l; simp [msSet, Re.ms]

theorem acceptsFast_eq (r : Re) (s : Str) : acceptsFast r s = accepts r s := by
  unfold acceptsFast accepts
  cases h1 : msSet r s with
  | nil =>
    cases h2 : r.ms s with
    | nil => rfl
    | cons x xs =>
      have : x ∈ msSet r s := (mem_msSet r s x).2 (by rw [h2]; simp)
      rw [h1] at this; simp at this
  | cons y ys =>
    cases h2 : r.ms s with
    | nil =>
      have : y ∈ r.ms s := (mem_msSet r s y).1 (by rw [h1]; simp)
      rw [h2] at this; simp at this
    | cons x xs => rfl

end CssVerif.Validate

/-! ## `validateWithProfile(...)[0]` is `validate(...)` -/
namespace CssVerif.Validate
variable {π : Type}

theorem find_of_mem_nodup : ∀ (l : List (Profile π)) (p : Profile π), p ∈ l → (l.map (·.name)).Nodup →
    l.find? (fun x => x.name == p.name) = some p := by
  intro l
  induction l with
  | nil => intro p hp; simp at hp
  | cons x r ih =>
    intro p hp hnd
    simp only [List.map_cons, List.nodup_cons] at hnd
    simp only [List.find?_cons]
    simp only [List.mem_cons] at hp
    rcases hp with rfl | hp
    · simp
    · have hne : (x.name == p.name) = false := by
        apply beq_eq_false_iff_ne.2
        intro e
        exact hnd.1 (by rw [e]; exact List.mem_map.2 ⟨p, hp, rfl⟩)
      simp only [hne]
      exact ih p hp hnd.2

theorem get_of_mem (reg : Registry π) (hnd : reg.names.Nodup) (p : Profile π) (hp : p ∈ reg.profiles) :
    reg.get p.name = .ok p.props := by
  unfold Registry.get
  rw [find_of_mem_nodup reg.profiles p hp hnd]

theorem registered_mem_names (reg : Registry π) (q : Str) (h : registered reg q = true) : q ∈ reg.names := by
  unfold registered at h
  cases hg : reg.get q with
  | error e => simp [hg] at h
  | ok props =>
    obtain ⟨p, hp, rfl, _⟩ := get_mem reg q props hg
    exact List.mem_map.2 ⟨p, hp, rfl⟩

/-- `validate` says `True` iff some registered profile accepts -/
theorem validate_iff (acc : π → Str → Option Bool) (reg : Registry π) (hnd : reg.names.Nodup) (n v : Str) :
    validate acc reg n v = true ↔ ∃ q ∈ reg.names, acceptsIn acc reg n v q = true := by
  simp only [validate, List.any_eq_true]
  constructor
  · rintro ⟨p, hp, h⟩
    refine ⟨p.name, List.mem_map.2 ⟨p, hp, rfl⟩, ?_⟩
    simp only [acceptsIn, get_of_mem reg hnd p hp]
    exact h
  · rintro ⟨q, hq, h⟩
    obtain ⟨p, hp, rfl⟩ := List.mem_map.1 hq
    refine ⟨p, hp, ?_⟩
    simp only [acceptsIn, get_of_mem reg hnd p hp] at h
    exact h

/-- the first component of `validateWithProfile` does not depend on `profiles` nor on `defaultProfiles`:
it is `validate(name, value)` -/
theorem vwp_valid_eq_validate (acc : π → Str → Option Bool) (reg : Registry π) (hnd : reg.names.Nodup)
    (n v : Str) (ps : Option (List Str)) (a m : Bool) (l : List Str)
    (h : validateWithProfile acc reg n v ps = .ok (a, m, l)) : a = validate acc reg n v := by
  have hv := validate_iff acc reg hnd n v
  rw [vwp_unfold] at h
  by_cases hkn : reg.knownNames.contains n = true
  · simp only [hkn, Bool.not_true, Bool.false_eq_true, if_false] at h
    cases h1 : firstAccepting acc reg n v (active reg ps).reverse with
    | error e => simp [h1] at h
    | ok o =>
      simp only [h1] at h
      cases o with
      | some q =>
        simp only [Except.ok.injEq, Prod.mk.injEq] at h
        have hq := firstAccepting_some acc reg n v _ q h1
        have hreg : registered reg q = true := by
          have := hq.2
          unfold acceptsIn at this
          unfold registered
          cases hg : reg.get q with
          | error e => simp [hg] at this
          | ok _ => rfl
        rw [← h.1]
        exact (hv.2 ⟨q, registered_mem_names reg q hreg, hq.2⟩).symm
      | none =>
        simp only at h
        have hn1 := firstAccepting_none acc reg n v _ h1
        cases h2 : firstAccepting acc reg n v (reg.names.filter fun p => !(active reg ps).contains p) with
        | error e => simp only [h2] at h; cases h
        | ok o2 =>
          simp only [h2] at h
          cases o2 with
          | some q =>
            simp only [Except.ok.injEq, Prod.mk.injEq] at h
            have hq := firstAccepting_some acc reg n v _ q h2
            rw [← h.1]
            exact (hv.2 ⟨q, (List.mem_filter.1 hq.1).1, hq.2⟩).symm
          | none =>
            simp only [Except.ok.injEq, Prod.mk.injEq] at h
            have hn2 := firstAccepting_none acc reg n v _ h2
            rw [← h.1]
            symm
            apply Bool.eq_false_iff.2
            intro hval
            obtain ⟨q, hq, hacc⟩ := hv.1 hval
            by_cases hin : (active reg ps).contains q = true
            · have := (hn1 q (List.mem_reverse.2 (by simpa using hin))).2
              rw [this] at hacc; simp at hacc
            · have := (hn2 q (List.mem_filter.2 ⟨hq, by simpa using hin⟩)).2
              rw [this] at hacc; simp at hacc
  · have hkn' : reg.knownNames.contains n = false := by simpa using hkn
    simp only [hkn', Bool.not_false, if_true, Except.ok.injEq, Prod.mk.injEq] at h
    rw [← h.1, validate_unknown acc reg n v hkn']

end CssVerif.Validate
