import CssVerif.Model.StrCodec
import CssVerif.Model.StrSafe
/-! helper lemmas for `Props/C03.lean`: `re.sub` unfolding, `unicodesub` / `stringsub` on plain text -/
namespace CssVerif.StrCodec
open CssVerif.Proto

/-! ## `reSub` -/

theorem reSubAux_skip (m : Cps → Option (Nat × Cps)) : ∀ (s : Cps) (k : Nat), reSubAux m k s = reSubAux m 0 (s.drop k) := by
  intro s
  induction s with
  | nil => intro k; cases k <;> simp [reSubAux]
  | cons c t ih =>
    intro k
    cases k with
    | zero => simp
    | succ k => simp [reSubAux, ih k]

@[simp] theorem reSub_nil (m : Cps → Option (Nat × Cps)) : reSub m [] = [] := by simp [reSub, reSubAux]

theorem reSub_cons_none {m : Cps → Option (Nat × Cps)} {c : Nat} {t : Cps} (h : m (c :: t) = none) :
    reSub m (c :: t) = c :: reSub m t := by
  simp [reSub, reSubAux, h]

theorem reSub_cons_some {m : Cps → Option (Nat × Cps)} {c : Nat} {t : Cps} {r : Nat × Cps} (h : m (c :: t) = some r) :
    reSub m (c :: t) = r.2 ++ reSub m (t.drop (r.1 - 1)) := by
  simp [reSub, reSubAux, h, reSubAux_skip m t (r.1 - 1)]

/-- a matcher that needs a backslash to start -/
def NeedsBs (m : Cps → Option (Nat × Cps)) : Prop := ∀ c t, c ≠ 0x5C → m (c :: t) = none

theorem reSub_plain_append {m : Cps → Option (Nat × Cps)} (hm : NeedsBs m) :
    ∀ (p s : Cps), (∀ x ∈ p, x ≠ 0x5C) → reSub m (p ++ s) = p ++ reSub m s := by
  intro p
  induction p with
  | nil => intro s _; rfl
  | cons c p ih =>
    intro s h
    have hc : c ≠ 0x5C := h c (by simp)
    have := ih s (fun x hx => h x (by simp [hx]))
    simp only [List.cons_append]
    rw [reSub_cons_none (hm c _ hc), this]

theorem escMatch_needsBs : NeedsBs escMatch := by
  intro c t hc
  unfold escMatch
  cases t with
  | nil => rfl
  | cons d t => simp [hc]

theorem strMatch_needsBs : NeedsBs strMatch := by
  intro c t hc
  unfold strMatch
  cases t with
  | nil => rfl
  | cons d t => simp [hc]

theorem usub_cons_ne {c : Nat} (t : Cps) (hc : c ≠ 0x5C) : usub (c :: t) = c :: usub t :=
  reSub_cons_none (escMatch_needsBs c t hc)

theorem usub_plain_append (p s : Cps) (h : ∀ x ∈ p, x ≠ 0x5C) : usub (p ++ s) = p ++ usub s :=
  reSub_plain_append escMatch_needsBs p s h

@[simp] theorem usub_nil : usub [] = [] := reSub_nil _
@[simp] theorem ssub_nil : ssub [] = [] := reSub_nil _

theorem usub_pair (t : Cps) : usub (0x5C :: 0x5C :: t) = 0x5C :: 0x5C :: usub t := by
  have h : escMatch (0x5C :: 0x5C :: t) = some (2, [0x5C, 0x5C]) := by simp [escMatch]
  have := reSub_cons_some h
  simpa [usub] using this

theorem usub_bs_end : usub [0x5C] = [0x5C] := by
  have h : escMatch [0x5C] = none := rfl
  simpa [usub] using reSub_cons_none h

theorem usub_bs_other {d : Nat} (t : Cps) (h1 : d ≠ 0x5C) (h2 : isHex d = false) :
    usub (0x5C :: d :: t) = 0x5C :: d :: usub t := by
  have h : escMatch (0x5C :: d :: t) = none := by simp [escMatch, h1, h2]
  have := reSub_cons_none h
  rw [usub, this, ← usub, usub_cons_ne t h1]

/-- the three escapes `helper.string` writes for line breaks are read back as the line break -/
theorem escMatch_a (t : Cps) : escMatch (0x5C :: 0x61 :: 0x20 :: t) = some (3, [10]) := by
  simp [escMatch, isHex, hexRun, termLen, isTerm, hexNum, hexVal]

theorem escMatch_d (t : Cps) : escMatch (0x5C :: 0x64 :: 0x20 :: t) = some (3, [13]) := by
  simp [escMatch, isHex, hexRun, termLen, isTerm, hexNum, hexVal]

theorem escMatch_c (t : Cps) : escMatch (0x5C :: 0x63 :: 0x20 :: t) = some (3, [12]) := by
  simp [escMatch, isHex, hexRun, termLen, isTerm, hexNum, hexVal]

theorem usub_a (t : Cps) : usub (0x5C :: 0x61 :: 0x20 :: t) = 10 :: usub t := by
  simpa [usub] using reSub_cons_some (escMatch_a t)

theorem usub_d (t : Cps) : usub (0x5C :: 0x64 :: 0x20 :: t) = 13 :: usub t := by
  simpa [usub] using reSub_cons_some (escMatch_d t)

theorem usub_c (t : Cps) : usub (0x5C :: 0x63 :: 0x20 :: t) = 12 :: usub t := by
  simpa [usub] using reSub_cons_some (escMatch_c t)

/-! ## `stringsub` = `unicodesub` on text without a raw line break (everything the serializer writes) -/

theorem reSubAux_congr {m1 m2 : Cps → Option (Nat × Cps)} (P : Cps → Prop) (htail : ∀ c t, P (c :: t) → P t)
    (hm : ∀ s, P s → m1 s = m2 s) : ∀ (s : Cps) (k : Nat), P s → reSubAux m1 k s = reSubAux m2 k s := by
  intro s
  induction s with
  | nil => intro k _; cases k <;> simp [reSubAux]
  | cons c t ih =>
    intro k hp
    have ht := htail c t hp
    cases k with
    | succ k => simp only [reSubAux]; exact ih k ht
    | zero =>
      simp only [reSubAux, hm _ hp]
      cases m2 (c :: t) with
      | none => simp only []; rw [ih 0 ht]
      | some r => simp only []; rw [ih _ ht]

def NoNl (s : Cps) : Prop := ∀ x ∈ s, isNl x = false

theorem strMatch_eq_escMatch (s : Cps) (h : NoNl s) : strMatch s = escMatch s := by
  unfold strMatch
  match s, h with
  | [], _ => rfl
  | [c], _ => rfl
  | c :: d :: t, h =>
    have hd : isNl d = false := h d (by simp)
    have h13 : d ≠ 13 := by intro e; subst e; simp [isNl] at hd
    by_cases hc : c = 0x5C
    · by_cases hd5 : d = 0x5C
      · subst hc; subst hd5; simp [escMatch]
      · simp [hc, hd5, h13, hd]
    · simp [hc, escMatch]

theorem ssub_eq_usub (s : Cps) (h : NoNl s) : ssub s = usub s :=
  reSubAux_congr NoNl (fun c t hp x hx => hp x (by simp [hx])) strMatch_eq_escMatch s 0 h

/-! ## hex runs -/

theorem hexRun_le : ∀ (n : Nat) (s : Cps), hexRun n s ≤ n
  | 0, _ => by simp [hexRun]
  | n + 1, [] => by simp [hexRun]
  | n + 1, c :: t => by
    simp only [hexRun]
    split
    · have := hexRun_le n t; omega
    · omega

theorem hexRun_take_hex : ∀ (n : Nat) (s : Cps), ∀ x ∈ s.take (hexRun n s), isHex x = true
  | 0, _ => by simp [hexRun]
  | n + 1, [] => by simp [hexRun]
  | n + 1, c :: t => by
    simp only [hexRun]
    split
    · rename_i h
      intro x hx
      simp only [List.take_succ_cons, List.mem_cons] at hx
      rcases hx with rfl | hx
      · exact h
      · exact hexRun_take_hex n t x hx
    · simp

theorem isHex_ne_bs {x : Nat} (h : isHex x = true) : x ≠ 0x5C := by
  intro e; subst e; simp [isHex] at h

theorem isTerm_ne_bs {x : Nat} (h : isTerm x = true) : x ≠ 0x5C := by
  intro e; subst e; simp [isTerm] at h

theorem termLen_take_term : ∀ (s : Cps), ∀ x ∈ s.take (termLen s), isTerm x = true := by
  intro s
  cases s with
  | nil => simp [termLen]
  | cons c t =>
    simp only [termLen]
    split
    · rename_i hc
      subst hc
      cases t with
      | nil => simp [isTerm]
      | cons d t =>
        simp only
        split
        · rename_i hd; subst hd; simp [isTerm]
        · simp [isTerm]
    · split
      · rename_i h; simp [h]
      · simp

/-- an escape that `_repl` leaves as written (more than U+10FFFF): `unicodesub` copies it -/
theorem usub_big {d : Nat} (t : Cps) (hd : isHex d = true)
    (hbig : ¬ hexNum ((d :: t).take (hexRun 6 (d :: t))) ≤ 0x10FFFF) :
    usub (0x5C :: d :: t) = 0x5C :: d :: usub t := by
  have hne : d ≠ 0x5C := isHex_ne_bs hd
  have hnum5c : hexNum ((d :: t).take (hexRun 6 (d :: t))) ≠ 0x5C := by omega
  let n := hexRun 6 (d :: t)
  let tl := termLen ((d :: t).drop n)
  have h : escMatch (0x5C :: d :: t) = some (1 + n + tl, (0x5C :: d :: t).take (1 + n + tl)) := by
    simp only [escMatch, hne, hd, if_false, if_true, hbig, hnum5c, n, tl]
  have e1 := reSub_cons_some h
  simp only [] at e1
  have hplain : ∀ x ∈ (d :: t).take (n + tl), x ≠ 0x5C := by
    intro x hx
    rw [List.take_add] at hx
    simp only [List.mem_append] at hx
    rcases hx with hx | hx
    · exact isHex_ne_bs (hexRun_take_hex 6 (d :: t) x hx)
    · exact isTerm_ne_bs (termLen_take_term _ x hx)
  have e2 : usub (d :: t) = (d :: t).take (n + tl) ++ usub ((d :: t).drop (n + tl)) := by
    conv => lhs; rw [← List.take_append_drop (n + tl) (d :: t)]
    exact usub_plain_append _ _ hplain
  have e3 : (0x5C :: d :: t).take (1 + n + tl) = 0x5C :: (d :: t).take (n + tl) := by
    have : 1 + n + tl = (n + tl) + 1 := by omega
    rw [this, List.take_succ_cons]
  have e4 : 1 + n + tl - 1 = n + tl := by omega
  rw [usub, e1, e3, e4, ← usub, List.cons_append, ← e2, usub_cons_ne t hne]

/-! ## `helper.string` as a character-wise encoder with a special last step -/

def encChar (c : Nat) : Cps :=
  if c = 10 then [0x5C, 0x61, 0x20] else if c = 13 then [0x5C, 0x64, 0x20] else if c = 12 then [0x5C, 0x63, 0x20]
  else if c = 0x22 then [0x5C, 0x22] else [c]

/-- what `helper.string` writes after the opening quote -/
def encTail : Cps → Cps
  | [] => [0x22]
  | [c] => if c = 0x5C then [0x5C, 0x5C, 0x22] else encChar c ++ [0x22]
  | c :: d :: t => encChar c ++ encTail (d :: t)

theorem replace_chain (v : Cps) :
    replace1 0x22 [0x5C, 0x22] (replace1 12 [0x5C, 0x63, 0x20] (replace1 13 [0x5C, 0x64, 0x20]
      (replace1 10 [0x5C, 0x61, 0x20] v))) = v.flatMap encChar := by
  induction v with
  | nil => simp [replace1]
  | cons x v ih =>
    simp only [replace1, List.flatMap_cons, List.flatMap_append] at ih ⊢
    rw [ih]
    congr 1
    unfold encChar
    by_cases h10 : x = 10
    · subst h10; simp
    · by_cases h13 : x = 13
      · subst h13; simp
      · by_cases h12 : x = 12
        · subst h12; simp
        · by_cases h22 : x = 0x22
          · subst h22; simp
          · simp [h10, h13, h12, h22]

def fixEnd (b : Cps) : Cps := if b.getLast? = some 0x5C then b.dropLast ++ [0x5C, 0x5C] else b

theorem encChar_ne_nil (c : Nat) : encChar c ≠ [] := by
  unfold encChar; repeat' split
  all_goals simp

theorem getLast?_append_ne_nil (a b : Cps) (hb : b ≠ []) : (a ++ b).getLast? = b.getLast? := by
  rw [List.getLast?_append]
  cases h : b.getLast? with
  | none => simp [List.getLast?_eq_none_iff] at h; contradiction
  | some x => simp

theorem flatMap_encChar_ne_nil (d : Nat) (t : Cps) : (d :: t).flatMap encChar ≠ [] := by
  simp [encChar_ne_nil]

theorem fixEnd_append (a b : Cps) (hb : b ≠ []) : fixEnd (a ++ b) = a ++ fixEnd b := by
  unfold fixEnd
  rw [getLast?_append_ne_nil _ _ hb, List.dropLast_append_of_ne_nil hb]
  split <;> simp

theorem fixEnd_encTail : ∀ v : Cps, fixEnd (v.flatMap encChar) ++ [0x22] = encTail v
  | [] => by simp [fixEnd, encTail]
  | [c] => by
    simp only [List.flatMap_cons, List.flatMap_nil, List.append_nil, encTail]
    by_cases h : c = 0x5C
    · subst h; simp [encChar, fixEnd]
    · simp only [h, if_false]
      congr 1
      unfold fixEnd encChar
      by_cases h10 : c = 10
      · subst h10; simp
      · by_cases h13 : c = 13
        · subst h13; simp
        · by_cases h12 : c = 12
          · subst h12; simp
          · by_cases h22 : c = 0x22
            · subst h22; simp
            · simp [h10, h13, h12, h22, h]
  | c :: d :: t => by
    rw [List.flatMap_cons, fixEnd_append _ _ (flatMap_encChar_ne_nil d t), List.append_assoc,
      fixEnd_encTail (d :: t), encTail]

/-- parity automaton of the trailing run of backslashes, read left to right -/
def stA (s : Bool) (c : Nat) : Bool := if c = 0x5C then !s else false
/-- "the last character is a backslash", read left to right -/
def stB (_ : Bool) (c : Nat) : Bool := decide (c = 0x5C)

theorem run_snoc (E : Cps) (c : Nat) :
    ((E ++ [c]).reverse.takeWhile (· = 0x5C)).length =
      if c = 0x5C then (E.reverse.takeWhile (· = 0x5C)).length + 1 else 0 := by
  simp only [List.reverse_append, List.reverse_cons, List.reverse_nil, List.nil_append, List.singleton_append]
  by_cases h : c = 0x5C <;> simp [List.takeWhile, h]

theorem run_parity_rev (R : Cps) :
    decide ((R.reverse.reverse.takeWhile (· = 0x5C)).length % 2 = 1) = R.reverse.foldl stA false := by
  induction R with
  | nil => simp
  | cons c R ih =>
    generalize hE : R.reverse = E at ih
    rw [List.reverse_cons, hE, run_snoc, List.foldl_append]
    simp only [List.foldl_cons, List.foldl_nil, stA]
    by_cases h : c = 0x5C
    · simp only [h, if_true]
      rw [← ih]
      by_cases hp : (E.reverse.takeWhile (· = 0x5C)).length % 2 = 1
      · simp [hp]; omega
      · simp [hp]; omega
    · simp [h]

theorem run_parity (E : Cps) : decide ((E.reverse.takeWhile (· = 0x5C)).length % 2 = 1) = E.foldl stA false := by
  have := run_parity_rev E.reverse
  simpa using this

theorem last_bs_rev (R : Cps) : decide (R.reverse.getLast? = some 0x5C) = R.reverse.foldl stB false := by
  cases R with
  | nil => simp
  | cons c R =>
    rw [List.reverse_cons, List.foldl_append]
    simp [stB]

theorem last_bs (E : Cps) : decide (E.getLast? = some 0x5C) = E.foldl stB false := by
  have := last_bs_rev E.reverse
  simpa using this

theorem encChar_st (c : Nat) (hc : c ≠ 0x5C) (s : Bool) :
    (encChar c).foldl stA s = false ∧ (encChar c).foldl stB s = false := by
  unfold encChar
  by_cases h10 : c = 10
  · subst h10; simp [stA, stB]
  · by_cases h13 : c = 13
    · subst h13; simp [stA, stB]
    · by_cases h12 : c = 12
      · subst h12; simp [stA, stB]
      · by_cases h22 : c = 0x22
        · subst h22; simp [stA, stB]
        · simp [h10, h13, h12, h22, stA, stB, hc]

theorem encChar_bs : encChar 0x5C = [0x5C] := by decide

/-- on a value the scan accepts (quoted mode), the trailing run of backslashes of the escaped text is empty or odd:
the parity automaton and the "ends in a backslash" automaton end in the same state -/
theorem scan_run (m : Mode) (hm : m.trailBad = true) (v : Cps) (h : scan m v = none) :
    (v.flatMap encChar).foldl stA false = (v.flatMap encChar).foldl stB false := by
  fun_induction scan m v with
  | case1 => rfl
  | case2 => simp [encChar_bs, stA, stB]
  | case3 ht => simp at h
  | case4 ht => simp [hm] at ht
  | case5 e tail ih =>
    simp only [List.flatMap_cons, encChar_bs, List.singleton_append, List.foldl_cons, stA, stB, if_true,
      Bool.not_false, Bool.not_true, decide_true] at ih ⊢
    by_cases he : e = 0x5C
    · subst he
      simp only [encChar_bs, List.singleton_append, List.foldl_cons, stA, stB, if_true, Bool.not_false, decide_true] at ih ⊢
      exact ih h
    · rw [List.foldl_append, List.foldl_append, (encChar_st e he _).1, (encChar_st e he _).2]
      have := ih h
      rw [List.foldl_append, List.foldl_append, (encChar_st e he _).1, (encChar_st e he _).2] at this
      exact this
  | case6 e tail hne hh hnum => simp [hnum] at h
  | case7 e tail hne hh hnum ih =>
    have h' : scan m tail = none := by simpa [hnum] using h
    simp only [List.flatMap_cons, encChar_bs, List.singleton_append, List.foldl_cons]
    rw [List.foldl_append, List.foldl_append, (encChar_st e hne _).1, (encChar_st e hne _).2]
    exact ih h'
  | case8 e tail hne hh hnl => simp at h
  | case9 tail _ _ _ => simp at h
  | case10 e tail hne hh hnl hdq ih =>
    simp only [List.flatMap_cons, encChar_bs, List.singleton_append, List.foldl_cons]
    rw [List.foldl_append, List.foldl_append, (encChar_st e hne _).1, (encChar_st e hne _).2]
    exact ih h
  | case11 c t hc ih =>
    simp only [List.flatMap_cons]
    rw [List.foldl_append, List.foldl_append, (encChar_st c hc _).1, (encChar_st c hc _).2]
    exact ih h


/-- `helper.string` on a value the scan accepts. Since 61e31a0 `helper.string` appends a backslash only to an ODD trailing
run; on the values the scan accepts (the run is empty or odd, `scan_run`) that is what `encTail` describes. A value that
ends in an escaped backslash (class `trail`) is written complete now, but read back with one backslash less
(`stringvalue` takes `\"` for an escaped quote): it stays outside the safe domain. -/
theorem helperString_eq (m : Mode) (hm : m.trailBad = true) (v : Cps) (h : scan m v = none) :
    helperString v = 0x22 :: encTail v := by
  unfold helperString
  simp only [replace_chain]
  rw [← fixEnd_encTail]
  have h1 := run_parity (v.flatMap encChar)
  have h2 := last_bs (v.flatMap encChar)
  have h3 := scan_run m hm v h
  have key : ((List.takeWhile (fun x => decide (x = 0x5C)) (v.flatMap encChar).reverse).length % 2 = 1) ↔
      (v.flatMap encChar).getLast? = some 0x5C := by
    rw [← decide_eq_decide, h1, h2, h3]
  unfold fixEnd
  simp only [List.cons_append]
  by_cases hl : (v.flatMap encChar).getLast? = some 0x5C
  · have hne : v.flatMap encChar ≠ [] := by intro e; rw [e] at hl; simp at hl
    have hd : (v.flatMap encChar).dropLast ++ [0x5C, 0x5C] = v.flatMap encChar ++ [0x5C] := by
      have h5 := List.dropLast_concat_getLast hne
      have h6 : (v.flatMap encChar).getLast hne = 0x5C := by
        rw [List.getLast?_eq_getLast hne] at hl; exact Option.some.inj hl
      rw [h6] at h5
      calc (v.flatMap encChar).dropLast ++ [0x5C, 0x5C]
          = ((v.flatMap encChar).dropLast ++ [0x5C]) ++ [0x5C] := by simp
        _ = v.flatMap encChar ++ [0x5C] := by rw [h5]
    rw [if_pos (key.2 hl), if_pos hl, hd]
  · have hn : ¬ ((List.takeWhile (fun x => decide (x = 0x5C)) (v.flatMap encChar).reverse).length % 2 = 1) :=
      fun e => hl (key.1 e)
    rw [if_neg hn, if_neg hl]

/-! ## what `unicodesub` does to the written form of a safe value -/

def midChar (c : Nat) : Cps := if c = 0x22 then [0x5C, 0x22] else [c]

/-- `encTail` after `unicodesub`: the line-break escapes are decoded, nothing else changes -/
def midTail : Cps → Cps
  | [] => [0x22]
  | [c] => if c = 0x5C then [0x5C, 0x5C, 0x22] else midChar c ++ [0x22]
  | c :: d :: t => midChar c ++ midTail (d :: t)

theorem encTail_cons (c : Nat) (t : Cps) (h : ¬ (c = 0x5C ∧ t = [])) : encTail (c :: t) = encChar c ++ encTail t := by
  cases t with
  | nil => simp at h; simp [encTail, h]
  | cons d t => simp [encTail]

theorem midTail_cons (c : Nat) (t : Cps) (h : ¬ (c = 0x5C ∧ t = [])) : midTail (c :: t) = midChar c ++ midTail t := by
  cases t with
  | nil => simp at h; simp [midTail, h]
  | cons d t => simp [midTail]

theorem encChar_plain {c : Nat} (h1 : isNl c = false) (h2 : c ≠ 0x22) : encChar c = [c] := by
  simp [isNl] at h1
  simp [encChar, h1, h2]

theorem isHex_not_nl {c : Nat} (h : isHex c = true) : isNl c = false := by
  simp [isHex, isNl] at *; omega

theorem isHex_ne_dq {c : Nat} (h : isHex c = true) : c ≠ 0x22 := by
  intro e; subst e; simp [isHex] at h

theorem usub_encChar (c : Nat) (X : Cps) (hc : c ≠ 0x5C) : usub (encChar c ++ X) = midChar c ++ usub X := by
  unfold encChar midChar
  by_cases h10 : c = 10
  · subst h10; simp [usub_a]
  · by_cases h13 : c = 13
    · subst h13; simp [usub_d]
    · by_cases h12 : c = 12
      · subst h12; simp [usub_c]
      · by_cases h22 : c = 0x22
        · subst h22; simp [usub_bs_other _ (by decide : (0x22:Nat) ≠ 0x5C) (by decide : isHex 0x22 = false)]
        · simp [h10, h13, h12, h22, usub_cons_ne _ hc]

/-- head of the encoded tail is never a hex digit unless the value starts with that digit -/
theorem hexTake_encTail : ∀ (n : Nat) (u rest : Cps),
    (encTail u ++ rest).take (hexRun n (encTail u ++ rest)) = u.take (hexRun n u)
  | 0, _, _ => by simp [hexRun]
  | n + 1, [], rest => by simp [encTail, hexRun, isHex]
  | n + 1, c :: u, rest => by
    by_cases hh : isHex c = true
    · have hc : c ≠ 0x5C := isHex_ne_bs hh
      rw [encTail_cons c u (by simp [hc]), encChar_plain (isHex_not_nl hh) (isHex_ne_dq hh)]
      simp only [List.cons_append, List.nil_append, hexRun, hh, if_true, List.take_succ_cons]
      rw [hexTake_encTail n u rest]
    · have hh' : isHex c = false := by simpa using hh
      simp only [hexRun, hh', Bool.false_eq_true, if_false, List.take_zero]
      by_cases hs : c = 0x5C ∧ u = []
      · obtain ⟨h1, h2⟩ := hs; subst h1; subst h2
        simp [encTail, hexRun, isHex]
      · rw [encTail_cons c u hs]
        unfold encChar
        repeat' split
        all_goals first | (simp [hexRun, hh']; done) | (simp [hexRun, isHex]; done)

theorem usub_encTail (m : Mode) (v rest : Cps) (h : scan m v = none) :
    usub (encTail v ++ rest) = midTail v ++ usub rest := by
  fun_induction scan m v with
  | case1 => simp [encTail, midTail, usub_cons_ne]
  | case2 => simp [encTail, midTail, usub_pair, usub_cons_ne]
  | case3 ht => simp at h
  | case4 ht =>
    simp [encTail, midTail, encChar, midChar, usub_pair,
      usub_bs_other _ (by decide : (0x22:Nat) ≠ 0x5C) (by decide : isHex 0x22 = false)]
  | case5 e tail ih =>
    have e1 : encTail (0x5C :: 0x5C :: e :: tail) = 0x5C :: 0x5C :: encTail (e :: tail) := by
      simp [encTail, encChar]
    have e2 : midTail (0x5C :: 0x5C :: e :: tail) = 0x5C :: 0x5C :: midTail (e :: tail) := by
      simp [midTail, midChar]
    rw [e1, e2]
    simp only [List.cons_append]
    rw [usub_pair, ih h]
  | case6 e tail hne hh hnum => simp [hnum] at h
  | case7 e tail hne hh hnum ih =>
    have e1 : encTail (0x5C :: e :: tail) = 0x5C :: e :: encTail tail := by
      rw [encTail_cons _ _ (by simp), encTail_cons _ _ (by simp [hne]), encChar_plain (isHex_not_nl hh) (isHex_ne_dq hh)]
      simp [encChar]
    have e2 : midTail (0x5C :: e :: tail) = 0x5C :: e :: midTail tail := by
      rw [midTail_cons _ _ (by simp), midTail_cons _ _ (by simp [hne])]
      simp [midChar, isHex_ne_dq hh]
    rw [e1, e2]
    simp only [List.cons_append]
    have key : ¬ hexNum ((e :: (encTail tail ++ rest)).take (hexRun 6 (e :: (encTail tail ++ rest)))) ≤ 0x10FFFF := by
      have := hexTake_encTail 6 (e :: tail) rest
      rw [encTail_cons _ _ (by simp [hne]), encChar_plain (isHex_not_nl hh) (isHex_ne_dq hh)] at this
      simp only [List.cons_append, List.nil_append] at this
      rw [this]
      exact hnum
    have h' : scan m tail = none := by simpa [hnum] using h
    rw [usub_big _ hh key, ih h']
  | case8 e tail hne hh hnl => simp at h
  | case9 tail _ _ _ => simp at h
  | case10 e tail hne hh hnl hdq ih =>
    have hh' : isHex e = false := by simpa using hh
    have hnl' : isNl e = false := by simpa using hnl
    have e1 : encTail (0x5C :: e :: tail) = 0x5C :: e :: encTail tail := by
      rw [encTail_cons _ _ (by simp), encTail_cons _ _ (by simp [hne]), encChar_plain hnl' hdq]
      simp [encChar]
    have e2 : midTail (0x5C :: e :: tail) = 0x5C :: e :: midTail tail := by
      rw [midTail_cons _ _ (by simp), midTail_cons _ _ (by simp [hne])]
      simp [midChar, hdq]
    rw [e1, e2]
    simp only [List.cons_append]
    rw [usub_bs_other _ hne hh', ih h]
  | case11 c t hc ih =>
    by_cases hs : c = 0x5C ∧ t = []
    · exact absurd hs.1 hc
    · rw [encTail_cons _ _ hs, midTail_cons _ _ hs, List.append_assoc, usub_encChar _ _ hc, ih h, List.append_assoc]

/-! ## `stringvalue` on the unescaped form -/

theorem midTail_head (d : Nat) (t : Cps) : ∃ X, midTail (d :: t) = (if d = 0x22 then 0x5C else d) :: X := by
  by_cases hs : d = 0x5C ∧ t = []
  · obtain ⟨h1, h2⟩ := hs; subst h1; subst h2; exact ⟨[0x5C, 0x22], by simp [midTail]⟩
  · rw [midTail_cons _ _ hs]
    unfold midChar
    split
    · exact ⟨_, rfl⟩
    · exact ⟨_, rfl⟩

theorem replace2_cons_ne {a b : Nat} {r : Cps} {x : Nat} (t : Cps) (h : x ≠ a) :
    replace2 a b r (x :: t) = x :: replace2 a b r t := by
  cases t with
  | nil => simp [replace2]
  | cons y t => simp [replace2, h]

theorem replace2_bs_ne {b : Nat} {r : Cps} {y : Nat} (t : Cps) (h : y ≠ b) :
    replace2 0x5C b r (0x5C :: y :: t) = 0x5C :: replace2 0x5C b r (y :: t) := by
  simp [replace2, h]

/-- `stringvalue`'s replace removes exactly the backslash `helper.string` put before each quote — for every value -/
theorem replace2_midTail : ∀ v : Cps, replace2 0x5C 0x22 [0x22] (midTail v) = v ++ [0x22]
  | [] => by simp [midTail, replace2]
  | [c] => by
    by_cases h : c = 0x5C
    · subst h; simp [midTail, replace2]
    · by_cases h2 : c = 0x22
      · subst h2; simp [midTail, midChar, replace2]
      · simp [midTail, midChar, h, h2, replace2]
  | c :: d :: t => by
    have ih := replace2_midTail (d :: t)
    rw [midTail]
    by_cases h2 : c = 0x22
    · subst h2
      simp only [midChar, if_true, List.cons_append, List.nil_append]
      rw [replace2]
      · simp [ih]
    · obtain ⟨X, hX⟩ := midTail_head d t
      have hh : (if d = 0x22 then 0x5C else d) ≠ 0x22 := by split <;> simp_all
      simp only [midChar, h2, if_false, List.cons_append, List.nil_append]
      by_cases h : c = 0x5C
      · subst h
        rw [hX, replace2_bs_ne _ hh, ← hX, ih]; simp
      · rw [replace2_cons_ne _ h, ih]; simp

theorem inner_quoted (v : Cps) : inner (0x22 :: (v ++ [0x22])) = v := by
  simp [inner]

theorem stringvalue_midTail (v : Cps) : stringvalue (0x22 :: midTail v) = some v := by
  simp only [stringvalue]
  rw [replace2_cons_ne _ (by decide), replace2_midTail, inner_quoted]

/-- T3.1 core: for a safe value, reading back what `helper.string` wrote gives the value -/
theorem encChar_noNl (c : Nat) : NoNl (encChar c) := by
  intro x hx
  unfold encChar at hx
  by_cases h10 : c = 10
  · simp [h10] at hx; rcases hx with rfl | rfl | rfl <;> decide
  · by_cases h13 : c = 13
    · simp [h13] at hx; rcases hx with rfl | rfl | rfl <;> decide
    · by_cases h12 : c = 12
      · simp [h12] at hx; rcases hx with rfl | rfl | rfl <;> decide
      · by_cases h22 : c = 0x22
        · simp [h22] at hx; rcases hx with rfl | rfl <;> decide
        · simp [h10, h13, h12, h22] at hx; subst hx; simp [isNl, h10, h13, h12]

/-- `helper.string` never writes a raw line break -/
theorem encTail_noNl : ∀ v : Cps, NoNl (encTail v)
  | [] => by intro x hx; simp [encTail] at hx; subst hx; decide
  | [c] => by
    intro x hx
    simp only [encTail] at hx
    split at hx
    · simp at hx; rcases hx with rfl | rfl | rfl <;> decide
    · simp only [List.mem_append, List.mem_singleton] at hx
      rcases hx with hx | rfl
      · exact encChar_noNl c x hx
      · decide
  | c :: d :: t => by
    intro x hx
    simp only [encTail, List.mem_append] at hx
    rcases hx with hx | hx
    · exact encChar_noNl c x hx
    · exact encTail_noNl (d :: t) x hx

/-- T3.1 core: for a safe value, reading back what `helper.string` wrote gives the value -/
theorem strD_strE_of_scan (m : Mode) (hm : m.trailBad = true) (v : Cps) (h : scan m v = none) :
    strD (strE v) = some v := by
  have e1 : usub (encTail v) = midTail v := by
    have := usub_encTail m v [] h
    simpa using this
  have hn : NoNl (0x22 :: encTail v) := by
    intro x hx
    simp only [List.mem_cons] at hx
    rcases hx with rfl | hx
    · decide
    · exact encTail_noNl v x hx
  simp only [strD, strE, tokValue, helperString_eq m hm v h]
  rw [ssub_eq_usub _ hn, usub_cons_ne _ (by decide), e1, stringvalue_midTail]

/-! ## the written form is one STRING token -/

/-- characters the string recogniser steps over one at a time -/
def PlainS (q x : Nat) : Prop := x ≠ q ∧ x ≠ 0x5C ∧ isNl x = false

theorem strBody_plain {q c : Nat} (t : Cps) (h : PlainS q c) : strBody q (c :: t) = (strBody q t).map (· + 1) := by
  obtain ⟨h1, h2, h3⟩ := h
  simp [strBody, strBodyAux, h1, h2, h3]

theorem strBodyAux_skip_plain (q : Nat) : ∀ (s : Cps) (n : Nat), (∀ x ∈ s.take n, PlainS q x) →
    strBodyAux q n s = strBodyAux q 0 s := by
  intro s
  induction s with
  | nil => intro n _; cases n <;> simp [strBodyAux]
  | cons c t ih =>
    intro n h
    cases n with
    | zero => rfl
    | succ k =>
      have hc : PlainS q c := h c (by simp)
      have ht : ∀ x ∈ t.take k, PlainS q x := fun x hx => h x (by simp [hx])
      have := strBody_plain (q := q) t hc
      simp only [strBody] at this
      rw [this, strBodyAux, ih k ht]

theorem strBody_close (q : Nat) (t : Cps) : strBody q (q :: t) = some 1 := by
  simp [strBody, strBodyAux]

/-- `\` + a character that is neither a hex digit nor CR: two characters -/
theorem strBody_esc1 {q d : Nat} (t : Cps) (hq : q ≠ 0x5C) (h1 : isHex d = false) (h2 : d ≠ 13) :
    strBody q (0x5C :: d :: t) = (strBody q t).map (· + 2) := by
  simp only [strBody, strBodyAux, hq.symm, if_false, if_true, h1, h2, false_and, Bool.false_eq_true]
  cases strBodyAux q 0 t <;> simp

theorem strBodyAux_two (q a b : Nat) (t : Cps) :
    strBodyAux q 2 (a :: b :: t) = (strBodyAux q 0 t).map (· + 2) := by
  have : strBodyAux q 2 (a :: b :: t) = ((strBodyAux q 0 t).map (· + 1)).map (· + 1) := rfl
  rw [this]; cases strBodyAux q 0 t <;> simp

theorem strBody_nlEsc {q a : Nat} (t : Cps) (hq : q ≠ 0x5C) (ha : a = 0x61 ∨ a = 0x64 ∨ a = 0x63) :
    strBody q (0x5C :: a :: 0x20 :: t) = (strBody q t).map (· + 3) := by
  rcases ha with rfl | rfl | rfl <;>
  · simp only [strBody, strBodyAux, hq.symm, if_false, if_true, isHex, hexRun, termLen, isTerm]
    simp [strBodyAux_two]
    cases strBodyAux q 0 t <;> simp

theorem hexDrop_encTail : ∀ (n : Nat) (u rest : Cps),
    (encTail u ++ rest).drop (hexRun n (encTail u ++ rest)) = encTail (u.drop (hexRun n u)) ++ rest
  | 0, _, _ => by simp [hexRun]
  | n + 1, [], rest => by simp [encTail, hexRun, isHex]
  | n + 1, c :: u, rest => by
    by_cases hh : isHex c = true
    · have hc : c ≠ 0x5C := isHex_ne_bs hh
      rw [encTail_cons c u (by simp [hc]), encChar_plain (isHex_not_nl hh) (isHex_ne_dq hh)]
      simp only [List.cons_append, List.nil_append, hexRun, hh, if_true, List.drop_succ_cons]
      rw [hexDrop_encTail n u rest]
    · have hh' : isHex c = false := by simpa using hh
      simp only [hexRun, hh', Bool.false_eq_true, if_false, List.drop_zero]
      by_cases hs : c = 0x5C ∧ u = []
      · obtain ⟨h1, h2⟩ := hs; subst h1; subst h2
        simp [encTail, hexRun, isHex]
      · rw [encTail_cons c u hs]
        unfold encChar
        repeat' split
        all_goals first | (simp [hexRun, hh']; done) | (simp [hexRun, isHex]; done)

theorem termTake_encTail (w rest : Cps) : ∀ x ∈ (encTail w ++ rest).take (termLen (encTail w ++ rest)), isNl x = false := by
  cases w with
  | nil => simp [encTail, termLen, isTerm]
  | cons c w =>
    by_cases hs : c = 0x5C ∧ w = []
    · obtain ⟨h1, h2⟩ := hs; subst h1; subst h2
      simp [encTail, termLen, isTerm]
    · rw [encTail_cons c w hs]
      unfold encChar
      repeat' split
      all_goals try (simp [termLen, isTerm]; done)
      rename_i h10 h13 h12 h22
      simp only [List.cons_append, List.nil_append, termLen, h13, if_false]
      split
      · intro x hx
        simp at hx
        subst hx
        simp [isNl, h10, h13, h12]
      · simp

theorem strBody_big {q d : Nat} (t : Cps) (hq : q ≠ 0x5C) (hd : isHex d = true)
    (hp : ∀ x ∈ (d :: t).take (hexRun 6 (d :: t) + termLen ((d :: t).drop (hexRun 6 (d :: t)))), PlainS q x) :
    strBody q (0x5C :: d :: t) = (strBody q (d :: t)).map (· + 1) := by
  have e : strBody q (0x5C :: d :: t) = (strBodyAux q (hexRun 6 (d :: t) +
      termLen ((d :: t).drop (hexRun 6 (d :: t)))) (d :: t)).map (· + 1) := by
    conv => lhs; simp only [strBody, strBodyAux, hq.symm, if_false, if_true, hd]
  rw [e, strBodyAux_skip_plain q _ _ hp]
  rfl

theorem isHex_plainS {x : Nat} (h : isHex x = true) : PlainS 0x22 x :=
  ⟨isHex_ne_dq h, isHex_ne_bs h, isHex_not_nl h⟩

theorem strBody_encChar (c : Nat) (X : Cps) (hc : c ≠ 0x5C) :
    strBody 0x22 (encChar c ++ X) = (strBody 0x22 X).map (· + (encChar c).length) := by
  have hq : (0x22:Nat) ≠ 0x5C := by decide
  unfold encChar
  by_cases h10 : c = 10
  · subst h10; simpa using strBody_nlEsc X hq (Or.inl rfl)
  · by_cases h13 : c = 13
    · subst h13; simpa using strBody_nlEsc X hq (Or.inr (Or.inl rfl))
    · by_cases h12 : c = 12
      · subst h12; simpa using strBody_nlEsc X hq (Or.inr (Or.inr rfl))
      · by_cases h22 : c = 0x22
        · subst h22
          simpa using strBody_esc1 (q := 0x22) (d := 0x22) X hq (by decide) (by decide)
        · simp only [h10, h13, h12, h22, if_false, List.cons_append, List.nil_append, List.length_singleton]
          exact strBody_plain X ⟨h22, hc, by simp [isNl, h10, h13, h12]⟩

theorem lex_encTail (m : Mode) (hm : m.trailBad = true) (v rest : Cps) (h : scan m v = none) :
    strBody 0x22 (encTail v ++ rest) = some (encTail v).length := by
  have hq : (0x22:Nat) ≠ 0x5C := by decide
  fun_induction scan m v with
  | case1 => simp [encTail, strBody_close]
  | case2 =>
    simp only [encTail, if_true, List.cons_append, List.nil_append]
    rw [strBody_esc1 _ hq (by decide) (by decide), strBody_close]; rfl
  | case3 ht => simp at h
  | case4 ht => exact absurd hm ht
  | case5 e tail ih =>
    have h' : scan m (e :: tail) = none := h
    have e1 : encTail (0x5C :: 0x5C :: e :: tail) = 0x5C :: 0x5C :: encTail (e :: tail) := by
      simp [encTail, encChar]
    rw [e1]
    simp only [List.cons_append]
    rw [strBody_esc1 _ hq (by decide) (by decide), ih h']
    simp
  | case6 e tail hne hh hnum => simp [hnum] at h
  | case7 e tail hne hh hnum ih =>
    have h' : scan m tail = none := by simpa [hnum] using h
    have e0 : encTail (e :: tail) = e :: encTail tail := by
      rw [encTail_cons _ _ (by simp [hne]), encChar_plain (isHex_not_nl hh) (isHex_ne_dq hh)]; rfl
    have e1 : encTail (0x5C :: e :: tail) = 0x5C :: e :: encTail tail := by
      rw [encTail_cons _ _ (by simp), e0]
      simp [encChar]
    rw [e1]
    simp only [List.cons_append]
    have hp : ∀ x ∈ (e :: (encTail tail ++ rest)).take (hexRun 6 (e :: (encTail tail ++ rest)) +
        termLen ((e :: (encTail tail ++ rest)).drop (hexRun 6 (e :: (encTail tail ++ rest))))), PlainS 0x22 x := by
      intro x hx
      rw [List.take_add] at hx
      simp only [List.mem_append] at hx
      rcases hx with hx | hx
      · exact isHex_plainS (hexRun_take_hex 6 _ x hx)
      · have hd := hexDrop_encTail 6 (e :: tail) rest
        rw [e0] at hd
        simp only [List.cons_append] at hd
        rw [hd] at hx
        have hnl := termTake_encTail _ rest x hx
        have ht := termLen_take_term _ x hx
        refine ⟨?_, isTerm_ne_bs ht, hnl⟩
        intro e; subst e; simp [isTerm] at ht
    rw [strBody_big _ hq hh hp, strBody_plain _ (isHex_plainS hh), ih h']
    simp
  | case8 e tail hne hh hnl => simp at h
  | case9 tail _ _ _ => simp at h
  | case10 e tail hne hh hnl hdq ih =>
    have hh' : isHex e = false := by simpa using hh
    have hnl' : isNl e = false := by simpa using hnl
    have h13 : e ≠ 13 := by intro e'; subst e'; simp [isNl] at hnl'
    have e1 : encTail (0x5C :: e :: tail) = 0x5C :: e :: encTail tail := by
      rw [encTail_cons _ _ (by simp), encTail_cons _ _ (by simp [hne]), encChar_plain hnl' hdq]
      simp [encChar]
    rw [e1]
    simp only [List.cons_append]
    rw [strBody_esc1 _ hq hh' h13, ih h]
    simp
  | case11 c t hc ih =>
    have hs : ¬ (c = 0x5C ∧ t = []) := fun hs => hc hs.1
    rw [encTail_cons _ _ hs, List.append_assoc, strBody_encChar _ _ hc, ih h]
    simp [Nat.add_comm]

/-! ## URLs -/

def urlPrefix : Cps := [0x75, 0x72, 0x6C, 0x28]

theorem helperUri_eq (v : Cps) (h : forbMatch v = true → scan .quoted v = none) :
    helperUri v = urlPrefix ++ (if forbMatch v then 0x22 :: encTail v else v) ++ [0x29] := by
  unfold helperUri urlPrefix
  split
  · rename_i hf; simp [helperString_eq .quoted rfl v (h hf)]
  · simp

theorem usub_urlPrefix (X : Cps) : usub (urlPrefix ++ X) = urlPrefix ++ usub X :=
  usub_plain_append _ _ (by simp [urlPrefix])

theorem midTail_getLast : ∀ v : Cps, (midTail v).getLast? = some 0x22
  | [] => by simp [midTail]
  | [c] => by
    simp only [midTail]
    split
    · simp
    · simp
  | c :: d :: t => by
    have ih := midTail_getLast (d :: t)
    have hne : midTail (d :: t) ≠ [] := by
      obtain ⟨X, hX⟩ := midTail_head d t; simp [hX]
    rw [midTail, getLast?_append_ne_nil _ _ hne, ih]

theorem lstrip_head {a : Nat} (t : Cps) (h : isTerm a = false) : lstrip (a :: t) = a :: t := by
  simp [lstrip, h]

theorem strip_of_ends (s : Cps) {a b : Nat} (h1 : s.head? = some a) (ha : isTerm a = false)
    (h2 : s.getLast? = some b) (hb : isTerm b = false) : strip s = s := by
  cases s with
  | nil => simp at h1
  | cons x t =>
    simp at h1; subst h1
    unfold strip
    rw [lstrip_head _ ha]
    have hr : ((x :: t).reverse).head? = some b := by
      rw [List.head?_reverse]; exact h2
    cases hrv : (x :: t).reverse with
    | nil => simp [hrv] at hr
    | cons y u =>
      rw [hrv] at hr
      simp at hr; subst hr
      rw [lstrip_head _ hb, ← hrv, List.reverse_reverse]

theorem findIdx_urlPrefix (X : Cps) : findIdx 0x28 (urlPrefix ++ X) = some 3 := by
  simp [urlPrefix, findIdx]

theorem urivalue_wrapped (Y : Cps) (hs : strip Y = Y) : urivalue (urlPrefix ++ Y ++ [0x29]) = unquoteUri Y := by
  unfold urivalue
  rw [List.append_assoc, findIdx_urlPrefix]
  simp only []
  have : ((urlPrefix ++ (Y ++ [0x29])).dropLast).drop (3 + 1) = Y := by
    rw [← List.append_assoc, List.dropLast_concat]
    simp [urlPrefix]
  rw [this, hs]

theorem uritokenvalue_wrapped (Y : Cps) (hs : strip Y = Y) : uritokenvalue (urlPrefix ++ Y ++ [0x29]) = unquoteUri Y :=
  urivalue_wrapped Y hs

theorem ssub_urlPrefix (X : Cps) : ssub (urlPrefix ++ X) = urlPrefix ++ ssub X :=
  reSub_plain_append strMatch_needsBs _ _ (by simp [urlPrefix])

/-- quoted form: any of the two URI readers gives the value back -/
theorem uri_quoted_core (m : Mode) (v : Cps) (h : scan m v = none) :
    ssub (urlPrefix ++ (0x22 :: encTail v) ++ [0x29]) = urlPrefix ++ (0x22 :: midTail v) ++ [0x29] ∧
    strip (0x22 :: midTail v) = 0x22 :: midTail v ∧ unquoteUri (0x22 :: midTail v) = some v := by
  have hlast : (0x22 :: midTail v).getLast? = some 0x22 := by
    obtain ⟨X, hX⟩ : ∃ X, midTail v = X ∧ X ≠ [] := by
      refine ⟨_, rfl, ?_⟩
      cases v with
      | nil => simp [midTail]
      | cons d t => obtain ⟨X, hX⟩ := midTail_head d t; simp [hX]
    have := getLast?_append_ne_nil [0x22] (midTail v) (hX.1 ▸ hX.2)
    simp only [List.cons_append, List.nil_append] at this
    rw [this, midTail_getLast]
  refine ⟨?_, ?_, ?_⟩
  · have hn : NoNl (0x22 :: encTail v ++ [0x29]) := by
      intro x hx
      simp only [List.cons_append, List.mem_cons, List.mem_append, List.mem_singleton, List.not_mem_nil, or_false] at hx
      rcases hx with rfl | hx | rfl
      · decide
      · exact encTail_noNl v x hx
      · decide
    rw [List.append_assoc, ssub_urlPrefix, ssub_eq_usub _ hn]
    simp only [List.cons_append]
    rw [usub_cons_ne _ (by decide), usub_encTail m v [0x29] h, usub_cons_ne _ (by decide)]
    simp
  · exact strip_of_ends _ (a := 0x22) (b := 0x22) (by simp) (by decide) hlast (by decide)
  · unfold unquoteUri
    simp only [hlast, or_true, and_self, if_true]
    exact stringvalue_midTail v

theorem forbMatch_false : ∀ v : Cps, forbMatch v = false → ∀ x ∈ v, isForb x = false
  | [], _ => by simp
  | c :: t, h => by
    simp only [forbMatch] at h
    split at h
    · simp at h
    · rename_i hc
      intro x hx
      simp only [List.mem_cons] at hx
      rcases hx with rfl | hx
      · simpa using hc
      · exact forbMatch_false t h x hx

theorem hexTake_append_nonhex {y : Nat} (hy : isHex y = false) : ∀ (n : Nat) (u r : Cps),
    (u ++ y :: r).take (hexRun n (u ++ y :: r)) = u.take (hexRun n u)
  | 0, _, _ => by simp [hexRun]
  | n + 1, [], r => by simp [hexRun, hy]
  | n + 1, c :: u, r => by
    simp only [List.cons_append, hexRun]
    split
    · simp only [List.take_succ_cons]; rw [hexTake_append_nonhex hy n u r]
    · simp

theorem usub_unquoted (m : Mode) (v r : Cps) (h : scan m v = none) :
    usub (v ++ 0x29 :: r) = v ++ 0x29 :: usub r := by
  have h29 : (0x29:Nat) ≠ 0x5C := by decide
  have x29 : isHex 0x29 = false := by decide
  fun_induction scan m v with
  | case1 => simp [usub_cons_ne _ h29]
  | case2 => simp [usub_bs_other _ h29 x29]
  | case3 ht => simp at h
  | case4 ht => simp [usub_pair, usub_cons_ne _ h29]
  | case5 e tail ih =>
    have h' : scan m (e :: tail) = none := h
    simp only [List.cons_append] at ih ⊢
    rw [usub_pair, ih h']
  | case6 e tail hne hh hnum => simp [hnum] at h
  | case7 e tail hne hh hnum ih =>
    have h' : scan m tail = none := by simpa [hnum] using h
    simp only [List.cons_append]
    have key : ¬ hexNum ((e :: (tail ++ 0x29 :: r)).take (hexRun 6 (e :: (tail ++ 0x29 :: r)))) ≤ 0x10FFFF := by
      have := hexTake_append_nonhex x29 6 (e :: tail) r
      simp only [List.cons_append] at this
      rw [this]; exact hnum
    rw [usub_big _ hh key, ih h']
  | case8 e tail hne hh hnl => simp at h
  | case9 tail _ _ _ => simp at h
  | case10 e tail hne hh hnl hdq ih =>
    have hh' : isHex e = false := by simpa using hh
    simp only [List.cons_append]
    rw [usub_bs_other _ hne hh', ih h]
  | case11 c t hc ih =>
    simp only [List.cons_append]
    rw [usub_cons_ne _ hc, ih h]

theorem nonforb_facts {x : Nat} (h : isForb x = false) :
    x ≠ 0x29 ∧ isTerm x = false ∧ isNl x = false ∧ isUrlChar x = true ∧ x ≠ 0x22 ∧ x ≠ 0x27 := by
  simp only [isForb, isSpaceU, Bool.or_eq_false_iff, Bool.and_eq_false_iff, beq_eq_false_iff_ne,
    decide_eq_false_iff_not] at h
  refine ⟨by omega, ?_, ?_, ?_, by omega, by omega⟩
  · simp only [isTerm, Bool.or_eq_false_iff, beq_eq_false_iff_ne]; omega
  · simp only [isNl, Bool.or_eq_false_iff, beq_eq_false_iff_ne]; omega
  · simp only [isUrlChar, Bool.or_eq_true, Bool.and_eq_true, beq_iff_eq, decide_eq_true_eq]; omega

/-- the unquoted form is chosen only for values made of characters the `{url}` macro accepts as they are -/
theorem isUrlChar_of_not_forb {x : Nat} (h : isForb x = false) : isUrlChar x = true := (nonforb_facts h).2.2.2.1

theorem strip_no_forb (v : Cps) (hv : ∀ x ∈ v, isForb x = false) : strip v = v := by
  cases hv' : v with
  | nil => simp [strip, lstrip]
  | cons a t =>
    have hne : v ≠ [] := by simp [hv']
    have ha : isTerm a = false := (nonforb_facts (hv a (by simp [hv']))).2.1
    have hl : v.getLast? = some (v.getLast hne) := List.getLast?_eq_some_getLast hne
    have hb : isTerm (v.getLast hne) = false := (nonforb_facts (hv _ (List.getLast_mem hne))).2.1
    rw [← hv']
    exact strip_of_ends v (by simp [hv']) ha hl hb

theorem unquoteUri_no_forb (v : Cps) (hv : ∀ x ∈ v, isForb x = false) : unquoteUri v = some v := by
  cases v with
  | nil => rfl
  | cons q t =>
    obtain ⟨_, _, _, _, h2, h1⟩ := nonforb_facts (hv q (by simp))
    simp [unquoteUri, h1, h2]

/-- T3.1 core for URLs: both URI readers (`helper.urivalue` in values, `_uritokenvalue` in @import / @namespace)
give a safe value back from what `helper.uri` wrote -/
theorem uriD_uriE_of_class (v : Cps) (h : uriClass v = none) : uriD (uriE v) = some v ∧ uriDTok (uriE v) = some v := by
  unfold uriClass at h
  have hq : forbMatch v = true → scan .quoted v = none := fun hf => by simpa [hf] using h
  simp only [uriD, uriDTok, uriE, tokValue, helperUri_eq v hq]
  by_cases hf : forbMatch v = true
  · simp only [hf, if_true] at h ⊢
    obtain ⟨e1, e2, e3⟩ := uri_quoted_core .quoted v h
    rw [e1, urivalue_wrapped _ e2, uritokenvalue_wrapped _ e2, e3]
    exact ⟨rfl, rfl⟩
  · have hf' : forbMatch v = false := by simpa using hf
    simp only [hf', Bool.false_eq_true, if_false] at h ⊢
    have hv := forbMatch_false v hf'
    have hn : NoNl (v ++ [0x29]) := by
      intro x hx
      simp only [List.mem_append, List.mem_singleton] at hx
      rcases hx with hx | rfl
      · exact (nonforb_facts (hv x hx)).2.2.1
      · decide
    have e1 : ssub (urlPrefix ++ v ++ [0x29]) = urlPrefix ++ v ++ [0x29] := by
      rw [List.append_assoc, ssub_urlPrefix, ssub_eq_usub _ hn, usub_unquoted .unquoted v [] h]
      simp
    rw [e1, urivalue_wrapped _ (strip_no_forb v hv), uritokenvalue_wrapped _ (strip_no_forb v hv),
      unquoteUri_no_forb v hv]
    exact ⟨rfl, rfl⟩

theorem wsClose_nonforb {d : Nat} (t : Cps) (h : isForb d = false) : wsClose (d :: t) = none := by
  obtain ⟨h1, h2, _⟩ := nonforb_facts h
  simp [wsClose, h1, h2]

theorem urlBody_close (rest : Cps) : urlBody (0x29 :: rest) = some 1 := by
  cases rest <;> simp [urlBody, isUrlChar, wsClose]

theorem urlBody_unquoted : ∀ (v : Cps), (∀ x ∈ v, isForb x = false) →
    ∀ rest, urlBody (v ++ 0x29 :: rest) = some (v.length + 1)
  | [], _, rest => by simpa using urlBody_close rest
  | [c], hv, rest => by
    have hu := isUrlChar_of_not_forb (hv c (by simp))
    simp [urlBody, hu, wsClose, urlBody_close]
  | c :: d :: v, hv, rest => by
    have hu := isUrlChar_of_not_forb (hv c (by simp))
    have hd := isUrlChar_of_not_forb (hv d (by simp))
    have ih := urlBody_unquoted (d :: v) (fun x hx => hv x (List.mem_cons_of_mem _ hx)) rest
    simp only [List.cons_append] at ih
    simp only [List.cons_append, urlBody, hu, if_true, hd, ih]
    simp

theorem wsClose_close (rest : Cps) : wsClose (0x29 :: rest) = some 1 := by simp [wsClose]

/-- T3.1 for URLs, token level: what `helper.uri` writes for a safe value is one URI token, whatever follows -/
theorem lexUri_uriE_of_class (v rest : Cps) (h : uriClass v = none) :
    lexUriPlain (uriE v ++ rest) = some (uriE v).length := by
  unfold uriClass at h
  have hq : forbMatch v = true → scan .quoted v = none := fun hf => by simpa [hf] using h
  simp only [uriE, helperUri_eq v hq]
  by_cases hf : forbMatch v = true
  · simp only [hf, if_true] at h ⊢
    have hl := lex_encTail .quoted rfl v (0x29 :: rest) h
    have e : urlPrefix ++ 0x22 :: encTail v ++ [0x29] ++ rest
        = 0x75 :: 0x72 :: 0x6C :: 0x28 :: 0x22 :: (encTail v ++ 0x29 :: rest) := by simp [urlPrefix]
    rw [e]
    simp only [lexUriPlain, List.take_succ_cons, List.take_zero, if_true, List.drop_succ_cons, List.drop_zero]
    have tw : List.takeWhile isTerm (0x22 :: (encTail v ++ 0x29 :: rest)) = [] := by simp [List.takeWhile, isTerm]
    simp only [tw, List.length_nil, List.drop_zero, lexString, true_or, if_true, hl, Option.map_some]
    have dr : (0x22 :: (encTail v ++ 0x29 :: rest)).drop ((encTail v).length + 1) = 0x29 :: rest := by
      simp
    simp only [dr, wsClose_close, Option.map_some]
    simp [urlPrefix]; omega
  · have hf' : forbMatch v = false := by simpa using hf
    simp only [hf', Bool.false_eq_true, if_false] at h ⊢
    · have hv := forbMatch_false v hf'
      have hb := urlBody_unquoted v hv rest
      have e : urlPrefix ++ v ++ [0x29] ++ rest = 0x75 :: 0x72 :: 0x6C :: 0x28 :: (v ++ 0x29 :: rest) := by simp [urlPrefix]
      rw [e]
      simp only [lexUriPlain, List.take_succ_cons, List.take_zero, if_true, List.drop_succ_cons, List.drop_zero]
      have tw : List.takeWhile isTerm (v ++ 0x29 :: rest) = [] := by
        cases v with
        | nil => simp [isTerm]
        | cons a t =>
          have := (nonforb_facts (hv a (by simp))).2.1
          simp [this]
      have ls : lexString (v ++ 0x29 :: rest) = none := by
        cases v with
        | nil => simp [lexString]
        | cons a t =>
          have ha := hv a (by simp)
          have h1 : a ≠ 0x27 := by intro e; subst e; simp [isForb] at ha
          have h2 : a ≠ 0x22 := by intro e; subst e; simp [isForb] at ha
          simp [lexString, h1, h2]
      simp only [tw, List.length_nil, List.drop_zero, ls, hb, Option.map_some]
      simp [urlPrefix]

/-! ## `unicodesub` is idempotent -/

theorem hexVal_le {d : Nat} (h : isHex d = true) : hexVal d ≤ 15 := by
  simp only [isHex, Bool.or_eq_true, Bool.and_eq_true, decide_eq_true_eq] at h
  unfold hexVal
  split
  · omega
  · split <;> omega

theorem hexFold_lt : ∀ (l : Cps) (a : Nat), (∀ x ∈ l, isHex x = true) →
    l.foldl (fun a d => a * 16 + hexVal d) a < (a + 1) * 16 ^ l.length
  | [], a, _ => by simp
  | d :: l, a, h => by
    have hd := hexVal_le (h d (by simp))
    have ih := hexFold_lt l (a * 16 + hexVal d) (fun x hx => h x (by simp [hx]))
    simp only [List.foldl_cons, List.length_cons, Nat.pow_succ]
    calc _ < (a * 16 + hexVal d + 1) * 16 ^ l.length := ih
      _ ≤ ((a + 1) * 16) * 16 ^ l.length := Nat.mul_le_mul_right _ (by omega)
      _ = (a + 1) * (16 ^ l.length * 16) := by rw [Nat.mul_assoc, Nat.mul_comm 16]

theorem hexNum_lt (l : Cps) (h : ∀ x ∈ l, isHex x = true) : hexNum l < 16 ^ l.length := by
  have := hexFold_lt l 0 h
  simpa [hexNum] using this

theorem hexRun_take_length (n : Nat) (s : Cps) : (s.take (hexRun n s)).length = hexRun n s := by
  induction n generalizing s with
  | zero => simp [hexRun]
  | succ n ih =>
    cases s with
    | nil => simp [hexRun]
    | cons c t =>
      simp only [hexRun]
      split
      · simp [ih t]
      · simp

/-- only six digits can denote something above U+10FFFF -/
theorem hexRun_six_of_big (u : Cps) (h : ¬ hexNum (u.take (hexRun 6 u)) ≤ 0x10FFFF) : hexRun 6 u = 6 := by
  have hle := hexRun_le 6 u
  have hlt := hexNum_lt _ (hexRun_take_hex 6 u)
  rw [hexRun_take_length] at hlt
  by_cases h6 : hexRun 6 u = 6
  · exact h6
  · exfalso
    have h5 : hexRun 6 u ≤ 5 := by omega
    have : 16 ^ hexRun 6 u ≤ 16 ^ 5 := Nat.pow_le_pow_right (by decide) h5
    have : (16:Nat) ^ 5 = 1048576 := by decide
    omega

theorem hexRun_full_append : ∀ (n : Nat) (a b : Cps), hexRun n a = n →
    hexRun n (a ++ b) = n ∧ (a ++ b).take n = a.take n
  | 0, _, _, _ => by simp [hexRun]
  | n + 1, [], b, h => by simp [hexRun] at h
  | n + 1, c :: a, b, h => by
    simp only [hexRun] at h
    split at h
    · rename_i hc
      have h' : hexRun n a = n := by omega
      obtain ⟨e1, e2⟩ := hexRun_full_append n a b h'
      simp [hexRun, hc, e1, e2]
    · omega

theorem escFree_cons_ne {c : Nat} (t : Cps) (hc : c ≠ 0x5C) : escFree (c :: t) = escFree t := by
  rw [escFree.eq_def]; simp [hc]

theorem escFree_plain_append : ∀ (p Y : Cps), (∀ x ∈ p, x ≠ 0x5C) → escFree (p ++ Y) = escFree Y
  | [], _, _ => rfl
  | c :: p, Y, h => by
    rw [List.cons_append, escFree_cons_ne _ (h c (by simp)), escFree_plain_append p Y (fun x hx => h x (by simp [hx]))]

theorem escFree_pair (t : Cps) : escFree (0x5C :: 0x5C :: t) = escFree t := by simp [escFree]

theorem escFree_bs_other {d : Nat} (t : Cps) (h1 : d ≠ 0x5C) (h2 : isHex d = false) :
    escFree (0x5C :: d :: t) = escFree t := by simp [escFree, h1, h2]

theorem escFree_big {d : Nat} (t : Cps) (hd : isHex d = true)
    (hbig : ¬ hexNum ((d :: t).take (hexRun 6 (d :: t))) ≤ 0x10FFFF) :
    escFree (0x5C :: d :: t) = escFree t := by
  simp [escFree, isHex_ne_bs hd, hd, hbig]

/-- a text without decodable escapes is a fixpoint of `unicodesub` -/
theorem usub_of_escFree (s : Cps) (h : escFree s = true) : usub s = s := by
  fun_induction escFree s with
  | case1 => rfl
  | case2 => exact usub_bs_end
  | case3 t' ih => rw [usub_pair, ih h]
  | case4 d t' hne hh hnum => simp at h; omega
  | case5 d t' hne hh hnum ih =>
    have h' : escFree t' = true := by simpa [hnum] using h
    rw [usub_big _ hh hnum, ih h']
  | case6 d t' hne hh ih =>
    have hh' : isHex d = false := by simpa using hh
    rw [usub_bs_other _ hne hh', ih h]
  | case7 c t hc ih => rw [usub_cons_ne _ hc, ih h]

theorem hexRun_usub_tail {d : Nat} (t : Cps) (h6 : hexRun 6 (d :: t) = 6) :
    hexRun 6 (d :: usub t) = 6 ∧ (d :: usub t).take 6 = (d :: t).take 6 := by
  -- the first six characters are hex digits, so `unicodesub` copies them
  have hp : ∀ x ∈ (d :: t).take 6, x ≠ 0x5C := by
    intro x hx
    have := hexRun_take_hex 6 (d :: t) x (by rw [h6]; exact hx)
    exact isHex_ne_bs this
  have e : usub (d :: t) = (d :: t).take 6 ++ usub ((d :: t).drop 6) := by
    conv => lhs; rw [← List.take_append_drop 6 (d :: t)]
    exact usub_plain_append _ _ hp
  have hd : d ≠ 0x5C := hp d (by simp)
  rw [usub_cons_ne _ hd] at e
  have hr : hexRun 6 ((d :: t).take 6) = 6 := by
    have := (hexRun_full_append 6 ((d :: t).take 6) ((d :: t).drop 6))
    rw [List.take_append_drop] at this
    -- hexRun of the prefix itself
    clear this
    have key : ∀ (n : Nat) (s : Cps), hexRun n s = n → hexRun n (s.take n) = n := by
      intro n
      induction n with
      | zero => intro s _; simp [hexRun]
      | succ n ih =>
        intro s hs
        cases s with
        | nil => simp [hexRun] at hs
        | cons c s =>
          simp only [hexRun] at hs
          split at hs
          · rename_i hc
            simp only [List.take_succ_cons, hexRun, hc, if_true]
            have := ih s (by omega); omega
          · omega
    exact key 6 _ h6
  obtain ⟨e1, e2⟩ := hexRun_full_append 6 ((d :: t).take 6) (usub ((d :: t).drop 6)) hr
  rw [e]
  refine ⟨e1, ?_⟩
  rw [e2]; simp [List.take_take]

/-- what `unicodesub` returns contains no decodable escape any more -/
theorem escFree_usub : ∀ (n : Nat) (s : Cps), s.length ≤ n → escFree (usub s) = true
  | _, [], _ => by simp [escFree]
  | 0, c :: t, h => by simp at h
  | n + 1, c :: t, h => by
    have hl : t.length ≤ n := by simp at h; omega
    by_cases hc : c = 0x5C
    · subst hc
      cases t with
      | nil => rw [usub_bs_end]; simp [escFree]
      | cons d t' =>
        have hl' : t'.length ≤ n := by simp at hl; omega
        by_cases hd : d = 0x5C
        · subst hd
          rw [usub_pair, escFree_pair]; exact escFree_usub n t' hl'
        · by_cases hh : isHex d = true
          · by_cases hbig : hexNum ((d :: t').take (hexRun 6 (d :: t'))) ≤ 0x10FFFF
            · -- decoded
              have hm : escMatch (0x5C :: d :: t') = some (1 + hexRun 6 (d :: t') + termLen ((d :: t').drop (hexRun 6 (d :: t'))),
                  if hexNum ((d :: t').take (hexRun 6 (d :: t'))) = 0x5C then [0x5C, 0x5C]
                  else [hexNum ((d :: t').take (hexRun 6 (d :: t')))]) := by
                simp only [escMatch, hd, hh, if_false, if_true, hbig]
              have e := reSub_cons_some hm
              simp only [] at e
              rw [usub, e, ← usub]
              have ih := escFree_usub n ((d :: t').drop (1 + hexRun 6 (d :: t') +
                termLen ((d :: t').drop (hexRun 6 (d :: t'))) - 1)) (by rw [List.length_drop]; exact Nat.le_trans (Nat.sub_le _ _) hl)
              split
              · simp only [List.cons_append, List.nil_append]; rw [escFree_pair]; exact ih
              · rename_i h5
                simp only [List.cons_append, List.nil_append]; rw [escFree_cons_ne _ h5]; exact ih
            · -- left as written
              rw [usub_big _ hh hbig]
              have h6 := hexRun_six_of_big _ hbig
              obtain ⟨e1, e2⟩ := hexRun_usub_tail t' h6
              have hbig' : ¬ hexNum ((d :: usub t').take (hexRun 6 (d :: usub t'))) ≤ 0x10FFFF := by
                rw [e1, e2, ← h6]; exact hbig
              rw [escFree_big _ hh hbig']
              exact escFree_usub n t' hl'
          · have hh' : isHex d = false := by simpa using hh
            rw [usub_bs_other _ hd hh', escFree_bs_other _ hd hh']
            exact escFree_usub n t' hl'
    · rw [usub_cons_ne _ hc, escFree_cons_ne _ hc]; exact escFree_usub n t hl

/-- `unicodesub` is idempotent: a token value written back verbatim is read as itself -/
theorem usub_usub (s : Cps) : usub (usub s) = usub s :=
  usub_of_escFree _ (escFree_usub s.length s (Nat.le_refl _))

/-! ## backslash-free text -/

theorem scan_no_bs (m : Mode) : ∀ v : Cps, (∀ x ∈ v, x ≠ 0x5C) → scan m v = none
  | [], _ => rfl
  | c :: t, h => by
    have hc := h c (by simp)
    rw [scan.eq_def]
    simp only [hc, if_false]
    exact scan_no_bs m t (fun x hx => h x (by simp [hx]))

theorem usub_no_bs (s : Cps) (h : ∀ x ∈ s, x ≠ 0x5C) : usub s = s := by
  have := usub_plain_append s [] h
  simpa using this

theorem ssub_no_bs (s : Cps) (h : ∀ x ∈ s, x ≠ 0x5C) : ssub s = s := by
  have := reSub_plain_append strMatch_needsBs s [] h
  simpa [ssub] using this

theorem replace2_no_a {a b : Nat} {r : Cps} : ∀ s : Cps, (∀ x ∈ s, x ≠ a) → replace2 a b r s = s
  | [], _ => rfl
  | [x], _ => rfl
  | x :: y :: t, h => by
    have hx := h x (by simp)
    rw [replace2]
    simp only [hx, false_and, if_false]
    rw [replace2_no_a (y :: t) (fun z hz => h z (by simp [hz]))]

theorem simpleEscMatch_needsBs : NeedsBs simpleEscMatch := by
  intro c t hc
  unfold simpleEscMatch
  cases t with
  | nil => rfl
  | cons d t => simp [hc]

theorem forbMatch_eq_any : ∀ v : Cps, forbMatch v = v.any isForb
  | [] => rfl
  | c :: t => by
    simp only [forbMatch, List.any_cons]
    cases h : isForb c with
    | true => simp
    | false => simp [forbMatch_eq_any t]

end CssVerif.StrCodec
