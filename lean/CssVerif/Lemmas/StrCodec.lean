import CssVerif.Model.StrCodec
/-! helper lemmas for `Props/C03.lean` -/
namespace CssVerif.StrCodec

end CssVerif.StrCodec
