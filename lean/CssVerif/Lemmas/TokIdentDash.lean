import CssVerif.Lemmas.TokLex2
/-!
# IDENT class for identifiers that start with one or two hyphens (`-moz-x`, `--var`)
-/
namespace CssVerif.Tok
open CssVerif CssVerif.Gen.C05

def dashes : Nat → Cps
  | 0 => []
  | n + 1 => 45 :: dashes n

theorem dashOpt_first_dashes (n : Nat) (hn : n = 1 ∨ n = 2) (c : Nat) (t : Cps) (hc : c ≠ 45) :
    dashOpt.first (dashes n ++ c :: t) = some n := by
  have hp : Re.inCls false [(45, 45)] c = false := by simp [inCls_single, hc]
  have h45 : Re.inCls false [(45, 45)] 45 = true := by decide
  unfold dashOpt
  rw [first_rep_cls]
  rcases hn with rfl | rfl
  · simp [dashes, runLen, hp, h45]
  · simp [dashes, runLen, hp, h45]

/-- name start and name code points up to a stop at which a name cannot continue -/
theorem identTail_first (st stopcs : List (Nat × Nat)) (hst1 : exactlyOne st nmstartRe = true)
    (hstop : noStart stopcs nmcharRe = true) (c : Nat) (cs stop : Cps) (hc : inR st c = true)
    (hcs : ∀ x ∈ cs, inR identRest x = true) (hs : HeadIn (fun x => inR stopcs x = true) stop) :
    (Re.seq nmstartRe (Re.star nmcharRe true)).first (c :: cs ++ stop) = some (c :: cs).length := by
  have h1 : nmstartRe.ms (c :: (cs ++ stop)) = [1] := exactlyOne_sound st c hc nmstartRe hst1 _
  have hstar : (Re.star nmcharRe true).ms (cs ++ stop) = countdown cs.length := by
    show Re.starMs nmcharRe.ms true ((cs ++ stop).length + 1) (cs ++ stop) = _
    apply starMs_run nmcharRe.ms (fun x => inR identRest x)
    · intro x t hx; exact exactlyOne_sound identRest x hx nmcharRe (by decide) t
    · exact ms_nil_of_headIn hstop (by decide) hs
    · exact hcs
    · simp; omega
  rw [List.cons_append, first_seq_of_ms_one h1]
  simp only [Re.first, hstar, head_countdown, Option.map_some, List.length_cons]
  congr 1; omega

theorem dashes_length (n : Nat) : (dashes n).length = n := by
  induction n with
  | zero => rfl
  | succ n ih => simp [dashes, ih]

theorem ident_dash_first (n : Nat) (hn : n = 1 ∨ n = 2) (c : Nat) (cs stop : Cps) (hc : inR nameStart c = true)
    (hcs : ∀ x ∈ cs, inR identRest x = true) (hs : Sep stop) :
    reIDENT.first (dashes n ++ (c :: cs ++ stop)) = some (n + (c :: cs).length) := by
  have hc45 : c ≠ 45 := by
    intro e
    have := clsFails_sound false [(45, 45)] nameStart c (by decide) hc
    rw [e] at this; revert this; decide
  rw [reIDENT_eq]
  apply first_seq_some
  · have := dashOpt_first_dashes n hn c (cs ++ stop) hc45
    rwa [← List.cons_append] at this
  · have hd : (dashes n ++ (c :: cs ++ stop)).drop n = c :: cs ++ stop := by
      have := drop_length_append (dashes n) (c :: cs ++ stop)
      rwa [dashes_length] at this
    rw [hd]
    exact identTail_first nameStart [(32, 32)] (by decide) (by decide) c cs stop hc hcs (sep_headIn32 hs)

/-- **IDENT class, hyphen start**: one or two hyphens, a letter or `_`, then letters, digits, `-`, `_`, followed by
the end of the text or a space, is scanned as one IDENT token -/
theorem scan_ident_dash (doC : Bool) (n : Nat) (hn : n = 1 ∨ n = 2) (c : Nat) (cs stop : Cps)
    (hc : inR nameStart c = true) (hcs : ∀ x ∈ cs, inR identRest x = true) (hs : Sep stop) :
    scan false doC (dashes n ++ (c :: cs ++ stop)) productions = .hit "IDENT" (n + (c :: cs).length) := by
  have hsplit : productions = productions.take 3 ++ (("IDENT", reIDENT) :: productions.drop 4) := by decide
  have hhead : ∃ t, dashes n ++ (c :: cs ++ stop) = 45 :: t := by
    rcases hn with rfl | rfl <;> exact ⟨_, rfl⟩
  obtain ⟨t, ht⟩ := hhead
  have hfirst := ident_dash_first n hn c cs stop hc hcs hs
  rw [hsplit]
  rw [ht] at hfirst ⊢
  rw [scan_false_reject (cs := [(45, 45)]) (by decide) _ _ _ (by decide)]
  apply scan_false_hit hfirst
  -- the code point after the identifier is not `(`
  have hget : (45 :: t)[n + (c :: cs).length]? ≠ some 40 := by
    rw [← ht]
    have hlen : (dashes n ++ (c :: cs)).length = n + (c :: cs).length := by simp [dashes_length]
    rw [show dashes n ++ (c :: cs ++ stop) = (dashes n ++ (c :: cs)) ++ stop by simp, ← hlen,
      List.getElem?_append_right (Nat.le_refl _)]
    rcases hs with rfl | ⟨rest, rfl⟩ <;> simp
  simp only [identContinue, Bool.and_eq_false_iff]
  right
  simpa using hget

theorem ident_dash_first_stop (stopcs : List (Nat × Nat)) (hstop : noStart stopcs nmcharRe = true) (n : Nat)
    (hn : n = 1 ∨ n = 2) (c : Nat) (cs stop : Cps) (hc : inR nameStart c = true)
    (hcs : ∀ x ∈ cs, inR identRest x = true) (hs : HeadIn (fun x => inR stopcs x = true) stop) :
    reIDENT.first (dashes n ++ (c :: cs ++ stop)) = some (n + (c :: cs).length) := by
  have hc45 : c ≠ 45 := by
    intro e
    have := clsFails_sound false [(45, 45)] nameStart c (by decide) hc
    rw [e] at this; revert this; decide
  rw [reIDENT_eq]
  apply first_seq_some
  · have := dashOpt_first_dashes n hn c (cs ++ stop) hc45
    rwa [← List.cons_append] at this
  · have hd : (dashes n ++ (c :: cs ++ stop)).drop n = c :: cs ++ stop := by
      have := drop_length_append (dashes n) (c :: cs ++ stop)
      rwa [dashes_length] at this
    rw [hd]
    exact identTail_first nameStart stopcs (by decide) hstop c cs stop hc hcs hs

/-- **FUNCTION class, hyphen start** (`-moz-calc(`): one or two hyphens, a plain name, `(`, whatever follows -/
theorem scan_function_dash (doC : Bool) (n : Nat) (hn : n = 1 ∨ n = 2) (c : Nat) (cs rest : Cps)
    (hc : inR nameStart c = true) (hcs : ∀ x ∈ cs, inR identRest x = true) :
    scan false doC (dashes n ++ (c :: cs ++ 40 :: rest)) productions =
      .hit "FUNCTION" (n + (c :: cs).length + 1) := by
  have hsplit : productions = productions.take 3 ++
      (("IDENT", reIDENT) :: ("FUNCTION", reFUNCTION) :: productions.drop 5) := by decide
  have hid := ident_dash_first_stop [(40, 40)] (by decide) n hn c cs (40 :: rest) hc hcs (headIn_cons (by decide))
  have hlen : (dashes n ++ (c :: cs)).length = n + (c :: cs).length := by simp [dashes_length]
  have hassoc : dashes n ++ (c :: cs ++ 40 :: rest) = (dashes n ++ (c :: cs)) ++ 40 :: rest := by simp
  have hget : (dashes n ++ (c :: cs ++ 40 :: rest))[n + (c :: cs).length]? = some 40 := by
    rw [hassoc, ← hlen, List.getElem?_append_right (Nat.le_refl _)]; simp
  have htake : (dashes n ++ (c :: cs ++ 40 :: rest)).take (n + (c :: cs).length) = dashes n ++ (c :: cs) := by
    rw [hassoc, ← hlen, List.take_left']; rfl
  have hand : pyLower (dashes n ++ (c :: cs)) ≠ andWord := by
    rcases hn with rfl | rfl <;> simp [dashes, pyLower, lowerCp, andWord]
  have hic : identContinue "IDENT" (dashes n ++ (c :: cs ++ 40 :: rest)) (n + (c :: cs).length) = true := by
    simp only [identContinue, htake, hget, beq_self_eq_true, Bool.true_and, Bool.and_true, Bool.and_eq_true,
      bne_iff_ne, ne_eq, decide_eq_true_eq]
    refine ⟨hand, ?_⟩
    rw [hassoc, List.length_append, hlen]; simp
  obtain ⟨t, ht⟩ : ∃ t, dashes n ++ (c :: cs ++ 40 :: rest) = 45 :: t := by
    rcases hn with rfl | rfl <;> exact ⟨_, rfl⟩
  rw [hsplit]
  rw [ht] at hid hget hic ⊢
  rw [scan_false_reject (cs := [(45, 45)]) (by decide) _ _ _ (by decide), scan_false_skip hid hic]
  apply scan_false_hit (function_after_ident _ _ hid hget)
  simp [identContinue]

end CssVerif.Tok
