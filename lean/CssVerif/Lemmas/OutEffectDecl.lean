import CssVerif.Model.OutEffectDom
import CssVerif.Lemmas.OutEffectVal
import CssVerif.Model.OutRules
/-!
# T6.3 — the leaf preferences of a declaration block as DOM rewrites, lifted to the block

`defaultPropertyName`, `defaultPropertyPriority`, `minimizeColorHash` rewrite single properties; the rewrite keeps
the normalised name and the priority, so the effective-property selection (`keepAllProperties`) is not disturbed and
the block serializes to the same text.
-/
namespace CssVerif.Out
open CssVerif.Proto (Cps)

/-- a rewrite of properties that `do_Property` cannot tell from the original and that keeps what the cascade reads -/
structure PropRewrite (p : Prefs) (f : Property → Property) : Prop where
  text : ∀ lv pr, doProperty p lv (f pr) = doProperty p lv pr
  name : ∀ pr, (f pr).name = pr.name
  priority : ∀ pr, (f pr).priority = pr.priority

/-- the step of the reversed scan of `getPropertyIdx` -/
def gpStep (name : Cps) (st : Option Nat × Option Nat) (it : DItem × Nat) : Option Nat × Option Nat :=
  match st.1 with
  | some _ => st
  | none => match it.1 with
    | .prop pr =>
      if name == pr.name then
        if !pr.priority.isEmpty then (some it.2, st.2)
        else if st.2.isNone then (none, some it.2) else st
      else st
    | _ => st

def gpFinish (r : Option Nat × Option Nat) : Option Nat :=
  match r.1 with
  | some i => some i
  | none => r.2

theorem getPropertyIdx_eq (items : List DItem) (name : Cps) :
    getPropertyIdx items name = gpFinish ((items.zipIdx.reverse).foldl (gpStep name) (none, none)) := rfl

section
variable {p : Prefs} {f : Property → Property} (hf : PropRewrite p f)
include hf

theorem declHere_mapProp (lv : Nat) (sep : Cps) (om : Bool) (it : DItem) :
    declHere p lv sep om (it.mapProp f) = declHere p lv sep om it := by
  cases it <;> simp only [DItem.mapProp, declHere, hf.text]

theorem declOut_mapProp (lv : Nat) (sep : Cps) (ol : Bool) : ∀ items : List DItem,
    declOut p lv sep ol (items.map (DItem.mapProp f)) = declOut p lv sep ol items
  | [] => rfl
  | it :: rest => by
    have he : (rest.map (DItem.mapProp f)).isEmpty = rest.isEmpty := by cases rest <;> rfl
    simp only [List.map_cons, declOut, declHere_mapProp hf, declOut_mapProp lv sep ol rest, he]

theorem nnames_mapProp (items : List DItem) : nnames (items.map (DItem.mapProp f)) = nnames items := by
  unfold nnames
  rw [← List.map_reverse, List.foldl_map]
  congr 2
  funext names it
  cases it <;> simp only [DItem.mapProp, hf.name]

theorem getPropertyIdx_mapProp (items : List DItem) (name : Cps) :
    getPropertyIdx (items.map (DItem.mapProp f)) name = getPropertyIdx items name := by
  rw [getPropertyIdx_eq, getPropertyIdx_eq, List.zipIdx_map, ← List.map_reverse, List.foldl_map]
  congr 2
  funext st y
  obtain ⟨it, i⟩ := y
  cases it <;> simp only [gpStep, Prod.map, DItem.mapProp, id, hf.name, hf.priority]

theorem effectiveIdx_mapProp (items : List DItem) :
    effectiveIdx (items.map (DItem.mapProp f)) = effectiveIdx items := by
  unfold effectiveIdx
  rw [nnames_mapProp hf]
  congr 1
  funext n
  exact getPropertyIdx_mapProp hf items n

theorem declSeq_mapProp (items : List DItem) :
    declSeq p (items.map (DItem.mapProp f)) = (declSeq p items).map (DItem.mapProp f) := by
  unfold declSeq
  split
  · rfl
  · simp only [effectiveIdx_mapProp hf, List.zipIdx_map, List.filter_map, List.map_map]
    congr 1
    congr 1
    funext it
    obtain ⟨d, i⟩ := it
    cases d <;> rfl

/-- **lifting.** A block whose properties are rewritten serializes to the same text -/
theorem doDecl_mapProp (lv : Nat) (items : List DItem) (om : Bool) :
    doDecl p lv (items.map (DItem.mapProp f)) om = doDecl p lv items om := by
  unfold doDecl
  have he : (items.map (DItem.mapProp f)).isEmpty = items.isEmpty := by cases items <;> rfl
  rw [he, declSeq_mapProp hf, declOut_mapProp hf]

end

/-! ### the three rewrites -/

theorem propRewrite_effValue (p : Prefs) : PropRewrite p (Property.effValue p) where
  text := by
    intro lv pr
    simp only [doProperty, Property.effValue, serObj_effObj]
    rfl
  name := fun _ => rfl
  priority := fun _ => rfl

theorem nameOut_effName (p : Prefs) (pr : Property) : nameOut p (pr.effName p) = nameOut p pr := by
  unfold Property.effName
  split
  · rename_i h
    simp only [nameOut, List.map_map]
    apply List.map_congr_left
    intro part _
    cases part with
    | comment t => rfl
    | str s =>
      simp only [Function.comp, propertyName, h, if_true]
      by_cases e : pr.literalname == s
      · simp [e]
      · simp only [e, Bool.false_eq_true, if_false]
        by_cases e2 : pr.name == s
        · have : pr.name = s := by simpa using e2
          simp [this]
        · simp [e2]
  · rfl

theorem propRewrite_effName (p : Prefs) : PropRewrite p (Property.effName p) where
  text := by
    intro lv pr
    have hn := nameOut_effName p pr
    have h1 : (pr.effName p).nameseq.isEmpty = pr.nameseq.isEmpty := by
      unfold Property.effName; split
      · cases h : pr.nameseq <;> simp
      · rfl
    have h2 : (pr.effName p).wf = pr.wf := by unfold Property.effName; split <;> rfl
    have h3 : (pr.effName p).valid = pr.valid := by unfold Property.effName; split <;> rfl
    have h4 : (pr.effName p).value = pr.value := by unfold Property.effName; split <;> rfl
    have h5 : (pr.effName p).mq = pr.mq := by unfold Property.effName; split <;> rfl
    have h6 : (pr.effName p).prioseq = pr.prioseq := by unfold Property.effName; split <;> rfl
    have h7 : prioOut p (pr.effName p) = prioOut p pr := by unfold Property.effName; split <;> rfl
    simp only [doProperty, hn, h1, h2, h3, h4, h5, h6, h7]
  name := by intro pr; unfold Property.effName; split <;> rfl
  priority := by intro pr; unfold Property.effName; split <;> rfl

theorem prioOut_effPrio (p : Prefs) (pr : Property) : prioOut p (pr.effPrio p) = prioOut p pr := by
  unfold Property.effPrio
  split
  · rename_i h
    simp only [prioOut, List.map_map]
    apply List.map_congr_left
    intro part _
    cases part with
    | comment t => rfl
    | str s =>
      simp only [Function.comp, h, Bool.and_true]
      by_cases e : s == pr.literalpriority
      · simp [e]
      · simp only [e, Bool.false_eq_true, if_false]
        by_cases e2 : s == pr.priority
        · have : s = pr.priority := by simpa using e2
          simp [this]
        · simp [e2]
  · rfl

theorem propRewrite_effPrio (p : Prefs) : PropRewrite p (Property.effPrio p) where
  text := by
    intro lv pr
    have hn := prioOut_effPrio p pr
    have h1 : (pr.effPrio p).prioseq.isEmpty = pr.prioseq.isEmpty := by
      unfold Property.effPrio; split
      · cases h : pr.prioseq <;> simp
      · rfl
    have h2 : (pr.effPrio p).wf = pr.wf := by unfold Property.effPrio; split <;> rfl
    have h3 : (pr.effPrio p).valid = pr.valid := by unfold Property.effPrio; split <;> rfl
    have h4 : (pr.effPrio p).value = pr.value := by unfold Property.effPrio; split <;> rfl
    have h5 : (pr.effPrio p).mq = pr.mq := by unfold Property.effPrio; split <;> rfl
    have h6 : (pr.effPrio p).nameseq = pr.nameseq := by unfold Property.effPrio; split <;> rfl
    have h7 : nameOut p (pr.effPrio p) = nameOut p pr := by unfold Property.effPrio; split <;> rfl
    simp only [doProperty, hn, h1, h2, h3, h4, h5, h6, h7]
  name := by intro pr; unfold Property.effPrio; split <;> rfl
  priority := by intro pr; unfold Property.effPrio; split <;> rfl

theorem PropRewrite.comp {p : Prefs} {f g : Property → Property} (hf : PropRewrite p f) (hg : PropRewrite p g) :
    PropRewrite p (f ∘ g) where
  text := by intro lv pr; simp only [Function.comp, hf.text, hg.text]
  name := by intro pr; simp only [Function.comp, hf.name, hg.name]
  priority := by intro pr; simp only [Function.comp, hf.priority, hg.priority]

theorem propRewrite_effect (p : Prefs) : PropRewrite p (Property.effect p) :=
  (propRewrite_effValue p).comp ((propRewrite_effPrio p).comp (propRewrite_effName p))

theorem doDecl_effectDecl (p : Prefs) (lv : Nat) (items : List DItem) (om : Bool) :
    doDecl p lv (effectDecl p items) om = doDecl p lv items om :=
  doDecl_mapProp (propRewrite_effect p) lv items om

end CssVerif.Out
