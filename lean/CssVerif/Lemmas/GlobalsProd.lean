import CssVerif.Model.GlobalsProd
/-! helper lemmas about the production engine model (used by `Props/C12.lean`) -/
namespace CssVerif.GProd

/-! ### `next(tokens)` touches nothing but the push-back queue -/

def Pull.Frame (g : PG) : Pull → Prop
  | .tok _ _ g' => g'.raising = g.raising ∧ g'.saved = g.saved
  | .stop _ g' => g'.raising = g.raising ∧ g'.saved = g.saved
  | .unsupported => True

theorem Pull.Frame.trans {g g1 : PG} {p : Pull} (h : g1.raising = g.raising ∧ g1.saved = g.saved)
    (hp : p.Frame g1) : p.Frame g := by
  cases p <;> simp_all [Pull.Frame]

theorem chainPull_frame (rec : PG → Stream → Pull) (hrec : ∀ g s, (rec g s).Frame g)
    (g : PG) (pre : List Tok) (base : Stream) : (chainPull rec g pre base).Frame g := by
  unfold chainPull
  cases pre with
  | cons t pre => simp [Pull.Frame]
  | nil =>
    have := hrec g base
    cases h : rec g base <;> simp_all [Pull.Frame]

theorem nextNonS_frame (rec : PG → Stream → Pull) (hrec : ∀ g s, (rec g s).Frame g) :
    ∀ (fuel : Nat) (g : PG) (pre : List Tok) (base : Stream), (nextNonS rec fuel g pre base).Frame g := by
  intro fuel
  induction fuel with
  | zero => intro g pre base; simp [nextNonS, Pull.Frame]
  | succ fuel ih =>
    intro g pre base
    unfold nextNonS
    have h1 := chainPull_frame rec hrec g pre base
    cases hc : chainPull rec g pre base with
    | unsupported => simp [Pull.Frame]
    | stop inner g1 => rw [hc] at h1; exact h1
    | tok n inner g1 =>
      rw [hc] at h1
      simp only [Pull.Frame] at h1
      simp only
      split
      · exact Pull.Frame.trans h1 (ih g1 _ _)
      · simp [Pull.Frame, h1]

theorem sorPull_frame (rec : PG → Stream → Pull) (hrec : ∀ g s, (rec g s).Frame g)
    (g : PG) (act : Bool) (pre : List Tok) (base : Stream) : (sorPull rec g act pre base).Frame g := by
  unfold sorPull
  have h1 := chainPull_frame rec hrec g pre base
  cases hc : chainPull rec g pre base with
  | unsupported => simp [Pull.Frame]
  | stop inner g1 => simp_all [Pull.Frame]
  | tok t inner g1 =>
    rw [hc] at h1
    simp only [Pull.Frame] at h1
    simp only
    split
    · simp [Pull.Frame, h1]
    · split
      · have h2 := nextNonS_frame rec hrec ((unlayer inner).1.length + (unlayer inner).2.size + g1.pushed.length + 2) g1
          (unlayer inner).1 (unlayer inner).2
        cases hc2 : nextNonS rec ((unlayer inner).1.length + (unlayer inner).2.size + g1.pushed.length + 2) g1
            (unlayer inner).1 (unlayer inner).2 with
        | unsupported => simp [Pull.Frame]
        | stop i2 g2 => rw [hc2] at h2; simp_all [Pull.Frame]
        | tok n i2 g2 =>
          rw [hc2] at h2
          simp only [Pull.Frame] at h2
          simp only
          split
          · simp_all [Pull.Frame]
          · split <;> simp_all [Pull.Frame]
      · split <;> simp [Pull.Frame, h1]

theorem pullF_base_frame (n : Nat) (g : PG) (d : Bool) (rest : List Tok) : (pullF n g (.tkz d rest)).Frame g := by
  cases rest with
  | nil => cases n <;> simp [pullF, Pull.Frame]
  | cons t rest =>
    cases d
    · cases n <;> (simp only [pullF]; split <;> simp [Pull.Frame])
    · cases n <;> simp [pullF, Pull.Frame]

theorem pullF_lst_frame (n : Nat) (g : PG) (rest : List Tok) : (pullF n g (.lst rest)).Frame g := by
  cases rest <;> cases n <;> simp [pullF, Pull.Frame]

theorem pullF_frame (n : Nat) : ∀ (g : PG) (s : Stream), (pullF n g s).Frame g := by
  induction n with
  | zero =>
    intro g s
    cases s with
    | tkz d rest => exact pullF_base_frame _ _ _ _
    | lst rest => exact pullF_lst_frame _ _ _
    | layer sor pre base => simp [pullF, Pull.Frame]
  | succ n ih =>
    intro g s
    cases s with
    | tkz d rest => exact pullF_base_frame _ _ _ _
    | lst rest => exact pullF_lst_frame _ _ _
    | layer sor pre base =>
      cases sor with
      | none => simp only [pullF]; exact chainPull_frame _ ih _ _ _
      | some x =>
        obtain ⟨act, pend⟩ := x
        cases pend with
        | nil => simp only [pullF]; exact sorPull_frame _ ih _ _ _ _
        | cons t pend => simp [pullF, Pull.Frame]

theorem pull_frame (g : PG) (s : Stream) : (pull g s).Frame g := pullF_frame _ g s

end CssVerif.GProd

namespace CssVerif.GProd

/-! ### the epilogue does not touch the process-wide state -/

theorem epilogue_g (sp : Spec) (fuel : Nat) (l : L) (g : PG) : (epilogue sp fuel l g).g = g := by
  unfold epilogue
  simp only []
  repeat' split
  all_goals rfl

theorem epilogue_stopall (sp : Spec) (fuel : Nat) (l : L) (g : PG) (h : l.stopall = true) :
    (epilogue sp fuel l g).out = .ok l.wellformed (rstripRev l.seq).reverse := by
  unfold epilogue
  simp [h]

/-! ### who may hand a token back -/

/-- a grammar that contains a production with `stopIfNoMoreMatch` (mediaquery.py:117-137 when `_partof`) -/
def Spec.partof (sp : Spec) : Bool :=
  sp.tb.any fun n => match n with
    | .prod _ fl _ => fl.stopIf
    | _ => false

def envPartof (env : Env) (k : Nat) : Bool := (env[k]?.map Spec.partof).getD false

/-- a production that starts a hand-back child goes on with the loop (it neither stops nor keeps):
the shape of medialist.py:92-98, the only place that passes `_partof=True` -/
def wfNodeHB (env : Env) : Node → Bool
  | .prod _ fl (.child k') => !(envPartof env k') || (!fl.stop && !fl.stopAndKeep)
  | _ => true

def wfEnv (env : Env) : Bool := env.all fun sp => sp.tb.all (wfNodeHB env)

theorem wfEnv_node {env : Env} (h : wfEnv env = true) {k : Nat} {sp : Spec} (hk : env[k]? = some sp)
    {p : Nat} {n : Node} (hp : sp.tb[p]? = some n) : wfNodeHB env n = true := by
  unfold wfEnv at h
  rw [List.all_eq_true] at h
  have h1 := h sp (List.mem_of_getElem? hk)
  rw [List.all_eq_true] at h1
  exact h1 n (List.mem_of_getElem? hp)

theorem partof_of_stopIf {env : Env} {k : Nat} {sp : Spec} (hk : env[k]? = some sp)
    {p : Nat} {acc : List Nat} {fl : PFlags} {act : Act} (hp : sp.tb[p]? = some (.prod acc fl act))
    (hs : fl.stopIf = true) : envPartof env k = true := by
  unfold envPartof Spec.partof
  simp only [hk, Option.map_some, Option.getD_some, List.any_eq_true]
  exact ⟨_, List.mem_of_getElem? hp, by simpa using hs⟩

/-- outcome of a call as far as the hand-back protocol is concerned -/
def HandBack (env : Env) (k : Nat) (g : PG) (r : Res) : Prop :=
  r.g.raising = g.raising ∧
  (r.out = .noFuel ∨ r.out = .unsupported ∨ r.g.saved = [] ∨
    (envPartof env k = true ∧ r.g.saved.length = 1 ∧ ∃ items, r.out = .ok true items))

/-! ### the hand-back invariant of `ProdParser.parse` -/

theorem fetch_spec {l : L} {g : PG} (hs : g.saved.length ≤ 1) {x : Option Tok} {s : Stream} {g' : PG}
    (h : fetch l g = some (x, s, g')) : g'.saved = [] ∧ g'.raising = g.raising := by
  unfold fetch at h
  split at h
  · rename_i t rest hsv
    simp only [Option.some.injEq, Prod.mk.injEq] at h
    obtain ⟨_, _, rfl⟩ := h
    rw [hsv] at hs
    cases rest with
    | nil => simp
    | cons a b => simp at hs
  · rename_i hsv
    have hf := pull_frame g l.toks
    split at h
    · rename_i t s1 g1 hp
      rw [hp] at hf
      simp only [Option.some.injEq, Prod.mk.injEq] at h
      obtain ⟨_, _, rfl⟩ := h
      simp only [Pull.Frame] at hf
      simp [hf, hsv]
    · rename_i s1 g1 hp
      rw [hp] at hf
      simp only [Option.some.injEq, Prod.mk.injEq] at h
      obtain ⟨_, _, rfl⟩ := h
      simp only [Pull.Frame] at hf
      simp [hf, hsv]
    · simp at h

def RecOK (env : Env) (rec : Nat → L → PG → Res) : Prop :=
  ∀ (k : Nat) (l : L) (g : PG), g.saved.length ≤ 1 → l.wellformed = true →
    (l.stopIf = true → envPartof env k = true) → HandBack env k g (rec k l g)

theorem runChild_spec {env : Env} {rec : Nat → L → PG → Res} (hrec : RecOK env rec) (k' : Nat) (tok : Tok)
    (l : L) (g : PG) (hs : g.saved = []) :
    (runChild env rec k' tok l g).2.2.raising = g.raising ∧
    ((runChild env rec k' tok l g).1 = none →
      ((runChild env rec k' tok l g).2.1 = .noFuel ∨ (runChild env rec k' tok l g).2.1 = .unsupported ∨
        ((runChild env rec k' tok l g).2.1 = .raised ∧ (runChild env rec k' tok l g).2.2.saved = []))) ∧
    (∀ l', (runChild env rec k' tok l g).1 = some l' →
      l'.wellformed = l.wellformed ∧ l'.stopIf = l.stopIf ∧
      ((runChild env rec k' tok l g).2.2.saved = [] ∨
        (envPartof env k' = true ∧ (runChild env rec k' tok l g).2.2.saved.length = 1))) := by
  unfold runChild
  cases hk : env[k']? with
  | none => simp
  | some csp =>
    simp only []
    have h := hrec k' (L.init (.layer none [tok] l.toks)) { g with pushed := [] } (by simp [hs]) (by simp [L.init])
      (by simp [L.init])
    obtain ⟨hr, hb⟩ := h
    simp only [] at hr
    cases ho : (rec k' (L.init (.layer none [tok] l.toks)) { g with pushed := [] }).out with
    | raised => simp_all
    | noFuel => simp_all
    | unsupported => simp_all
    | noContent =>
      simp only [ho] at hb ⊢
      split <;> simp_all
    | ok wf items =>
      simp only [ho] at hb ⊢
      split
      · rcases hb with hb | hb | hb | hb <;> simp_all
      · rcases hb with hb | hb | hb | hb <;> simp_all


theorem HandBack.of_epilogue {env : Env} {k : Nat} {g0 g : PG} (sp : Spec) (fuel : Nat) (l : L)
    (hr : g.raising = g0.raising) (hs : g.saved = []) : HandBack env k g0 (epilogue sp fuel l g) := by
  simp [HandBack, epilogue_g, hr, hs]

theorem onFound_spec {env : Env} (hwf : wfEnv env = true) {rec : Nat → L → PG → Res} (hrec : RecOK env rec)
    (sp : Spec) (fuel k : Nat) (hk : env[k]? = some sp) (tok : Tok) (p : Nat) (acc : List Nat) (fl : PFlags) (act : Act)
    (hp : sp.tb[p]? = some (.prod acc fl act)) (l : L) (g : PG)
    (hs : g.saved = []) (hw : l.wellformed = true) (hpo : l.stopIf = true → envPartof env k = true) :
    HandBack env k g (onFound env sp fuel rec k tok fl act l g) := by
  have hpo' : (fl.stopIf || l.stopIf) = true → envPartof env k = true := by
    intro h
    rcases Bool.or_eq_true _ _ |>.mp h with h | h
    · exact partof_of_stopIf hk hp h
    · exact hpo h
  unfold onFound
  simp only []
  by_cases hsk : fl.stopAndKeep = true
  · simp only [hsk, if_true]
    split
    · exact HandBack.of_epilogue _ _ _ rfl hs
    · exact HandBack.of_epilogue _ _ _ rfl hs
  · simp only [hsk]
    cases act with
    | drop =>
      simp only [Bool.false_eq_true, if_false]
      split
      · exact HandBack.of_epilogue _ _ _ rfl hs
      · split
        · exact hrec _ _ _ (by simp [hs]) hw hpo'
        · exact hrec _ _ _ (by simp [hs]) hw hpo'
    | keep =>
      simp only [Bool.false_eq_true, if_false]
      split
      · exact HandBack.of_epilogue _ _ _ rfl hs
      · split
        · exact hrec _ _ _ (by simp [hs]) hw hpo'
        · exact hrec _ _ _ (by simp [hs]) hw hpo'
    | child k' =>
      simp only [Bool.false_eq_true, if_false]
      have hc := runChild_spec hrec k' tok { l with stopIf := fl.stopIf || l.stopIf } g hs
      obtain ⟨hc1, hc2, hc3⟩ := hc
      cases hx : runChild env rec k' tok { l with stopIf := fl.stopIf || l.stopIf } g with
      | mk ol rest =>
        obtain ⟨o, g'⟩ := rest
        rw [hx] at hc1 hc2 hc3
        simp only [] at hc1 hc2 hc3
        cases ol with
        | none =>
          simp only []
          have := hc2 rfl
          rcases this with h | h | ⟨h, h'⟩ <;> simp [HandBack, *]
        | some l' =>
          simp only []
          obtain ⟨h1, h2, h3⟩ := hc3 l' rfl
          have hwfn := wfEnv_node hwf hk hp
          simp only [wfNodeHB] at hwfn
          rcases h3 with h3 | ⟨h3, h4⟩
          · -- the child handed nothing back
            have hb : ∀ r, HandBack env k g' r → HandBack env k g r := by
              intro r hr; simp only [HandBack] at hr ⊢; rw [← hc1]; exact hr
            apply hb
            split
            · exact HandBack.of_epilogue _ _ _ rfl h3
            · split
              · exact hrec _ _ _ (by simp [h3]) (by simp [h1, hw]) (by simpa [h2] using hpo')
              · exact hrec _ _ _ (by simp [h3]) (by simp [h1, hw]) (by simpa [h2] using hpo')
          · -- the child handed one token back: this production goes on with the loop
            have hb : ∀ r, HandBack env k g' r → HandBack env k g r := by
              intro r hr; simp only [HandBack] at hr ⊢; rw [← hc1]; exact hr
            apply hb
            simp only [h3, Bool.not_true, Bool.false_or, Bool.and_eq_true, Bool.not_eq_true'] at hwfn
            simp only [hwfn.1, Bool.false_eq_true, if_false]
            split
            · exact hrec _ _ _ (by omega) (by simp [h1, hw]) (by simpa [h2] using hpo')
            · exact hrec _ _ _ (by omega) (by simp [h1, hw]) (by simpa [h2] using hpo')


theorem onTok_spec {env : Env} (hwf : wfEnv env = true) {rec : Nat → L → PG → Res} (hrec : RecOK env rec)
    (sp : Spec) (fuel k : Nat) (hk : env[k]? = some sp) (tok : Tok) (l : L) (g : PG)
    (hs : g.saved = []) (hw : l.wellformed = true) (hpo : l.stopIf = true → envPartof env k = true) :
    HandBack env k g (onTok env sp fuel rec k tok l g) := by
  unfold onTok
  split
  · exact hrec _ _ _ (by simp [hs]) hw hpo
  · split
    · simp [HandBack, hs]
    · exact HandBack.of_epilogue _ _ _ rfl hs
  · exact hrec _ _ _ (by simp [hs]) hw hpo
  · split
    · split
      · exact hrec _ _ _ (by simp [hs]) hw hpo
      · exact hrec _ _ _ (by simp [hs]) hw hpo
    · simp only []
      split
      · simp [HandBack]
      · -- NoMatch
        split
        · rename_i hst
          simp only [HandBack, epilogue_g, true_and]
          right; right; right
          refine ⟨hpo hst, by simp [hs], ?_⟩
          rw [epilogue_stopall _ _ _ _ rfl]
          simp [hw]
        · split
          · simp [HandBack, hs]
          · exact HandBack.of_epilogue _ _ _ rfl hs
      · -- ParseError
        split
        · simp [HandBack, hs]
        · exact HandBack.of_epilogue _ _ _ rfl hs
      · split
        · rename_i hp
          exact onFound_spec hwf hrec sp fuel k hk tok _ _ _ _ hp _ g hs (by simp [hw]) (by simpa using hpo)
        · simp [HandBack]

theorem loop_handback (env : Env) (hwf : wfEnv env = true) : ∀ (fuel : Nat), RecOK env (loop env fuel) := by
  intro fuel
  induction fuel with
  | zero => intro k l g _ _ _; simp [loop, HandBack]
  | succ fuel ih =>
    intro k l g hs hw hp
    unfold loop
    cases hk : env[k]? with
    | none => simp [HandBack]
    | some sp =>
      simp only []
      cases hf : fetch l g with
      | none => simp [HandBack]
      | some x =>
        obtain ⟨ot, s, g'⟩ := x
        obtain ⟨h1, h2⟩ := fetch_spec hs hf
        have hb : ∀ r, HandBack env k g' r → HandBack env k g r := by
          intro r hr; simp only [HandBack] at hr ⊢; rw [← h2]; exact hr
        cases ot with
        | none => exact hb _ (HandBack.of_epilogue _ _ _ rfl h1)
        | some tok => exact hb _ (onTok_spec hwf ih sp fuel k hk tok _ g' h1 (by simp [hw]) (by simpa using hp))


theorem ctor_handback (env : Env) (hwf : wfEnv env = true) (fuel k : Nat) (src : Stream) (g : PG)
    (hs : g.saved = []) : HandBack env k g (ctor env fuel k src g) := by
  have h := loop_handback env hwf fuel k (L.init (.layer none [] src)) { g with pushed := [] }
    (by simp [hs]) (by simp [L.init]) (by simp [L.init])
  unfold ctor
  simp only []
  obtain ⟨hr, hb⟩ := h
  simp only [] at hr
  split
  · rename_i items ho
    split
    · simp only [HandBack, hr, true_and]
      rcases hb with hb | hb | hb | hb <;> simp_all
    · exact ⟨hr, hb⟩
  · rename_i ho
    split
    · simp only [HandBack, hr, true_and]
      rcases hb with hb | hb | hb | hb <;> simp_all
    · exact ⟨hr, hb⟩
  · exact ⟨hr, hb⟩

/-- `ProdParser()` clears the push-back queue before anything reads it -/
theorem ctor_ignores_pushed (env : Env) (fuel k : Nat) (src : Stream) (g : PG) (p : List Tok) :
    ctor env fuel k src { g with pushed := p } = ctor env fuel k src g := by
  unfold ctor
  rfl

/-! ### the engine never writes the error mode -/

def RecR (rec : Nat → L → PG → Res) : Prop := ∀ (k : Nat) (l : L) (g : PG), (rec k l g).g.raising = g.raising

theorem fetch_raising {l : L} {g : PG} {x : Option Tok} {s : Stream} {g' : PG}
    (h : fetch l g = some (x, s, g')) : g'.raising = g.raising := by
  unfold fetch at h
  split at h
  · simp only [Option.some.injEq, Prod.mk.injEq] at h
    obtain ⟨_, _, rfl⟩ := h
    rfl
  · have hf := pull_frame g l.toks
    split at h
    · rename_i hp
      rw [hp] at hf
      simp only [Option.some.injEq, Prod.mk.injEq] at h
      obtain ⟨_, _, rfl⟩ := h
      exact hf.1
    · rename_i hp
      rw [hp] at hf
      simp only [Option.some.injEq, Prod.mk.injEq] at h
      obtain ⟨_, _, rfl⟩ := h
      exact hf.1
    · simp at h

theorem runChild_raising {env : Env} {rec : Nat → L → PG → Res} (hrec : RecR rec) (k' : Nat) (tok : Tok)
    (l : L) (g : PG) : (runChild env rec k' tok l g).2.2.raising = g.raising := by
  unfold runChild
  split
  · rfl
  · simp only []
    have h := hrec k' (L.init (.layer none [tok] l.toks)) { g with pushed := [] }
    simp only [] at h
    split
    · exact h
    · exact h
    · exact h
    · split <;> exact h
    · split <;> exact h

theorem onFound_raising {env : Env} {rec : Nat → L → PG → Res} (hrec : RecR rec)
    (sp : Spec) (fuel k : Nat) (tok : Tok) (fl : PFlags) (act : Act) (l : L) (g : PG) :
    (onFound env sp fuel rec k tok fl act l g).g.raising = g.raising := by
  unfold onFound
  simp only []
  split
  · rename_i o g' hx
    split at hx
    · simp at hx
    · split at hx
      · simp at hx
      · simp at hx
      · rename_i kc
        have := runChild_raising (env := env) hrec kc tok { l with stopIf := fl.stopIf || l.stopIf } g
        rw [hx] at this
        exact this
  · rename_i l' o g' hx
    have hg : g'.raising = g.raising := by
      split at hx
      · simp only [Prod.mk.injEq] at hx; obtain ⟨_, _, rfl⟩ := hx; rfl
      · split at hx
        · simp only [Prod.mk.injEq] at hx; obtain ⟨_, _, rfl⟩ := hx; rfl
        · simp only [Prod.mk.injEq] at hx; obtain ⟨_, _, rfl⟩ := hx; rfl
        · rename_i kc
          have := runChild_raising (env := env) hrec kc tok { l with stopIf := fl.stopIf || l.stopIf } g
          rw [hx] at this
          exact this
    split
    · rw [epilogue_g]; exact hg
    · split
      · rw [epilogue_g]; exact hg
      · split
        · rw [hrec]; exact hg
        · rw [hrec]; exact hg

theorem onTok_raising {env : Env} {rec : Nat → L → PG → Res} (hrec : RecR rec)
    (sp : Spec) (fuel k : Nat) (tok : Tok) (l : L) (g : PG) :
    (onTok env sp fuel rec k tok l g).g.raising = g.raising := by
  unfold onTok
  split
  · exact hrec _ _ _
  · split
    · rfl
    · rw [epilogue_g]
  · exact hrec _ _ _
  · split
    · split <;> exact hrec _ _ _
    · simp only []
      split
      · rfl
      · split
        · rw [epilogue_g]
        · split
          · rfl
          · rw [epilogue_g]
      · split
        · rfl
        · rw [epilogue_g]
      · split
        · exact onFound_raising hrec _ _ _ _ _ _ _ _
        · rfl

theorem loop_raising (env : Env) : ∀ (fuel : Nat), RecR (loop env fuel) := by
  intro fuel
  induction fuel with
  | zero => intro k l g; simp [loop]
  | succ fuel ih =>
    intro k l g
    unfold loop
    split
    · rfl
    · split
      · rfl
      · rename_i hf
        rw [epilogue_g]; exact fetch_raising hf
      · rename_i hf
        rw [onTok_raising ih]; exact fetch_raising hf

theorem ctor_raising (env : Env) (fuel k : Nat) (src : Stream) (g : PG) :
    (ctor env fuel k src g).g.raising = g.raising := by
  have h := loop_raising env fuel k (L.init (.layer none [] src)) { g with pushed := [] }
  unfold ctor
  simp only []
  split
  · split <;> exact h
  · split <;> exact h
  · exact h

/-! ### what the hand-back discipline depends on: flags and child links, not on what a production accepts -/

def shapeNode : Node → Node
  | .prod _ fl act => .prod [] fl act
  | n => n

def shapeSpec (sp : Spec) : Spec := { sp with tb := sp.tb.map shapeNode, postErr := false }

/-- an environment with the `match` callbacks (and the owners' error reports) forgotten -/
def shape (env : Env) : Env := env.map shapeSpec

theorem partof_shapeSpec (sp : Spec) : (shapeSpec sp).partof = sp.partof := by
  unfold Spec.partof shapeSpec
  simp only [List.any_map]
  congr 1
  funext n
  cases n <;> simp [shapeNode]

theorem envPartof_shape (env : Env) (k : Nat) : envPartof (shape env) k = envPartof env k := by
  unfold envPartof shape
  rw [List.getElem?_map]
  cases env[k]? with
  | none => rfl
  | some sp => simp [partof_shapeSpec]

theorem wfNodeHB_shape (env : Env) (n : Node) : wfNodeHB (shape env) (shapeNode n) = wfNodeHB env n := by
  cases n with
  | prod acc fl act =>
    cases act <;> simp [shapeNode, wfNodeHB, envPartof_shape]
  | seq ch mn mx => simp [shapeNode, wfNodeHB]
  | choice ch o => simp [shapeNode, wfNodeHB]

theorem wfEnv_shape (env : Env) : wfEnv (shape env) = wfEnv env := by
  unfold wfEnv
  conv => lhs; unfold shape
  rw [List.all_map]
  congr 1
  funext sp
  simp only [Function.comp, shapeSpec, List.all_map]
  congr 1
  funext n
  exact wfNodeHB_shape env n

end CssVerif.GProd
