import CssVerif.Model.Urls
/-!
# Lemmas for C19 (helpers; the property theorems are in `Props/C19.lean`)
-/
namespace CssVerif.Urls

/-! ## T19.1 — what `replaceUrls` computes when the replacer never raises -/

/-- a replacer that never raises -/
def total (g : Str → Str) : Str → Except Err Str := fun u => .ok (g u)

def mapComp (g : Str → Str) : Comp → Comp
  | .uri u => .uri (g u)
  | c => c

def mapStyle (g : Str → Str) (st : Style) : Style := st.map fun d => { d with value := d.value.map (mapComp g) }

def mapMargins (g : Str → Str) (ms : List (Str × Style)) : List (Str × Style) := ms.map fun m => (m.1, mapStyle g m.2)

mutual
def mapRule (g : Str → Str) : Rule → Rule
  | .style sel st => .style sel (mapStyle g st)
  | .fontface st => .fontface (mapStyle g st)
  | .page sel st ms => .page sel (mapStyle g st) (mapMargins g ms)
  | .media m rs => .media m (mapRules g rs)
  | r => r
def mapRules (g : Str → Str) : List Rule → List Rule
  | [] => []
  | r :: rs => mapRule g r :: mapRules g rs
end

def mapImports (g : Str → Str) (reload : Str → Bool × Str × Sheet) : Sheet → Sheet
  | [] => []
  | .imp href media _ _ _ :: rs =>
    .imp (g href) media (reload (g href)).1 (reload (g href)).2.1 (reload (g href)).2.2 :: mapImports g reload rs
  | r :: rs => r :: mapImports g reload rs

def compUris (cs : List Comp) : List Str := cs.filterMap Comp.uri?

theorem uriValues_cons (d : Decl) (ds : Style) : uriValues (d :: ds) = compUris d.value ++ uriValues ds := by
  simp [uriValues, compUris]

theorem uriValues_nil : uriValues [] = [] := rfl

theorem replComps_total (g : Str → Str) : ∀ cs, replComps (total g) cs = .ok (cs.map (mapComp g), compUris cs)
  | [] => by simp [replComps, compUris]
  | .uri u :: cs => by simp [replComps, total, replComps_total g cs, compUris, mapComp, Comp.uri?]
  | .tok t :: cs => by simp [replComps, replComps_total g cs, compUris, mapComp, List.filterMap_cons, Comp.uri?]
  | .fn n a :: cs => by simp [replComps, replComps_total g cs, compUris, mapComp, List.filterMap_cons, Comp.uri?]

theorem replStyle_total (g : Str → Str) : ∀ st, replStyle (total g) st = .ok (mapStyle g st, uriValues st)
  | [] => by simp [replStyle, mapStyle, uriValues]
  | d :: ds => by
    simp [replStyle, replComps_total, replStyle_total g ds, uriValues_cons, mapStyle]

def marginUris (ms : List (Str × Style)) : List Str := ms.flatMap fun m => uriValues m.2

theorem replMargins_total (g : Str → Str) :
    ∀ ms, replMargins (total g) ms = .ok (mapMargins g ms, marginUris ms)
  | [] => by simp [replMargins, mapMargins, marginUris]
  | m :: ms => by
    simp [replMargins, replStyle_total, replMargins_total g ms, mapMargins, marginUris]

theorem styleDecls_page_uris (sel : Str) (st : Style) (ms : List (Str × Style)) :
    (styleDecls (.page sel st ms)).flatMap uriValues = uriValues st ++ marginUris ms := by
  simp [styleDecls, marginUris, List.flatMap_map]

mutual
theorem replRule_total (g : Str → Str) :
    ∀ r, replRule (total g) r = .ok (mapRule g r, (styleDecls r).flatMap uriValues)
  | .style sel st => by simp [replRule, replStyle_total, mapRule, styleDecls]
  | .fontface st => by simp [replRule, replStyle_total, mapRule, styleDecls]
  | .page sel st ms => by
    simp only [replRule, replStyle_total, replMargins_total, mapRule, styleDecls_page_uris]
  | .media m rs => by simp [replRule, replRules_total g rs, mapRule, styleDecls]
  | .charset _ => by simp [replRule, mapRule, styleDecls]
  | .comment _ => by simp [replRule, mapRule, styleDecls]
  | .imp .. => by simp [replRule, mapRule, styleDecls]
  | .ns .. => by simp [replRule, mapRule, styleDecls]
  | .unknown _ => by simp [replRule, mapRule, styleDecls]
theorem replRules_total (g : Str → Str) :
    ∀ rs, replRules (total g) rs = .ok (mapRules g rs, (styleDeclsL rs).flatMap uriValues)
  | [] => by simp [replRules, mapRules, styleDeclsL]
  | r :: rs => by simp [replRules, replRule_total g r, replRules_total g rs, mapRules, styleDeclsL]
end

theorem replImports_total (g : Str → Str) (reload : Str → Bool × Str × Sheet) :
    ∀ sh, replImports (total g) reload sh = .ok (mapImports g reload sh, importHrefs sh)
  | [] => by simp [replImports, mapImports, importHrefs]
  | .imp h m f t s :: rs => by
    simp [replImports, total, replImports_total g reload rs, mapImports, importHrefs]
  | .style .. :: rs => by simp [replImports, replImports_total g reload rs, mapImports, importHrefs]
  | .fontface .. :: rs => by simp [replImports, replImports_total g reload rs, mapImports, importHrefs]
  | .page .. :: rs => by simp [replImports, replImports_total g reload rs, mapImports, importHrefs]
  | .media .. :: rs => by simp [replImports, replImports_total g reload rs, mapImports, importHrefs]
  | .charset .. :: rs => by simp [replImports, replImports_total g reload rs, mapImports, importHrefs]
  | .comment .. :: rs => by simp [replImports, replImports_total g reload rs, mapImports, importHrefs]
  | .ns .. :: rs => by simp [replImports, replImports_total g reload rs, mapImports, importHrefs]
  | .unknown .. :: rs => by simp [replImports, replImports_total g reload rs, mapImports, importHrefs]

/-! the value and the call log of `replaceUrls` for a total replacer -/
theorem replaceUrls_total (g : Str → Str) (reload : Str → Bool × Str × Sheet) (sh : Sheet) :
    replaceUrls (total g) reload false sh
      = .ok (mapRules g (mapImports g reload sh),
             importHrefs sh ++ (styleDeclsL (mapImports g reload sh)).flatMap uriValues) := by
  simp [replaceUrls, replImports_total, replRules_total]

theorem replaceUrls_total_ign (g : Str → Str) (reload : Str → Bool × Str × Sheet) (sh : Sheet) :
    replaceUrls (total g) reload true sh = .ok (mapRules g sh, (styleDeclsL sh).flatMap uriValues) := by
  simp [replaceUrls, replRules_total]

theorem styleDeclsL_mapImports (g : Str → Str) (reload : Str → Bool × Str × Sheet) :
    ∀ sh, styleDeclsL (mapImports g reload sh) = styleDeclsL sh
  | [] => rfl
  | .imp .. :: rs => by simp [mapImports, styleDeclsL, styleDecls, styleDeclsL_mapImports g reload rs]
  | .style .. :: rs => by simp [mapImports, styleDeclsL, styleDeclsL_mapImports g reload rs]
  | .fontface .. :: rs => by simp [mapImports, styleDeclsL, styleDeclsL_mapImports g reload rs]
  | .page .. :: rs => by simp [mapImports, styleDeclsL, styleDeclsL_mapImports g reload rs]
  | .media .. :: rs => by simp [mapImports, styleDeclsL, styleDeclsL_mapImports g reload rs]
  | .charset .. :: rs => by simp [mapImports, styleDeclsL, styleDeclsL_mapImports g reload rs]
  | .comment .. :: rs => by simp [mapImports, styleDeclsL, styleDeclsL_mapImports g reload rs]
  | .ns .. :: rs => by simp [mapImports, styleDeclsL, styleDeclsL_mapImports g reload rs]
  | .unknown .. :: rs => by simp [mapImports, styleDeclsL, styleDeclsL_mapImports g reload rs]

theorem importHrefs_mapImports (g : Str → Str) (reload : Str → Bool × Str × Sheet) :
    ∀ sh, importHrefs (mapImports g reload sh) = (importHrefs sh).map g
  | [] => rfl
  | .imp .. :: rs => by simp [mapImports, importHrefs, importHrefs_mapImports g reload rs]
  | .style .. :: rs => by simp [mapImports, importHrefs, importHrefs_mapImports g reload rs]
  | .fontface .. :: rs => by simp [mapImports, importHrefs, importHrefs_mapImports g reload rs]
  | .page .. :: rs => by simp [mapImports, importHrefs, importHrefs_mapImports g reload rs]
  | .media .. :: rs => by simp [mapImports, importHrefs, importHrefs_mapImports g reload rs]
  | .charset .. :: rs => by simp [mapImports, importHrefs, importHrefs_mapImports g reload rs]
  | .comment .. :: rs => by simp [mapImports, importHrefs, importHrefs_mapImports g reload rs]
  | .ns .. :: rs => by simp [mapImports, importHrefs, importHrefs_mapImports g reload rs]
  | .unknown .. :: rs => by simp [mapImports, importHrefs, importHrefs_mapImports g reload rs]

theorem importHrefs_mapRules (g : Str → Str) : ∀ sh, importHrefs (mapRules g sh) = importHrefs sh
  | [] => rfl
  | .imp .. :: rs => by simp [mapRules, mapRule, importHrefs, importHrefs_mapRules g rs]
  | .style .. :: rs => by simp [mapRules, mapRule, importHrefs, importHrefs_mapRules g rs]
  | .fontface .. :: rs => by simp [mapRules, mapRule, importHrefs, importHrefs_mapRules g rs]
  | .page .. :: rs => by simp [mapRules, mapRule, importHrefs, importHrefs_mapRules g rs]
  | .media .. :: rs => by simp [mapRules, mapRule, importHrefs, importHrefs_mapRules g rs]
  | .charset .. :: rs => by simp [mapRules, mapRule, importHrefs, importHrefs_mapRules g rs]
  | .comment .. :: rs => by simp [mapRules, mapRule, importHrefs, importHrefs_mapRules g rs]
  | .ns .. :: rs => by simp [mapRules, mapRule, importHrefs, importHrefs_mapRules g rs]
  | .unknown .. :: rs => by simp [mapRules, mapRule, importHrefs, importHrefs_mapRules g rs]

theorem compUris_map (g : Str → Str) : ∀ cs, compUris (cs.map (mapComp g)) = (compUris cs).map g
  | [] => rfl
  | .uri u :: cs => by
    have := compUris_map g cs
    simp only [compUris] at this ⊢
    simp [mapComp, List.filterMap_cons, Comp.uri?, this]
  | .tok t :: cs => by
    have := compUris_map g cs
    simp only [compUris] at this ⊢
    simp [mapComp, List.filterMap_cons, Comp.uri?, this]
  | .fn n a :: cs => by
    have := compUris_map g cs
    simp only [compUris] at this ⊢
    simp [mapComp, List.filterMap_cons, Comp.uri?, this]

theorem uriValues_mapStyle (g : Str → Str) : ∀ st, uriValues (mapStyle g st) = (uriValues st).map g
  | [] => rfl
  | d :: ds => by
    have ih := uriValues_mapStyle g ds
    simp only [mapStyle] at ih ⊢
    simp only [List.map_cons, uriValues_cons, List.map_append, ih, compUris_map]

theorem marginUris_map (g : Str → Str) : ∀ ms, marginUris (mapMargins g ms) = (marginUris ms).map g
  | [] => rfl
  | m :: ms => by
    have ih := marginUris_map g ms
    simp only [marginUris, mapMargins] at ih ⊢
    simp [uriValues_mapStyle, ih]

/-- URLs of a rule in the order `_style_declarations` visits them -/
def ruleUris (r : Rule) : List Str := (styleDecls r).flatMap uriValues
def rulesUris (rs : List Rule) : List Str := (styleDeclsL rs).flatMap uriValues

theorem rulesUris_cons (r : Rule) (rs : List Rule) : rulesUris (r :: rs) = ruleUris r ++ rulesUris rs := by
  simp [rulesUris, ruleUris, styleDeclsL]

mutual
theorem ruleUris_map (g : Str → Str) : ∀ r, ruleUris (mapRule g r) = (ruleUris r).map g
  | .style sel st => by simp [ruleUris, mapRule, styleDecls, uriValues_mapStyle]
  | .fontface st => by simp [ruleUris, mapRule, styleDecls, uriValues_mapStyle]
  | .page sel st ms => by
    simp only [ruleUris, mapRule, styleDecls_page_uris, uriValues_mapStyle, marginUris_map, List.map_append]
  | .media m rs => by
    have := rulesUris_map g rs
    simp only [rulesUris, ruleUris] at this ⊢
    simp [mapRule, styleDecls, this]
  | .charset _ => by simp [ruleUris, mapRule, styleDecls]
  | .comment _ => by simp [ruleUris, mapRule, styleDecls]
  | .imp .. => by simp [ruleUris, mapRule, styleDecls]
  | .ns .. => by simp [ruleUris, mapRule, styleDecls]
  | .unknown _ => by simp [ruleUris, mapRule, styleDecls]
theorem rulesUris_map (g : Str → Str) : ∀ rs, rulesUris (mapRules g rs) = (rulesUris rs).map g
  | [] => rfl
  | r :: rs => by
    simp only [mapRules, rulesUris_cons, ruleUris_map g r, rulesUris_map g rs, List.map_append]
end

/-! the identity replacer -/
theorem mapComp_id : ∀ c, mapComp (fun u => u) c = c
  | .uri _ => rfl
  | .tok _ => rfl
  | .fn _ _ => rfl

theorem mapStyle_id (st : Style) : mapStyle (fun u => u) st = st := by
  unfold mapStyle
  have : ∀ d : Decl, { d with value := d.value.map (mapComp fun u => u) } = d := by
    intro d
    have h : d.value.map (mapComp fun u => u) = d.value := by
      rw [List.map_congr_left (g := id)] <;> simp [mapComp_id]
    rw [h]
  rw [List.map_congr_left (g := id)] <;> simp [this]

theorem mapMargins_id (ms : List (Str × Style)) : mapMargins (fun u => u) ms = ms := by
  unfold mapMargins
  rw [List.map_congr_left (g := id)] <;> simp [mapStyle_id]

mutual
theorem mapRule_id : ∀ r, mapRule (fun u => u) r = r
  | .style sel st => by simp [mapRule, mapStyle_id]
  | .fontface st => by simp [mapRule, mapStyle_id]
  | .page sel st ms => by simp [mapRule, mapStyle_id, mapMargins_id]
  | .media m rs => by simp [mapRule, mapRules_id rs]
  | .charset _ => by simp [mapRule]
  | .comment _ => by simp [mapRule]
  | .imp .. => by simp [mapRule]
  | .ns .. => by simp [mapRule]
  | .unknown _ => by simp [mapRule]
theorem mapRules_id : ∀ rs, mapRules (fun u => u) rs = rs
  | [] => rfl
  | r :: rs => by simp [mapRules, mapRule_id r, mapRules_id rs]
end

/-- fetching an import again gives what the rule holds already -/
def Stable (reload : Str → Bool × Str × Sheet) : Sheet → Prop
  | [] => True
  | .imp href _ f th s :: rs => reload href = (f, th, s) ∧ Stable reload rs
  | _ :: rs => Stable reload rs

theorem mapImports_id (reload : Str → Bool × Str × Sheet) : ∀ sh, Stable reload sh → mapImports (fun u => u) reload sh = sh
  | [], _ => rfl
  | .imp h m f t s :: rs, hs => by
    simp only [Stable] at hs
    simp [mapImports, hs.1, mapImports_id reload rs hs.2]
  | .style .. :: rs, hs => by simp only [Stable] at hs; simp [mapImports, mapImports_id reload rs hs]
  | .fontface .. :: rs, hs => by simp only [Stable] at hs; simp [mapImports, mapImports_id reload rs hs]
  | .page .. :: rs, hs => by simp only [Stable] at hs; simp [mapImports, mapImports_id reload rs hs]
  | .media .. :: rs, hs => by simp only [Stable] at hs; simp [mapImports, mapImports_id reload rs hs]
  | .charset .. :: rs, hs => by simp only [Stable] at hs; simp [mapImports, mapImports_id reload rs hs]
  | .comment .. :: rs, hs => by simp only [Stable] at hs; simp [mapImports, mapImports_id reload rs hs]
  | .ns .. :: rs, hs => by simp only [Stable] at hs; simp [mapImports, mapImports_id reload rs hs]
  | .unknown .. :: rs, hs => by simp only [Stable] at hs; simp [mapImports, mapImports_id reload rs hs]

/-! ## completeness of `getUrls` with respect to "every url() value" -/

/-- no url() hidden inside a function argument -/
def Comp.flat : Comp → Prop
  | .fn _ args => compsUrlsDeep args = []
  | _ => True

def FlatStyle (st : Style) : Prop := ∀ d ∈ st, ∀ c ∈ d.value, c.flat
def FlatSheet (sh : Sheet) : Prop := ∀ st ∈ styleDeclsL sh, FlatStyle st

theorem compsUrlsDeep_flat : ∀ cs : List Comp, (∀ c ∈ cs, c.flat) → compsUrlsDeep cs = cs.filterMap Comp.uri?
  | [], _ => rfl
  | .uri u :: cs, h => by
    have := compsUrlsDeep_flat cs (fun c hc => h c (List.mem_cons_of_mem _ hc))
    simp [compsUrlsDeep, compUrlsDeep, List.filterMap_cons, Comp.uri?, this]
  | .tok t :: cs, h => by
    have := compsUrlsDeep_flat cs (fun c hc => h c (List.mem_cons_of_mem _ hc))
    simp [compsUrlsDeep, compUrlsDeep, List.filterMap_cons, Comp.uri?, this]
  | .fn n a :: cs, h => by
    have := compsUrlsDeep_flat cs (fun c hc => h c (List.mem_cons_of_mem _ hc))
    have h0 : compsUrlsDeep a = [] := h (.fn n a) (List.mem_cons_self ..)
    simp [compsUrlsDeep, compUrlsDeep, List.filterMap_cons, Comp.uri?, this, h0]

theorem uriValuesDeep_flat : ∀ st : Style, FlatStyle st → uriValuesDeep st = uriValues st
  | [], _ => rfl
  | d :: ds, h => by
    have ih := uriValuesDeep_flat ds (fun d' hd => h d' (List.mem_cons_of_mem _ hd))
    have h0 := compsUrlsDeep_flat d.value (h d (List.mem_cons_self ..))
    simp only [uriValuesDeep, uriValues] at ih ⊢
    simp [h0, ih]

theorem flatMap_uriValuesDeep_flat : ∀ sts : List Style, (∀ st ∈ sts, FlatStyle st) →
    sts.flatMap uriValuesDeep = sts.flatMap uriValues
  | [], _ => rfl
  | st :: sts, h => by
    simp [uriValuesDeep_flat st (h st (List.mem_cons_self ..)),
      flatMap_uriValuesDeep_flat sts (fun s hs => h s (List.mem_cons_of_mem _ hs))]

end CssVerif.Urls
