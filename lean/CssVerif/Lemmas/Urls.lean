import CssVerif.Model.Urls
/-!
# Lemmas for C19 (helpers; the property theorems are in `Props/C19.lean`)
-/
namespace CssVerif.Urls

/-! ## T19.1 — what `replaceUrls` computes when the replacer never raises -/

/-- a replacer that never raises -/
def total (g : Str → Str) : Str → Except Err Str := fun u => .ok (g u)

mutual
def mapComp (g : Str → Str) : Comp → Comp
  | .uri u => .uri (g u)
  | .tok t => .tok t
  | .fn n args => .fn n (mapComps g args)
def mapComps (g : Str → Str) : List Comp → List Comp
  | [] => []
  | c :: cs => mapComp g c :: mapComps g cs
end

def mapStyle (g : Str → Str) (st : Style) : Style := st.map fun d => { d with value := mapComps g d.value }

def mapMargins (g : Str → Str) (ms : List (Str × Style)) : List (Str × Style) := ms.map fun m => (m.1, mapStyle g m.2)

mutual
def mapRule (g : Str → Str) : Rule → Rule
  | .style sel st => .style sel (mapStyle g st)
  | .fontface st => .fontface (mapStyle g st)
  | .page sel st ms => .page sel (mapStyle g st) (mapMargins g ms)
  | .media m rs => .media m (mapRules g rs)
  | r => r
def mapRules (g : Str → Str) : List Rule → List Rule
  | [] => []
  | r :: rs => mapRule g r :: mapRules g rs
end

def mapImports (g : Str → Str) (reload : Str → Bool × Str × Sheet) : Sheet → Sheet
  | [] => []
  | .imp href media _ _ _ :: rs =>
    .imp (g href) media (reload (g href)).1 (reload (g href)).2.1 (reload (g href)).2.2 :: mapImports g reload rs
  | r :: rs => r :: mapImports g reload rs

theorem uriValues_cons (d : Decl) (ds : Style) : uriValues (d :: ds) = compsUris d.value ++ uriValues ds := by
  simp [uriValues]

theorem uriValues_nil : uriValues [] = [] := rfl

mutual
theorem replComp_total (g : Str → Str) : ∀ c, replComp (total g) c = .ok (mapComp g c, compUris c)
  | .uri u => by simp [replComp, total, mapComp, compUris]
  | .tok t => by simp [replComp, mapComp, compUris]
  | .fn n a => by simp [replComp, replComps_total g a, mapComp, compUris]
theorem replComps_total (g : Str → Str) : ∀ cs, replComps (total g) cs = .ok (mapComps g cs, compsUris cs)
  | [] => by simp [replComps, mapComps, compsUris]
  | c :: cs => by simp [replComps, replComp_total g c, replComps_total g cs, mapComps, compsUris]
end

theorem replStyle_total (g : Str → Str) : ∀ st, replStyle (total g) st = .ok (mapStyle g st, uriValues st)
  | [] => by simp [replStyle, mapStyle, uriValues]
  | d :: ds => by
    simp [replStyle, replComps_total, replStyle_total g ds, uriValues_cons, mapStyle]

def marginUris (ms : List (Str × Style)) : List Str := ms.flatMap fun m => uriValues m.2

theorem replMargins_total (g : Str → Str) :
    ∀ ms, replMargins (total g) ms = .ok (mapMargins g ms, marginUris ms)
  | [] => by simp [replMargins, mapMargins, marginUris]
  | m :: ms => by
    simp [replMargins, replStyle_total, replMargins_total g ms, mapMargins, marginUris]

theorem styleDecls_page_uris (sel : Str) (st : Style) (ms : List (Str × Style)) :
    (styleDecls (.page sel st ms)).flatMap uriValues = uriValues st ++ marginUris ms := by
  simp [styleDecls, marginUris, List.flatMap_map]

mutual
theorem replRule_total (g : Str → Str) :
    ∀ r, replRule (total g) r = .ok (mapRule g r, (styleDecls r).flatMap uriValues)
  | .style sel st => by simp [replRule, replStyle_total, mapRule, styleDecls]
  | .fontface st => by simp [replRule, replStyle_total, mapRule, styleDecls]
  | .page sel st ms => by
    simp only [replRule, replStyle_total, replMargins_total, mapRule, styleDecls_page_uris]
  | .media m rs => by simp [replRule, replRules_total g rs, mapRule, styleDecls]
  | .charset _ => by simp [replRule, mapRule, styleDecls]
  | .comment _ => by simp [replRule, mapRule, styleDecls]
  | .imp .. => by simp [replRule, mapRule, styleDecls]
  | .ns .. => by simp [replRule, mapRule, styleDecls]
  | .unknown _ => by simp [replRule, mapRule, styleDecls]
theorem replRules_total (g : Str → Str) :
    ∀ rs, replRules (total g) rs = .ok (mapRules g rs, (styleDeclsL rs).flatMap uriValues)
  | [] => by simp [replRules, mapRules, styleDeclsL]
  | r :: rs => by simp [replRules, replRule_total g r, replRules_total g rs, mapRules, styleDeclsL]
end

theorem replImports_total (g : Str → Str) (reload : Str → Bool × Str × Sheet) :
    ∀ sh, replImports (total g) reload sh = .ok (mapImports g reload sh, importHrefs sh)
  | [] => by simp [replImports, mapImports, importHrefs]
  | .imp h m f t s :: rs => by
    simp [replImports, total, replImports_total g reload rs, mapImports, importHrefs]
  | .style .. :: rs => by simp [replImports, replImports_total g reload rs, mapImports, importHrefs]
  | .fontface .. :: rs => by simp [replImports, replImports_total g reload rs, mapImports, importHrefs]
  | .page .. :: rs => by simp [replImports, replImports_total g reload rs, mapImports, importHrefs]
  | .media .. :: rs => by simp [replImports, replImports_total g reload rs, mapImports, importHrefs]
  | .charset .. :: rs => by simp [replImports, replImports_total g reload rs, mapImports, importHrefs]
  | .comment .. :: rs => by simp [replImports, replImports_total g reload rs, mapImports, importHrefs]
  | .ns .. :: rs => by simp [replImports, replImports_total g reload rs, mapImports, importHrefs]
  | .unknown .. :: rs => by simp [replImports, replImports_total g reload rs, mapImports, importHrefs]

/-! the value and the call log of `replaceUrls` for a total replacer -/
theorem replaceUrls_total (g : Str → Str) (reload : Str → Bool × Str × Sheet) (sh : Sheet) :
    replaceUrls (total g) reload false sh
      = .ok (mapRules g (mapImports g reload sh),
             importHrefs sh ++ (styleDeclsL (mapImports g reload sh)).flatMap uriValues) := by
  simp [replaceUrls, replImports_total, replRules_total]

theorem replaceUrls_total_ign (g : Str → Str) (reload : Str → Bool × Str × Sheet) (sh : Sheet) :
    replaceUrls (total g) reload true sh = .ok (mapRules g sh, (styleDeclsL sh).flatMap uriValues) := by
  simp [replaceUrls, replRules_total]

theorem styleDeclsL_mapImports (g : Str → Str) (reload : Str → Bool × Str × Sheet) :
    ∀ sh, styleDeclsL (mapImports g reload sh) = styleDeclsL sh
  | [] => rfl
  | .imp .. :: rs => by simp [mapImports, styleDeclsL, styleDecls, styleDeclsL_mapImports g reload rs]
  | .style .. :: rs => by simp [mapImports, styleDeclsL, styleDeclsL_mapImports g reload rs]
  | .fontface .. :: rs => by simp [mapImports, styleDeclsL, styleDeclsL_mapImports g reload rs]
  | .page .. :: rs => by simp [mapImports, styleDeclsL, styleDeclsL_mapImports g reload rs]
  | .media .. :: rs => by simp [mapImports, styleDeclsL, styleDeclsL_mapImports g reload rs]
  | .charset .. :: rs => by simp [mapImports, styleDeclsL, styleDeclsL_mapImports g reload rs]
  | .comment .. :: rs => by simp [mapImports, styleDeclsL, styleDeclsL_mapImports g reload rs]
  | .ns .. :: rs => by simp [mapImports, styleDeclsL, styleDeclsL_mapImports g reload rs]
  | .unknown .. :: rs => by simp [mapImports, styleDeclsL, styleDeclsL_mapImports g reload rs]

theorem importHrefs_mapImports (g : Str → Str) (reload : Str → Bool × Str × Sheet) :
    ∀ sh, importHrefs (mapImports g reload sh) = (importHrefs sh).map g
  | [] => rfl
  | .imp .. :: rs => by simp [mapImports, importHrefs, importHrefs_mapImports g reload rs]
  | .style .. :: rs => by simp [mapImports, importHrefs, importHrefs_mapImports g reload rs]
  | .fontface .. :: rs => by simp [mapImports, importHrefs, importHrefs_mapImports g reload rs]
  | .page .. :: rs => by simp [mapImports, importHrefs, importHrefs_mapImports g reload rs]
  | .media .. :: rs => by simp [mapImports, importHrefs, importHrefs_mapImports g reload rs]
  | .charset .. :: rs => by simp [mapImports, importHrefs, importHrefs_mapImports g reload rs]
  | .comment .. :: rs => by simp [mapImports, importHrefs, importHrefs_mapImports g reload rs]
  | .ns .. :: rs => by simp [mapImports, importHrefs, importHrefs_mapImports g reload rs]
  | .unknown .. :: rs => by simp [mapImports, importHrefs, importHrefs_mapImports g reload rs]

theorem importHrefs_mapRules (g : Str → Str) : ∀ sh, importHrefs (mapRules g sh) = importHrefs sh
  | [] => rfl
  | .imp .. :: rs => by simp [mapRules, mapRule, importHrefs, importHrefs_mapRules g rs]
  | .style .. :: rs => by simp [mapRules, mapRule, importHrefs, importHrefs_mapRules g rs]
  | .fontface .. :: rs => by simp [mapRules, mapRule, importHrefs, importHrefs_mapRules g rs]
  | .page .. :: rs => by simp [mapRules, mapRule, importHrefs, importHrefs_mapRules g rs]
  | .media .. :: rs => by simp [mapRules, mapRule, importHrefs, importHrefs_mapRules g rs]
  | .charset .. :: rs => by simp [mapRules, mapRule, importHrefs, importHrefs_mapRules g rs]
  | .comment .. :: rs => by simp [mapRules, mapRule, importHrefs, importHrefs_mapRules g rs]
  | .ns .. :: rs => by simp [mapRules, mapRule, importHrefs, importHrefs_mapRules g rs]
  | .unknown .. :: rs => by simp [mapRules, mapRule, importHrefs, importHrefs_mapRules g rs]

mutual
theorem compUris_map (g : Str → Str) : ∀ c, compUris (mapComp g c) = (compUris c).map g
  | .uri u => by simp [mapComp, compUris]
  | .tok t => by simp [mapComp, compUris]
  | .fn n a => by simp [mapComp, compUris, compsUris_map g a]
theorem compsUris_map (g : Str → Str) : ∀ cs, compsUris (mapComps g cs) = (compsUris cs).map g
  | [] => by simp [mapComps, compsUris]
  | c :: cs => by simp [mapComps, compsUris, compUris_map g c, compsUris_map g cs]
end

theorem uriValues_mapStyle (g : Str → Str) : ∀ st, uriValues (mapStyle g st) = (uriValues st).map g
  | [] => rfl
  | d :: ds => by
    have ih := uriValues_mapStyle g ds
    simp only [mapStyle] at ih ⊢
    simp only [List.map_cons, uriValues_cons, List.map_append, ih, compsUris_map]

theorem marginUris_map (g : Str → Str) : ∀ ms, marginUris (mapMargins g ms) = (marginUris ms).map g
  | [] => rfl
  | m :: ms => by
    have ih := marginUris_map g ms
    simp only [marginUris, mapMargins] at ih ⊢
    simp [uriValues_mapStyle, ih]

/-- URLs of a rule in the order `_style_declarations` visits them -/
def ruleUris (r : Rule) : List Str := (styleDecls r).flatMap uriValues
def rulesUris (rs : List Rule) : List Str := (styleDeclsL rs).flatMap uriValues

theorem rulesUris_cons (r : Rule) (rs : List Rule) : rulesUris (r :: rs) = ruleUris r ++ rulesUris rs := by
  simp [rulesUris, ruleUris, styleDeclsL]

mutual
theorem ruleUris_map (g : Str → Str) : ∀ r, ruleUris (mapRule g r) = (ruleUris r).map g
  | .style sel st => by simp [ruleUris, mapRule, styleDecls, uriValues_mapStyle]
  | .fontface st => by simp [ruleUris, mapRule, styleDecls, uriValues_mapStyle]
  | .page sel st ms => by
    simp only [ruleUris, mapRule, styleDecls_page_uris, uriValues_mapStyle, marginUris_map, List.map_append]
  | .media m rs => by
    have := rulesUris_map g rs
    simp only [rulesUris, ruleUris] at this ⊢
    simp [mapRule, styleDecls, this]
  | .charset _ => by simp [ruleUris, mapRule, styleDecls]
  | .comment _ => by simp [ruleUris, mapRule, styleDecls]
  | .imp .. => by simp [ruleUris, mapRule, styleDecls]
  | .ns .. => by simp [ruleUris, mapRule, styleDecls]
  | .unknown _ => by simp [ruleUris, mapRule, styleDecls]
theorem rulesUris_map (g : Str → Str) : ∀ rs, rulesUris (mapRules g rs) = (rulesUris rs).map g
  | [] => rfl
  | r :: rs => by
    simp only [mapRules, rulesUris_cons, ruleUris_map g r, rulesUris_map g rs, List.map_append]
end

/-! the identity replacer -/
mutual
theorem mapComp_id : ∀ c, mapComp (fun u => u) c = c
  | .uri _ => rfl
  | .tok _ => rfl
  | .fn n a => by simp [mapComp, mapComps_id a]
theorem mapComps_id : ∀ cs, mapComps (fun u => u) cs = cs
  | [] => rfl
  | c :: cs => by simp [mapComps, mapComp_id c, mapComps_id cs]
end

theorem mapStyle_id (st : Style) : mapStyle (fun u => u) st = st := by
  unfold mapStyle
  rw [List.map_congr_left (g := id)] <;> simp [mapComps_id]

theorem mapMargins_id (ms : List (Str × Style)) : mapMargins (fun u => u) ms = ms := by
  unfold mapMargins
  rw [List.map_congr_left (g := id)] <;> simp [mapStyle_id]

mutual
theorem mapRule_id : ∀ r, mapRule (fun u => u) r = r
  | .style sel st => by simp [mapRule, mapStyle_id]
  | .fontface st => by simp [mapRule, mapStyle_id]
  | .page sel st ms => by simp [mapRule, mapStyle_id, mapMargins_id]
  | .media m rs => by simp [mapRule, mapRules_id rs]
  | .charset _ => by simp [mapRule]
  | .comment _ => by simp [mapRule]
  | .imp .. => by simp [mapRule]
  | .ns .. => by simp [mapRule]
  | .unknown _ => by simp [mapRule]
theorem mapRules_id : ∀ rs, mapRules (fun u => u) rs = rs
  | [] => rfl
  | r :: rs => by simp [mapRules, mapRule_id r, mapRules_id rs]
end

/-- fetching an import again gives what the rule holds already -/
def Stable (reload : Str → Bool × Str × Sheet) : Sheet → Prop
  | [] => True
  | .imp href _ f th s :: rs => reload href = (f, th, s) ∧ Stable reload rs
  | _ :: rs => Stable reload rs

theorem mapImports_id (reload : Str → Bool × Str × Sheet) : ∀ sh, Stable reload sh → mapImports (fun u => u) reload sh = sh
  | [], _ => rfl
  | .imp h m f t s :: rs, hs => by
    simp only [Stable] at hs
    simp [mapImports, hs.1, mapImports_id reload rs hs.2]
  | .style .. :: rs, hs => by simp only [Stable] at hs; simp [mapImports, mapImports_id reload rs hs]
  | .fontface .. :: rs, hs => by simp only [Stable] at hs; simp [mapImports, mapImports_id reload rs hs]
  | .page .. :: rs, hs => by simp only [Stable] at hs; simp [mapImports, mapImports_id reload rs hs]
  | .media .. :: rs, hs => by simp only [Stable] at hs; simp [mapImports, mapImports_id reload rs hs]
  | .charset .. :: rs, hs => by simp only [Stable] at hs; simp [mapImports, mapImports_id reload rs hs]
  | .comment .. :: rs, hs => by simp only [Stable] at hs; simp [mapImports, mapImports_id reload rs hs]
  | .ns .. :: rs, hs => by simp only [Stable] at hs; simp [mapImports, mapImports_id reload rs hs]
  | .unknown .. :: rs, hs => by simp only [Stable] at hs; simp [mapImports, mapImports_id reload rs hs]

/-! ## completeness of `getUrls` with respect to "every url() value" (fix: `_values` descends into functions) -/

mutual
theorem compUris_deep : ∀ c, compUris c = compUrlsDeep c
  | .uri _ => rfl
  | .tok _ => rfl
  | .fn n a => by simp [compUris, compUrlsDeep, compsUris_deep a]
theorem compsUris_deep : ∀ cs, compsUris cs = compsUrlsDeep cs
  | [] => rfl
  | c :: cs => by simp [compsUris, compsUrlsDeep, compUris_deep c, compsUris_deep cs]
end

theorem uriValues_deep (st : Style) : uriValues st = uriValuesDeep st := by
  simp [uriValues, uriValuesDeep, compsUris_deep]

/-! ## T19.2 — path algebra: `normpath` (re-basing) against `urljoin` (resolving) on segment lists -/

/-- a segment that is a name: not empty, not `.`, not `..` -/
def Normal (c : Str) : Prop := c ≠ [] ∧ c ≠ dot ∧ c ≠ dotdot

def dd (k : Nat) : List Str := List.replicate k dotdot

theorem normStep_empty (a : Bool) (st : List Str) : normStep a st [] = st := by simp [normStep]
theorem normStep_dot (a : Bool) (st : List Str) : normStep a st dot = st := by simp [normStep]
theorem rdsStep_dot (st : List Str) : rdsStep st dot = st := by
  simp [rdsStep, dot, dotdot]
theorem rdsStep_dotdot (st : List Str) : rdsStep st dotdot = st.tail := by simp [rdsStep]
theorem rdsStep_normal (st : List Str) (c : Str) (h : c ≠ dot ∧ c ≠ dotdot) : rdsStep st c = c :: st := by
  simp [rdsStep, h.1, h.2]
theorem normStep_normal (a : Bool) (st : List Str) (c : Str) (h : Normal c) : normStep a st c = c :: st := by
  simp [normStep, h.1, h.2.1, h.2.2]

theorem dd_succ (k : Nat) : dd (k + 1) = dotdot :: dd k := by simp [dd, List.replicate_succ]

/-- one step of both machines keeps them in step -/
theorem step_inv (S : List Str) (N : List Str) (k : Nat) (hN : ∀ c ∈ N, Normal c) (c : Str) (hc : c ≠ []) :
    ∃ (N' : List Str) (k' : Nat), (∀ c ∈ N', Normal c) ∧ normStep false (N.reverse ++ dd k) c = N'.reverse ++ dd k' ∧
      rdsStep (N.reverse ++ S.drop k) c = N'.reverse ++ S.drop k' := by
  by_cases h1 : c = dot
  · subst h1
    exact ⟨N, k, hN, normStep_dot _ _, rdsStep_dot _⟩
  by_cases h2 : c = dotdot
  · subst h2
    rcases List.eq_nil_or_concat N with rfl | ⟨N0, x, hNx⟩
    · refine ⟨[], k + 1, by simp, ?_, ?_⟩
      · cases k with
        | zero => simp [normStep, dd, hc, h1]
        | succ k => simp [normStep, dd_succ, hc, h1]
      · simp [rdsStep_dotdot]
    · rw [List.concat_eq_append] at hNx; subst hNx
      have hx : Normal x := hN x (by simp)
      refine ⟨N0, k, fun c hc => hN c (by simp [hc]), ?_, ?_⟩
      · simp [normStep, hx.2.2, hc, h1]
      · simp [rdsStep_dotdot]
  · have hn : Normal c := ⟨hc, h1, h2⟩
    refine ⟨N ++ [c], k, ?_, ?_, ?_⟩
    · intro d hd
      rcases List.mem_append.mp hd with h | h
      · exact hN d h
      · simp at h; subst h; exact hn
    · simp [normStep_normal _ _ _ hn]
    · simp [rdsStep_normal _ _ ⟨h1, h2⟩]

/-- the two machines stay in step over any list of non-empty segments -/
theorem fold_inv (S : List Str) : ∀ (cs : List Str) (N : List Str) (k : Nat), (∀ c ∈ N, Normal c) →
    (∀ c ∈ cs, c ≠ []) →
    ∃ (N' : List Str) (k' : Nat), (∀ c ∈ N', Normal c) ∧
      cs.foldl (normStep false) (N.reverse ++ dd k) = N'.reverse ++ dd k' ∧
      cs.foldl rdsStep (N.reverse ++ S.drop k) = N'.reverse ++ S.drop k'
  | [], N, k, hN, _ => ⟨N, k, hN, rfl, rfl⟩
  | c :: cs, N, k, hN, hcs => by
    obtain ⟨N1, k1, hN1, e1, e2⟩ := step_inv S N k hN c (hcs c (List.mem_cons_self ..))
    obtain ⟨N2, k2, hN2, f1, f2⟩ := fold_inv S cs N1 k1 hN1 (fun d hd => hcs d (List.mem_cons_of_mem _ hd))
    exact ⟨N2, k2, hN2, by simp only [List.foldl_cons, e1, f1], by simp only [List.foldl_cons, e2, f2]⟩

theorem rds_fold_dd (S : List Str) : ∀ k, (dd k).foldl rdsStep S = S.drop k
  | 0 => by simp [dd]
  | k + 1 => by
    rw [dd_succ, List.foldl_cons, rdsStep_dotdot, rds_fold_dd S.tail k]
    simp [List.drop_tail]

def NoDot (c : Str) : Prop := c ≠ dot ∧ c ≠ dotdot

theorem rds_fold_nodot : ∀ (N : List Str) (S : List Str), (∀ c ∈ N, NoDot c) → N.foldl rdsStep S = N.reverse ++ S
  | [], S, _ => by simp
  | c :: N, S, h => by
    have hc := h c (List.mem_cons_self ..)
    rw [List.foldl_cons, rdsStep_normal _ _ hc,
      rds_fold_nodot N (c :: S) (fun d hd => h d (List.mem_cons_of_mem _ hd))]
    simp

theorem rds_fold_normal (N : List Str) (S : List Str) (h : ∀ c ∈ N, Normal c) : N.foldl rdsStep S = N.reverse ++ S :=
  rds_fold_nodot N S (fun c hc => ⟨(h c hc).2.1, (h c hc).2.2⟩)

theorem dd_reverse (k : Nat) : (dd k).reverse = dd k := by simp [dd]

/-- the stacks: resolving the normalised path from `S` gives what resolving the raw path gives -/
theorem rds_norm_fold (S : List Str) (cs : List Str) (h : ∀ c ∈ cs, c ≠ []) :
    (normComps false cs).foldl rdsStep S = cs.foldl rdsStep S := by
  obtain ⟨N, k, hN, e1, e2⟩ := fold_inv S cs [] 0 (by simp) h
  simp only [List.reverse_nil, List.nil_append, dd, List.replicate_zero, List.drop_zero] at e1 e2
  have e1' : cs.foldl (normStep false) [] = N.reverse ++ dd k := e1
  rw [normComps, e1', e2, List.reverse_append, dd_reverse, List.reverse_reverse, List.foldl_append,
    rds_fold_dd, rds_fold_normal N _ hN]

/-- what `normpath` leaves of a relative path: `..` segments and names, no empty segment -/
theorem normComps_segs_nonempty (cs : List Str) (h : ∀ c ∈ cs, c ≠ []) : ∀ c ∈ normComps false cs, c ≠ [] := by
  obtain ⟨N, k, hN, e1, _⟩ := fold_inv [] cs [] 0 (by simp) h
  have e1' : cs.foldl (normStep false) [] = N.reverse ++ dd k := by simpa [dd] using e1
  intro c hc
  rw [normComps, e1'] at hc
  simp only [List.reverse_append, List.reverse_reverse, List.mem_append, List.mem_reverse] at hc
  rcases hc with hc | hc
  · simp [dd, List.mem_replicate] at hc
    rw [hc.2]; simp [dotdot]
  · exact (hN c hc).1

/-- the last segment of a normalised path is the last segment of the path, when that is a name -/
theorem normComps_getLast (a : Bool) (cs : List Str) (f : Str) (hf : Normal f) :
    (normComps a (cs ++ [f])).getLast? = some f := by
  simp [normComps, List.foldl_append, normStep_normal _ _ _ hf]

/-- what `urljoin` leaves on its stack contains no dot segments -/
theorem rds_stack_nodot : ∀ (cs : List Str) (S : List Str), (∀ c ∈ S, NoDot c) → ∀ c ∈ cs.foldl rdsStep S, NoDot c
  | [], S, h => h
  | c :: cs, S, h => by
    rw [List.foldl_cons]
    apply rds_stack_nodot cs
    intro d hd
    unfold rdsStep at hd
    split at hd
    · exact h d (List.mem_of_mem_tail hd)
    · split at hd
      · exact h d hd
      · rcases List.mem_cons.mp hd with rfl | hd
        · exact ⟨by assumption, by assumption⟩
        · exact h d hd

/-- T19.2 on segment lists: from any base directory `T`, the re-based path `norm (D ++ U ++ [f])` resolves to what
`D ++ U ++ [f]` resolves to (the directory of the import, then the path of the URL) -/
theorem rdsSegs_norm (T cs : List Str) (f : Str) (h : ∀ c ∈ cs, c ≠ []) (hf : Normal f) :
    rdsSegs (T ++ normComps false (cs ++ [f])) = rdsSegs (T ++ (cs ++ [f])) := by
  have hcs : ∀ c ∈ cs ++ [f], c ≠ [] := by
    intro c hc
    rcases List.mem_append.mp hc with hc | hc
    · exact h c hc
    · simp at hc; subst hc; exact hf.1
  have l1 : (T ++ normComps false (cs ++ [f])).getLast? = some f := by
    rw [List.getLast?_append, normComps_getLast false cs f hf]; rfl
  have l2 : (T ++ (cs ++ [f])).getLast? = some f := by simp
  unfold rdsSegs
  simp only [l1, l2, List.foldl_append (l := T), rds_norm_fold _ _ hcs]

/-- the directory of the imported sheet, as `urljoin(parent, href)` leaves it, for `href = D/g` -/
theorem rdsSegs_dir (T D : List Str) (g : Str) (hg : Normal g) :
    (rdsSegs (T ++ D ++ [g])).dropLast = ((T ++ D).foldl rdsStep []).reverse := by
  have l : (T ++ D ++ [g]).getLast? = some g := by simp
  unfold rdsSegs
  simp only [l, List.foldl_append (l := T ++ D), List.foldl_cons, List.foldl_nil, rdsStep_normal _ _ ⟨hg.2.1, hg.2.2⟩]
  simp [hg.2.1, hg.2.2]

/-- resolving `X` from the imported sheet's directory = resolving `D ++ X` from the importing sheet's directory -/
theorem rdsSegs_two_step (T D X : List Str) (g : Str) (hg : Normal g) (hX : X ≠ []) :
    rdsSegs ((rdsSegs (T ++ D ++ [g])).dropLast ++ X) = rdsSegs (T ++ D ++ X) := by
  rw [rdsSegs_dir T D g hg]
  have hl : ∀ A : List Str, (A ++ X).getLast? = X.getLast? := by
    intro A
    rw [List.getLast?_append]
    cases hx : X.getLast? with
    | none => simp [List.getLast?_eq_none_iff] at hx; exact absurd hx hX
    | some x => rfl
  unfold rdsSegs
  simp only [hl, List.foldl_append (l' := X)]
  have hs : ∀ c ∈ (T ++ D).foldl rdsStep [], NoDot c := rds_stack_nodot _ [] (by simp)
  rw [rds_fold_nodot _ [] (by simpa using hs)]
  simp


instance {ε α : Type} [DecidableEq ε] [DecidableEq α] : DecidableEq (Except ε α)
  | .ok a, .ok b => if h : a = b then isTrue (by rw [h]) else isFalse (by intro e; cases e; exact h rfl)
  | .error a, .error b => if h : a = b then isTrue (by rw [h]) else isFalse (by intro e; cases e; exact h rfl)
  | .ok _, .error _ => isFalse (by intro e; cases e)
  | .error _, .ok _ => isFalse (by intro e; cases e)

/-- the segments of the re-based path of a URL `U…/f` against the import directory `D`, as `Replacer.__call__`
builds it: `normpath`, and a slash put back when the URL ended in `/`, `.` or `..` -/
def rebasedSegs (D U : List Str) (f : Str) : List Str :=
  if f = [] ∨ f = dot ∨ f = dotdot then
    (if normComps false (D ++ U ++ [f]) = [] then [dot, []] else normComps false (D ++ U ++ [f]) ++ [[]])
  else normComps false (D ++ U ++ [f])

theorem rds_fold_dirslash (S N : List Str) :
    (if N = [] then [dot, []] else N ++ [[]]).foldl rdsStep S = [] :: N.foldl rdsStep S := by
  have h0 : rdsStep (N.foldl rdsStep S) [] = [] :: N.foldl rdsStep S := by
    simp [rdsStep, dot, dotdot]
  by_cases h : N = []
  · subst h
    simp [rdsStep_dot, rdsStep, dot, dotdot]
  · simp only [h, ↓reduceIte, List.foldl_append, List.foldl_cons, List.foldl_nil, h0]

theorem dirslash_last (N : List Str) : (if N = [] then [dot, []] else N ++ [[]]).getLast? = some [] := by
  by_cases h : N = []
  · simp [h]
  · simp [h]

theorem normComps_snoc_empty (cs : List Str) : normComps false (cs ++ [[]]) = normComps false cs := by
  simp [normComps, List.foldl_append, normStep_empty]

theorem normComps_snoc_dot (cs : List Str) : normComps false (cs ++ [dot]) = normComps false cs := by
  simp [normComps, List.foldl_append, normStep_dot]

/-- T19.2 for URLs that name a directory (fix: the trailing slash is put back) -/
theorem rdsSegs_dir_url (T D U : List Str) (g f : Str) (hD : ∀ c ∈ D, c ≠ []) (hU : ∀ c ∈ U, c ≠ [])
    (hg : Normal g) (hf : f = [] ∨ f = dot ∨ f = dotdot) :
    rdsSegs (T ++ rebasedSegs D U f) = rdsSegs ((rdsSegs (T ++ D ++ [g])).dropLast ++ (U ++ [f])) := by
  rw [rdsSegs_two_step T D (U ++ [f]) g hg (by simp)]
  have hL : ∀ c ∈ D ++ U, c ≠ [] := by
    intro c hc
    rcases List.mem_append.mp hc with hc | hc
    · exact hD c hc
    · exact hU c hc
  have hne : ([] : Str) ≠ dot ∧ ([] : Str) ≠ dotdot := by simp [dot, dotdot]
  unfold rebasedSegs
  simp only [hf, ↓reduceIte]
  -- left: stack after the re-based path
  have left : ∀ N : List Str, rdsSegs (T ++ (if N = [] then [dot, []] else N ++ [[]]))
      = ([] :: N.foldl rdsStep (T.foldl rdsStep [])).reverse := by
    intro N
    unfold rdsSegs
    have hl : (T ++ (if N = [] then [dot, []] else N ++ [[]])).getLast? = some [] := by
      rw [List.getLast?_append, dirslash_last]; rfl
    simp only [hl, List.foldl_append, rds_fold_dirslash]
    simp [dot, dotdot]
  rw [left]
  have e : T ++ D ++ (U ++ [f]) = T ++ ((D ++ U) ++ [f]) := by simp
  rw [e]
  unfold rdsSegs
  have hl : (T ++ ((D ++ U) ++ [f])).getLast? = some f := by simp
  simp only [hl, List.foldl_append (l := T), List.foldl_append (l := D ++ U), List.foldl_cons, List.foldl_nil]
  rcases hf with rfl | rfl | rfl
  · have : D ++ U ++ [[]] = (D ++ U) ++ [[]] := rfl
    rw [normComps_snoc_empty, rds_norm_fold _ _ hL]
    simp [rdsStep, dot, dotdot]
  · rw [normComps_snoc_dot, rds_norm_fold _ _ hL]
    simp [rdsStep_dot]
  · have hL2 : ∀ c ∈ D ++ U ++ [dotdot], c ≠ [] := by
      intro c hc
      rcases List.mem_append.mp hc with hc | hc
      · exact hL c hc
      · simp at hc; subst hc; simp [dotdot]
    rw [rds_norm_fold _ _ hL2]
    simp [List.foldl_append, rdsStep_dotdot]


/-- every code point is one that `quote(…, safe=…)` of `Replacer` leaves alone -/
def QuoteSafe (s : Str) : Prop := ∀ c ∈ s, quoteSafe c = true

theorem replacerSafe_lt : ∀ c ∈ CssVerif.Gen.C19.replacerSafeChars, c < 0x80 := by decide

theorem quoteSafe_lt (c : Nat) (h : quoteSafe c = true) : c < 0x80 := by
  simp only [quoteSafe, isAsciiAlpha, isDigit, replacerSafe, Bool.or_eq_true, Bool.and_eq_true,
    decide_eq_true_eq, List.contains_eq_mem] at h
  rcases h with (((((((h|h)|h)|h)|h)|h)|h)|h)
  all_goals first | omega | exact replacerSafe_lt c h

theorem quote_safe : ∀ s, QuoteSafe s → quote s = .ok s
  | [], _ => rfl
  | c :: cs, h => by
    have hc := h c (List.mem_cons_self ..)
    have ih := quote_safe cs (fun d hd => h d (List.mem_cons_of_mem _ hd))
    have hlt := quoteSafe_lt c hc
    simp [quote, utf8, hlt, ih, quoteByte, hc]

/-- unreserved characters, `/` and `%`: the characters that none of `urlsplit`, `urlparse`, `quote` treats
specially (what `quote(…, safe='/%')` left alone before the reserved characters were added to `safe`) -/
def plainChar (b : Nat) : Bool :=
  isAsciiAlpha b || isDigit b || b = 0x5F || b = 0x2E || b = 0x2D || b = 0x7E || b = cSlash || b = cPct

def PlainStr (s : Str) : Prop := ∀ c ∈ s, plainChar c = true

theorem slash_pct_safe : cSlash ∈ CssVerif.Gen.C19.replacerSafeChars ∧ cPct ∈ CssVerif.Gen.C19.replacerSafeChars := by
  decide

theorem plain_quoteSafe (c : Nat) (h : plainChar c = true) : quoteSafe c = true := by
  simp only [plainChar, Bool.or_eq_true, decide_eq_true_eq] at h
  simp only [quoteSafe, replacerSafe, Bool.or_eq_true, decide_eq_true_eq, List.contains_eq_mem]
  rcases h with ((((((h|h)|h)|h)|h)|h)|h)|h
  · exact Or.inl (Or.inl (Or.inl (Or.inl (Or.inl (Or.inl h)))))
  · exact Or.inl (Or.inl (Or.inl (Or.inl (Or.inl (Or.inr h)))))
  · exact Or.inl (Or.inl (Or.inl (Or.inl (Or.inr h))))
  · exact Or.inl (Or.inl (Or.inl (Or.inr h)))
  · exact Or.inl (Or.inl (Or.inr h))
  · exact Or.inl (Or.inr h)
  · subst h; exact Or.inr slash_pct_safe.1
  · subst h; exact Or.inr slash_pct_safe.2

theorem plainChar_lt (c : Nat) (h : plainChar c = true) : c < 0x80 := quoteSafe_lt c (plain_quoteSafe c h)

theorem quote_plain (s : Str) (h : PlainStr s) : quote s = .ok s :=
  quote_safe s (fun c hc => plain_quoteSafe c (h c hc))

/-! ## T19.3 — flattening -/

/-- rules that `CSSStyleSheet.add` simply appends -/
def isPlain : Rule → Bool
  | .comment _ => true
  | .style _ _ => true
  | .media _ _ => true
  | .page _ _ _ => true
  | .fontface _ => true
  | .unknown _ => true
  | _ => false

/-- rules that may be wrapped into an @media rule -/
def isWrappable : Rule → Bool
  | .comment _ => true
  | .style _ _ => true
  | _ => false

theorem Res.ext' {α : Type} (a b : Res α) (h1 : a.val = b.val) (h2 : a.log = b.log) : a = b := by
  cases a; cases b; simp_all

theorem addRule_plain (vfs : Vfs) (who : Who) (th : Str) (t : Sheet) (r : Rule) (h : isPlain r = true) :
    addRule vfs who th t r = ⟨.ok (t ++ [r]), []⟩ := by
  cases r <;> simp [isPlain] at h <;> simp [addRule]

theorem addAll_plain (vfs : Vfs) (who : Who) (th : Str) : ∀ (rs : List Rule) (t : Sheet), (∀ r ∈ rs, isPlain r = true) →
    addAll vfs who th t rs = ⟨.ok (t ++ rs), []⟩
  | [], t, _ => by simp [addAll]
  | r :: rs, t, h => by
    simp [addAll, addRule_plain vfs who th t r (h r (List.mem_cons_self ..)),
      addAll_plain vfs who th rs (t ++ [r]) (fun d hd => h d (List.mem_cons_of_mem _ hd))]

theorem proxyAddAll_wrappable : ∀ (rs acc : List Rule), (∀ r ∈ rs, isWrappable r = true) →
    proxyAddAll acc rs = .ok (acc ++ rs)
  | [], acc, _ => by simp [proxyAddAll]
  | r :: rs, acc, h => by
    have hr := h r (List.mem_cons_self ..)
    have ih := proxyAddAll_wrappable rs (acc ++ [r]) (fun d hd => h d (List.mem_cons_of_mem _ hd))
    cases r <;> simp [isWrappable] at hr <;> simp [proxyAddAll, ih]

theorem wrappable_combinable (rs : List Rule) (h : ∀ r ∈ rs, isWrappable r = true) : rs.all combinable = true := by
  simp only [List.all_eq_true]
  intro r hr
  have := h r hr
  cases r <;> simp [isWrappable] at this <;> simp [combinable]

/-- the kind of a rule -/
def Rule.tag : Rule → Nat
  | .charset _ => 0
  | .comment _ => 1
  | .imp .. => 2
  | .ns .. => 3
  | .style .. => 4
  | .media .. => 5
  | .page .. => 6
  | .fontface _ => 7
  | .unknown _ => 8

theorem isPlain_tag (r : Rule) : isPlain r = (r.tag = 1 || r.tag = 4 || r.tag = 5 || r.tag = 6 || r.tag = 7 || r.tag = 8) := by
  cases r <;> simp [isPlain, Rule.tag]

theorem isWrappable_tag (r : Rule) : isWrappable r = (r.tag = 1 || r.tag = 4) := by
  cases r <;> simp [isWrappable, Rule.tag]

/-- replacing URLs keeps the kind of every rule -/
theorem replRule_tag (f : Str → Except Err Str) (r r' : Rule) (log : List Str)
    (h : replRule f r = .ok (r', log)) : r'.tag = r.tag := by
  cases r with
  | style sel st =>
    simp only [replRule] at h
    split at h <;> simp at h
    obtain ⟨rfl, _⟩ := h; rfl
  | fontface st =>
    simp only [replRule] at h
    split at h <;> simp at h
    obtain ⟨rfl, _⟩ := h; rfl
  | page sel st ms =>
    simp only [replRule] at h
    split at h
    · simp at h
    · split at h <;> simp at h
      obtain ⟨rfl, _⟩ := h; rfl
  | media m rs =>
    simp only [replRule] at h
    split at h <;> simp at h
    obtain ⟨rfl, _⟩ := h; rfl
  | charset _ => simp [replRule] at h; obtain ⟨rfl, _⟩ := h; rfl
  | comment _ => simp [replRule] at h; obtain ⟨rfl, _⟩ := h; rfl
  | imp a b c d e => simp [replRule] at h; obtain ⟨rfl, _⟩ := h; rfl
  | ns a b => simp [replRule] at h; obtain ⟨rfl, _⟩ := h; rfl
  | unknown _ => simp [replRule] at h; obtain ⟨rfl, _⟩ := h; rfl

theorem replRules_tags (f : Str → Except Err Str) : ∀ (rs rs' : List Rule) (log : List Str),
    replRules f rs = .ok (rs', log) → rs'.map Rule.tag = rs.map Rule.tag
  | [], rs', log, h => by simp [replRules] at h; simp [h.1.symm]
  | r :: rs, rs', log, h => by
    simp only [replRules] at h
    split at h
    · simp at h
    · rename_i a ha
      split at h
      · simp at h
      · rename_i b hb
        simp at h
        obtain ⟨rfl, _⟩ := h
        simp [replRule_tag f r a.1 a.2 ha, replRules_tags f rs b.1 b.2 hb]

theorem all_of_tags (p : Rule → Bool) (q : Nat → Bool) (hp : ∀ r, p r = q r.tag) (rs rs' : List Rule)
    (h : rs'.map Rule.tag = rs.map Rule.tag) (ha : ∀ r ∈ rs, p r = true) : ∀ r ∈ rs', p r = true := by
  intro r hr
  have : r.tag ∈ rs'.map Rule.tag := List.mem_map_of_mem hr
  rw [h] at this
  obtain ⟨r0, hr0, e⟩ := List.mem_map.mp this
  rw [hp, ← e, ← hp]
  exact ha r0 hr0

/-- `media` of the import is kept by wrapping the group into one @media rule -/
def wrapMedia (media : Str) (rs : Sheet) : Sheet := if media = mediaAll then rs else [.media media rs]

/-- **the specification of flattening** for a loaded import tree in which every target is available and every
group can be wrapped: the rules of all reachable sheets in cascade order — the rules an @import stands for come
where the @import stood, after a marker comment, re-based against the @import's href and wrapped in its media;
@charset rules disappear. -/
inductive Flat : Sheet → Sheet → Prop where
  | nil : Flat [] []
  | charset (e : Str) {rs out : Sheet} : Flat rs out → Flat (.charset e :: rs) out
  | plain {r : Rule} {rs out : Sheet} : isPlain r = true → Flat rs out → Flat (r :: rs) (r :: out)
  | imp {href media ihref : Str} {sheet inner rebased rs out : Sheet} {log : List Str} :
      Flat sheet inner →
      replRules (replacer href) inner = .ok (rebased, log) →
      (media = mediaAll ∨ ∀ r ∈ rebased, isWrappable r = true) →
      Flat rs out →
      Flat (.imp href media true ihref sheet :: rs)
           (.comment (startComment href) :: wrapMedia media rebased ++ out)

theorem replRules_plain (f : Str → Except Err Str) (rs rs' : List Rule) (log : List Str)
    (h : replRules f rs = .ok (rs', log)) (hp : ∀ r ∈ rs, isPlain r = true) : ∀ r ∈ rs', isPlain r = true :=
  all_of_tags isPlain (fun n => n = 1 || n = 4 || n = 5 || n = 6 || n = 7 || n = 8) isPlain_tag rs rs' (replRules_tags f rs rs' log h) hp

/-- re-basing the hrefs of @import rules leaves every other rule alone -/
theorem rebaseImp_notImp (f : Str → Except Err Str) (r : Rule) (h : isImp r = false) : rebaseImp f r = .ok r := by
  cases r <;> simp [isImp] at h <;> rfl

theorem rebaseImps_noImp (f : Str → Except Err Str) : ∀ (l : List Rule), (∀ r ∈ l, isImp r = false) →
    rebaseImps f l = .ok l
  | [], _ => rfl
  | r :: rs, h => by
    simp only [rebaseImps, rebaseImp_notImp f r (h r (by simp)),
      rebaseImps_noImp f rs (fun x hx => h x (List.mem_cons_of_mem _ hx))]

theorem isPlain_not_isImp (r : Rule) (h : isPlain r = true) : isImp r = false := by
  cases r <;> simp_all [isPlain, isImp]

theorem rebaseImps_plain (f : Str → Except Err Str) (l : List Rule) (h : ∀ r ∈ l, isPlain r = true) :
    rebaseImps f l = .ok l :=
  rebaseImps_noImp f l (fun r hr => isPlain_not_isImp r (h r hr))

theorem Flat.plain_out {rs out : Sheet} (h : Flat rs out) : ∀ r ∈ out, isPlain r = true := by
  induction h with
  | nil => simp
  | charset e _ ih => exact ih
  | plain hp _ ih =>
    intro r hr
    rcases List.mem_cons.mp hr with rfl | hr
    · exact hp
    · exact ih r hr
  | @imp href media ihref sheet inner rebased rs out log _ hre hm _ ih1 ih2 =>
    intro r hr
    rcases List.mem_cons.mp hr with rfl | hr
    · rfl
    · rcases List.mem_append.mp hr with hr | hr
      · unfold wrapMedia at hr
        split at hr
        · exact replRules_plain _ inner rebased log hre ih1 r hr
        · simp at hr; subst hr; rfl
      · exact ih2 r hr

theorem resolveRules_cons (vfs : Vfs) (who : Who) (th : Str) (t : Sheet) (r : Rule) (rs : List Rule) (t' : Sheet)
    (h : resolveRule vfs who th t r = ⟨.ok t', []⟩) :
    resolveRules vfs who th t (r :: rs) = resolveRules vfs who th t' rs := by
  simp [resolveRules, h]

/-- T19.3: on such a tree `resolveImports` computes exactly the specified sheet, appended to whatever the target
holds, and calls no fetcher -/
theorem resolveRules_flat (vfs : Vfs) (who : Who) {rs out : Sheet} (h : Flat rs out) :
    ∀ (th : Str) (t : Sheet), resolveRules vfs who th t rs = ⟨.ok (t ++ out), []⟩ := by
  induction h with
  | nil => intro th t; simp [resolveRules]
  | charset e _ ih =>
    intro th t
    rw [resolveRules_cons vfs who th t _ _ t (by simp [resolveRule]), ih]
  | @plain r rs out hp _ ih =>
    intro th t
    have : resolveRule vfs who th t r = ⟨.ok (t ++ [r]), []⟩ := by
      cases r <;> simp [isPlain] at hp <;> simp [resolveRule, addRule]
    rw [resolveRules_cons vfs who th t _ _ _ this, ih]
    simp
  | @imp href media ihref sheet inner rebased rs out log hin hre hm _ ih1 ih2 =>
    intro th t
    have hplain := replRules_plain _ inner rebased log hre hin.plain_out
    have : resolveRule vfs who th t (.imp href media true ihref sheet)
        = ⟨.ok (t ++ .comment (startComment href) :: wrapMedia media rebased), []⟩ := by
      simp only [resolveRule]
      simp only [Bool.true_eq_false, ↓reduceIte, addRule, ih1 ihref [], List.nil_append, replaceUrls, hre,
        rebaseImps_plain _ rebased hplain]
      by_cases hma : media = mediaAll
      · simp [hma, wrapMedia, addAll_plain vfs who th rebased _ hplain]
      · have hw := hm.resolve_left hma
        simp [hma, wrapMedia, wrappable_combinable rebased hw, proxyAddAll_wrappable rebased [] hw]
    rw [resolveRules_cons vfs who th t _ _ _ this, ih2]
    simp


/-- observation of a result through a decidable projection -/
def Res.okMap {α β : Type} (r : Res α) (f : α → β) : Option β :=
  match r.val with
  | .ok a => some (f a)
  | .error _ => none

def Res.err? {α : Type} (r : Res α) : Option Err :=
  match r.val with
  | .ok _ => none
  | .error e => some e

/-! ## loading: which fetches happen -/

/-- the fetcher can deliver this URL -/
def avail (vfs : Vfs) (e : Who × Str) : Bool := (vfsLookup vfs e.2).isSome

mutual
/-- the import edges of a loaded tree whose target was found, in the order they were followed -/
def edges (who : Who) : Rule → FLog
  | .imp _ _ true th sh => (who, th) :: edgesL who sh
  | _ => []
def edgesL (who : Who) : List Rule → FLog
  | [] => []
  | r :: rs => edges who r ++ edgesL who rs
end

theorem twice_cases (a : Res Rule) :
    twice a = a ∨ ∃ h m t s, a.val = .ok (.imp h m false t s) ∧ twice a = ⟨a.val, a.log ++ a.log⟩ :=
  Or.inl rfl

theorem twice_edges (vfs : Vfs) (who : Who) (a : Res Rule)
    (h : ∀ r, a.val = .ok r → a.log.filter (avail vfs) = edges who r) :
    ∀ r, (twice a).val = .ok r → (twice a).log.filter (avail vfs) = edges who r := by
  intro r hr
  rcases twice_cases a with e | ⟨h1, m1, t1, s1, heq, e⟩
  · rw [e] at hr ⊢; exact h r hr
  · rw [e] at hr ⊢
    simp only at hr ⊢
    have := h _ heq
    rw [heq] at hr
    cases hr
    simp only [List.filter_append, this]
    simp [edges]

theorem loadWith_edges (vfs : Vfs) (who : Who) (imp : Str → Str → Res Rule)
    (h : ∀ hr m r, (imp hr m).val = .ok r → (imp hr m).log.filter (avail vfs) = edges who r) :
    ∀ (raw rules : Sheet), (loadWith imp raw).val = .ok rules →
      (loadWith imp raw).log.filter (avail vfs) = edgesL who rules
  | [], rules, hv => by
    simp [loadWith] at hv ⊢; subst hv; rfl
  | .imp hr m f t s :: rs, rules, hv => by
    simp only [loadWith] at hv ⊢
    split at hv
    · simp at hv
    · rename_i r hr1
      split at hv
      · simp at hv
      · rename_i q hq
        simp at hv; subst hv
        simp only [List.filter_append, h _ _ _ hr1, loadWith_edges vfs who imp h rs q hq, edgesL]
  | .charset _ :: rs, rules, hv => by
    simp only [loadWith] at hv ⊢
    split at hv
    · simp at hv
    · rename_i q hq
      simp at hv; subst hv
      simp [loadWith_edges vfs who imp h rs q hq, edgesL, edges]
  | .comment _ :: rs, rules, hv => by
    simp only [loadWith] at hv ⊢
    split at hv
    · simp at hv
    · rename_i q hq
      simp at hv; subst hv
      simp [loadWith_edges vfs who imp h rs q hq, edgesL, edges]
  | .ns _ _ :: rs, rules, hv => by
    simp only [loadWith] at hv ⊢
    split at hv
    · simp at hv
    · rename_i q hq
      simp at hv; subst hv
      simp [loadWith_edges vfs who imp h rs q hq, edgesL, edges]
  | .style _ _ :: rs, rules, hv => by
    simp only [loadWith] at hv ⊢
    split at hv
    · simp at hv
    · rename_i q hq
      simp at hv; subst hv
      simp [loadWith_edges vfs who imp h rs q hq, edgesL, edges]
  | .media _ _ :: rs, rules, hv => by
    simp only [loadWith] at hv ⊢
    split at hv
    · simp at hv
    · rename_i q hq
      simp at hv; subst hv
      simp [loadWith_edges vfs who imp h rs q hq, edgesL, edges]
  | .page _ _ _ :: rs, rules, hv => by
    simp only [loadWith] at hv ⊢
    split at hv
    · simp at hv
    · rename_i q hq
      simp at hv; subst hv
      simp [loadWith_edges vfs who imp h rs q hq, edgesL, edges]
  | .fontface _ :: rs, rules, hv => by
    simp only [loadWith] at hv ⊢
    split at hv
    · simp at hv
    · rename_i q hq
      simp at hv; subst hv
      simp [loadWith_edges vfs who imp h rs q hq, edgesL, edges]
  | .unknown _ :: rs, rules, hv => by
    simp only [loadWith] at hv ⊢
    split at hv
    · simp at hv
    · rename_i q hq
      simp at hv; subst hv
      simp [loadWith_edges vfs who imp h rs q hq, edgesL, edges]

/-- one `_setHref`: the fetcher calls for URLs the fetcher can deliver are exactly the found import edges below it -/
theorem setHref_edges (vfs : Vfs) (who : Who) : ∀ (fuel : Nat) (chain : List Str) (href media : Str) (r : Rule),
    (setHref fuel vfs who chain href media).val = .ok r →
    (setHref fuel vfs who chain href media).log.filter (avail vfs) = edges who r
  | 0, chain, href, media, r, hv => by simp [setHref] at hv
  | fuel + 1, chain, href, media, r, hv => by
    unfold setHref at hv ⊢
    cases chain with
    | nil => simp at hv
    | cons parent rest =>
      simp only at hv ⊢
      cases hj : urljoin parent href with
      | error e =>
        cases e <;> simp [hj] at hv
        subst hv
        simp [notLoaded, edges]
      | ok full =>
        simp only [hj] at hv ⊢
        by_cases hc : full ∈ parent :: rest
        · simp only [hc, ↓reduceIte] at hv ⊢
          cases hv
          simp [notLoaded, edges]
        · simp only [hc, ↓reduceIte] at hv ⊢
          cases hl : vfsLookup vfs full with
          | none =>
            simp only [hl] at hv ⊢
            cases hv
            simp [notLoaded, edges, avail, hl]
          | some raw =>
            simp only [hl] at hv ⊢
            split at hv
            · simp at hv
            · simp at hv
            · rename_i rules hr
              cases hv
              have ih := loadWith_edges vfs who (fun h m => twice (setHref fuel vfs who (full :: parent :: rest) h m))
                (fun h m r' hr' => twice_edges vfs who _ (fun r'' h'' => setHref_edges vfs who fuel _ h m r'' h'') r' hr')
                raw rules hr
              simp [avail, hl, edges, ih]


/-! ## strings and segment lists -/

theorem splitOn_ne_nil (c : Nat) : ∀ s, splitOn c s ≠ []
  | [] => by simp [splitOn]
  | x :: xs => by
    unfold splitOn
    split
    · simp
    · split <;> simp

theorem splitOn_noSep (c : Nat) : ∀ s : Str, c ∉ s → splitOn c s = [s]
  | [], _ => rfl
  | x :: xs, h => by
    have hx : x ≠ c := fun e => h (by simp [e])
    have := splitOn_noSep c xs (fun hm => h (List.mem_cons_of_mem _ hm))
    simp [splitOn, hx, this]

theorem splitOn_append_sep (c : Nat) : ∀ (s t : Str), c ∉ s → splitOn c (s ++ c :: t) = s :: splitOn c t
  | [], t, _ => by simp [splitOn]
  | x :: xs, t, h => by
    have hx : x ≠ c := fun e => h (by simp [e])
    have ih := splitOn_append_sep c xs t (fun hm => h (List.mem_cons_of_mem _ hm))
    simp [splitOn, hx, ih]

/-- `'/'.join(parts).split('/') == parts` when no part contains the separator -/
theorem splitOn_joinWith (c : Nat) : ∀ cs : List Str, cs ≠ [] → (∀ s ∈ cs, c ∉ s) → splitOn c (joinWith c cs) = cs
  | [], h, _ => absurd rfl h
  | [s], _, h => by simp [joinWith, splitOn_noSep c s (h s (by simp))]
  | s :: t :: ss, _, h => by
    have ih := splitOn_joinWith c (t :: ss) (by simp) (fun x hx => h x (List.mem_cons_of_mem _ hx))
    simp only [joinWith]
    rw [splitOn_append_sep c s _ (h s (by simp)), ih]

/-- `normpath` of a relative path given by its segments is `normComps` of the segments -/
theorem normpath_joinWith (cs : List Str) (f : Str) (h0 : ∀ s ∈ cs ++ [f], cSlash ∉ s)
    (h1 : (cs ++ [f]).head? ≠ some []) (hf : Normal f) :
    normpath (joinWith cSlash (cs ++ [f])) = joinWith cSlash (normComps false (cs ++ [f])) := by
  have hne : cs ++ [f] ≠ [] := by simp
  have hsplit := splitOn_joinWith cSlash (cs ++ [f]) hne h0
  -- the joined string is not empty and does not start with a slash
  have hj : joinWith cSlash (cs ++ [f]) ≠ [] ∧ (joinWith cSlash (cs ++ [f])).head? ≠ some cSlash := by
    cases hcs : cs ++ [f] with
    | nil => exact absurd hcs hne
    | cons a rest =>
      rw [hcs] at h1 h0
      have ha : a ≠ [] := by simpa using h1
      cases a with
      | nil => exact absurd rfl ha
      | cons x xs =>
        have hx : x ≠ cSlash := fun e => h0 (x :: xs) (by simp) (by simp [e])
        cases rest <;> simp [joinWith, hx]
  have hi : initialSlashes (joinWith cSlash (cs ++ [f])) = 0 := by
    unfold initialSlashes
    split <;> simp_all [cSlash]
  have hlast : (normComps false (cs ++ [f])).getLast? = some f := normComps_getLast false cs f hf
  have hres : joinWith cSlash (normComps false (cs ++ [f])) ≠ [] := by
    intro e
    -- a join whose last piece is the non-empty `f` is not empty
    generalize normComps false (cs ++ [f]) = l at hlast e
    induction l with
    | nil => simp at hlast
    | cons a t ih =>
      cases t with
      | nil => simp at hlast; subst hlast; simp [joinWith] at e; exact hf.1 e
      | cons b u => simp [joinWith] at e
  simp [normpath, hj.1, hi, hsplit, hres]


/-! ## `replaceUrls` is local: the replacer only matters on the URLs of the sheet -/

abbrev Repl := Str → Except Err Str

mutual
theorem replComp_congr (f f' : Repl) : ∀ c : Comp, (∀ u ∈ compUris c, f u = f' u) → replComp f c = replComp f' c
  | .uri u, h => by simp [replComp, h u (by simp [compUris])]
  | .tok t, _ => by simp [replComp]
  | .fn n a, h => by simp [replComp, replComps_congr f f' a (fun u hu => h u (by simpa [compUris] using hu))]
theorem replComps_congr (f f' : Repl) : ∀ cs : List Comp, (∀ u ∈ compsUris cs, f u = f' u) →
    replComps f cs = replComps f' cs
  | [], _ => rfl
  | c :: cs, h => by
    have h1 := replComp_congr f f' c (fun u hu => h u (by simp [compsUris, hu]))
    have h2 := replComps_congr f f' cs (fun u hu => h u (by simp [compsUris, hu]))
    simp [replComps, h1, h2]
end

theorem replStyle_congr (f f' : Repl) : ∀ st : Style, (∀ u ∈ uriValues st, f u = f' u) →
    replStyle f st = replStyle f' st
  | [], _ => rfl
  | d :: ds, h => by
    rw [uriValues_cons] at h
    have h1 := replComps_congr f f' d.value (fun u hu => h u (List.mem_append_left _ hu))
    have h2 := replStyle_congr f f' ds (fun u hu => h u (List.mem_append_right _ hu))
    simp [replStyle, h1, h2]

theorem replMargins_congr (f f' : Repl) : ∀ ms : List (Str × Style), (∀ u ∈ marginUris ms, f u = f' u) →
    replMargins f ms = replMargins f' ms
  | [], _ => rfl
  | m :: ms, h => by
    have h1 := replStyle_congr f f' m.2 (fun u hu => h u (by simp [marginUris]; exact Or.inl hu))
    have h2 := replMargins_congr f f' ms (fun u hu => h u (by
      simp only [marginUris, List.flatMap_cons, List.mem_append] at hu ⊢; exact Or.inr hu))
    simp [replMargins, h1, h2]

mutual
theorem replRule_congr (f f' : Repl) : ∀ r : Rule, (∀ u ∈ ruleUris r, f u = f' u) → replRule f r = replRule f' r
  | .style sel st, h => by
    have := replStyle_congr f f' st (fun u hu => h u (by simpa [ruleUris, styleDecls] using hu))
    simp [replRule, this]
  | .fontface st, h => by
    have := replStyle_congr f f' st (fun u hu => h u (by simpa [ruleUris, styleDecls] using hu))
    simp [replRule, this]
  | .page sel st ms, h => by
    simp only [ruleUris, styleDecls_page_uris] at h
    have h1 := replStyle_congr f f' st (fun u hu => h u (List.mem_append_left _ hu))
    have h2 := replMargins_congr f f' ms (fun u hu => h u (List.mem_append_right _ hu))
    simp [replRule, h1, h2]
  | .media m rs, h => by
    have := replRules_congr f f' rs (fun u hu => h u (by simpa [ruleUris, rulesUris, styleDecls] using hu))
    simp [replRule, this]
  | .charset _, _ => by simp [replRule]
  | .comment _, _ => by simp [replRule]
  | .imp _ _ _ _ _, _ => by simp [replRule]
  | .ns _ _, _ => by simp [replRule]
  | .unknown _, _ => by simp [replRule]
theorem replRules_congr (f f' : Repl) : ∀ rs : List Rule, (∀ u ∈ rulesUris rs, f u = f' u) →
    replRules f rs = replRules f' rs
  | [], _ => rfl
  | r :: rs, h => by
    rw [rulesUris_cons] at h
    have h1 := replRule_congr f f' r (fun u hu => h u (List.mem_append_left _ hu))
    have h2 := replRules_congr f f' rs (fun u hu => h u (List.mem_append_right _ hu))
    simp [replRules, h1, h2]
end

theorem replImports_congr (f f' : Repl) (reload : Str → Bool × Str × Sheet) : ∀ sh : Sheet,
    (∀ u ∈ importHrefs sh, f u = f' u) → replImports f reload sh = replImports f' reload sh
  | [], _ => rfl
  | .imp h m fd t s :: rs, hh => by
    have h1 : f h = f' h := hh h (by simp [importHrefs])
    have h2 := replImports_congr f f' reload rs (fun u hu => hh u (by simp [importHrefs, hu]))
    simp [replImports, h1, h2]
  | .style _ _ :: rs, hh => by
    have h2 := replImports_congr f f' reload rs (fun u hu => hh u (by simpa [importHrefs] using hu))
    simp [replImports, h2]
  | .fontface _ :: rs, hh => by
    have h2 := replImports_congr f f' reload rs (fun u hu => hh u (by simpa [importHrefs] using hu))
    simp [replImports, h2]
  | .page _ _ _ :: rs, hh => by
    have h2 := replImports_congr f f' reload rs (fun u hu => hh u (by simpa [importHrefs] using hu))
    simp [replImports, h2]
  | .media _ _ :: rs, hh => by
    have h2 := replImports_congr f f' reload rs (fun u hu => hh u (by simpa [importHrefs] using hu))
    simp [replImports, h2]
  | .charset _ :: rs, hh => by
    have h2 := replImports_congr f f' reload rs (fun u hu => hh u (by simpa [importHrefs] using hu))
    simp [replImports, h2]
  | .comment _ :: rs, hh => by
    have h2 := replImports_congr f f' reload rs (fun u hu => hh u (by simpa [importHrefs] using hu))
    simp [replImports, h2]
  | .ns _ _ :: rs, hh => by
    have h2 := replImports_congr f f' reload rs (fun u hu => hh u (by simpa [importHrefs] using hu))
    simp [replImports, h2]
  | .unknown _ :: rs, hh => by
    have h2 := replImports_congr f f' reload rs (fun u hu => hh u (by simpa [importHrefs] using hu))
    simp [replImports, h2]

/-- replacing import hrefs leaves the declaration blocks alone, whatever the replacer does -/
theorem replImports_styleDecls (f : Repl) (reload : Str → Bool × Str × Sheet) : ∀ (sh : Sheet) (a : Sheet × List Str),
    replImports f reload sh = .ok a → styleDeclsL a.1 = styleDeclsL sh
  | [], a, h => by simp [replImports] at h; subst h; rfl
  | .imp hr m fd t s :: rs, a, h => by
    simp only [replImports] at h
    split at h
    · simp at h
    · split at h
      · simp at h
      · rename_i r hr2
        simp at h; subst h
        simp [styleDeclsL, styleDecls, replImports_styleDecls f reload rs r hr2]
  | .style _ _ :: rs, a, h => by
    simp only [replImports] at h
    split at h
    · simp at h
    · rename_i q hq
      simp at h; subst h
      simp [styleDeclsL, replImports_styleDecls f reload rs q hq]
  | .fontface _ :: rs, a, h => by
    simp only [replImports] at h
    split at h
    · simp at h
    · rename_i q hq
      simp at h; subst h
      simp [styleDeclsL, replImports_styleDecls f reload rs q hq]
  | .page _ _ _ :: rs, a, h => by
    simp only [replImports] at h
    split at h
    · simp at h
    · rename_i q hq
      simp at h; subst h
      simp [styleDeclsL, replImports_styleDecls f reload rs q hq]
  | .media _ _ :: rs, a, h => by
    simp only [replImports] at h
    split at h
    · simp at h
    · rename_i q hq
      simp at h; subst h
      simp [styleDeclsL, replImports_styleDecls f reload rs q hq]
  | .charset _ :: rs, a, h => by
    simp only [replImports] at h
    split at h
    · simp at h
    · rename_i q hq
      simp at h; subst h
      simp [styleDeclsL, replImports_styleDecls f reload rs q hq]
  | .comment _ :: rs, a, h => by
    simp only [replImports] at h
    split at h
    · simp at h
    · rename_i q hq
      simp at h; subst h
      simp [styleDeclsL, replImports_styleDecls f reload rs q hq]
  | .ns _ _ :: rs, a, h => by
    simp only [replImports] at h
    split at h
    · simp at h
    · rename_i q hq
      simp at h; subst h
      simp [styleDeclsL, replImports_styleDecls f reload rs q hq]
  | .unknown _ :: rs, a, h => by
    simp only [replImports] at h
    split at h
    · simp at h
    · rename_i q hq
      simp at h; subst h
      simp [styleDeclsL, replImports_styleDecls f reload rs q hq]

/-- `replaceUrls` consults the replacer on the URLs `getUrls` yields and on nothing else -/
theorem replaceUrls_congr (f f' : Repl) (reload : Str → Bool × Str × Sheet) (sh : Sheet)
    (h : ∀ u ∈ getUrls sh, f u = f' u) : replaceUrls f reload false sh = replaceUrls f' reload false sh := by
  have hi := replImports_congr f f' reload sh (fun u hu => h u (by simp [getUrls, hu]))
  simp only [replaceUrls, Bool.false_eq_true, ↓reduceIte, hi]
  cases ha : replImports f' reload sh with
  | error e => rfl
  | ok a =>
    have hs := replImports_styleDecls f' reload sh a ha
    have := replRules_congr f f' a.1 (fun u hu => h u (by
      simp only [rulesUris, hs] at hu
      simp [getUrls, hu]))
    simp [this]


/-! ## the loader's fuel is never used up -/

/-- files of the virtual file system that are not yet on the import chain -/
def unvisited : Vfs → List Str → Nat
  | [], _ => 0
  | e :: es, chain => (if e.1 ∈ chain then 0 else 1) + unvisited es chain

theorem unvisited_le : ∀ (vfs : Vfs) (chain : List Str), unvisited vfs chain ≤ vfs.length
  | [], _ => by simp [unvisited]
  | e :: es, chain => by
    have := unvisited_le es chain
    simp only [unvisited, List.length_cons]
    split <;> omega

theorem unvisited_mono (chain : List Str) (full : Str) : ∀ vfs : Vfs,
    unvisited vfs (full :: chain) ≤ unvisited vfs chain
  | [] => by simp [unvisited]
  | e :: es => by
    have ih := unvisited_mono chain full es
    simp only [unvisited, List.mem_cons]
    by_cases h1 : e.1 ∈ chain
    · simp [h1]; exact ih
    · by_cases h2 : e.1 = full
      · simp [h1, h2]; omega
      · simp [h1, h2]; exact ih

theorem unvisited_lt (chain : List Str) (full : Str) (hc : full ∉ chain) : ∀ (vfs : Vfs) (raw : Sheet),
    vfsLookup vfs full = some raw → unvisited vfs (full :: chain) < unvisited vfs chain
  | [], raw, h => by simp [vfsLookup] at h
  | e :: es, raw, h => by
    have mono := unvisited_mono chain full es
    unfold vfsLookup at h
    simp only [unvisited, List.mem_cons]
    by_cases he : e.1 = full
    · simp [he, hc]; omega
    · simp only [he, ↓reduceIte] at h
      have ih := unvisited_lt chain full hc es raw h
      by_cases hm : e.1 ∈ chain
      · simp [hm]; exact ih
      · simp [hm, he]; exact ih

theorem urlsplit_ne_fuel (u d : Str) : urlsplit u d ≠ .error .fuel := by
  unfold urlsplit
  simp only
  repeat' split
  all_goals simp

theorem urlparse_ne_fuel (u d : Str) : urlparse u d ≠ .error .fuel := by
  unfold urlparse
  split
  · rename_i e he
    intro h
    simp at h
    subst h
    exact urlsplit_ne_fuel u d he
  · simp

theorem urljoin_ne_fuel (b u : Str) : urljoin b u ≠ .error .fuel := by
  unfold urljoin
  split
  · simp
  · split
    · simp
    · split
      · rename_i e he
        intro h; simp at h; subst h; exact urlparse_ne_fuel _ _ he
      · split
        · rename_i e he
          intro h; simp at h; subst h; exact urlparse_ne_fuel _ _ he
        · simp only
          repeat' split
          all_goals simp

theorem twice_val (a : Res Rule) : (twice a).val = a.val := by
  rcases twice_cases a with e | ⟨_, _, _, _, _, e⟩ <;> rw [e]

/-- an error of `loadWith` is an error of one of the import loads -/
theorem loadWith_error (imp : Str → Str → Res Rule) : ∀ (raw : Sheet) (e : Err), (loadWith imp raw).val = .error e →
    ∃ h m, (imp h m).val = .error e
  | [], e, hv => by simp [loadWith] at hv
  | .imp hr m f t s :: rs, e, hv => by
    simp only [loadWith] at hv
    split at hv
    · rename_i e' he'
      simp at hv; subst hv
      exact ⟨hr, m, he'⟩
    · split at hv
      · rename_i e' he'
        simp at hv; subst hv
        exact loadWith_error imp rs e' he'
      · simp at hv
  | .charset _ :: rs, e, hv => by
    simp only [loadWith] at hv
    split at hv
    · rename_i e' he'; simp at hv; subst hv; exact loadWith_error imp rs e' he'
    · simp at hv
  | .comment _ :: rs, e, hv => by
    simp only [loadWith] at hv
    split at hv
    · rename_i e' he'; simp at hv; subst hv; exact loadWith_error imp rs e' he'
    · simp at hv
  | .ns _ _ :: rs, e, hv => by
    simp only [loadWith] at hv
    split at hv
    · rename_i e' he'; simp at hv; subst hv; exact loadWith_error imp rs e' he'
    · simp at hv
  | .style _ _ :: rs, e, hv => by
    simp only [loadWith] at hv
    split at hv
    · rename_i e' he'; simp at hv; subst hv; exact loadWith_error imp rs e' he'
    · simp at hv
  | .media _ _ :: rs, e, hv => by
    simp only [loadWith] at hv
    split at hv
    · rename_i e' he'; simp at hv; subst hv; exact loadWith_error imp rs e' he'
    · simp at hv
  | .page _ _ _ :: rs, e, hv => by
    simp only [loadWith] at hv
    split at hv
    · rename_i e' he'; simp at hv; subst hv; exact loadWith_error imp rs e' he'
    · simp at hv
  | .fontface _ :: rs, e, hv => by
    simp only [loadWith] at hv
    split at hv
    · rename_i e' he'; simp at hv; subst hv; exact loadWith_error imp rs e' he'
    · simp at hv
  | .unknown _ :: rs, e, hv => by
    simp only [loadWith] at hv
    split at hv
    · rename_i e' he'; simp at hv; subst hv; exact loadWith_error imp rs e' he'
    · simp at hv

/-- the fuel is never used up: along an import chain no file occurs twice (recursion guard), so the depth is at
most the number of files not yet on the chain -/
theorem setHref_noFuel (vfs : Vfs) (who : Who) : ∀ (fuel : Nat) (chain : List Str) (href media : Str),
    unvisited vfs chain < fuel → (setHref fuel vfs who chain href media).val ≠ .error .fuel
  | 0, _, _, _, h => by omega
  | fuel + 1, chain, href, media, h => by
    unfold setHref
    cases chain with
    | nil => simp
    | cons parent rest =>
      simp only
      cases hj : urljoin parent href with
      | error e =>
        cases e
        · simp
        · simp
        · simp
        · simp
        · exact absurd hj (urljoin_ne_fuel parent href)
      | ok full =>
        simp only
        by_cases hc : full ∈ parent :: rest
        · simp [hc]
        · simp only [hc, ↓reduceIte]
          cases hl : vfsLookup vfs full with
          | none => simp
          | some raw =>
            simp only
            have hlt := unvisited_lt (parent :: rest) full hc vfs raw hl
            split
            · rename_i hf
              obtain ⟨h', m', he⟩ := loadWith_error _ raw .fuel hf
              rw [twice_val] at he
              exact absurd he (setHref_noFuel vfs who fuel (full :: parent :: rest) h' m' (by omega))
            · simp
            · simp


theorem utf8_ne_fuel (c : Nat) : utf8 c ≠ .error .fuel := by
  unfold utf8; repeat' split
  all_goals simp

theorem quote_ne_fuel : ∀ s, quote s ≠ .error .fuel
  | [] => by simp [quote]
  | c :: cs => by
    unfold quote
    split
    · rename_i e he; intro h; simp at h; subst h; exact utf8_ne_fuel c he
    · split
      · rename_i e he; intro h; simp at h; subst h; exact quote_ne_fuel cs he
      · simp

theorem mkReplacerState_ne_fuel (h : Str) : mkReplacerState h ≠ .error .fuel := by
  unfold mkReplacerState extractBase
  split
  · rename_i e he
    split at he
    · rename_i e' he'; intro hh; simp at he hh; subst hh; subst he; exact urlsplit_ne_fuel _ _ he'
    · simp at he
  · split
    · rename_i e he; intro hh; simp at hh; subst hh; exact urlsplit_ne_fuel _ _ he
    · simp

theorem replacerCall_ne_fuel (r : ReplacerState) (u : Str) : replacerCall r u ≠ .error .fuel := by
  unfold replacerCall
  split
  · rename_i e he; intro hh; simp at hh; subst hh; exact urlsplit_ne_fuel _ _ he
  · split
    · simp
    · split
      · split <;> simp
      · simp only
        split
        · rename_i e he; intro hh; simp at hh; subst hh; exact quote_ne_fuel _ he
        · simp

theorem replacer_ne_fuel (h u : Str) : replacer h u ≠ .error .fuel := by
  unfold replacer
  split
  · rename_i e he; intro hh; simp at hh; subst hh; exact mkReplacerState_ne_fuel h he
  · exact replacerCall_ne_fuel _ u

abbrev NoFuelF (f : Repl) : Prop := ∀ u, f u ≠ .error .fuel

mutual
theorem replComp_ne_fuel (f : Repl) (hf : NoFuelF f) : ∀ c, replComp f c ≠ .error .fuel
  | .uri u => by
    unfold replComp
    split
    · rename_i e he; intro h; simp at h; subst h; exact hf u he
    · simp
  | .tok t => by simp [replComp]
  | .fn n a => by
    unfold replComp
    split
    · rename_i e he; intro h; simp at h; subst h; exact replComps_ne_fuel f hf a he
    · simp
theorem replComps_ne_fuel (f : Repl) (hf : NoFuelF f) : ∀ cs, replComps f cs ≠ .error .fuel
  | [] => by simp [replComps]
  | c :: cs => by
    unfold replComps
    split
    · rename_i e he; intro h; simp at h; subst h; exact replComp_ne_fuel f hf c he
    · split
      · rename_i e he; intro h; simp at h; subst h; exact replComps_ne_fuel f hf cs he
      · simp
end

theorem replStyle_ne_fuel (f : Repl) (hf : NoFuelF f) : ∀ st, replStyle f st ≠ .error .fuel
  | [] => by simp [replStyle]
  | d :: ds => by
    unfold replStyle
    split
    · rename_i e he; intro h; simp at h; subst h; exact replComps_ne_fuel f hf _ he
    · split
      · rename_i e he; intro h; simp at h; subst h; exact replStyle_ne_fuel f hf ds he
      · simp

theorem replMargins_ne_fuel (f : Repl) (hf : NoFuelF f) : ∀ ms, replMargins f ms ≠ .error .fuel
  | [] => by simp [replMargins]
  | m :: ms => by
    unfold replMargins
    split
    · rename_i e he; intro h; simp at h; subst h; exact replStyle_ne_fuel f hf _ he
    · split
      · rename_i e he; intro h; simp at h; subst h; exact replMargins_ne_fuel f hf ms he
      · simp

mutual
theorem replRule_ne_fuel (f : Repl) (hf : NoFuelF f) : ∀ r, replRule f r ≠ .error .fuel
  | .style sel st => by
    unfold replRule
    split
    · rename_i e he; intro h; simp at h; subst h; exact replStyle_ne_fuel f hf _ he
    · simp
  | .fontface st => by
    unfold replRule
    split
    · rename_i e he; intro h; simp at h; subst h; exact replStyle_ne_fuel f hf _ he
    · simp
  | .page sel st ms => by
    unfold replRule
    split
    · rename_i e he; intro h; simp at h; subst h; exact replStyle_ne_fuel f hf _ he
    · split
      · rename_i e he; intro h; simp at h; subst h; exact replMargins_ne_fuel f hf _ he
      · simp
  | .media m rs => by
    unfold replRule
    split
    · rename_i e he; intro h; simp at h; subst h; exact replRules_ne_fuel f hf rs he
    · simp
  | .charset _ => by simp [replRule]
  | .comment _ => by simp [replRule]
  | .imp _ _ _ _ _ => by simp [replRule]
  | .ns _ _ => by simp [replRule]
  | .unknown _ => by simp [replRule]
theorem replRules_ne_fuel (f : Repl) (hf : NoFuelF f) : ∀ rs, replRules f rs ≠ .error .fuel
  | [] => by simp [replRules]
  | r :: rs => by
    unfold replRules
    split
    · rename_i e he; intro h; simp at h; subst h; exact replRule_ne_fuel f hf r he
    · split
      · rename_i e he; intro h; simp at h; subst h; exact replRules_ne_fuel f hf rs he
      · simp
end

/-- whatever error `reload` ends with is the error of the load from the new place -/
theorem reload_err {vfs : Vfs} {who : Who} {th href media tried : Str} {e : Err}
    (h : (reload vfs who th href media tried).val = .error e) :
    (setHref (vfs.length + 2) vfs who [th] href media).val = .error e := by
  unfold reload at h
  split at h
  · split at h
    · simp at h
    · exact h
  · exact h

/-- re-basing the @import hrefs raises only what the replacer raises -/
theorem rebaseImps_ne (f : Str → Except Err Str) (bad : Err) (hf : ∀ u, f u ≠ .error bad) (hb : bad ≠ .valueError) :
    ∀ l : List Rule, rebaseImps f l ≠ .error bad
  | [] => by simp [rebaseImps]
  | r :: rs => by
    have ih := rebaseImps_ne f bad hf hb rs
    unfold rebaseImps
    have h1 : rebaseImp f r ≠ .error bad := by
      cases r with
      | imp h m fd ih' sh =>
        intro hh
        simp only [rebaseImp] at hh
        cases hfh : f h with
        | ok v => rw [hfh] at hh; simp at hh
        | error e =>
          rw [hfh] at hh
          cases e <;> simp at hh <;> (subst hh; exact hf h hfh)
      | _ => simp [rebaseImp]
    cases hr : rebaseImp f r with
    | error e => simp only []; intro hh; simp at hh; subst hh; exact h1 hr
    | ok x =>
      simp only []
      cases hrs : rebaseImps f rs with
      | error e => simp only []; intro hh; simp at hh; subst hh; exact ih hrs
      | ok xs => simp

theorem addRule_ne_fuel (vfs : Vfs) (who : Who) (th : Str) (target : Sheet) (r : Rule) :
    (addRule vfs who th target r).val ≠ .error .fuel := by
  cases r with
  | imp href media found t s =>
    simp only [addRule]
    split
    · simp
    · split
      · rename_i e he
        intro h; simp at h; subst h
        have := unvisited_le vfs [th]
        exact setHref_noFuel vfs who (vfs.length + 2) [th] href media (by omega) (reload_err he)
      · simp
  | charset e => simp only [addRule]; split <;> simp
  | ns p u => simp only [addRule]; repeat' split; all_goals simp
  | comment _ => simp [addRule]
  | style _ _ => simp [addRule]
  | media _ _ => simp [addRule]
  | page _ _ _ => simp [addRule]
  | fontface _ => simp [addRule]
  | unknown _ => simp [addRule]

theorem addAll_ne_fuel (vfs : Vfs) (who : Who) (th : Str) : ∀ (rs : List Rule) (t : Sheet), (addAll vfs who th t rs).val ≠ .error .fuel
  | [], t => by simp [addAll]
  | r :: rs, t => by
    simp only [addAll]
    split
    · rename_i e he; intro h; simp at h; subst h; exact addRule_ne_fuel vfs who th t r he
    · exact addAll_ne_fuel vfs who th rs _

theorem proxyAddAll_ne_fuel : ∀ (rs acc : List Rule), proxyAddAll acc rs ≠ .error .fuel
  | [], acc => by simp [proxyAddAll]
  | r :: rs, acc => by
    cases r <;> simp [proxyAddAll, proxyAddAll_ne_fuel rs]

mutual
theorem resolveRules_ne_fuel (vfs : Vfs) (who : Who) : ∀ (rs : List Rule) (th : Str) (t : Sheet),
    (resolveRules vfs who th t rs).val ≠ .error .fuel
  | [], th, t => by simp [resolveRules]
  | r :: rs, th, t => by
    simp only [resolveRules]
    split
    · rename_i e he; intro h; simp at h; subst h; exact resolveRule_ne_fuel vfs who r th t he
    · exact resolveRules_ne_fuel vfs who rs th _
theorem resolveRule_ne_fuel (vfs : Vfs) (who : Who) : ∀ (r : Rule) (th : Str) (t : Sheet),
    (resolveRule vfs who th t r).val ≠ .error .fuel
  | .charset _, th, t => by simp [resolveRule]
  | .imp href media found ihref sheet, th, t => by
    simp only [resolveRule]
    split
    · exact addRule_ne_fuel vfs who th t _
    · rw [addRule_plain vfs who th t (.comment (startComment href)) rfl]
      simp only
      split
      · exact addRule_ne_fuel vfs who th _ _
      · rename_i e hne he
        intro h; simp at h; subst h
        exact resolveRules_ne_fuel vfs who sheet ihref [] he
      · rename_i isheet his
        split
        · rename_i e he
          intro h; simp at h; subst h
          simp only [replaceUrls, ↓reduceIte] at he
          split at he
          · rename_i e' he'; simp at he; subst he; exact replRules_ne_fuel _ (replacer_ne_fuel href) _ he'
          · simp at he
        · rename_i rebased hre
          split
          · rename_i e he
            intro h; simp at h; subst h
            exact rebaseImps_ne _ .fuel (replacer_ne_fuel href) (by decide) _ he
          · split
            · exact addAll_ne_fuel vfs who th _ _
            · split
              · exact addRule_ne_fuel vfs who th _ _
              · split
                · rename_i e he
                  intro h; simp at h; subst h; exact proxyAddAll_ne_fuel _ _ he
                · exact addRule_ne_fuel vfs who th _ _
  | .comment c, th, t => by simp only [resolveRule]; exact addRule_ne_fuel vfs who th t _
  | .ns p u, th, t => by simp only [resolveRule]; exact addRule_ne_fuel vfs who th t _
  | .style a b, th, t => by simp only [resolveRule]; exact addRule_ne_fuel vfs who th t _
  | .media a b, th, t => by simp only [resolveRule]; exact addRule_ne_fuel vfs who th t _
  | .page a b c, th, t => by simp only [resolveRule]; exact addRule_ne_fuel vfs who th t _
  | .fontface a, th, t => by simp only [resolveRule]; exact addRule_ne_fuel vfs who th t _
  | .unknown a, th, t => by simp only [resolveRule]; exact addRule_ne_fuel vfs who th t _
end


/-! ## after the fix of `_combinable`: nothing in `resolveImports` raises HierarchyRequestErr -/

theorem urlsplit_ne_hier (u d : Str) : urlsplit u d ≠ .error .hierarchyRequestErr := by
  unfold urlsplit
  simp only
  repeat' split
  all_goals simp

theorem urlparse_ne_hier (u d : Str) : urlparse u d ≠ .error .hierarchyRequestErr := by
  unfold urlparse
  split
  · rename_i e he
    intro h
    simp at h
    subst h
    exact urlsplit_ne_hier u d he
  · simp

theorem urljoin_ne_hier (b u : Str) : urljoin b u ≠ .error .hierarchyRequestErr := by
  unfold urljoin
  split
  · simp
  · split
    · simp
    · split
      · rename_i e he
        intro h; simp at h; subst h; exact urlparse_ne_hier _ _ he
      · split
        · rename_i e he
          intro h; simp at h; subst h; exact urlparse_ne_hier _ _ he
        · simp only
          repeat' split
          all_goals simp

theorem utf8_ne_hier (c : Nat) : utf8 c ≠ .error .hierarchyRequestErr := by
  unfold utf8; repeat' split
  all_goals simp

theorem quote_ne_hier : ∀ s, quote s ≠ .error .hierarchyRequestErr
  | [] => by simp [quote]
  | c :: cs => by
    unfold quote
    split
    · rename_i e he; intro h; simp at h; subst h; exact utf8_ne_hier c he
    · split
      · rename_i e he; intro h; simp at h; subst h; exact quote_ne_hier cs he
      · simp

theorem mkReplacerState_ne_hier (h : Str) : mkReplacerState h ≠ .error .hierarchyRequestErr := by
  unfold mkReplacerState extractBase
  split
  · rename_i e he
    split at he
    · rename_i e' he'; intro hh; simp at he hh; subst hh; subst he; exact urlsplit_ne_hier _ _ he'
    · simp at he
  · split
    · rename_i e he; intro hh; simp at hh; subst hh; exact urlsplit_ne_hier _ _ he
    · simp

theorem replacerCall_ne_hier (r : ReplacerState) (u : Str) : replacerCall r u ≠ .error .hierarchyRequestErr := by
  unfold replacerCall
  split
  · rename_i e he; intro hh; simp at hh; subst hh; exact urlsplit_ne_hier _ _ he
  · split
    · simp
    · split
      · split <;> simp
      · simp only
        split
        · rename_i e he; intro hh; simp at hh; subst hh; exact quote_ne_hier _ he
        · simp

theorem replacer_ne_hier (h u : Str) : replacer h u ≠ .error .hierarchyRequestErr := by
  unfold replacer
  split
  · rename_i e he; intro hh; simp at hh; subst hh; exact mkReplacerState_ne_hier h he
  · exact replacerCall_ne_hier _ u

abbrev NoHierF (f : Repl) : Prop := ∀ u, f u ≠ .error .hierarchyRequestErr

mutual
theorem replComp_ne_hier (f : Repl) (hf : NoHierF f) : ∀ c, replComp f c ≠ .error .hierarchyRequestErr
  | .uri u => by
    unfold replComp
    split
    · rename_i e he; intro h; simp at h; subst h; exact hf u he
    · simp
  | .tok t => by simp [replComp]
  | .fn n a => by
    unfold replComp
    split
    · rename_i e he; intro h; simp at h; subst h; exact replComps_ne_hier f hf a he
    · simp
theorem replComps_ne_hier (f : Repl) (hf : NoHierF f) : ∀ cs, replComps f cs ≠ .error .hierarchyRequestErr
  | [] => by simp [replComps]
  | c :: cs => by
    unfold replComps
    split
    · rename_i e he; intro h; simp at h; subst h; exact replComp_ne_hier f hf c he
    · split
      · rename_i e he; intro h; simp at h; subst h; exact replComps_ne_hier f hf cs he
      · simp
end

theorem replStyle_ne_hier (f : Repl) (hf : NoHierF f) : ∀ st, replStyle f st ≠ .error .hierarchyRequestErr
  | [] => by simp [replStyle]
  | d :: ds => by
    unfold replStyle
    split
    · rename_i e he; intro h; simp at h; subst h; exact replComps_ne_hier f hf _ he
    · split
      · rename_i e he; intro h; simp at h; subst h; exact replStyle_ne_hier f hf ds he
      · simp

theorem replMargins_ne_hier (f : Repl) (hf : NoHierF f) : ∀ ms, replMargins f ms ≠ .error .hierarchyRequestErr
  | [] => by simp [replMargins]
  | m :: ms => by
    unfold replMargins
    split
    · rename_i e he; intro h; simp at h; subst h; exact replStyle_ne_hier f hf _ he
    · split
      · rename_i e he; intro h; simp at h; subst h; exact replMargins_ne_hier f hf ms he
      · simp

mutual
theorem replRule_ne_hier (f : Repl) (hf : NoHierF f) : ∀ r, replRule f r ≠ .error .hierarchyRequestErr
  | .style sel st => by
    unfold replRule
    split
    · rename_i e he; intro h; simp at h; subst h; exact replStyle_ne_hier f hf _ he
    · simp
  | .fontface st => by
    unfold replRule
    split
    · rename_i e he; intro h; simp at h; subst h; exact replStyle_ne_hier f hf _ he
    · simp
  | .page sel st ms => by
    unfold replRule
    split
    · rename_i e he; intro h; simp at h; subst h; exact replStyle_ne_hier f hf _ he
    · split
      · rename_i e he; intro h; simp at h; subst h; exact replMargins_ne_hier f hf _ he
      · simp
  | .media m rs => by
    unfold replRule
    split
    · rename_i e he; intro h; simp at h; subst h; exact replRules_ne_hier f hf rs he
    · simp
  | .charset _ => by simp [replRule]
  | .comment _ => by simp [replRule]
  | .imp _ _ _ _ _ => by simp [replRule]
  | .ns _ _ => by simp [replRule]
  | .unknown _ => by simp [replRule]
theorem replRules_ne_hier (f : Repl) (hf : NoHierF f) : ∀ rs, replRules f rs ≠ .error .hierarchyRequestErr
  | [] => by simp [replRules]
  | r :: rs => by
    unfold replRules
    split
    · rename_i e he; intro h; simp at h; subst h; exact replRule_ne_hier f hf r he
    · split
      · rename_i e he; intro h; simp at h; subst h; exact replRules_ne_hier f hf rs he
      · simp
end


theorem setHref_ne_hier (vfs : Vfs) (who : Who) : ∀ (fuel : Nat) (chain : List Str) (href media : Str),
    (setHref fuel vfs who chain href media).val ≠ .error .hierarchyRequestErr
  | 0, _, _, _ => by simp [setHref]
  | fuel + 1, chain, href, media => by
    unfold setHref
    cases chain with
    | nil => simp
    | cons parent rest =>
      simp only
      cases hj : urljoin parent href with
      | error e =>
        cases e
        · simp
        · simp
        · exact absurd hj (urljoin_ne_hier parent href)
        · simp
        · simp
      | ok full =>
        simp only
        by_cases hc : full ∈ parent :: rest
        · simp [hc]
        · simp only [hc, ↓reduceIte]
          cases hl : vfsLookup vfs full with
          | none => simp
          | some raw =>
            simp only
            split <;> simp

theorem addRule_ne_hier (vfs : Vfs) (who : Who) (th : Str) (target : Sheet) (r : Rule) :
    (addRule vfs who th target r).val ≠ .error .hierarchyRequestErr := by
  cases r with
  | imp href media found t s =>
    simp only [addRule]
    split
    · simp
    · split
      · rename_i e he
        intro h; simp at h; subst h
        exact setHref_ne_hier vfs who (vfs.length + 2) [th] href media (reload_err he)
      · simp
  | charset e => simp only [addRule]; split <;> simp
  | ns p u => simp only [addRule]; repeat' split; all_goals simp
  | comment _ => simp [addRule]
  | style _ _ => simp [addRule]
  | media _ _ => simp [addRule]
  | page _ _ _ => simp [addRule]
  | fontface _ => simp [addRule]
  | unknown _ => simp [addRule]

theorem addAll_ne_hier (vfs : Vfs) (who : Who) (th : Str) : ∀ (rs : List Rule) (t : Sheet), (addAll vfs who th t rs).val ≠ .error .hierarchyRequestErr
  | [], t => by simp [addAll]
  | r :: rs, t => by
    simp only [addAll]
    split
    · rename_i e he; intro h; simp at h; subst h; exact addRule_ne_hier vfs who th t r he
    · exact addAll_ne_hier vfs who th rs _


theorem combinable_wrappable (r : Rule) : combinable r = isWrappable r := by
  cases r <;> rfl

/-- the @media proxy takes every rule that passed `_combinable` (fix: an @import does not pass any more) -/
theorem proxyAddAll_combinable (rs acc : List Rule) (h : rs.all combinable = true) :
    proxyAddAll acc rs = .ok (acc ++ rs) := by
  apply proxyAddAll_wrappable
  intro r hr
  rw [← combinable_wrappable]
  exact List.all_eq_true.mp h r hr

mutual
theorem resolveRules_ne_hier (vfs : Vfs) (who : Who) : ∀ (rs : List Rule) (th : Str) (t : Sheet),
    (resolveRules vfs who th t rs).val ≠ .error .hierarchyRequestErr
  | [], th, t => by simp [resolveRules]
  | r :: rs, th, t => by
    simp only [resolveRules]
    split
    · rename_i e he; intro h; simp at h; subst h; exact resolveRule_ne_hier vfs who r th t he
    · exact resolveRules_ne_hier vfs who rs th _
theorem resolveRule_ne_hier (vfs : Vfs) (who : Who) : ∀ (r : Rule) (th : Str) (t : Sheet),
    (resolveRule vfs who th t r).val ≠ .error .hierarchyRequestErr
  | .charset _, th, t => by simp [resolveRule]
  | .imp href media found ihref sheet, th, t => by
    simp only [resolveRule]
    split
    · exact addRule_ne_hier vfs who th t _
    · rw [addRule_plain vfs who th t (.comment (startComment href)) rfl]
      simp only
      split
      · exact addRule_ne_hier vfs who th _ _
      · rename_i e hne he
        intro h; simp at h; subst h
        exact resolveRules_ne_hier vfs who sheet ihref [] he
      · rename_i isheet his
        split
        · rename_i e he
          intro h; simp at h; subst h
          simp only [replaceUrls, ↓reduceIte] at he
          split at he
          · rename_i e' he'; simp at he; subst he; exact replRules_ne_hier _ (replacer_ne_hier href) _ he'
          · simp at he
        · rename_i rebased hre
          split
          · rename_i e he
            intro h; simp at h; subst h
            exact rebaseImps_ne _ .hierarchyRequestErr (replacer_ne_hier href) (by decide) _ he
          · rename_i rb hrb
            split
            · exact addAll_ne_hier vfs who th _ _
            · split
              · exact addRule_ne_hier vfs who th _ _
              · rename_i hall
                have hall' : rb.all combinable = true := by
                  cases hb : rb.all combinable with
                  | true => rfl
                  | false => exact absurd hb hall
                rw [proxyAddAll_combinable _ _ hall']
                exact addRule_ne_hier vfs who th _ _
  | .comment c, th, t => by simp only [resolveRule]; exact addRule_ne_hier vfs who th t _
  | .ns p u, th, t => by simp only [resolveRule]; exact addRule_ne_hier vfs who th t _
  | .style a b, th, t => by simp only [resolveRule]; exact addRule_ne_hier vfs who th t _
  | .media a b, th, t => by simp only [resolveRule]; exact addRule_ne_hier vfs who th t _
  | .page a b c, th, t => by simp only [resolveRule]; exact addRule_ne_hier vfs who th t _
  | .fontface a, th, t => by simp only [resolveRule]; exact addRule_ne_hier vfs who th t _
  | .unknown a, th, t => by simp only [resolveRule]; exact addRule_ne_hier vfs who th t _
end


/-! ## `Replacer` on strings built from simple segments -/

theorem splitFirst_none (c : Nat) : ∀ s : Str, c ∉ s → splitFirst c s = none
  | [], _ => rfl
  | x :: xs, h => by
    have hx : x ≠ c := fun e => h (by simp [e])
    simp [splitFirst, hx, splitFirst_none c xs (fun hm => h (List.mem_cons_of_mem _ hm))]

theorem plainChar_facts (c : Nat) (h : plainChar c = true) :
    c ≠ cColon ∧ c ≠ cQuest ∧ c ≠ cHash ∧ 0x20 < c ∧ c ≠ 9 ∧ c ≠ 13 ∧ c ≠ 10 ∧ c ≠ 0x5B ∧ c ≠ 0x5D ∧ c < 0x80 := by
  have hlt := plainChar_lt c h
  simp [plainChar, isAsciiAlpha, isDigit, cSlash, cPct] at h
  simp only [cColon, cQuest, cHash]
  rcases h with ((((((((h|h)|h)|h)|h)|h)|h)|h)|h) <;>
    first | omega | (have := of_decide_eq_true h; omega)

/-- `urlsplit` of a string of unreserved characters, `/` and `%` that does not start with `//`: it is all path -/
theorem urlsplit_simple (s : Str) (hs : PlainStr s) (h2 : s.take 2 ≠ [cSlash, cSlash]) :
    urlsplit s [] = .ok { scheme := [], netloc := [], path := s, query := [], fragment := [] } := by
  have f := fun c hc => plainChar_facts c (hs c hc)
  have hdrop : s.dropWhile (· ≤ 0x20) = s := by
    cases s with
    | nil => rfl
    | cons x xs =>
      have := (f x (by simp)).2.2.2.1
      simp [List.dropWhile_cons]; omega
  have hfilt : s.filter (fun c => c ≠ 9 ∧ c ≠ 13 ∧ c ≠ 10) = s := by
    apply List.filter_eq_self.mpr
    intro c hc
    have := f c hc
    simp [this.2.2.2.2.1, this.2.2.2.2.2.1, this.2.2.2.2.2.2.1]
  have hcol : cColon ∉ s := fun hm => (f _ hm).1 rfl
  have hq : cQuest ∉ s := fun hm => (f _ hm).2.1 rfl
  have hh : cHash ∉ s := fun hm => (f _ hm).2.2.1 rfl
  have hnet : netlocOf s = ([], s) := by
    unfold netlocOf
    split
    · exfalso; apply h2; simp [cSlash]
    · rfl
  unfold urlsplit
  simp only [hdrop, hfilt, splitScheme, splitFirst_none _ _ hcol, List.dropWhile_nil, List.reverse_nil,
    List.filter_nil, hnet, splitFirst_none _ _ hh, splitFirst_none _ _ hq]
  simp

theorem takeWhile_stop {α : Type} (p : α → Bool) : ∀ (l : List α) (x : α) (r : List α), (∀ y ∈ l, p y = true) → p x = false →
    (l ++ x :: r).takeWhile p = l ∧ (l ++ x :: r).dropWhile p = x :: r
  | [], x, r, _, hx => by simp [List.takeWhile_cons, List.dropWhile_cons, hx]
  | y :: l, x, r, h, hx => by
    have hy := h y (by simp)
    have ih := takeWhile_stop p l x r (fun z hz => h z (List.mem_cons_of_mem _ hz)) hx
    simp [List.takeWhile_cons, List.dropWhile_cons, hy, ih.1, ih.2]

theorem takeWhile_all {α : Type} (p : α → Bool) : ∀ (l : List α), (∀ y ∈ l, p y = true) →
    l.takeWhile p = l ∧ l.dropWhile p = []
  | [], _ => by simp
  | y :: l, h => by
    have hy := h y (by simp)
    have ih := takeWhile_all p l (fun z hz => h z (List.mem_cons_of_mem _ hz))
    simp [List.takeWhile_cons, List.dropWhile_cons, hy, ih.1, ih.2]

/-- `posixpath.split('a/…/f')` -/
theorem psplit_dir_file (a f : Str) (hf : cSlash ∉ f) (ha : a ≠ []) (hl : a.getLast? ≠ some cSlash) :
    psplit (a ++ cSlash :: f) = (a, f) := by
  have hrev : (a ++ cSlash :: f).reverse = f.reverse ++ cSlash :: a.reverse := by simp
  have hfr : ∀ y ∈ f.reverse, (fun c => decide (c ≠ cSlash)) y = true := by
    intro y hy; simp only [decide_eq_true_eq]; intro e; subst e; exact hf (List.mem_reverse.mp hy)
  have st := takeWhile_stop (fun c => decide (c ≠ cSlash)) f.reverse cSlash a.reverse hfr (by simp)
  -- the last character of `a` is not a slash
  obtain ⟨a0, x, rfl⟩ : ∃ a0 x, a = a0 ++ [x] := by
    rcases List.eq_nil_or_concat a with h | ⟨a0, x, h⟩
    · exact absurd h ha
    · exact ⟨a0, x, by simpa [List.concat_eq_append] using h⟩
  have hx : x ≠ cSlash := by simpa using hl
  unfold psplit
  simp only [hrev, st.1, st.2, List.reverse_reverse]
  have hne : (cSlash :: (a0 ++ [x]).reverse).reverse ≠ [] := by simp
  have hns : (cSlash :: (a0 ++ [x]).reverse).reverse ≠
      List.replicate (cSlash :: (a0 ++ [x]).reverse).reverse.length cSlash := by
    intro e
    have : x ∈ (cSlash :: (a0 ++ [x]).reverse).reverse := by simp
    rw [e] at this
    exact hx (List.eq_of_mem_replicate this)
  simp only [hne, hns, ne_eq, not_false_eq_true, and_self, ↓reduceIte]
  simp [rstrip, List.dropWhile_cons, hx]

theorem psplit_file (f : Str) (hf : cSlash ∉ f) : psplit f = ([], f) := by
  have hfr : ∀ y ∈ f.reverse, (fun c => decide (c ≠ cSlash)) y = true := by
    intro y hy; simp only [decide_eq_true_eq]; intro e; subst e; exact hf (List.mem_reverse.mp hy)
  have st := takeWhile_all (fun c => decide (c ≠ cSlash)) f.reverse hfr
  unfold psplit
  simp only [st.1, st.2]
  simp

/-- a path segment made of characters that neither `urlsplit` nor `quote` treat specially -/
def SimpleSeg (s : Str) : Prop := s ≠ [] ∧ ∀ c ∈ s, plainChar c = true ∧ c ≠ cSlash

theorem joinWith_snoc (c : Nat) : ∀ (l : List Str) (f : Str), l ≠ [] → joinWith c (l ++ [f]) = joinWith c l ++ c :: f
  | [], _, h => absurd rfl h
  | [a], f, _ => by simp [joinWith]
  | a :: b :: l, f, _ => by
    have ih := joinWith_snoc c (b :: l) f (by simp)
    simp only [List.cons_append] at ih ⊢
    simp only [joinWith, ih, List.append_assoc, List.cons_append]

theorem joinWith_append (c : Nat) : ∀ (l1 l2 : List Str), l1 ≠ [] → l2 ≠ [] →
    joinWith c (l1 ++ l2) = joinWith c l1 ++ c :: joinWith c l2
  | [], _, h, _ => absurd rfl h
  | [a], l2, _, h2 => by
    cases l2 with
    | nil => exact absurd rfl h2
    | cons b l => simp [joinWith]
  | a :: b :: l, l2, _, h2 => by
    have ih := joinWith_append c (b :: l) l2 (by simp) h2
    simp only [List.cons_append] at ih ⊢
    simp only [joinWith, ih, List.append_assoc, List.cons_append]

theorem mem_joinWith (c : Nat) : ∀ (l : List Str) (x : Nat), x ∈ joinWith c l → x = c ∨ ∃ s ∈ l, x ∈ s
  | [], x, h => by simp [joinWith] at h
  | [a], x, h => by simp [joinWith] at h; exact Or.inr ⟨a, by simp, h⟩
  | a :: b :: l, x, h => by
    simp only [joinWith, List.mem_append, List.mem_cons] at h
    rcases h with h | h | h
    · exact Or.inr ⟨a, by simp, h⟩
    · exact Or.inl h
    · rcases mem_joinWith c (b :: l) x h with h | ⟨s, hs, hx⟩
      · exact Or.inl h
      · exact Or.inr ⟨s, List.mem_cons_of_mem _ hs, hx⟩

/-- facts about a non-empty join of simple segments -/
theorem joinWith_simple : ∀ (l : List Str), l ≠ [] → (∀ s ∈ l, SimpleSeg s) →
    joinWith cSlash l ≠ [] ∧ (joinWith cSlash l).getLast? ≠ some cSlash ∧ (joinWith cSlash l).head? ≠ some cSlash
  | [], h, _ => absurd rfl h
  | [a], _, hs => by
    have ha := hs a (by simp)
    obtain ⟨a0, x, rfl⟩ : ∃ a0 x, a = a0 ++ [x] := by
      rcases List.eq_nil_or_concat a with h | ⟨a0, x, h⟩
      · exact absurd h ha.1
      · exact ⟨a0, x, by simpa [List.concat_eq_append] using h⟩
    refine ⟨by simp [joinWith], ?_, ?_⟩
    · simp [joinWith]; exact (ha.2 x (by simp)).2
    · simp only [joinWith]
      cases a0 with
      | nil => simp; exact (ha.2 x (by simp)).2
      | cons y ys => simp; exact (ha.2 y (by simp)).2
  | a :: b :: l, _, hs => by
    have ha := hs a (by simp)
    have ih := joinWith_simple (b :: l) (by simp) (fun s h => hs s (List.mem_cons_of_mem _ h))
    refine ⟨by simp [joinWith], ?_, ?_⟩
    · simp only [joinWith]
      rw [List.getLast?_append]
      have : (cSlash :: joinWith cSlash (b :: l)).getLast? = (joinWith cSlash (b :: l)).getLast? := by
        cases hj : joinWith cSlash (b :: l) with
        | nil => exact absurd hj ih.1
        | cons y ys => simp [List.getLast?_cons_cons]
      rw [this]
      cases hj : (joinWith cSlash (b :: l)).getLast? with
      | none => simp [List.getLast?_eq_none_iff] at hj; exact absurd hj ih.1
      | some z => simp; intro e; exact ih.2.1 (by rw [hj, e])
    · simp only [joinWith]
      cases a with
      | nil => exact absurd rfl ha.1
      | cons y ys => simp; exact (ha.2 y (by simp)).2

theorem startsWith_slash_false (b : Str) (h : b.head? ≠ some cSlash) : startsWith [cSlash] b = false := by
  cases b with
  | nil => simp [startsWith, List.isPrefixOf]
  | cons x xs =>
    have : x ≠ cSlash := by simpa using h
    simp [startsWith, List.isPrefixOf, this, Ne.symm this]

theorem simple_noSlash (s : Str) (h : SimpleSeg s) : cSlash ∉ s := fun hm => (h.2 _ hm).2 rfl

theorem psplit_segments (U : List Str) (f : Str) (hU : ∀ s ∈ U, SimpleSeg s) (hf : SimpleSeg f) :
    psplit (joinWith cSlash (U ++ [f])) = (joinWith cSlash U, f) := by
  cases U with
  | nil => simp [joinWith, psplit_file f (simple_noSlash f hf)]
  | cons a l =>
    have hne : a :: l ≠ [] := by simp
    have js := joinWith_simple (a :: l) hne hU
    rw [joinWith_snoc cSlash (a :: l) f hne]
    exact psplit_dir_file _ f (simple_noSlash f hf) js.1 js.2.1

theorem pjoin_segments (D U : List Str) (f : Str) (hD : ∀ s ∈ D, SimpleSeg s) (hU : ∀ s ∈ U, SimpleSeg s)
    (hf : SimpleSeg f) :
    pjoin (joinWith cSlash D) [joinWith cSlash U, f] = joinWith cSlash (D ++ U ++ [f]) := by
  have hf0 : startsWith [cSlash] f = false := by
    apply startsWith_slash_false
    cases f with
    | nil => exact absurd rfl hf.1
    | cons x xs => simp; exact (hf.2 x (by simp)).2
  cases D with
  | nil =>
    cases U with
    | nil => simp [pjoin, pjoin1, joinWith, hf0, startsWith, List.isPrefixOf]
    | cons a l =>
      have js := joinWith_simple (a :: l) (by simp) hU
      have h1 : startsWith [cSlash] (joinWith cSlash (a :: l)) = false := startsWith_slash_false _ js.2.2
      simp only [pjoin, List.foldl_cons, List.foldl_nil, pjoin1, joinWith, h1, hf0, List.nil_append]
      simp only [Bool.false_eq_true, ↓reduceIte, true_or, js.1, js.2.1, false_or]
      rw [joinWith_snoc cSlash (a :: l) f (by simp)]
  | cons d ds =>
    have jd := joinWith_simple (d :: ds) (by simp) hD
    cases U with
    | nil =>
      have h1 : startsWith [cSlash] (joinWith cSlash ([] : List Str)) = false := by
        simp [joinWith, startsWith, List.isPrefixOf]
      simp only [pjoin, List.foldl_cons, List.foldl_nil, pjoin1, h1, hf0, List.append_nil]
      simp only [Bool.false_eq_true, ↓reduceIte, jd.1, jd.2.1, false_or, joinWith]
      have hl : (joinWith cSlash (d :: ds) ++ [cSlash]).getLast? = some cSlash := by simp
      simp only [hl, or_true, ↓reduceIte]
      rw [joinWith_snoc cSlash (d :: ds) f (by simp)]
      simp
    | cons a l =>
      have js := joinWith_simple (a :: l) (by simp) hU
      have h1 : startsWith [cSlash] (joinWith cSlash (a :: l)) = false := startsWith_slash_false _ js.2.2
      simp only [pjoin, List.foldl_cons, List.foldl_nil, pjoin1, h1, hf0]
      simp only [Bool.false_eq_true, ↓reduceIte, jd.1, jd.2.1, false_or]
      have hne : joinWith cSlash (d :: ds) ++ cSlash :: joinWith cSlash (a :: l) ≠ [] := by simp
      have hl : (joinWith cSlash (d :: ds) ++ cSlash :: joinWith cSlash (a :: l)).getLast? ≠ some cSlash := by
        rw [List.getLast?_append]
        cases hj : joinWith cSlash (a :: l) with
        | nil => exact absurd hj js.1
        | cons y ys =>
          have := js.2.1
          rw [hj] at this
          simp only [List.getLast?_cons_cons]
          cases hy : (y :: ys).getLast? with
          | none => simp at hy
          | some z => simp; intro e; exact this (by rw [hy, e])
      simp only [hne, hl, false_or, ↓reduceIte]
      rw [joinWith_snoc cSlash (d :: ds ++ a :: l) f (by simp), joinWith_append cSlash (d :: ds) (a :: l) (by simp) (by simp)]

/-- `normpath` only keeps segments that were there -/
theorem normComps_subset (a : Bool) (cs : List Str) : ∀ c ∈ normComps a cs, c ∈ cs := by
  have key : ∀ (cs : List Str) (st : List Str) (all : List Str), (∀ c ∈ st, c ∈ all) → (∀ c ∈ cs, c ∈ all) →
      ∀ c ∈ cs.foldl (normStep a) st, c ∈ all := by
    intro cs
    induction cs with
    | nil => intro st all hst _; simpa using hst
    | cons x xs ih =>
      intro st all hst hcs
      simp only [List.foldl_cons]
      apply ih _ all _ (fun c hc => hcs c (List.mem_cons_of_mem _ hc))
      intro c hc
      unfold normStep at hc
      split at hc
      · exact hst c hc
      · split at hc
        · rcases List.mem_cons.mp hc with rfl | hc
          · exact hcs _ (by simp)
          · exact hst c hc
        · exact hst c (List.mem_of_mem_tail hc)
  intro c hc
  rw [normComps, List.mem_reverse] at hc
  exact key cs [] cs (by simp) (fun c h => h) c hc

theorem plain_join (l : List Str) (h : ∀ s ∈ l, ∀ c ∈ s, plainChar c = true) : PlainStr (joinWith cSlash l) := by
  intro x hx
  rcases mem_joinWith cSlash l x hx with rfl | ⟨s, hs, hxs⟩
  · decide
  · exact h s hs x hxs

theorem simple_join_plain (l : List Str) (h : ∀ s ∈ l, SimpleSeg s) : PlainStr (joinWith cSlash l) :=
  plain_join l (fun s hs c hc => ((h s hs).2 c hc).1)

theorem take2_of_head (s : Str) (h : s.head? ≠ some cSlash) : s.take 2 ≠ [cSlash, cSlash] := by
  cases s with
  | nil => simp
  | cons x xs =>
    have : x ≠ cSlash := by simpa using h
    cases xs <;> simp [this]

/-- **`Replacer` on paths given by their segments**: for an @import href `D/g` and a URL `U/f` made of simple
segments (unreserved characters and `%`; `.` and `..` allowed in `D` and `U`), `Replacer(href)(url)` is the
`/`-join of `normComps (D ++ U ++ [f])` — the string function is the segment function -/
theorem replacer_on_segments (D U : List Str) (g f : Str) (hD : ∀ s ∈ D, SimpleSeg s) (hU : ∀ s ∈ U, SimpleSeg s)
    (hg : SimpleSeg g) (hf : SimpleSeg f) (hfn : Normal f) :
    replacer (joinWith cSlash (D ++ [g])) (joinWith cSlash (U ++ [f]))
      = .ok (joinWith cSlash (normComps false (D ++ U ++ [f]))) := by
  have hDg : ∀ s ∈ D ++ [g], SimpleSeg s := by
    intro s hs
    rcases List.mem_append.mp hs with h | h
    · exact hD s h
    · simp at h; subst h; exact hg
  have hUf : ∀ s ∈ U ++ [f], SimpleSeg s := by
    intro s hs
    rcases List.mem_append.mp hs with h | h
    · exact hU s h
    · simp at h; subst h; exact hf
  have hall : ∀ s ∈ D ++ U ++ [f], SimpleSeg s := by
    intro s hs
    rcases List.mem_append.mp hs with h | h
    · rcases List.mem_append.mp h with h | h
      · exact hD s h
      · exact hU s h
    · simp at h; subst h; exact hf
  -- the href
  have jh := joinWith_simple (D ++ [g]) (by simp) hDg
  have sh := urlsplit_simple _ (simple_join_plain _ hDg) (take2_of_head _ jh.2.2)
  -- the url
  have ju := joinWith_simple (U ++ [f]) (by simp) hUf
  have su := urlsplit_simple _ (simple_join_plain _ hUf) (take2_of_head _ ju.2.2)
  have hrel : startsWith [cSlash] (joinWith cSlash (U ++ [f])) = false := startsWith_slash_false _ ju.2.2
  -- the combined path
  have hnorm := normpath_joinWith (D ++ U) f
    (fun s hs => simple_noSlash s (hall s (by simpa [List.append_assoc] using hs)))
    (by
      have : ∀ s ∈ D ++ U ++ [f], s ≠ [] := fun s hs => (hall s hs).1
      cases hdu : D ++ U ++ [f] with
      | nil => simp at hdu
      | cons x xs =>
        have hx := this x (by rw [hdu]; simp)
        simpa using hx)
    hfn
  have hq : quote (joinWith cSlash (normComps false (D ++ U ++ [f])))
      = .ok (joinWith cSlash (normComps false (D ++ U ++ [f]))) := by
    apply quote_plain
    apply plain_join
    intro s hs c hc
    exact ((hall s (normComps_subset false _ s hs)).2 c hc).1
  have hplain : PlainStr (joinWith cSlash (normComps false (D ++ U ++ [f]))) := by
    apply plain_join
    intro s hs c hc
    exact ((hall s (normComps_subset false _ s hs)).2 c hc).1
  have hcolon : ∀ q : Nat → Bool, cColon ∉ (joinWith cSlash (normComps false (D ++ U ++ [f]))).takeWhile q := by
    intro q hm
    exact (plainChar_facts _ (hplain _ ((List.takeWhile_sublist _).subset hm))).1 rfl
  have hst : mkReplacerState (joinWith cSlash (D ++ [g]))
      = .ok { base := joinWith cSlash D, scheme := [], location := [], path := joinWith cSlash (D ++ [g]),
              query := [] } := by
    unfold mkReplacerState extractBase
    simp only [sh, psplit_segments D g hD hg]
  unfold replacer
  simp only [hst]
  unfold replacerCall
  simp only [su, hrel, ju.1, psplit_segments U f hU hf, pjoin_segments D U f hD hU hf, hnorm, hfn.1, hfn.2.1,
    hfn.2.2]
  simp only [List.contains_eq_mem, ne_eq, not_true_eq_false, ↓reduceIte, false_or, or_self, false_and,
    Bool.false_eq_true, hq, hcolon, decide_false]
  simp [urlunsplit]


/-! ## `urljoin` on strings with a well-formed origin; T19.2 on strings -/

theorem splitFirst_append (c : Nat) : ∀ (s t : Str), c ∉ s → splitFirst c (s ++ c :: t) = some (s, t)
  | [], t, _ => by simp [splitFirst]
  | x :: xs, t, h => by
    have hx : x ≠ c := fun e => h (by simp [e])
    simp [splitFirst, hx, splitFirst_append c xs t (fun hm => h (List.mem_cons_of_mem _ hm))]

/-- a scheme and host as `urlsplit`/`urlunsplit`/`urljoin` treat `http://h`: hierarchical scheme, plain ASCII host -/
structure WFOrigin (sch net : Str) : Prop where
  sch_ne : sch ≠ []
  sch_alpha : ∀ c, sch.head? = some c → isAsciiAlpha c = true
  sch_chars : ∀ c ∈ sch, isSchemeChar c = true ∧ asciiLower c = c
  sch_rel : sch ∈ usesRelative
  sch_net : sch ∈ usesNetloc
  net_ne : net ≠ []
  net_chars : ∀ c ∈ net, 0x20 < c ∧ c < 0x80 ∧ c ≠ cSlash ∧ c ≠ cQuest ∧ c ≠ cHash ∧ c ≠ 0x5B ∧ c ≠ 0x5D

def originStr (sch net : Str) : Str := sch ++ cColon :: cSlash :: cSlash :: net

theorem schemeChar_facts (c : Nat) (h : isSchemeChar c = true) : 0x20 < c ∧ c ≠ 9 ∧ c ≠ 13 ∧ c ≠ 10 ∧ c ≠ cColon := by
  simp [isSchemeChar, isAsciiAlpha, isDigit] at h
  simp only [cColon]
  omega

theorem filter_id_of {p : Nat → Bool} (s : Str) (h : ∀ c ∈ s, p c = true) : s.filter p = s :=
  List.filter_eq_self.mpr h

/-- `urlsplit("scheme://host" + path)` for a path of unreserved characters starting with a slash -/
theorem urlsplit_abs (sch net P d : Str) (w : WFOrigin sch net) (hP : PlainStr P) (hs : P.head? = some cSlash) :
    urlsplit (originStr sch net ++ P) d = .ok { scheme := sch, netloc := net, path := P, query := [], fragment := [] } := by
  obtain ⟨c0, sch', rfl⟩ : ∃ c0 sch', sch = c0 :: sch' := by
    cases sch with
    | nil => exact absurd rfl w.sch_ne
    | cons a b => exact ⟨a, b, rfl⟩
  have hc0 := w.sch_alpha c0 (by simp)
  have fP := fun c hc => plainChar_facts c (hP c hc)
  have hgood : ∀ c ∈ originStr (c0 :: sch') net ++ P, (fun c => decide (c ≠ 9 ∧ c ≠ 13 ∧ c ≠ 10)) c = true := by
    intro c hc
    simp only [originStr, List.mem_append, List.mem_cons] at hc
    simp only [decide_eq_true_eq]
    rcases hc with ((hc | hc) | hc | hc | hc | hc) | hc
    · subst hc; have := schemeChar_facts c (w.sch_chars c (by simp)).1; omega
    · have := schemeChar_facts c (w.sch_chars c (by simp [hc])).1; omega
    · subst hc; decide
    · subst hc; decide
    · subst hc; decide
    · have := w.net_chars c hc; omega
    · have := fP c hc; omega
  have hdrop : (originStr (c0 :: sch') net ++ P).dropWhile (· ≤ 0x20) = originStr (c0 :: sch') net ++ P := by
    have := (schemeChar_facts c0 (w.sch_chars c0 (by simp)).1).1
    simp [originStr, List.dropWhile_cons]; omega
  have hcol : cColon ∉ (c0 :: sch') := fun hm => (schemeChar_facts _ (w.sch_chars _ hm).1).2.2.2.2 rfl
  have hsplit := splitFirst_append cColon (c0 :: sch') (cSlash :: cSlash :: net ++ P) hcol
  have hlow : (c0 :: sch').map asciiLower = c0 :: sch' := by
    rw [List.map_congr_left (g := id)]
    · simp
    · intro c hc; exact (w.sch_chars c hc).2
  have hall : (c0 :: sch').all isSchemeChar = true := by
    simp only [List.all_eq_true]; intro c hc; exact (w.sch_chars c hc).1
  have hscheme : splitScheme (originStr (c0 :: sch') net ++ P) = some (c0 :: sch', cSlash :: cSlash :: net ++ P) := by
    unfold splitScheme originStr
    have e : c0 :: sch' ++ cColon :: cSlash :: cSlash :: net ++ P = (c0 :: sch') ++ cColon :: (cSlash :: cSlash :: net ++ P) := by
      simp
    rw [e, hsplit]
    simp only [hc0, hall, hlow, and_self, ↓reduceIte]
  obtain ⟨P', rfl⟩ : ∃ P', P = cSlash :: P' := by
    cases P with
    | nil => simp at hs
    | cons a b => simp at hs; exact ⟨b, by rw [hs]⟩
  have hnet : netlocOf (cSlash :: cSlash :: net ++ cSlash :: P') = (net, cSlash :: P') := by
    unfold netlocOf
    have st := takeWhile_stop (fun c => decide (c ≠ cSlash ∧ c ≠ cQuest ∧ c ≠ cHash)) net cSlash P'
      (by intro y hy; have := w.net_chars y hy; simp [this.2.2.1, this.2.2.2.1, this.2.2.2.2.1]) (by simp)
    simp only [cSlash] at st ⊢
    simp only [splitNetloc, cSlash]
    exact Prod.ext st.1 st.2
  have hbr : net.any (fun c => decide (c = 0x5B ∨ c = 0x5D)) = false := by
    simp only [List.any_eq_false]
    intro c hc; have := w.net_chars c hc; simp [this.2.2.2.2.2.1, this.2.2.2.2.2.2]
  have hascii : net.any (· ≥ 0x80) = false := by
    simp only [List.any_eq_false]
    intro c hc; have := w.net_chars c hc; simp; omega
  have hh : cHash ∉ (cSlash :: P') := fun hm => (fP _ hm).2.2.1 rfl
  have hq : cQuest ∉ (cSlash :: P') := fun hm => (fP _ hm).2.1 rfl
  unfold urlsplit
  simp only [hdrop, filter_id_of _ hgood, hscheme, hnet, hbr, hascii, splitFirst_none _ _ hh, splitFirst_none _ _ hq]
  simp

theorem urlunsplit_abs (sch net P : Str) (w : WFOrigin sch net) (hs : P.head? = some cSlash) :
    urlunsplit { scheme := sch, netloc := net, path := P, query := [], fragment := [] } = originStr sch net ++ P := by
  obtain ⟨P', rfl⟩ : ∃ P', P = cSlash :: P' := by
    cases P with
    | nil => simp at hs
    | cons a b => simp at hs; exact ⟨b, by rw [hs]⟩
  simp [urlunsplit, w.net_ne, w.sch_ne, originStr]

/-- the scheme handed down by `urljoin` is used as it is -/
theorem urlsplit_simple_dflt (s sch : Str) (hsch : ∀ c ∈ sch, isSchemeChar c = true) (hs : PlainStr s)
    (h2 : s.take 2 ≠ [cSlash, cSlash]) :
    urlsplit s sch = .ok { scheme := sch, netloc := [], path := s, query := [], fragment := [] } := by
  have f := fun c hc => plainChar_facts c (hs c hc)
  have hdrop : s.dropWhile (· ≤ 0x20) = s := by
    cases s with
    | nil => rfl
    | cons x xs =>
      have := (f x (by simp)).2.2.2.1
      simp [List.dropWhile_cons]; omega
  have hfilt : s.filter (fun c => c ≠ 9 ∧ c ≠ 13 ∧ c ≠ 10) = s := by
    apply List.filter_eq_self.mpr
    intro c hc
    have := f c hc
    simp [this.2.2.2.2.1, this.2.2.2.2.2.1, this.2.2.2.2.2.2.1]
  have hd1 : sch.dropWhile (· ≤ 0x20) = sch := by
    cases sch with
    | nil => rfl
    | cons x xs =>
      have := (schemeChar_facts x (hsch x (by simp))).1
      simp [List.dropWhile_cons]; omega
  have hd2 : sch.reverse.dropWhile (· ≤ 0x20) = sch.reverse := by
    cases hr : sch.reverse with
    | nil => rfl
    | cons x xs =>
      have hx : x ∈ sch := by rw [← List.mem_reverse, hr]; simp
      have := (schemeChar_facts x (hsch x hx)).1
      simp [List.dropWhile_cons]; omega
  have hd3 : sch.filter (fun c => c ≠ 9 ∧ c ≠ 13 ∧ c ≠ 10) = sch := by
    apply List.filter_eq_self.mpr
    intro c hc
    have := schemeChar_facts c (hsch c hc)
    simp [this.2.1, this.2.2.1, this.2.2.2.1]
  have hcol : cColon ∉ s := fun hm => (f _ hm).1 rfl
  have hq : cQuest ∉ s := fun hm => (f _ hm).2.1 rfl
  have hh : cHash ∉ s := fun hm => (f _ hm).2.2.1 rfl
  have hnet : netlocOf s = ([], s) := by
    unfold netlocOf
    split
    · exfalso; apply h2; simp [cSlash]
    · rfl
  unfold urlsplit
  simp only [hdrop, hfilt, splitScheme, splitFirst_none _ _ hcol, hd1, hd2, List.reverse_reverse, hd3,
    hnet, splitFirst_none _ _ hh, splitFirst_none _ _ hq]
  simp

theorem plain_noSemi (s : Str) (hs : PlainStr s) : s.contains cSemi = false := by
  simp only [List.contains_eq_mem, decide_eq_false_iff_not]
  intro hm
  have := hs _ hm
  simp [plainChar, cSemi, isAsciiAlpha, isDigit, cSlash, cPct] at this

theorem urlparse_abs (sch net P d : Str) (w : WFOrigin sch net) (hP : PlainStr P) (hs : P.head? = some cSlash) :
    urlparse (originStr sch net ++ P) d
      = .ok { scheme := sch, netloc := net, path := P, params := [], query := [], fragment := [] } := by
  have := plain_noSemi P hP
  simp only [List.contains_eq_mem, decide_eq_false_iff_not] at this
  simp [urlparse, urlsplit_abs sch net P d w hP hs, this]

theorem urlparse_simple (s sch : Str) (hsch : ∀ c ∈ sch, isSchemeChar c = true) (hs : PlainStr s)
    (h2 : s.take 2 ≠ [cSlash, cSlash]) :
    urlparse s sch = .ok { scheme := sch, netloc := [], path := s, params := [], query := [], fragment := [] } := by
  have := plain_noSemi s hs
  simp only [List.contains_eq_mem, decide_eq_false_iff_not] at this
  simp [urlparse, urlsplit_simple_dflt s sch hsch hs h2, this]

theorem filterInterior_id : ∀ (a : Str) (rest : List Str), (∀ s ∈ rest, s ≠ []) → filterInterior (a :: rest) = a :: rest
  | a, [], _ => rfl
  | a, b :: l, h => by
    simp only [filterInterior]
    have h1 : (b :: l).dropLast.filter (· ≠ []) = (b :: l).dropLast := by
      apply List.filter_eq_self.mpr
      intro s hs
      have := h s ((List.dropLast_sublist _).subset hs)
      simp [this]
    rw [h1]
    have : (b :: l).dropLast ++ (b :: l).getLast?.toList = b :: l := by
      rw [List.getLast?_eq_some_getLast (by simp)]
      simp [List.dropLast_concat_getLast]
    simp [this]

/-- what `urlunsplit` does to a path when there is a host: a leading slash is supplied -/
def slashed (p : Str) : Str := if p = [] then [cSlash] else if p.take 1 ≠ [cSlash] then cSlash :: p else p

theorem cons_snoc_getLast (a : Str) : ∀ (l : List Str) (m : Str), (a :: (l ++ [m])).getLast? = some m
  | [], m => by simp
  | b :: l, m => by
    have := cons_snoc_getLast b l m
    simp only [List.cons_append, List.getLast?_cons_cons] at this ⊢
    exact this

theorem cons_snoc_dropLast (a : Str) : ∀ (l : List Str) (m : Str), (a :: (l ++ [m])).dropLast = a :: l
  | [], m => by simp
  | b :: l, m => by
    have := cons_snoc_dropLast b l m
    simp only [List.cons_append, List.dropLast_cons₂] at this ⊢
    rw [this]

theorem joinWith_nil_cons (c : Nat) (l : List Str) (h : l ≠ []) : joinWith c ([] :: l) = c :: joinWith c l := by
  cases l with
  | nil => exact absurd rfl h
  | cons a t => simp [joinWith]

theorem urlunsplit_host (sch net p : Str) (w : WFOrigin sch net) :
    urlunsplit { scheme := sch, netloc := net, path := if p = [] then [cSlash] else p, query := [], fragment := [] }
      = originStr sch net ++ slashed p := by
  unfold slashed
  by_cases hp : p = []
  · simp [hp, urlunsplit, w.net_ne, w.sch_ne, originStr]
  · by_cases h1 : p.take 1 = [cSlash]
    · simp [hp, h1, urlunsplit, w.net_ne, w.sch_ne, originStr]
    · simp [hp, h1, urlunsplit, w.net_ne, w.sch_ne, originStr]

/-- **`urljoin` on strings**: base `scheme://host/T…/m`, relative reference `X…` of simple segments -/
theorem urljoin_abs_rel (sch net : Str) (w : WFOrigin sch net) (Tdir X : List Str) (m : Str)
    (hT : ∀ s ∈ Tdir, SimpleSeg s) (hm : SimpleSeg m) (hX : ∀ s ∈ X, SimpleSeg s) (hXne : X ≠ []) :
    urljoin (originStr sch net ++ cSlash :: joinWith cSlash (Tdir ++ [m])) (joinWith cSlash X)
      = .ok (originStr sch net ++ slashed (joinWith cSlash (rdsSegs (([] :: Tdir) ++ X)))) := by
  have hTm : ∀ s ∈ Tdir ++ [m], SimpleSeg s := by
    intro s hs
    rcases List.mem_append.mp hs with h | h
    · exact hT s h
    · simp at h; subst h; exact hm
  -- the base path
  have hB : cSlash :: joinWith cSlash (Tdir ++ [m]) = joinWith cSlash ([] :: (Tdir ++ [m])) :=
    (joinWith_nil_cons cSlash _ (by simp)).symm
  have hBq : PlainStr (cSlash :: joinWith cSlash (Tdir ++ [m])) := by
    intro c hc
    rcases List.mem_cons.mp hc with rfl | hc
    · decide
    · exact simple_join_plain _ hTm c hc
  have pb := urlparse_abs sch net (cSlash :: joinWith cSlash (Tdir ++ [m])) [] w hBq (by simp)
  -- the reference
  have jx := joinWith_simple X hXne hX
  have pu := urlparse_simple (joinWith cSlash X) sch (fun c hc => (w.sch_chars c hc).1)
    (simple_join_plain X hX) (take2_of_head _ jx.2.2)
  have hbase_ne : originStr sch net ++ cSlash :: joinWith cSlash (Tdir ++ [m]) ≠ [] := by simp [originStr]
  have hsplitB : splitOn cSlash (cSlash :: joinWith cSlash (Tdir ++ [m])) = [] :: (Tdir ++ [m]) := by
    rw [hB]
    apply splitOn_joinWith cSlash _ (by simp)
    intro s hs
    rcases List.mem_cons.mp hs with rfl | hs
    · simp
    · exact simple_noSlash s (hTm s hs)
  have hsplitX : splitOn cSlash (joinWith cSlash X) = X :=
    splitOn_joinWith cSlash X hXne (fun s hs => simple_noSlash s (hX s hs))
  have htake : (joinWith cSlash X).take 1 ≠ [cSlash] := by
    cases hj : joinWith cSlash X with
    | nil => simp
    | cons a b =>
      have := jx.2.2
      rw [hj] at this
      simp at this ⊢
      exact this
  have hfi : filterInterior (([] :: Tdir) ++ X) = ([] :: Tdir) ++ X := by
    apply filterInterior_id
    intro s hs
    rcases List.mem_append.mp hs with h | h
    · exact (hT s h).1
    · exact (hX s h).1
  have hlast : ([] :: (Tdir ++ [m])).getLast? = some m := cons_snoc_getLast [] Tdir m
  have hdl : ([] :: (Tdir ++ [m])).dropLast = [] :: Tdir := cons_snoc_dropLast [] Tdir m
  unfold urljoin
  simp only [hbase_ne, jx.1, ↓reduceIte, pb, pu, ne_eq, not_true_eq_false, w.sch_rel, not_true_eq_false,
    or_self, w.sch_net, true_and, hsplitB, hlast, hdl, hsplitX, htake, hfi]
  have hmne : m ≠ [] := hm.1
  simp only [Option.some.injEq, hmne, not_false_eq_true, ↓reduceIte, false_and]
  have hfi' : filterInterior ([] :: Tdir ++ X) = [] :: Tdir ++ X := hfi
  simp only [urlunparse, hfi', ne_eq, not_true_eq_false, ↓reduceIte]
  rw [urlunsplit_host sch net _ w]

/-- the root's empty segment at the bottom of `urljoin`'s stack: present to the end, or popped once and for all -/
theorem rds_bottom : ∀ (L st : List Str),
    L.foldl rdsStep (st ++ [[]]) = L.foldl rdsStep st ++ [[]] ∨ L.foldl rdsStep (st ++ [[]]) = L.foldl rdsStep st
  | [], st => Or.inl rfl
  | c :: L, st => by
    simp only [List.foldl_cons]
    by_cases h1 : c = dotdot
    · subst h1
      simp only [rdsStep_dotdot]
      cases st with
      | nil => exact Or.inr (by simp)
      | cons a t => simpa using rds_bottom L t
    · by_cases h2 : c = dot
      · subst h2
        simp only [rdsStep_dot]
        exact rds_bottom L st
      · simp only [rdsStep_normal _ c ⟨h2, h1⟩]
        simpa using rds_bottom L (c :: st)

/-- everything on `urljoin`'s stack was pushed from the input or was there before -/
theorem rds_stack_subset : ∀ (cs : List Str) (S : List Str), ∀ c ∈ cs.foldl rdsStep S, c ∈ S ∨ c ∈ cs
  | [], S, c, h => Or.inl h
  | x :: cs, S, c, h => by
    rw [List.foldl_cons] at h
    rcases rds_stack_subset cs _ c h with h | h
    · unfold rdsStep at h
      split at h
      · exact Or.inl (List.mem_of_mem_tail h)
      · split at h
        · exact Or.inl h
        · rcases List.mem_cons.mp h with rfl | h
          · exact Or.inr (by simp)
          · exact Or.inl h
    · exact Or.inr (List.mem_cons_of_mem _ h)

theorem slashed_simple (l : List Str) (hne : l ≠ []) (h : ∀ s ∈ l, SimpleSeg s) :
    slashed (joinWith cSlash l) = cSlash :: joinWith cSlash l := by
  have j := joinWith_simple l hne h
  unfold slashed
  have h1 : (joinWith cSlash l).take 1 ≠ [cSlash] := by
    cases hj : joinWith cSlash l with
    | nil => simp
    | cons a b =>
      have := j.2.2
      rw [hj] at this
      simp at this ⊢
      exact this
  simp [j.1, h1]

theorem slashed_rooted (x : Str) : slashed (cSlash :: x) = cSlash :: x := by simp [slashed]

theorem rdsSegs_last_normal (L : List Str) (f : Str) (hf : Normal f) :
    rdsSegs (L ++ [f]) = ((L ++ [f]).foldl rdsStep []).reverse := by
  unfold rdsSegs
  have : (L ++ [f]).getLast? = some f := by simp
  simp [this, hf.2.1, hf.2.2]

/-- with or without the root's empty segment at the bottom, the path `urlunsplit` writes is the same -/
theorem slashed_bottom (S Y : List Str) (f : Str) (hS : ∀ s ∈ S, SimpleSeg s) (hY : ∀ s ∈ Y, SimpleSeg s)
    (hf : SimpleSeg f) (hfn : Normal f) :
    slashed (joinWith cSlash (rdsSegs (S ++ (Y ++ [f])))) = slashed (joinWith cSlash (rdsSegs ([] :: S ++ (Y ++ [f])))) := by
  have e1 : S ++ (Y ++ [f]) = (S ++ Y) ++ [f] := by simp
  have e2 : [] :: S ++ (Y ++ [f]) = ([] :: (S ++ Y)) ++ [f] := by simp
  rw [e1, e2, rdsSegs_last_normal _ f hfn, rdsSegs_last_normal _ f hfn]
  -- the stack without the bottom
  have hq : ∀ c ∈ ((S ++ Y) ++ [f]).foldl rdsStep [], SimpleSeg c := by
    intro c hc
    rcases rds_stack_subset _ [] c hc with h | h
    · simp at h
    · rcases List.mem_append.mp h with h | h
      · rcases List.mem_append.mp h with h | h
        · exact hS c h
        · exact hY c h
      · simp at h; subst h; exact hf
  have hqne : ((S ++ Y) ++ [f]).foldl rdsStep [] ≠ [] := by
    rw [List.foldl_append]
    simp [rdsStep_normal _ f ⟨hfn.2.1, hfn.2.2⟩]
  have hb : (([] :: (S ++ Y)) ++ [f]).foldl rdsStep [] = ((S ++ Y) ++ [f]).foldl rdsStep ([] ++ [[]]) := by
    simp [List.foldl_cons, rdsStep, dot, dotdot]
  rw [hb]
  rcases rds_bottom ((S ++ Y) ++ [f]) [] with h | h
  · rw [h]
    simp only [List.reverse_append, List.reverse_cons, List.reverse_nil, List.nil_append, List.singleton_append]
    rw [joinWith_nil_cons cSlash _ (by simpa using hqne), slashed_rooted]
    exact slashed_simple _ (by simpa using hqne) (fun s hs => hq s (by simpa using hs))
  · rw [h]

/-- the URL of the imported sheet: `urljoin(base, "D…/g")` is again of the shape `origin/T'…/g` -/
theorem urljoin_import (sch net : Str) (w : WFOrigin sch net) (Tdir D : List Str) (m g : Str)
    (hT : ∀ s ∈ Tdir, SimpleSeg s) (hm : SimpleSeg m) (hD : ∀ s ∈ D, SimpleSeg s) (hg : SimpleSeg g) (hgn : Normal g) :
    ∃ Tdir' : List Str, (∀ s ∈ Tdir', SimpleSeg s) ∧
      urljoin (originStr sch net ++ cSlash :: joinWith cSlash (Tdir ++ [m])) (joinWith cSlash (D ++ [g]))
        = .ok (originStr sch net ++ cSlash :: joinWith cSlash (Tdir' ++ [g])) ∧
      (rdsSegs (([] :: Tdir) ++ D ++ [g])).dropLast = Tdir' ∨
      (∀ s ∈ Tdir', SimpleSeg s) ∧
      urljoin (originStr sch net ++ cSlash :: joinWith cSlash (Tdir ++ [m])) (joinWith cSlash (D ++ [g]))
        = .ok (originStr sch net ++ cSlash :: joinWith cSlash (Tdir' ++ [g])) ∧
      (rdsSegs (([] :: Tdir) ++ D ++ [g])).dropLast = [] :: Tdir' := by
  have hDg : ∀ s ∈ D ++ [g], SimpleSeg s := by
    intro s hs
    rcases List.mem_append.mp hs with h | h
    · exact hD s h
    · simp at h; subst h; exact hg
  have hj := urljoin_abs_rel sch net w Tdir (D ++ [g]) m hT hm hDg (by simp)
  -- the stack after the directory part
  let R := (Tdir ++ D).foldl rdsStep []
  have hR : ∀ c ∈ R, SimpleSeg c := by
    intro c hc
    rcases rds_stack_subset _ [] c hc with h | h
    · simp at h
    · rcases List.mem_append.mp h with h | h
      · exact hT c h
      · exact hD c h
  have hdir : (rdsSegs (([] :: Tdir) ++ D ++ [g])).dropLast = ((([] :: Tdir) ++ D).foldl rdsStep []).reverse :=
    rdsSegs_dir ([] :: Tdir) D g hgn
  have hb : (([] :: Tdir) ++ D).foldl rdsStep [] = (Tdir ++ D).foldl rdsStep ([] ++ [[]]) := by
    simp [List.foldl_cons, rdsStep, dot, dotdot]
  have hsegs : rdsSegs (([] :: Tdir) ++ (D ++ [g])) = ((([] :: Tdir) ++ D).foldl rdsStep []).reverse ++ [g] := by
    have e : ([] :: Tdir) ++ (D ++ [g]) = (([] :: Tdir) ++ D) ++ [g] := by simp
    rw [e, rdsSegs_last_normal _ g hgn, List.foldl_append]
    simp [rdsStep_normal _ g ⟨hgn.2.1, hgn.2.2⟩]
  refine ⟨R.reverse, ?_⟩
  have hRr : ∀ s ∈ R.reverse, SimpleSeg s := fun s hs => hR s (List.mem_reverse.mp hs)
  have hRg : ∀ s ∈ R.reverse ++ [g], SimpleSeg s := by
    intro s hs
    rcases List.mem_append.mp hs with h | h
    · exact hRr s h
    · simp at h; subst h; exact hg
  rcases rds_bottom (Tdir ++ D) [] with h | h
  · -- the root segment is still there
    right
    refine ⟨hRr, ?_, ?_⟩
    · rw [hj, hsegs, hb, h]
      simp only [List.nil_append, List.reverse_append, List.reverse_cons, List.reverse_nil, List.singleton_append,
        List.cons_append]
      rw [joinWith_nil_cons cSlash _ (by simp), slashed_rooted]
    · rw [hdir, hb, h]; simp [R]
  · left
    refine ⟨hRr, ?_, ?_⟩
    · rw [hj, hsegs, hb, h]
      rw [slashed_simple _ (by simp) hRg]
    · rw [hdir, hb, h]

theorem rebased_segs (T D U : List Str) (g f : Str)
    (hD : ∀ c ∈ D, c ≠ []) (hU : ∀ c ∈ U, c ≠ []) (hg : Normal g) (hf : Normal f) :
    rdsSegs (T ++ normComps false (D ++ U ++ [f]))
      = rdsSegs ((rdsSegs (T ++ D ++ [g])).dropLast ++ (U ++ [f])) := by
  rw [rdsSegs_two_step T D (U ++ [f]) g hg (by simp)]
  have h : ∀ c ∈ D ++ U, c ≠ [] := by
    intro c hc
    rcases List.mem_append.mp hc with hc | hc
    · exact hD c hc
    · exact hU c hc
  have := rdsSegs_norm T (D ++ U) f h hf
  simpa [List.append_assoc] using this

/-- **T19.2 on strings.** Main sheet at `scheme://host/T…/m`, `@import "D…/g"`, `url(U…/f)` in the imported sheet,
all segments simple (unreserved characters and `%`; `.` and `..` allowed in `D` and `U`; `g`, `f` names):
`urljoin(main, Replacer(href)(url)) = urljoin(urljoin(main, href), url)` — the re-based URL resolves, from the
combined sheet, to the absolute URL the original resolved to from the imported sheet. -/
theorem rebase_resolves_strings (sch net : Str) (w : WFOrigin sch net) (Tdir D U : List Str) (m g f : Str)
    (hT : ∀ s ∈ Tdir, SimpleSeg s) (hm : SimpleSeg m) (hD : ∀ s ∈ D, SimpleSeg s) (hg : SimpleSeg g) (hgn : Normal g)
    (hU : ∀ s ∈ U, SimpleSeg s) (hf : SimpleSeg f) (hfn : Normal f) :
    ∃ r sheetUrl,
      replacer (joinWith cSlash (D ++ [g])) (joinWith cSlash (U ++ [f])) = .ok r ∧
      urljoin (originStr sch net ++ cSlash :: joinWith cSlash (Tdir ++ [m])) (joinWith cSlash (D ++ [g])) = .ok sheetUrl ∧
      urljoin (originStr sch net ++ cSlash :: joinWith cSlash (Tdir ++ [m])) r
        = urljoin sheetUrl (joinWith cSlash (U ++ [f])) := by
  have hUf : ∀ s ∈ U ++ [f], SimpleSeg s := by
    intro s hs
    rcases List.mem_append.mp hs with h | h
    · exact hU s h
    · simp at h; subst h; exact hf
  have hall : ∀ s ∈ D ++ U ++ [f], SimpleSeg s := by
    intro s hs
    rcases List.mem_append.mp hs with h | h
    · rcases List.mem_append.mp h with h | h
      · exact hD s h
      · exact hU s h
    · simp at h; subst h; exact hf
  -- 1. the re-based URL
  have hr := replacer_on_segments D U g f hD hU hg hf hfn
  have hN : ∀ s ∈ normComps false (D ++ U ++ [f]), SimpleSeg s := fun s hs => hall s (normComps_subset false _ s hs)
  have hNne : normComps false (D ++ U ++ [f]) ≠ [] := by
    intro e
    have := normComps_getLast false (D ++ U) f hfn
    rw [e] at this; simp at this
  -- 2. resolved from the main sheet
  have h2 := urljoin_abs_rel sch net w Tdir (normComps false (D ++ U ++ [f])) m hT hm hN hNne
  -- the path algebra
  have halg := rebased_segs ([] :: Tdir) D U g f (fun c hc => (hD c hc).1) (fun c hc => (hU c hc).1) hgn hfn
  -- 3. the URL of the imported sheet
  obtain ⟨Tdir', hcases⟩ := urljoin_import sch net w Tdir D m g hT hm hD hg hgn
  rcases hcases with ⟨hT', h3, hdl⟩ | ⟨hT', h3, hdl⟩
  · -- the root segment had been popped: the stacks differ by the bottom only
    refine ⟨_, _, hr, h3, ?_⟩
    have h4 := urljoin_abs_rel sch net w Tdir' (U ++ [f]) g hT' hg hUf (by simp)
    rw [h2, h4, halg, hdl]
    congr 2
    exact slashed_bottom Tdir' U f hT' hU hf hfn
  · refine ⟨_, _, hr, h3, ?_⟩
    have h4 := urljoin_abs_rel sch net w Tdir' (U ++ [f]) g hT' hg hUf (by simp)
    rw [h2, h4, halg, hdl]


end CssVerif.Urls
