import CssVerif.Lemmas.MediaSimQ
/-!
# Simulation, list level: `ProdParser.parse` on the `MediaList` grammar with the nested query parser and both
hand-back channels = the derived list automaton `parseL`
-/
set_option linter.unusedSimpArgs false
namespace CssVerif.MediaSim
open CssVerif.Proto CssVerif.Media CssVerif.ProdEngine

instance (t : Tok) : Decidable (Dom t) := by unfold Dom; infer_instance

/-! ## the list grammar -/

def ls1 : Node := .seq 1 0 none [.prod .comment { optional := true }]
def ls2 : Node := .seq 2 0 none [.prod .comma { toSeq := false }, .prod .queryStart {}]
def ml : Node := .seq 0 1 (some 1) [ls1, .prod .queryStart {}, ls2]

/-- tie to the captured tree -/
theorem ml_captured : Gen.C17Grammar.mediaList = ml := rfl

/-- configurations of the outer parser: nothing yet / after the first query / after a comma / after a later query -/
inductive Lc | start | a1 | comma | a2
  deriving DecidableEq, Repr

def Lc.prods : Lc → List Node
  | .start | .a1 => [ml]
  | .comma | .a2 => [ls2, ml]

def Lc.ok : Lc → St → Prop
  | .start, st => st.get 0 = some (.seq 0 0 false)
  | .a1, st => st.get 0 = some (.seq 2 0 true)
  | .comma, st => st.get 0 = some (.seq 0 1 true) ∧ ∃ r, st.get 2 = some (.seq 1 r true)
  | .a2, st => st.get 0 = some (.seq 0 1 true) ∧ ∃ r, st.get 2 = some (.seq 0 r true)

def Lc.phase : Lc → LPhase
  | .start => .start
  | .a1 | .a2 => .afterQuery
  | .comma => .afterComma

inductive LRes
  | hit (m : Matcher) (f : PFlags) (c : Lc)
  | noMatch | missing

def stepLc (c : Lc) (σ : Matcher → Bool) : LRes :=
  match c with
  | .start => if σ .queryStart then .hit .queryStart {} .a1 else .missing
  | .a1 => if σ .comma then .hit .comma { toSeq := false } .comma else .noMatch
  | .comma => if σ .queryStart then .hit .queryStart {} .a2 else .missing
  | .a2 => if σ .comma then .hit .comma { toSeq := false } .comma else .noMatch

def FollowsL (t : Tok) (c : Lc) (st : St) : Prop :=
  match stepLc c (fun m => m.test t) with
  | .hit m f c' => ∃ st', descend t 64 c.prods st = (.ok (m, f), c'.prods, st') ∧ c'.ok st'
  | .noMatch => (descend t 64 c.prods st).1 = .error .noMatch
  | .missing => (descend t 64 c.prods st).1 = .error .missing

/-- one level of the descent on the list grammar -/
syntax "llvl" : tactic
macro_rules
  | `(tactic| llvl) => `(tactic|
    (rw [descend];
     simp [*, ml, ls1, ls2, nextProd, choiceScan, Node.matches, matchesSeq, matchesAny, seqLoop,
       get_set, Node.reset, Node.optional, Lc.ok, Lc.prods]))

theorem descend_lc (t : Tok) (st : St) (c : Lc) (h : c.ok st) (hc : Matcher.test .comment t = false) :
    FollowsL t c st := by
  cases c with
  | start =>
    simp only [Lc.ok] at h
    unfold FollowsL stepLc
    by_cases a : Matcher.test .queryStart t = true <;> simp [a, Lc.prods] <;> llvl
  | a1 =>
    simp only [Lc.ok] at h
    unfold FollowsL stepLc
    by_cases a : Matcher.test .comma t = true <;> simp [a, Lc.prods] <;> llvl <;> (try llvl)
  | comma =>
    simp only [Lc.ok] at h
    obtain ⟨h0, r, h2⟩ := h
    unfold FollowsL stepLc
    by_cases a : Matcher.test .queryStart t = true <;> simp [a, Lc.prods] <;> llvl
  | a2 =>
    simp only [Lc.ok] at h
    obtain ⟨h0, r, h2⟩ := h
    unfold FollowsL stepLc
    by_cases a : Matcher.test .comma t = true <;> simp [a, Lc.prods] <;> llvl <;> (try llvl)

syntax "lelvl" : tactic
macro_rules
  | `(tactic| lelvl) => `(tactic|
    (rw [endLoop.eq_def];
     simp [*, ml, ls1, ls2, nextProd, choiceScan, Node.matches, matchesSeq, matchesAny, seqLoop,
       get_set, Node.reset, Node.optional, endLoop_false]))

theorem endLoop_lc_start (st : St) (h : Lc.start.ok st) : endLoop none 64 [ml] st true = true := by
  simp only [Lc.ok] at h; lelvl

theorem endLoop_lc (st : St) (c : Lc) (h : c.ok st) (hc : c ≠ .start) :
    endLoop (some false) 64 c.prods st true = (c != .comma) := by
  cases c with
  | start => exact absurd rfl hc
  | a1 => simp only [Lc.ok] at h; simp only [Lc.prods]; lelvl
  | comma => simp only [Lc.ok] at h; obtain ⟨h0, r, h2⟩ := h; simp only [Lc.prods]; lelvl
  | a2 => simp only [Lc.ok] at h; obtain ⟨h0, r, h2⟩ := h; simp only [Lc.prods]; lelvl; lelvl

/-! ## the derived list automaton in terms of `nrun` -/

/-- what `parseL` does when the nested query parser has ended -/
def afterNested (ft : Bool) (st : LSt) : NR → POut (List LItem)
  | .bad => .bad
  | .unsupported => .unsupported
  | .endOk mq => .ok (LItem.query mq :: st.items).reverse
  | .saved mq t rest => parseL true ft { st with items := .query mq :: st.items, cur := none } (t :: rest)
  | .pushed mq t rest =>
    if ft && !rest.isEmpty then parseL true ft { st with items := .query mq :: st.items, cur := none } (t :: rest)
    else parseL true ft { st with items := .query mq :: st.items, cur := none } rest

theorem parseL_cur (ft : Bool) : ∀ (ts : List Tok) (st : LSt) (q : QSt),
    parseL true ft { st with cur := some q } ts = afterNested ft st (nrun true q ts) := by
  intro ts
  induction ts with
  | nil =>
    intro st q
    simp only [parseL, nrun]
    cases q.s.accepting <;> simp [afterNested, LSt.closeQuery]
  | cons t ts ih =>
    intro st q
    rcases special_cases t with hc | hs | hi | he | hsig
    · simp only [parseL, nrun, hc]; exact ih st _
    · simp only [parseL, nrun, hs]; exact ih st q
    · simp only [parseL, nrun, hi, afterNested]
    · simp only [parseL, nrun, he, afterNested]
    · rw [parseL_cons_cur_sig true ft _ q t ts rfl hsig, nrun_sig true q t ts hsig]
      cases hst : stepQ true q t with
      | cont q' => exact ih st q'
      | unsupported => rfl
      | noMatch =>
        cases hq : q.stopIf with
        | false => simp [afterNested]
        | true =>
          simp only [if_true, afterNested, LSt.closeQuery]
          rw [parseL_cons_none_sig true ft _ t ts rfl hsig]
      | missing => simp [afterNested]

/-- a handed-back token is a significant token of the input, and what follows it is the rest -/
theorem nrun_hb (b : Bool) : ∀ (ts : List Tok) (q : QSt) (mq : MQ) (t' : Tok) (rest : List Tok),
    (nrun b q ts = .saved mq t' rest ∨ nrun b q ts = .pushed mq t' rest) →
    t'.typ.special = false ∧ ∃ pre, ts = pre ++ t' :: rest := by
  intro ts
  induction ts with
  | nil => intro q mq t' rest h; simp only [nrun] at h; split at h <;> simp at h
  | cons t ts ih =>
    intro q mq t' rest h
    have lift : (t'.typ.special = false ∧ ∃ pre, ts = pre ++ t' :: rest) →
        t'.typ.special = false ∧ ∃ pre, t :: ts = pre ++ t' :: rest := by
      rintro ⟨h1, pre, h2⟩; exact ⟨h1, t :: pre, by rw [h2]; rfl⟩
    rcases special_cases t with hc | hs | hi | he | hsig
    · simp only [nrun, hc] at h; exact lift (ih _ mq t' rest h)
    · simp only [nrun, hs] at h; exact lift (ih _ mq t' rest h)
    · simp only [nrun, hi] at h; simp at h
    · simp only [nrun, he] at h; simp at h
    · rw [nrun_sig b q t ts hsig] at h
      cases hst : stepQ b q t with
      | cont q' => rw [hst] at h; exact lift (ih q' mq t' rest h)
      | unsupported => rw [hst] at h; simp at h
      | noMatch =>
        rw [hst] at h
        cases hq : q.stopIf <;> simp [hq] at h
        obtain ⟨_, rfl, rfl⟩ := h
        exact ⟨hsig, [], rfl⟩
      | missing => rw [hst] at h; simp at h

/-- the list automaton on a token that starts a query -/
theorem listStep_start (st : LSt) (t : Tok) (hp : st.phase = .start ∨ st.phase = .afterComma)
    (hq : Matcher.test .queryStart t = true) :
    listStep st t = match stepQ true {} t with
      | .cont q => .ok { st with phase := .afterQuery, cur := some q }
      | .unsupported => .unsupported
      | _ => .bad := by
  have : isQueryStart t = true := hq
  unfold listStep
  rcases hp with hp | hp <;> simp only [hp, this, if_true] <;> (cases stepQ true {} t <;> rfl)

/-- the nested parser started on `t`: the engine's `parse` = `nrun` from the initial state -/
theorem nested_sim (ft : Bool) (t : Tok) (ts p : List Tok) (fuel : Nat) (hf : ts.length + 2 ≤ fuel)
    (hd : ∀ x ∈ t :: ts, Dom x) :
    summ (parse actQ (gq true) (some t) ⟨ts, ft, p, []⟩ fuel) = (nrun true {} (t :: ts)).toP ft := by
  obtain ⟨f, rfl⟩ : ∃ f, fuel = f + 1 := ⟨fuel - 1, by omega⟩
  rw [parse_eq]
  have := run_sim true ft (t :: ts) .start {} _ (f + 1) (rq_init true) (by simp; omega) hd
  rw [shape_cons (hp := fun _ => rfl)] at this
  exact this

theorem actL_queryStart (g : Node) (t : Tok) (src : Src) (fuel : Nat) :
    (actL g).prod .queryStart t src fuel = match summ (parse actQ g (some t) src fuel) with
      | .ok (mq, s) => .ok (.query mq, s)
      | .bad => .bad
      | .unsupported => .unsupported := by
  simp only [actL, summ]
  cases parse actQ g (some t) src fuel with
  | bad => rfl
  | unsupported => rfl
  | ok r => cases hw : r.wellformed <;> simp [hw]

/-! ## the outer loop -/

/-- what `engineL` makes of the result of `parse` -/
def summL (r : POut (PRes LItem)) : POut (List LItem) :=
  match r with
  | .ok r => if r.wellformed then .ok r.seq else .bad
  | .bad => .bad
  | .unsupported => .unsupported

structure RL (c : Lc) (st : LSt) (l : Loop LItem) : Prop where
  seq : l.seq = st.items
  wf : l.wellformed = true
  stopall : l.stopall = false
  stopIf : l.stopIf = false
  prods : l.prods = c.prods
  ok : c.ok l.st
  phase : st.phase = c.phase
  cur : st.cur = none
  lm0 : c = .start → l.lastMayEnd = none
  lm1 : c ≠ .start → l.lastMayEnd = some false
  ne : c ≠ .start → l.seq ≠ []

theorem rl_init : RL .start {} { prods := [ml], st := ml.init [] } :=
  ⟨rfl, rfl, rfl, rfl, rfl, by show St.get _ 0 = _; rfl, rfl, rfl, fun _ => rfl, fun h => absurd rfl h,
   fun h => absurd rfl h⟩

theorem rl_comment (c : Lc) (st : LSt) (l : Loop LItem) (t : Tok) (h : RL c st l) :
    RL c { st with items := .comment t :: st.items } { l with seq := LItem.comment t :: l.seq } := by
  obtain ⟨h1, h2, h3, h4, h5, h6, h7, h8, h9, h10, _⟩ := h
  exact ⟨by simp [h1], h2, h3, h4, h5, h6, h7, h8, h9, h10, fun _ => by simp⟩

theorem rl_hit (c c' : Lc) (st : LSt) (l : Loop LItem) (t : Tok) (f : PFlags) (st' : St) (items : List LItem)
    (h : RL c st l) (hs : f.store = 0) (hsi : f.stopIf = false) (hme : f.mayEnd = false) (hok : c'.ok st')
    (hne : c' ≠ .start) (hi : items ≠ []) :
    RL c' { st with phase := c'.phase, items := items, cur := none }
      { hitLoop l t f c'.prods st' with seq := items } := by
  obtain ⟨h1, h2, h3, h4, h5, h6, h7, h8, h9, h10, _⟩ := h
  refine ⟨by simp [hitLoop, hs], by simp [hitLoop, hs, h2], by simp [hitLoop, hs, h3], by simp [hitLoop, hs, hsi, h4],
    by simp [hitLoop, hs], by simpa [hitLoop, hs] using hok, rfl, rfl, fun e => absurd e hne,
    fun _ => by simp [hitLoop, hs, hme], fun _ => by simpa [hitLoop, hs] using hi⟩

theorem summL_wf_false (l : Loop LItem) (src : Src) (h1 : l.wellformed = false) (h2 : l.stopall = false) :
    summL (parseTail (.ok (l, src))) = .bad := by
  simp [summL, parseTail, h1, h2, endLoop_false]

theorem outer_nil (ft : Bool) (p : List Tok) (c : Lc) (st : LSt) (l : Loop LItem) (h : RL c st l) :
    summL (parseTail (.ok (l, ⟨[], ft, p, []⟩))) = parseL true ft st [] := by
  have hseq := h.seq
  cases c with
  | start =>
    have hl := h.lm0 rfl
    have he : endLoop l.lastMayEnd 64 l.prods l.st l.wellformed = true := by
      rw [hl, h.prods, h.wf]; exact endLoop_lc_start _ h.ok
    have hp : st.phase = .start := h.phase
    cases hi : st.items <;>
      simp [summL, parseTail, h.stopall, he, parseL, h.cur, hp, hseq, hi]
  | a1 =>
    have hl := h.lm1 (by decide)
    have he : endLoop l.lastMayEnd 64 l.prods l.st l.wellformed = true := by
      rw [hl, h.prods, h.wf]; exact endLoop_lc _ _ h.ok (by decide)
    have hp : st.phase = .afterQuery := h.phase
    have hne := h.ne (by decide)
    cases hi : l.seq with
    | nil => exact absurd hi hne
    | cons x r => simp [summL, parseTail, h.stopall, he, parseL, h.cur, hp, ← hseq, hi]
  | comma =>
    have hl := h.lm1 (by decide)
    have he : endLoop l.lastMayEnd 64 l.prods l.st l.wellformed = false := by
      rw [hl, h.prods, h.wf]; exact endLoop_lc _ _ h.ok (by decide)
    have hp : st.phase = .afterComma := h.phase
    simp [summL, parseTail, h.stopall, he, parseL, h.cur, hp]
  | a2 =>
    have hl := h.lm1 (by decide)
    have he : endLoop l.lastMayEnd 64 l.prods l.st l.wellformed = true := by
      rw [hl, h.prods, h.wf]; exact endLoop_lc _ _ h.ok (by decide)
    have hp : st.phase = .afterQuery := h.phase
    have hne := h.ne (by decide)
    cases hi : l.seq with
    | nil => exact absurd hi hne
    | cons x r => simp [summL, parseTail, h.stopall, he, parseL, h.cur, hp, ← hseq, hi]

def OuterOK (ft : Bool) (n : Nat) : Prop :=
  ∀ (ts : List Tok), ts.length ≤ n → ∀ (c : Lc) (st : LSt) (l : Loop LItem) (fuel : Nat) (p : List Tok),
    RL c st l → ts.length + 2 ≤ fuel → (∀ t ∈ ts, Dom t) → (ft = true → p = []) →
    summL (parseTail (mainLoop (actL (gq true)) fuel none ⟨ts, ft, p, []⟩ l)) = parseL true ft st ts

theorem comment_test_false (t : Tok) (h : t.typ.special = false) : Matcher.test .comment t = false := by
  cases ht : t.typ <;> simp [ht, TT.special] at h <;> simp [Matcher.test, ht]

/-- the outer parser expects a comma (after a query) -/
theorem outer_comma (ft : Bool) (n : Nat) (ih : OuterOK ft n) (c : Lc) (hc : c = .a1 ∨ c = .a2)
    (st : LSt) (l : Loop LItem) (f : Nat) (p : List Tok) (t : Tok) (ts : List Tok) (hn : ts.length ≤ n)
    (h : RL c st l) (hf : ts.length + 2 ≤ f) (hd : ∀ x ∈ t :: ts, Dom x) (hp : ft = true → p = [])
    (hsig : t.typ.special = false) :
    summL (parseTail (mainLoop (actL (gq true)) (f + 1) (some t) ⟨ts, ft, p, []⟩ l)) = parseL true ft st (t :: ts) := by
  have hfol := descend_lc t l.st c h.ok (comment_test_false t hsig)
  unfold FollowsL at hfol
  rw [← h.prods] at hfol
  rw [parseL_cons_none_sig true ft st t ts h.cur hsig]
  have hph : st.phase = .afterQuery := by rw [h.phase]; rcases hc with rfl | rfl <;> rfl
  have hdt := hd t (List.mem_cons_self ..)
  have hd' : ∀ x ∈ ts, Dom x := fun x hx => hd x (List.mem_cons_of_mem _ hx)
  by_cases a : Matcher.test .comma t = true
  · have hstep : stepLc c (fun m => m.test t) = .hit .comma { toSeq := false } .comma := by
      rcases hc with rfl | rfl <;> simp [stepLc, a]
    rw [hstep] at hfol
    obtain ⟨st', hdesc, hok⟩ := hfol
    rw [first_hit (hs := hsig) (hd := hdesc) (h1 := rfl) (h2 := rfl) (h3 := rfl)]
    simp only [Bool.false_eq_true, if_false]
    have hval : t.val = cComma := by simpa [Matcher.test] using a
    have hchar : t.typ = .char := hdt (.inr (.inr (.inr hval)))
    have hls : listStep st t = .ok { st with phase := .afterComma } := by
      simp [listStep, hph, charIs, hval, hchar]
    rw [hls]
    have hne : l.seq ≠ [] := h.ne (by rcases hc with rfl | rfl <;> decide)
    have hrl := rl_hit c .comma st l t { toSeq := false } st' l.seq h rfl rfl rfl hok (by decide) hne
    have e1 : ({ hitLoop l t { toSeq := false } Lc.comma.prods st' with seq := l.seq } : Loop LItem)
        = hitLoop l t { toSeq := false } Lc.comma.prods st' := by simp [hitLoop]
    have e2 : ({ st with phase := Lc.comma.phase, items := l.seq, cur := none } : LSt)
        = { st with phase := .afterComma } := by
      cases st; simp only [Lc.phase]; congr 1
      · exact h.seq
      · exact h.cur.symm
    rw [e1, e2] at hrl
    exact ih ts hn .comma _ _ f p hrl hf hd' hp
  · have hstep : stepLc c (fun m => m.test t) = .noMatch := by
      rcases hc with rfl | rfl <;> simp [stepLc, a]
    rw [hstep] at hfol
    rw [first_noMatch (hs := hsig) (hd := hfol)]
    simp only [h.stopIf, Bool.false_eq_true, if_false]
    have hval : ¬ t.val = cComma := by simpa [Matcher.test] using a
    simp [summL, parseTail, endLoop_false, h.stopall, listStep, hph, charIs, hval]

theorem length_suffix (ts pre rest : List Tok) (t' : Tok) (h : ts = pre ++ t' :: rest) :
    (t' :: rest).length ≤ ts.length ∧ (∀ x ∈ t' :: rest, x ∈ ts) := by
  subst h
  exact ⟨by simp, fun x hx => List.mem_append_right _ hx⟩

/-- the outer parser expects the start of a query (at the beginning, after a comma) -/
theorem outer_query (ft : Bool) (n : Nat) (ih : OuterOK ft n) (c : Lc) (hc : c = .start ∨ c = .comma)
    (st : LSt) (l : Loop LItem) (f : Nat) (p : List Tok) (t : Tok) (ts : List Tok) (hn : ts.length ≤ n)
    (h : RL c st l) (hf : ts.length + 2 ≤ f) (hd : ∀ x ∈ t :: ts, Dom x)
    (hsig : t.typ.special = false) :
    summL (parseTail (mainLoop (actL (gq true)) (f + 1) (some t) ⟨ts, ft, p, []⟩ l)) = parseL true ft st (t :: ts) := by
  have hfol := descend_lc t l.st c h.ok (comment_test_false t hsig)
  unfold FollowsL at hfol
  rw [← h.prods] at hfol
  rw [parseL_cons_none_sig true ft st t ts h.cur hsig]
  have hph : st.phase = .start ∨ st.phase = .afterComma := by
    rw [h.phase]; rcases hc with rfl | rfl
    · exact .inl rfl
    · exact .inr rfl
  have hd' : ∀ x ∈ ts, Dom x := fun x hx => hd x (List.mem_cons_of_mem _ hx)
  by_cases a : Matcher.test .queryStart t = true
  · obtain ⟨c', hc', hstep⟩ : ∃ c', (c' = .a1 ∨ c' = .a2) ∧
        stepLc c (fun m => m.test t) = .hit .queryStart {} c' := by
      rcases hc with rfl | rfl
      · exact ⟨.a1, .inl rfl, by simp [stepLc, a]⟩
      · exact ⟨.a2, .inr rfl, by simp [stepLc, a]⟩
    have hc's : c' ≠ .start := by rcases hc' with rfl | rfl <;> decide
    have hc'p : c'.phase = .afterQuery := by rcases hc' with rfl | rfl <;> rfl
    rw [hstep] at hfol
    obtain ⟨st', hdesc, hok⟩ := hfol
    rw [first_hit (hs := hsig) (hd := hdesc) (h1 := rfl) (h2 := rfl) (h3 := rfl)]
    simp only [if_true]
    rw [actL_queryStart, nested_sim ft t ts p f hf hd, listStep_start st t hph a, nrun_sig true {} t ts hsig]
    -- the loop and list state once the query `mq` is appended
    have hrl : ∀ mq, RL c' { st with phase := .afterQuery, items := .query mq :: st.items, cur := none }
        { hitLoop l t {} c'.prods st' with seq := .query mq :: l.seq } := by
      intro mq
      have := rl_hit c c' st l t {} st' (.query mq :: l.seq) h rfl rfl rfl hok hc's (by simp)
      rw [hc'p, h.seq] at this
      rw [h.seq]; exact this
    cases hst : stepQ true {} t with
    | unsupported => simp [NR.toP, parseTail, summL]
    | noMatch => simp [NR.toP, parseTail, summL]
    | missing => simp [NR.toP, parseTail, summL]
    | cont q1 =>
      simp only []
      have hcur := parseL_cur ft ts { st with phase := .afterQuery } q1
      have e : ({ st with phase := LPhase.afterQuery, cur := some q1 } : LSt)
          = { ({ st with phase := LPhase.afterQuery } : LSt) with cur := some q1 } := rfl
      rw [e, hcur]
      cases hN : nrun true q1 ts with
      | bad => simp [NR.toP, parseTail, summL, afterNested]
      | unsupported => simp [NR.toP, parseTail, summL, afterNested]
      | endOk mq =>
        simp only [NR.toP, afterNested]
        have := ih [] (Nat.zero_le _) c' _ _ f [] (hrl mq) (by simp; omega) (by simp) (fun _ => rfl)
        rw [this]
        simp [parseL]
      | saved mq t' rest =>
        simp only [NR.toP, afterNested]
        obtain ⟨_, pre, hpre⟩ := nrun_hb true ts q1 mq t' rest (.inl hN)
        obtain ⟨hlen, hmem⟩ := length_suffix ts pre rest t' hpre
        obtain ⟨f2, rfl⟩ : ∃ f2, f = f2 + 1 := ⟨f - 1, by omega⟩
        rw [shape_saved, ← shape_cons (hp := fun _ => rfl)]
        exact ih (t' :: rest) (by omega) c' _ _ (f2 + 1) [] (hrl mq) (by omega)
          (fun x hx => hd' x (hmem x hx)) (fun _ => rfl)
      | pushed mq t' rest =>
        simp only [NR.toP, afterNested]
        obtain ⟨_, pre, hpre⟩ := nrun_hb true ts q1 mq t' rest (.inr hN)
        obtain ⟨hlen, hmem⟩ := length_suffix ts pre rest t' hpre
        obtain ⟨f2, rfl⟩ : ∃ f2, f = f2 + 1 := ⟨f - 1, by omega⟩
        have hrest : ∀ x ∈ rest, Dom x := fun x hx => hd' x (hmem x (List.mem_cons_of_mem _ hx))
        simp only [List.length_cons] at hlen
        cases ft with
        | false =>
          simp only [Bool.false_and, Bool.false_eq_true, if_false]
          exact ih rest (by omega) c' _ _ (f2 + 1) [t'] (hrl mq) (by omega) hrest (fun e => by cases e)
        | true =>
          cases rest with
          | nil =>
            simp only [List.isEmpty_nil, Bool.not_true, Bool.and_false, Bool.false_eq_true, if_false]
            rw [mainLoop_nil]
            exact outer_nil true [t'] c' _ _ (hrl mq)
          | cons t2 r2 =>
            simp only [List.isEmpty_cons, Bool.not_false, Bool.and_true, if_true]
            rw [shape_pushed, ← shape_cons (hp := fun _ => rfl)]
            exact ih (t' :: t2 :: r2) (by simp at hlen ⊢; omega) c' _ _ (f2 + 1) [] (hrl mq) (by simp at hlen ⊢; omega)
              (fun x hx => hd' x (hmem x hx)) (fun _ => rfl)
  · have hstep : stepLc c (fun m => m.test t) = .missing := by
      rcases hc with rfl | rfl <;> simp [stepLc, a]
    rw [hstep] at hfol
    rw [first_missing (hs := hsig) (hd := hfol)]
    have hq : isQueryStart t = false := by simpa [Matcher.test] using a
    rcases hph with hph | hph <;>
      simp [summL, parseTail, endLoop_false, h.stopall, h.stopIf, listStep, hph, hq]

theorem outer_sim (ft : Bool) : ∀ n, OuterOK ft n := by
  intro n
  induction n with
  | zero =>
    intro ts hn c st l fuel p h hf _ _
    have : ts = [] := by cases ts <;> simp at hn ⊢
    subst this
    obtain ⟨f, rfl⟩ : ∃ f, fuel = f + 1 := ⟨fuel - 1, by simp at hf; omega⟩
    rw [mainLoop_nil]; exact outer_nil ft p c st l h
  | succ n ih =>
    intro ts hn c st l fuel p h hf hd hp
    obtain ⟨f, rfl⟩ : ∃ f, fuel = f + 1 := ⟨fuel - 1, by omega⟩
    cases ts with
    | nil => rw [mainLoop_nil]; exact outer_nil ft p c st l h
    | cons t ts =>
      have hn' : ts.length ≤ n := by simp at hn; omega
      have hf' : ts.length + 2 ≤ f := by simp at hf; omega
      have hd' : ∀ x ∈ ts, Dom x := fun x hx => hd x (List.mem_cons_of_mem _ hx)
      rw [shape_cons (hp := hp)]
      rcases special_cases t with hc | hs | hi | he | hsig
      · rw [first_comment (h := hc)]
        have := ih ts hn' c _ _ f p (rl_comment c st l t h) hf' hd' hp
        rw [show (actL (gq true)).comment t = LItem.comment t from rfl, this]
        simp only [parseL, h.cur, hc]
      · rw [first_s (h := hs), ih ts hn' c st l f p h hf' hd' hp]
        simp only [parseL, h.cur, hs]
      · rw [first_invalid (h := hi)]
        simp [summL, parseTail, endLoop_false, h.stopall, parseL, h.cur, hi]
      · rw [first_eof (h := he)]
        simp [summL, parseTail, parseL, h.cur, he]
      · cases c with
        | start => exact outer_query ft n ih .start (.inl rfl) st l f p t ts hn' h hf' hd hsig
        | comma => exact outer_query ft n ih .comma (.inr rfl) st l f p t ts hn' h hf' hd hsig
        | a1 => exact outer_comma ft n ih .a1 (.inl rfl) st l f p t ts hn' h hf' hd hp hsig
        | a2 => exact outer_comma ft n ih .a2 (.inr rfl) st l f p t ts hn' h hf' hd hp hsig

/-- **engine = derived automaton, list level**: on every token list of the token domain, from text or from a token
list, the generic engine run on the captured `MediaList` tree with the nested parser on the captured `_partof` query
tree — including both hand-back channels — gives exactly the result of `parseL` (the code as it is) -/
theorem engineL_eq_parseL (ft : Bool) (toks : List Tok) (hd : ∀ t ∈ toks, Dom t) :
    engineL Gen.C17Grammar.mediaList Gen.C17Grammar.mediaQueryPartof ft toks = parseL true ft {} toks := by
  have h := outer_sim ft toks.length toks (Nat.le_refl _) .start {} _ (toks.length + 4) [] rl_init (by omega) hd
    (fun _ => rfl)
  rw [← h]
  unfold engineL
  rw [ml_captured, gq_partof, parse_eq]
  rfl

end CssVerif.MediaSim
