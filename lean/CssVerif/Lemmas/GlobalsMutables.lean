import CssVerif.Gen.C12Mutables
/-!
# Every module-level and class-level mutable object of the package, and the role it has in the C12 models

`Gen/C12Mutables.lean` is regenerated from the sources on every run (`tools/gen/c12_mutables.py`, `ast` only):
`defs` — every binding at module level or in a class body to a dict / list / set / instance; `writes` — every statement
of the package that can change an object of one of these names (rebinding under `global`, item / slice assignment and
deletion at any depth, mutating method calls, attribute assignment), found by NAME; `fields` — the attributes of
Tokenizer, LazyRegex, Profiles and the error handler that a method other than `__init__` assigns or changes in place.

The tables below are written by hand: one role per definition, one line of explanation per writer.
`Props/C12.lean` proves that the regenerated tables are these, and from them the facts the memo theorems rest on.
-/
namespace CssVerif.Globals

inductive Role
  /-- no statement of the package changes it -/
  | const
  /-- filled by module-level statements while its module is imported, never afterwards -/
  | initOnly
  /-- a cache: `Model/GlobalsMemo.lean` -/
  | memo
  /-- read by the computation behind a cache; an explicit setting that changes it clears the cache -/
  | memoInput
  /-- a long-lived object that keeps a copy of a cache entry -/
  | memoCopy
  /-- process-wide state of `Model/Globals.lean` / `Model/GlobalsProd.lean` -/
  | state
  /-- shared by mistake: a recorded finding -/
  | finding (id : String)
  deriving DecidableEq, Repr

def expectedDefs : List ((String × String × String × String) × Role) := [
  -- the single error handler (borg: every `ErrorHandler()` is the same object): `G.raising`
  (("cssutils/__init__.py", "<module>", "log", "call errorhandler.ErrorHandler"), .state),
  -- `G.profiles` / `G.defaults`; the registry itself is Model/Profiles.lean (C14)
  (("cssutils/__init__.py", "<module>", "profile", "call Profiles"), .state),
  -- `G.ser`, `G.prefs`
  (("cssutils/__init__.py", "<module>", "ser", "call CSSSerializer"), .state),
  (("cssutils/__init__.py", "DOMImplementationCSS", "_features", "list"), .const),
  -- the same handler object
  (("cssutils/_fetch.py", "<module>", "log", "call errorhandler.ErrorHandler"), .state),
  -- the same handler object
  (("cssutils/_fetchgae.py", "<module>", "log", "call errorhandler.ErrorHandler"), .state),
  (("cssutils/css/colors.py", "<module>", "COLORS", "dict"), .const),
  -- filled by the loop at module level (cssproperties.py:121-123)
  (("cssutils/css/cssproperties.py", "CSS2Properties", "_properties", "list"), .initOnly),
  (("cssutils/css/cssrule.py", "CSSRule", "_typestrings", "dict"), .const),
  (("cssutils/css/cssvalue.py", "CSSPrimitiveValue", "__unitbytype", "dict"), .const),
  (("cssutils/css/cssvalue.py", "CSSPrimitiveValue", "_converter", "dict"), .const),
  (("cssutils/css/cssvalue.py", "CSSPrimitiveValue", "_unitnames", "list"), .const),
  (("cssutils/css/cssvalue.py", "CSSValue", "_typestrings", "dict"), .const),
  (("cssutils/css/marginrule.py", "MarginRule", "margins", "list"), .const),
  -- the CSS 2 tables: imported by nothing
  (("cssutils/css2productions.py", "<module>", "MACROS", "dict"), .const),
  (("cssutils/css2productions.py", "<module>", "PRODUCTIONS", "list"), .const),
  -- `TkGlobals.macros`: read by the computation behind `_TOKENIZER_CACHE`, written by nothing
  (("cssutils/cssproductions.py", "<module>", "MACROS", "dict"), .memoInput),
  -- `TkGlobals.prods`: written by `settings.set`, which clears the cache first
  (("cssutils/cssproductions.py", "<module>", "PRODUCTIONS", "list"), .memoInput),
  -- `PG.saved`
  (("cssutils/prodparser.py", "<module>", "savedTokens", "list"), .state),
  -- `PG.pushed`; its tables are a copy of a cache entry (`TkState.insts`)
  (("cssutils/prodparser.py", "<module>", "tokenizer", "call cssutils.tokenize2.Tokenizer"), .state),
  -- the built-in profile tables, filled at module level; `Profiles.__init__` copies them
  (("cssutils/profiles.py", "<module>", "macros", "dict"), .initOnly),
  (("cssutils/profiles.py", "<module>", "properties", "dict"), .initOnly),
  -- `Cfg.base` of Model/Profiles.lean; read through `.copy()` only
  (("cssutils/profiles.py", "Profiles", "_MACROS", "dict"), .const),
  (("cssutils/profiles.py", "Profiles", "_TOKEN_MACROS", "dict"), .const),
  -- a class attribute that every CSSCaptureHTMLParser appends to
  (("cssutils/stylesheets/mediaquery.py", "MediaQuery", "MEDIA_TYPES", "list"), .const),
  -- `TkState.cache`
  (("cssutils/tokenize2.py", "<module>", "_TOKENIZER_CACHE", "dict"), .memo),
  (("cssutils/tokenize2.py", "Tokenizer", "_atkeywords", "dict"), .const),
  -- the same handler object
  (("cssutils/util.py", "<module>", "log", "call errorhandler.ErrorHandler"), .state),
  (("cssutils/util.py", "Base", "_SHORTHANDPROPERTIES", "dict"), .const),
  -- the tokenizer of every `cssText` setter: tables copied from the cache at import (`TkState.insts`); nothing pushes to it
  (("cssutils/util.py", "Base", "__tokenizer2", "call tokenize2.Tokenizer"), .memoCopy),
  -- the same handler object
  (("cssutils/util.py", "_BaseClass", "_log", "call errorhandler.ErrorHandler"), .state)
]

def expectedWrites : List (String × String × String × String) := [
  -- settingsSet: `_TOKENIZER_CACHE.clear()` and then `PRODUCTIONS.insert(1, …)` — an explicit setting (TkOp.settings)
  ("PRODUCTIONS", "cssutils/settings.py", "set", "call-insert"),
  ("_TOKENIZER_CACHE", "cssutils/settings.py", "set", "call-clear"),
  -- newTokenizer / runTokenizer: the store of `_bind` (tokenize2.py:75)
  ("_TOKENIZER_CACHE", "cssutils/tokenize2.py", "Tokenizer._bind", "setitem"),
  -- attributes called `_log` of other objects (each bound on `self`); the class attribute `_BaseClass._log` is never rebound
  ("_log", "cssutils/errorhandler.py", "_ErrorHandler.__init__", "setattr-on-self"),
  ("_log", "cssutils/errorhandler.py", "_ErrorHandler.__init__", "setattr-on-self"),
  ("_log", "cssutils/errorhandler.py", "_ErrorHandler.setLog", "setattr-on-self"),
  ("_log", "cssutils/prodparser.py", "ProdParser.__init__", "setattr-on-self"),
  ("_log", "cssutils/profiles.py", "Profiles.__init__", "setattr-on-self"),
  ("_log", "cssutils/sac.py", "DocumentHandler.__init__", "setattr-on-self"),
  ("_log", "cssutils/sac.py", "ErrorHandler.__init__", "setattr-on-self"),
  ("_log", "cssutils/script.py", "CSSCapture.__init__", "setattr-on-self"),
  ("_log", "cssutils/script.py", "CSSCapture.__init__", "setattr-on-self"),
  ("_log", "cssutils/util.py", "_Namespaces.__init__", "setattr-on-self"),
  -- import time
  ("_properties", "cssutils/css/cssproperties.py", "<module>", "call-append"),
  -- the tables handed out by the cache are bound to the new object and never changed (tokenize2.py:63-65)
  ("commentmatcher", "cssutils/tokenize2.py", "Tokenizer._bind", "setattr-on-self"),
  -- import time: the built-in tables of profiles.py are filled in at module level
  ("macros", "cssutils/profiles.py", "<module>", "setitem"),
  ("macros", "cssutils/profiles.py", "<module>", "setitem"),
  ("macros", "cssutils/profiles.py", "<module>", "setitem"),
  ("macros", "cssutils/profiles.py", "<module>", "setitem"),
  ("macros", "cssutils/profiles.py", "<module>", "setitem"),
  ("macros", "cssutils/profiles.py", "<module>", "setitem"),
  ("macros", "cssutils/profiles.py", "<module>", "setitem"),
  ("macros", "cssutils/profiles.py", "<module>", "setitem"),
  ("properties", "cssutils/profiles.py", "<module>", "setitem"),
  ("properties", "cssutils/profiles.py", "<module>", "setitem"),
  ("properties", "cssutils/profiles.py", "<module>", "setitem"),
  ("properties", "cssutils/profiles.py", "<module>", "setitem"),
  ("properties", "cssutils/profiles.py", "<module>", "setitem"),
  ("properties", "cssutils/profiles.py", "<module>", "setitem"),
  ("properties", "cssutils/profiles.py", "<module>", "setitem"),
  ("properties", "cssutils/profiles.py", "<module>", "setitem"),
  ("properties", "cssutils/profiles.py", "<module>", "setitem"),
  -- Model/GlobalsProd.lean: onTok / fetch
  ("savedTokens", "cssutils/prodparser.py", "ProdParser.parse", "call-append"),
  ("savedTokens", "cssutils/prodparser.py", "ProdParser.parse", "call-pop"),
  -- Step.newSer (explicit); `Out.__init__` binds an attribute of its own that happens to be called `ser`
  ("ser", "cssutils/css/cssstylesheet.py", "CSSStyleSheet.setSerializer", "setattr"),
  ("ser", "cssutils/serialize.py", "Out.__init__", "setattr-on-self"),
  -- (the class-level list CSSCaptureHTMLParser.sheets of the former finding C12-capture-sheets-shared is gone: a279ab6)
  -- ctor / runChild: `pushed := []`
  ("tokenizer", "cssutils/prodparser.py", "ProdParser.__init__", "call-clear"),
  ("tokenmatches", "cssutils/tokenize2.py", "Tokenizer._bind", "setattr-on-self"),
  ("urimatcher", "cssutils/tokenize2.py", "Tokenizer._bind", "setattr-on-self")
]

def expectedFields : List (String × String × String × String) := [
  ("LazyRegex", "ensure", "flags", "set"),
  ("LazyRegex", "ensure", "groupindex", "set"),
  ("LazyRegex", "ensure", "groups", "set"),
  ("LazyRegex", "ensure", "matcher", "set"),
  ("Profiles", "__update_knownNames", "_knownNames", "call-extend"),
  ("Profiles", "__update_knownNames", "_knownNames", "set"),
  ("Profiles", "_resetProperties", "_profilesProperties", "call-clear"),
  ("Profiles", "_resetProperties", "_profilesProperties", "setitem"),
  ("Profiles", "_resetProperties", "_usedMacros", "set"),
  ("Profiles", "_setDefaultProfiles", "_defaultProfiles", "set"),
  ("Profiles", "_setDefaultProfiles", "_defaultProfiles", "set"),
  ("Profiles", "addProfile", "_profileNames", "call-append"),
  ("Profiles", "addProfile", "_profilesProperties", "setitem"),
  ("Profiles", "addProfile", "_rawProfiles", "setitem"),
  ("Profiles", "addProfile", "_usedMacros", "call-update"),
  ("Profiles", "addProfiles", "_rawProfiles", "setitem"),
  ("Profiles", "addProfiles", "_usedMacros", "call-update"),
  ("Profiles", "removeProfile", "_profileNames", "delitem"),
  ("Profiles", "removeProfile", "_profileNames", "delitem"),
  ("Profiles", "removeProfile", "_profilesProperties", "call-clear"),
  ("Profiles", "removeProfile", "_profilesProperties", "delitem"),
  ("Profiles", "removeProfile", "_rawProfiles", "call-clear"),
  ("Profiles", "removeProfile", "_rawProfiles", "delitem"),
  ("Profiles", "removeProfile", "_usedMacros", "call-update"),
  ("Profiles", "removeProfile", "_usedMacros", "set"),
  -- `_bind` (called by `__init__` and at the start of every `tokenize`): Memo.runTokenizer
  ("Tokenizer", "_bind", "commentmatcher", "set"),
  ("Tokenizer", "_bind", "tokenmatches", "set"),
  ("Tokenizer", "_bind", "urimatcher", "set"),
  ("Tokenizer", "clear", "_pushed", "set"),
  ("Tokenizer", "push", "_pushed", "set"),
  ("_ErrorHandler", "__getattr__", "_logcall", "set"),
  ("_ErrorHandler", "setLog", "_log", "set")
]

/-- the writers of anything called `name` that run after the import: not at module level (or in a class body),
and not the binding of an attribute of that name on the object under construction -/
def runtimeWrites (ws : List (String × String × String × String)) (name : String) :
    List (String × String × String × String) :=
  ws.filter fun w => w.1 == name && w.2.2.2 != "setattr-on-self" && w.2.2.1 != "<module>"

/-- every role that a definition of this (short) name has -/
def rolesOfName (name : String) : List Role :=
  (expectedDefs.filter fun d => d.1.2.2.1 == name).map (·.2)

def Role.isFixed : Role → Bool
  | .const => true
  | .initOnly => true
  | _ => false

end CssVerif.Globals
