import CssVerif.Model.Sel
import CssVerif.Model.Ns
/-!
# Attaching a selector to a sheet: the text under the sheet's namespaces

`Selector._namespaces` (selector.py:673-678) is the selector's own filtered dict `__namespaces` while it is not
attached, and the namespaces of the sheet once `parent.parentRule.parentStyleSheet` exists. Specificity, `seq` and
`element` are stored fields: attaching does not touch them. The text is `do_css_Selector` with the other map:
`serItems sheetNs seq`.
-/
namespace CssVerif.Sel
open CssVerif.Proto

/-- `selectorText` of a committed selector attached to a sheet whose namespaces are `sheetNs` -/
def SelRec.textIn (sheetNs : NsMap) (r : SelRec) : Cps := serItems sheetNs r.seq

/-- what `do_css_Selector` reads from the namespaces for one item -/
def nsView (ns : NsMap) (it : Item) : Option Cps × Cps :=
  match it.val with
  | .ns (.uri y) _ => (nsGet ns [], prefixFor ns y)
  | .ns _ _ => (nsGet ns [], [])
  | _ => (none, [])

/-- is the name written without a prefix? (`do_css_Selector`: the namespace is the default one) -/
def plainOf (dflt : Option Cps) (u : Uri) : Bool :=
  match dflt, u with
  | none, .none => true
  | some x, .uri y => x == y
  | some x, .none => x.isEmpty
  | _, _ => false

/-- one step of the loop of `do_css_Selector` -/
def serStep (ns : NsMap) (out : List Cps) (it : Item) : List Cps :=
  match it.val with
  | .ns u name =>
    if plainOf (nsGet ns []) u then outAppend out name false it.typ false
    else
      let p := match u with
        | .any => [42]
        | .uri y => prefixFor ns y
        | .none => []
      outAppend out (p ++ [124] ++ name) false it.typ false
  | .str s => outAppend out s false it.typ true
  | .comment s => outAppend out s true it.typ true

theorem serItems_eq (ns : NsMap) (seq : List Item) :
    serItems ns seq = if seq.isEmpty then [] else (removeLastIfS (seq.foldl (serStep ns) [])).reverse.flatten := by
  unfold serItems
  split
  · rfl
  · congr 3

theorem foldl_congr_mem {α β : Type} (f g : β → α → β) : ∀ (l : List α) (b : β), (∀ x ∈ l, ∀ b, f b x = g b x) →
    l.foldl f b = l.foldl g b := by
  intro l
  induction l with
  | nil => intro b _; rfl
  | cons a t ih =>
    intro b h
    simp only [List.foldl_cons]
    rw [h a (by simp) b]
    exact ih _ (fun x hx b => h x (List.mem_cons_of_mem _ hx) b)

/-- **the text depends on the namespaces only through "is it the default namespace" and the prefixes of the URIs
that are written with a prefix** -/
theorem serItems_congr (ns₁ ns₂ : NsMap) (seq : List Item)
    (h : ∀ it ∈ seq, ∀ u n, it.val = .ns u n →
      plainOf (nsGet ns₁ []) u = plainOf (nsGet ns₂ []) u ∧
      ∀ y, u = .uri y → plainOf (nsGet ns₂ []) u = false → prefixFor ns₁ y = prefixFor ns₂ y) :
    serItems ns₁ seq = serItems ns₂ seq := by
  rw [serItems_eq, serItems_eq]
  split
  · rfl
  · congr 3
    apply foldl_congr_mem
    intro it hit out
    unfold serStep
    cases hv : it.val with
    | str s => rfl
    | comment s => rfl
    | ns u n =>
      obtain ⟨hd, hp⟩ := h it hit u n hv
      simp only [hd]
      cases hpl : plainOf (nsGet ns₂ []) u with
      | true => rfl
      | false =>
        cases u with
        | none => rfl
        | any => rfl
        | uri y => simp only [hp y rfl hpl]

/-! ## the selector's own (filtered) namespaces against the map it was parsed with -/

/-- the items that carry a `(namespaceURI, name)` pair have one of the types `_getUsedUris` looks at -/
def NsTyped (seq : List Item) : Prop :=
  ∀ it ∈ seq, ∀ u n, it.val = .ns u n → (endsWith it.typ sfxSelector || it.typ == tyUniversal) = true

theorem usedUris_mem : ∀ (seq : List Item) (uris : List Uri), usedUris seq = .ok uris → ∀ it ∈ seq, ∀ y n,
    it.val = .ns (.uri y) n → (endsWith it.typ sfxSelector || it.typ == tyUniversal) = true → Uri.uri y ∈ uris := by
  intro seq
  induction seq with
  | nil => intro _ _ it hit; simp at hit
  | cons a t ih =>
    intro uris hu it hit y n hv hq
    simp only [usedUris, bind, Except.bind] at hu
    cases hr : usedUris t with
    | error e => rw [hr] at hu; cases hu
    | ok rest =>
      rw [hr] at hu
      simp only at hu
      rcases List.mem_cons.mp hit with rfl | hit
      · rw [if_pos hq, hv] at hu
        simp only [pure, Except.pure, Except.ok.injEq] at hu
        rw [← hu]; simp
      · have := ih rest hr it hit y n hv hq
        split at hu
        · split at hu
          · simp only [pure, Except.pure, Except.ok.injEq] at hu; rw [← hu]; exact List.mem_cons_of_mem _ this
          · simp only [pure, Except.pure, Except.ok.injEq] at hu; rw [← hu]; exact this
        · simp only [pure, Except.pure, Except.ok.injEq] at hu; rw [← hu]; exact this

theorem find_filter (ns : NsMap) (P : Cps × Cps → Bool) (y : Cps) (hP : ∀ pu ∈ ns, pu.2 = y → P pu = true) :
    (ns.filter P).find? (fun pu => pu.2 == y) = ns.find? (fun pu => pu.2 == y) := by
  induction ns with
  | nil => rfl
  | cons a t ih =>
    have iht := ih (fun pu hpu => hP pu (List.mem_cons_of_mem _ hpu))
    by_cases ha : a.2 = y
    · have hPa : P a = true := hP a (by simp) ha
      simp [List.filter_cons, hPa, List.find?_cons, ha]
    · by_cases hPa : P a = true
      · simp [List.filter_cons, hPa, List.find?_cons, ha, iht]
      · simp [List.filter_cons, hPa, List.find?_cons, ha, iht]

theorem prefixFor_filter (ns : NsMap) (uris : List Uri) (y : Cps) (hy : Uri.uri y ∈ uris) :
    prefixFor (ns.filter fun pu => uris.contains (.uri pu.2)) y = prefixFor ns y := by
  unfold prefixFor
  rw [find_filter ns _ y (by
    intro pu _ e
    simp only [List.contains_eq_mem, decide_eq_true_eq]
    rw [e]; exact hy)]

theorem lookup_none_of_not_mem (ns : NsMap) (k : Cps) (h : k ∉ ns.map (·.1)) : ns.lookup k = none := by
  induction ns with
  | nil => rfl
  | cons a t ih =>
    obtain ⟨ak, av⟩ := a
    simp only [List.map_cons, List.mem_cons, not_or] at h
    have hk : (k == ak) = false := by simpa using h.1
    simp only [List.lookup, hk]
    exact ih h.2

theorem lookup_filter (ns : NsMap) (P : Cps × Cps → Bool) (k : Cps) (hnd : (ns.map (·.1)).Nodup) :
    (ns.filter P).lookup k = (ns.lookup k).bind (fun v => if P (k, v) then some v else none) := by
  induction ns with
  | nil => rfl
  | cons a t ih =>
    obtain ⟨ak, av⟩ := a
    simp only [List.map_cons, List.nodup_cons] at hnd
    have iht := ih hnd.2
    by_cases hk : k = ak
    · subst hk
      by_cases hP : P (k, av) = true
      · simp [List.filter_cons, hP, List.lookup]
      · have hnone : t.lookup k = none := lookup_none_of_not_mem t k hnd.1
        simp [List.filter_cons, hP, List.lookup, iht, hnone]
    · have hk' : (k == ak) = false := by simpa using hk
      by_cases hP : P (ak, av) = true
      · simp only [List.filter_cons, hP, if_true, List.lookup, hk']; exact iht
      · simp only [List.filter_cons, hP, List.lookup, hk']; exact iht

/-- a `(None, name)` pair only arises when no default namespace is declared (selector.py:128-131) -/
def NoneOnlyWithoutDefault (ns : NsMap) (seq : List Item) : Prop :=
  ∀ it ∈ seq, ∀ n, it.val = .ns .none n → nsGet ns [] = none

/-- **the own, filtered namespaces write the same text as the map the selector was parsed with** -/
theorem serItems_filter (ns : NsMap) (seq : List Item) (uris : List Uri) (hu : usedUris seq = .ok uris)
    (hnd : (ns.map (·.1)).Nodup) (hq : NsTyped seq) (hn : NoneOnlyWithoutDefault ns seq) :
    serItems (ns.filter fun pu => uris.contains (.uri pu.2)) seq = serItems ns seq := by
  apply serItems_congr
  intro it hit u n hv
  have hlk := lookup_filter ns (fun pu => uris.contains (.uri pu.2)) [] hnd
  cases u with
  | any =>
    refine ⟨?_, fun y e => by cases e⟩
    simp only [plainOf]
    cases nsGet (ns.filter fun pu => uris.contains (.uri pu.2)) [] <;> cases nsGet ns [] <;> rfl
  | none =>
    refine ⟨?_, fun y e => by cases e⟩
    have hd := hn it hit n hv
    have hd1 : nsGet (ns.filter fun pu => uris.contains (.uri pu.2)) [] = none := by
      unfold nsGet at hd ⊢; rw [hlk, hd]; rfl
    rw [hd, hd1]
  | uri y =>
    have hy : Uri.uri y ∈ uris := usedUris_mem seq uris hu it hit y n hv (hq it hit _ _ hv)
    refine ⟨?_, fun y' e _ => by cases e; exact prefixFor_filter ns uris y hy⟩
    unfold nsGet at hlk ⊢
    rw [hlk]
    cases hl : ns.lookup [] with
    | none => rfl
    | some x =>
      simp only [Option.bind]
      by_cases hx : uris.contains (Uri.uri x) = true
      · have hx' : Uri.uri x ∈ uris := by simpa using hx
        simp [hx']
      · have hx' : ¬ Uri.uri x ∈ uris := by simpa using hx
        have hxy : (x == y) = false := by
          cases hxy : (x == y) with
          | false => rfl
          | true =>
            have : x = y := by simpa using hxy
            subst this
            exact absurd hy hx'
        simp [hx', plainOf, hxy]

end CssVerif.Sel
