import CssVerif.Lemmas.Urls
/-!
# Lemmas for C19, flattening with kept imports: `resolveImports = flatSpec`
-/
namespace CssVerif.Urls

/-! ### `afterLast`, `impIndex`, `ins` on a target of the shape `pre ++ K ++ post` -/

theorem afterLast_none (p : Rule → Bool) : ∀ l : Sheet, (∀ r ∈ l, p r = false) → afterLast p l = none
  | [], _ => rfl
  | r :: rs, h => by
    simp [afterLast, afterLast_none p rs (fun x hx => h x (List.mem_cons_of_mem _ hx)), h r (List.mem_cons_self ..)]

theorem afterLast_append_none (p : Rule → Bool) (b : Sheet) (hb : ∀ r ∈ b, p r = false) :
    ∀ a : Sheet, afterLast p (a ++ b) = afterLast p a
  | [] => by
    show afterLast p b = none
    exact afterLast_none p b hb
  | r :: rs => by
    simp [afterLast, afterLast_append_none p b hb rs]

theorem afterLast_snoc (p : Rule → Bool) (x : Rule) (hx : p x = true) :
    ∀ a : Sheet, afterLast p (a ++ [x]) = some (a.length + 1)
  | [] => by simp [afterLast, hx]
  | r :: rs => by simp [afterLast, afterLast_snoc p x hx rs]

theorem impIndex_append_plain (t : Sheet) (r : Rule) (ht : t ≠ []) (hr : isImp r = false) :
    impIndex (t ++ [r]) = impIndex t := by
  unfold impIndex
  rw [afterLast_append_none isImp [r] (by simpa using hr) t]
  cases t with
  | nil => exact absurd rfl ht
  | cons a as => cases a <;> rfl

/-- the shape every target of `resolveImports` has: rules without @import, the kept @imports, rules without @import;
and the next @import goes right behind the kept ones -/
structure Shape (pre K post : Sheet) : Prop where
  pre_plain : ∀ r ∈ pre, isImp r = false
  k_imp : ∀ r ∈ K, isImp r = true
  post_plain : ∀ r ∈ post, isImp r = false
  index : impIndex (pre ++ K ++ post) = pre.length + K.length
  nonempty : pre ++ K ++ post ≠ []

theorem Shape.plain {pre K post : Sheet} (s : Shape pre K post) (r : Rule) (hr : isImp r = false) :
    ins (pre ++ K ++ post) r = pre ++ K ++ (post ++ [r]) ∧ Shape pre K (post ++ [r]) := by
  refine ⟨by simp [ins, hr], s.pre_plain, s.k_imp, ?_, ?_, by simp⟩
  · intro x hx
    rcases List.mem_append.mp hx with hx | hx
    · exact s.post_plain x hx
    · simp at hx; subst hx; exact hr
  · have := impIndex_append_plain (pre ++ K ++ post) r s.nonempty hr
    rw [← List.append_assoc, this, s.index]

theorem Shape.imp {pre K post : Sheet} (s : Shape pre K post) (r : Rule) (hr : isImp r = true) :
    ins (pre ++ K ++ post) r = pre ++ (K ++ [r]) ++ post ∧ Shape pre (K ++ [r]) post := by
  refine ⟨?_, s.pre_plain, ?_, s.post_plain, ?_, by simp⟩
  · simp only [ins, hr, ↓reduceIte, s.index, insertAt]
    have e : pre.length + K.length = (pre ++ K).length := by simp
    rw [e, List.take_left' rfl, List.drop_left' rfl]
    simp
  · intro x hx
    rcases List.mem_append.mp hx with hx | hx
    · exact s.k_imp x hx
    · simp at hx; subst hx; exact hr
  · unfold impIndex
    rw [afterLast_append_none isImp post s.post_plain, ← List.append_assoc, afterLast_snoc isImp r hr]
    simp; omega

theorem run_shape : ∀ (c : List Rule) (pre K post : Sheet), Shape pre K post →
    run (pre ++ K ++ post) c = pre ++ (K ++ c.filter isImp) ++ (post ++ c.filter (fun r => !isImp r))
  | [], pre, K, post, _ => by simp [run]
  | r :: rs, pre, K, post, s => by
    cases hr : isImp r with
    | true =>
      obtain ⟨e, s'⟩ := s.imp r hr
      have ih := run_shape rs pre (K ++ [r]) post s'
      simp only [run, List.foldl_cons] at ih ⊢
      rw [e, ih]; simp [hr]
    | false =>
      obtain ⟨e, s'⟩ := s.plain r hr
      have ih := run_shape rs pre K (post ++ [r]) s'
      simp only [run, List.foldl_cons] at ih ⊢
      rw [e, ih]; simp [hr]

/-- **adding rules one by one to an empty sheet = hoisting the kept @imports** -/
theorem run_nil_eq_hoist (c : List Rule) : run [] c = hoist c := by
  cases c with
  | nil => rfl
  | cons r rs =>
    have step : run [] (r :: rs) = run [r] rs := by
      cases r <;> simp [run, ins, isImp, impIndex, afterLast, insertAt]
    rw [step]
    cases r with
    | comment x =>
      have s : Shape [.comment x] [] [] := ⟨by simp [isImp], by simp, by simp, by simp [impIndex, afterLast, isImp], by simp⟩
      simpa [hoist] using run_shape rs _ _ _ s
    | charset x =>
      have s : Shape [.charset x] [] [] := ⟨by simp [isImp], by simp, by simp, by simp [impIndex, afterLast, isImp], by simp⟩
      simpa [hoist] using run_shape rs _ _ _ s
    | imp a b c d e =>
      have hi : isImp (.imp a b c d e) = true := rfl
      have s : Shape [] [.imp a b c d e] [] := ⟨by simp, by simp [isImp], by simp, by simp [impIndex, afterLast, isImp], by simp⟩
      simpa [hoist, hi] using run_shape rs _ _ _ s
    | ns a b =>
      have hi : isImp (.ns a b) = false := rfl
      have s : Shape [] [] [.ns a b] := ⟨by simp, by simp, by simp [isImp], by simp [impIndex, afterLast, isImp], by simp⟩
      simpa [hoist, hi] using run_shape rs _ _ _ s
    | style a b =>
      have hi : isImp (.style a b) = false := rfl
      have s : Shape [] [] [.style a b] := ⟨by simp, by simp, by simp [isImp], by simp [impIndex, afterLast, isImp], by simp⟩
      simpa [hoist, hi] using run_shape rs _ _ _ s
    | media a b =>
      have hi : isImp (.media a b) = false := rfl
      have s : Shape [] [] [.media a b] := ⟨by simp, by simp, by simp [isImp], by simp [impIndex, afterLast, isImp], by simp⟩
      simpa [hoist, hi] using run_shape rs _ _ _ s
    | page a b c =>
      have hi : isImp (.page a b c) = false := rfl
      have s : Shape [] [] [.page a b c] := ⟨by simp, by simp, by simp [isImp], by simp [impIndex, afterLast, isImp], by simp⟩
      simpa [hoist, hi] using run_shape rs _ _ _ s
    | fontface a =>
      have hi : isImp (.fontface a) = false := rfl
      have s : Shape [] [] [.fontface a] := ⟨by simp, by simp, by simp [isImp], by simp [impIndex, afterLast, isImp], by simp⟩
      simpa [hoist, hi] using run_shape rs _ _ _ s
    | unknown a =>
      have hi : isImp (.unknown a) = false := rfl
      have s : Shape [] [] [.unknown a] := ⟨by simp, by simp, by simp [isImp], by simp [impIndex, afterLast, isImp], by simp⟩
      simpa [hoist, hi] using run_shape rs _ _ _ s

/- PARKED (re-sync of 2026-09-30, /repo ca7960c + e8a4f78): the lemmas of the two commented blocks of this file prove the
refinement `resolveImports = flatSpec` and the structure of `flatSpec` for the model BEFORE those two repairs. The model now
has `reload` (an @import that was not found is not fetched again from the URL that was tried) and `rebaseImps` (the hrefs of
kept @imports are re-based) in `addRule` / `resolveRule` and, in the same places, in `keep1` / `cascRule`; the proofs have to
thread these two steps (needed: `rebaseImps` keeps kinds, tags, `foundImp`, `isImp` and the non-import rules; `reload` answers
an @import rule). Until that is done the correspondence `flatspec` (model `flatSpec` against the implementation) and the
oracle carry this clause; the theorems of Props/C19 that used these lemmas are parked as well. -/

/-
/ -! ### `CSSStyleSheet.add` of a rule the specification takes over = `ins` - /

theorem setHref_isImp (vfs : Vfs) (who : Who) (fuel : Nat) (chain : List Str) (href media : Str) (x : Rule)
    (h : (setHref fuel vfs who chain href media).val = .ok x) : isImp x = true := by
  cases fuel with
  | zero => simp [setHref] at h
  | succ n =>
    cases chain with
    | nil => simp [setHref] at h
    | cons p ps =>
      simp only [setHref] at h
      repeat' split at h
      all_goals first
        | (simp [notLoaded] at h; subst h; rfl)
        | (simp at h)

theorem addRule_keep1 (vfs : Vfs) (who : Who) (th : Str) (t : Sheet) (r x : Rule)
    (h : (keep1 vfs who th r).val = .ok x) :
    addRule vfs who th t r = ⟨.ok (ins t x), (keep1 vfs who th r).log⟩ := by
  cases r with
  | imp href media found a b =>
    cases found with
    | true =>
      simp [keep1] at h; subst h
      simp [addRule, keep1, ins, isImp, impIndex]
    | false =>
      simp only [keep1] at h ⊢
      have hx := setHref_isImp vfs who _ _ _ _ x h
      simp [addRule, h, ins, hx, impIndex]
  | charset e => simp [keep1, appended] at h
  | ns a b => simp [keep1, appended] at h
  | comment a => simp [keep1, appended] at h; subst h; simp [addRule, keep1, appended, ins, isImp]
  | style a b => simp [keep1, appended] at h; subst h; simp [addRule, keep1, appended, ins, isImp]
  | media a b => simp [keep1, appended] at h; subst h; simp [addRule, keep1, appended, ins, isImp]
  | page a b c => simp [keep1, appended] at h; subst h; simp [addRule, keep1, appended, ins, isImp]
  | fontface a => simp [keep1, appended] at h; subst h; simp [addRule, keep1, appended, ins, isImp]
  | unknown a => simp [keep1, appended] at h; subst h; simp [addRule, keep1, appended, ins, isImp]

theorem addAll_keepAll (vfs : Vfs) (who : Who) (th : Str) : ∀ (X : List Rule) (t : Sheet) (m : List Rule),
    (keepAll vfs who th X).val = .ok m →
    addAll vfs who th t X = ⟨.ok (run t m), (keepAll vfs who th X).log⟩
  | [], t, m, h => by
    simp [keepAll] at h; subst h; simp [addAll, keepAll, run]
  | r :: rs, t, m, h => by
    simp only [keepAll] at h ⊢
    cases ha : (keep1 vfs who th r).val with
    | error e => simp [ha] at h
    | ok x =>
      simp only [ha] at h ⊢
      cases hb : (keepAll vfs who th rs).val with
      | error e => simp [hb] at h
      | ok xs =>
        simp only [hb] at h ⊢
        simp at h; subst h
        simp [addAll, addRule_keep1 vfs who th t r x ha, addAll_keepAll vfs who th rs (ins t x) xs hb, run]

theorem run_cons (t : Sheet) (r : Rule) (c : List Rule) : run t (r :: c) = run (ins t r) c := rfl
theorem run_append (t : Sheet) (c d : List Rule) : run t (c ++ d) = run (run t c) d := by simp [run]
theorem ins_comment (t : Sheet) (x : Str) : ins t (.comment x) = t ++ [.comment x] := rfl

/ -! ### the flattening of `resolveImports` is the specification - /

mutual
theorem resolveRules_casc (vfs : Vfs) (who : Who) : ∀ (rs : List Rule) (th : Str) (t : Sheet) (c : List Rule),
    (cascRules vfs who th rs).val = .ok c →
    resolveRules vfs who th t rs = ⟨.ok (run t c), (cascRules vfs who th rs).log⟩
  | [], th, t, c, h => by
    simp [cascRules] at h; subst h; simp [resolveRules, cascRules, run]
  | r :: rs, th, t, c, h => by
    simp only [cascRules] at h ⊢
    cases ha : (cascRule vfs who th r).val with
    | error e => simp [ha] at h
    | ok c1 =>
      simp only [ha] at h ⊢
      cases hb : (cascRules vfs who th rs).val with
      | error e => simp [hb] at h
      | ok c2 =>
        simp only [hb] at h ⊢
        simp at h; subst h
        simp [resolveRules, resolveRule_casc vfs who r th t c1 ha,
          resolveRules_casc vfs who rs th (run t c1) c2 hb, run_append]
theorem resolveRule_casc (vfs : Vfs) (who : Who) : ∀ (r : Rule) (th : Str) (t : Sheet) (c : List Rule),
    (cascRule vfs who th r).val = .ok c →
    resolveRule vfs who th t r = ⟨.ok (run t c), (cascRule vfs who th r).log⟩
  | .charset _, th, t, c, h => by
    simp [cascRule] at h; subst h; simp [resolveRule, cascRule, run]
  | .imp href media true ihref sheet, th, t, c, h => by
    simp only [cascRule] at h ⊢
    cases hi : (cascRules vfs who ihref sheet).val with
    | error e => simp [hi] at h
    | ok ci =>
      have ih := resolveRules_casc vfs who sheet ihref [] ci hi
      rw [run_nil_eq_hoist] at ih
      simp only [hi] at h ⊢
      cases hre : replRules (replacer href) (hoist ci) with
      | error e => simp [hre] at h
      | ok rebased =>
        simp only [hre] at h ⊢
        simp only [resolveRule, Bool.true_eq_false, ↓reduceIte,
          addRule_plain vfs who th t (.comment (startComment href)) rfl, ih, replaceUrls, hre]
        by_cases hma : media = mediaAll
        · simp only [hma, ↓reduceIte] at h ⊢
          cases hk : (keepAll vfs who th rebased.1).val with
          | error e => simp [hk] at h
          | ok m =>
            simp only [hk] at h ⊢
            simp at h; subst h
            simp [addAll_keepAll vfs who th rebased.1 _ m hk, run_cons, ins_comment]
        · simp only [hma, ↓reduceIte] at h ⊢
          by_cases hall : rebased.1.all combinable = true
          · simp only [hall, ↓reduceIte] at h ⊢
            simp at h; subst h
            simp [proxyAddAll_combinable _ _ hall, addRule, run, ins, isImp]
          · have hall' : rebased.1.all combinable = false := by
              cases hb : rebased.1.all combinable with
              | true => exact absurd hb hall
              | false => rfl
            simp only [hall', Bool.false_eq_true, ↓reduceIte] at h ⊢
            simp at h; subst h
            have hk : (keep1 vfs who th (.imp href media true ihref sheet)).val
                = .ok (.imp href media true ihref sheet) := rfl
            simp [addRule_keep1 vfs who th _ _ _ hk, run, ins_comment, keep1]
  | .imp href media false ihref sheet, th, t, c, h => by
    simp only [cascRule] at h ⊢
    cases ha : (keep1 vfs who th (.imp href media false ihref sheet)).val with
    | error e => simp [ha] at h
    | ok x =>
      simp only [ha] at h ⊢
      simp at h; subst h
      simp [resolveRule, addRule_keep1 vfs who th t _ x ha, run]
  | .comment a, th, t, c, h => by
    simp [cascRule, keep1, appended] at h; subst h; simp [resolveRule, cascRule, keep1, appended, addRule, run, ins, isImp]
  | .ns a b, th, t, c, h => by simp [cascRule, keep1, appended] at h
  | .style a b, th, t, c, h => by
    simp [cascRule, keep1, appended] at h; subst h; simp [resolveRule, cascRule, keep1, appended, addRule, run, ins, isImp]
  | .media a b, th, t, c, h => by
    simp [cascRule, keep1, appended] at h; subst h; simp [resolveRule, cascRule, keep1, appended, addRule, run, ins, isImp]
  | .page a b d, th, t, c, h => by
    simp [cascRule, keep1, appended] at h; subst h; simp [resolveRule, cascRule, keep1, appended, addRule, run, ins, isImp]
  | .fontface a, th, t, c, h => by
    simp [cascRule, keep1, appended] at h; subst h; simp [resolveRule, cascRule, keep1, appended, addRule, run, ins, isImp]
  | .unknown a, th, t, c, h => by
    simp [cascRule, keep1, appended] at h; subst h; simp [resolveRule, cascRule, keep1, appended, addRule, run, ins, isImp]
end

/ -- wherever the specification has a value, `resolveImports` returns it, with the same fetcher calls - /
theorem resolveImports_eq_flatSpec (vfs : Vfs) (who : Who) (href : Str) (sheet out : Sheet)
    (h : (flatSpec vfs who href sheet).val = .ok out) :
    resolveImports vfs who href sheet = flatSpec vfs who href sheet := by
  unfold flatSpec at h ⊢
  cases hc : (cascRules vfs who href sheet).val with
  | error e => simp [hc] at h
  | ok c =>
    simp only [hc]
    rw [resolveImports, resolveRules_casc vfs who sheet href [] c hc, run_nil_eq_hoist]

-/

/-! ### what hoisting keeps: both orders, and nothing else -/

theorem split_imports (l : List Rule) :
    (l.filter isImp ++ l.filter (fun r => !isImp r)).filter isImp = l.filter isImp := by
  simp [List.filter_append, List.filter_filter]

theorem split_others (l : List Rule) :
    (l.filter isImp ++ l.filter (fun r => !isImp r)).filter (fun r => !isImp r) = l.filter (fun r => !isImp r) := by
  simp [List.filter_append, List.filter_filter]

theorem split_mem (l : List Rule) (r : Rule) : r ∈ l.filter isImp ++ l.filter (fun r => !isImp r) ↔ r ∈ l := by
  cases h : isImp r <;> simp [List.mem_filter, h]

theorem split_length (l : List Rule) : (l.filter isImp ++ l.filter (fun r => !isImp r)).length = l.length := by
  induction l with
  | nil => rfl
  | cons a as ih => cases ha : isImp a <;> simp [ha] at ih ⊢ <;> omega

theorem hoist_cases (c : List Rule) :
    (∃ x rest, c = x :: rest ∧ isImp x = false ∧
      hoist c = x :: (rest.filter isImp ++ rest.filter (fun r => !isImp r))) ∨
    hoist c = c.filter isImp ++ c.filter (fun r => !isImp r) := by
  cases c with
  | nil => right; rfl
  | cons r rs =>
    cases r with
    | comment x => left; exact ⟨_, _, rfl, rfl, rfl⟩
    | charset x => left; exact ⟨_, _, rfl, rfl, rfl⟩
    | imp a b c d e => right; rfl
    | ns a b => right; rfl
    | style a b => right; rfl
    | media a b => right; rfl
    | page a b c => right; rfl
    | fontface a => right; rfl
    | unknown a => right; rfl

theorem hoist_imports (c : List Rule) : (hoist c).filter isImp = c.filter isImp := by
  rcases hoist_cases c with ⟨x, rest, rfl, hx, e⟩ | e
  · rw [e]; simp only [List.filter_cons, hx]; simpa using split_imports rest
  · rw [e]; exact split_imports c

theorem hoist_others (c : List Rule) :
    (hoist c).filter (fun r => !isImp r) = c.filter (fun r => !isImp r) := by
  rcases hoist_cases c with ⟨x, rest, rfl, hx, e⟩ | e
  · rw [e]; simp only [List.filter_cons, hx]; simpa using split_others rest
  · rw [e]; exact split_others c

theorem hoist_mem (c : List Rule) (r : Rule) : r ∈ hoist c ↔ r ∈ c := by
  rcases hoist_cases c with ⟨x, rest, rfl, hx, e⟩ | e
  · rw [e]; simp only [List.mem_cons, split_mem]
  · rw [e]; exact split_mem c r

theorem hoist_length (c : List Rule) : (hoist c).length = c.length := by
  rcases hoist_cases c with ⟨x, rest, rfl, hx, e⟩ | e
  · rw [e]; simp only [List.length_cons, split_length]
  · rw [e]; exact split_length c

/-- without a kept @import nothing is moved -/
theorem hoist_noImp (c : List Rule) (h : ∀ r ∈ c, isImp r = false) : hoist c = c := by
  have e1 : c.filter isImp = [] := by simp [List.filter_eq_nil_iff]; intro r hr; simp [h r hr]
  have e2 : c.filter (fun r => !isImp r) = c := by simp [List.filter_eq_self]; intro r hr; simp [h r hr]
  cases c with
  | nil => rfl
  | cons x xs =>
    have e1' : xs.filter isImp = [] := by
      simp [List.filter_eq_nil_iff]; intro r hr; simp [h r (List.mem_cons_of_mem _ hr)]
    have e2' : xs.filter (fun r => !isImp r) = xs := by
      simp [List.filter_eq_self]; intro r hr; simp [h r (List.mem_cons_of_mem _ hr)]
    cases x <;> simp only [hoist, e1, e2, e1', e2', List.nil_append]

/- (parked, see above)
theorem isPlain_appended (r : Rule) : isPlain r = appended r := by cases r <;> rfl
theorem isPlain_notImp (r : Rule) (h : isPlain r = true) : isImp r = false := by cases r <;> simp_all [isPlain, isImp]

theorem keepAll_plain (vfs : Vfs) (who : Who) (th : Str) : ∀ X : List Rule, (∀ r ∈ X, isPlain r = true) →
    keepAll vfs who th X = ⟨.ok X, []⟩
  | [], _ => rfl
  | r :: rs, h => by
    have hr := h r (List.mem_cons_self ..)
    have ih := keepAll_plain vfs who th rs (fun x hx => h x (List.mem_cons_of_mem _ hx))
    cases r <;> simp [isPlain] at hr <;> simp [keepAll, keep1, appended, ih]

/ -- the specification of the last round (`Flat`: every target available, every group wrappable) is the special case
of `cascRules` without kept imports and without fetcher calls - /
theorem cascRules_flat (vfs : Vfs) (who : Who) {rs out : Sheet} (h : Flat rs out) :
    ∀ th : Str, cascRules vfs who th rs = ⟨.ok out, []⟩ := by
  induction h with
  | nil => intro th; rfl
  | charset e _ ih => intro th; simp [cascRules, cascRule, ih th]
  | @plain r rs out hp _ ih =>
    intro th
    have : cascRule vfs who th r = ⟨.ok [r], []⟩ := by
      cases r <;> simp [isPlain] at hp <;> simp [cascRule, keep1, appended]
    simp [cascRules, this, ih th]
  | @imp href media ihref sheet inner rebased rs out log hin hre hm _ ih1 ih2 =>
    intro th
    have hno : hoist inner = inner := hoist_noImp inner (fun r hr => isPlain_notImp r (hin.plain_out r hr))
    have hplain := replRules_plain _ inner rebased log hre hin.plain_out
    have : cascRule vfs who th (.imp href media true ihref sheet)
        = ⟨.ok (.comment (startComment href) :: wrapMedia media rebased), []⟩ := by
      simp only [cascRule, ih1 ihref, hno, hre]
      by_cases hma : media = mediaAll
      · simp [hma, wrapMedia, keepAll_plain vfs who th rebased hplain]
      · have hw := hm.resolve_left hma
        simp [hma, wrapMedia, wrappable_combinable rebased hw]
    simp [cascRules, this, ih2 th]

/ -! ### the unconditional form: on every tree without an @namespace rule `resolveImports` IS `flatSpec` —
value, exception and fetcher calls - /

/ -- the result through a function, exception and fetcher calls as they are - /
def Res.mapOk {α β : Type} (r : Res α) (f : α → β) : Res β :=
  ⟨match r.val with
    | .ok a => .ok (f a)
    | .error e => .error e, r.log⟩

/ -! `noNsL`: no @namespace rule in the sheet nor in a sheet loaded for one of its @imports (at any depth) - /
mutual
def noNsR : Rule → Bool
  | .ns .. => false
  | .imp _ _ _ _ sheet => noNsL sheet
  | _ => true
def noNsL : List Rule → Bool
  | [] => true
  | r :: rs => noNsR r && noNsL rs
end

/ -- what the groups consist of: @imports and rules that `add` appends - /
def okKind (r : Rule) : Bool := isImp r || appended r

theorem okKind_tag (r : Rule) :
    okKind r = (r.tag = 2 || r.tag = 1 || r.tag = 4 || r.tag = 5 || r.tag = 6 || r.tag = 7 || r.tag = 8) := by
  cases r <;> simp [okKind, isImp, appended, Rule.tag]

theorem keep1_kind (vfs : Vfs) (who : Who) (th : Str) (r x : Rule) (h : (keep1 vfs who th r).val = .ok x) :
    okKind x = true := by
  cases r with
  | imp href media found a b =>
    cases found with
    | true => simp [keep1] at h; subst h; rfl
    | false =>
      simp only [keep1] at h
      simp [okKind, setHref_isImp vfs who _ _ _ _ x h]
  | charset e => simp [keep1, appended] at h
  | ns a b => simp [keep1, appended] at h
  | comment a => simp [keep1, appended] at h; subst h; rfl
  | style a b => simp [keep1, appended] at h; subst h; rfl
  | media a b => simp [keep1, appended] at h; subst h; rfl
  | page a b c => simp [keep1, appended] at h; subst h; rfl
  | fontface a => simp [keep1, appended] at h; subst h; rfl
  | unknown a => simp [keep1, appended] at h; subst h; rfl

theorem keepAll_kind (vfs : Vfs) (who : Who) (th : Str) : ∀ (X m : List Rule),
    (keepAll vfs who th X).val = .ok m → ∀ x ∈ m, okKind x = true
  | [], m, h => by simp [keepAll] at h; subst h; simp
  | r :: rs, m, h => by
    simp only [keepAll] at h
    cases ha : (keep1 vfs who th r).val with
    | error e => simp [ha] at h
    | ok x =>
      simp only [ha] at h
      cases hb : (keepAll vfs who th rs).val with
      | error e => simp [hb] at h
      | ok xs =>
        simp only [hb] at h
        simp at h; subst h
        intro y hy
        rcases List.mem_cons.mp hy with rfl | hy
        · exact keep1_kind vfs who th r _ ha
        · exact keepAll_kind vfs who th rs xs hb y hy

mutual
theorem cascRules_kind (vfs : Vfs) (who : Who) : ∀ (rs : List Rule) (th : Str) (c : List Rule),
    (cascRules vfs who th rs).val = .ok c → ∀ x ∈ c, okKind x = true
  | [], th, c, h => by simp [cascRules] at h; subst h; simp
  | r :: rs, th, c, h => by
    simp only [cascRules] at h
    cases ha : (cascRule vfs who th r).val with
    | error e => simp [ha] at h
    | ok c1 =>
      simp only [ha] at h
      cases hb : (cascRules vfs who th rs).val with
      | error e => simp [hb] at h
      | ok c2 =>
        simp only [hb] at h
        simp at h; subst h
        intro y hy
        rcases List.mem_append.mp hy with hy | hy
        · exact cascRule_kind vfs who r th c1 ha y hy
        · exact cascRules_kind vfs who rs th c2 hb y hy
theorem cascRule_kind (vfs : Vfs) (who : Who) : ∀ (r : Rule) (th : Str) (c : List Rule),
    (cascRule vfs who th r).val = .ok c → ∀ x ∈ c, okKind x = true
  | .charset _, th, c, h => by simp [cascRule] at h; subst h; simp
  | .imp href media true ihref sheet, th, c, h => by
    simp only [cascRule] at h
    cases hi : (cascRules vfs who ihref sheet).val with
    | error e => simp [hi] at h
    | ok ci =>
      simp only [hi] at h
      cases hre : replRules (replacer href) (hoist ci) with
      | error e => simp [hre] at h
      | ok rebased =>
        simp only [hre] at h
        by_cases hma : media = mediaAll
        · simp only [hma, ↓reduceIte] at h
          cases hk : (keepAll vfs who th rebased.1).val with
          | error e => simp [hk] at h
          | ok m =>
            simp only [hk] at h
            simp at h; subst h
            intro y hy
            rcases List.mem_cons.mp hy with rfl | hy
            · rfl
            · exact keepAll_kind vfs who th _ m hk y hy
        · simp only [hma, ↓reduceIte] at h
          by_cases hall : rebased.1.all combinable = true
          · simp only [hall, ↓reduceIte] at h
            simp at h; subst h
            intro y hy; simp at hy; rcases hy with rfl | rfl <;> rfl
          · have hall' : rebased.1.all combinable = false := by
              cases hb : rebased.1.all combinable with
              | true => exact absurd hb hall
              | false => rfl
            simp only [hall', Bool.false_eq_true, ↓reduceIte] at h
            simp at h; subst h
            intro y hy; simp at hy; rcases hy with rfl | rfl <;> rfl
  | .imp href media false ihref sheet, th, c, h => by
    simp only [cascRule] at h
    cases ha : (keep1 vfs who th (.imp href media false ihref sheet)).val with
    | error e => simp [ha] at h
    | ok x =>
      simp only [ha] at h
      simp at h; subst h
      intro y hy; simp at hy; subst hy
      exact keep1_kind vfs who th _ _ ha
  | .comment a, th, c, h => by
    simp [cascRule, keep1, appended] at h; subst h; intro y hy; simp at hy; subst hy; rfl
  | .ns a b, th, c, h => by simp [cascRule, keep1, appended] at h
  | .style a b, th, c, h => by
    simp [cascRule, keep1, appended] at h; subst h; intro y hy; simp at hy; subst hy; rfl
  | .media a b, th, c, h => by
    simp [cascRule, keep1, appended] at h; subst h; intro y hy; simp at hy; subst hy; rfl
  | .page a b d, th, c, h => by
    simp [cascRule, keep1, appended] at h; subst h; intro y hy; simp at hy; subst hy; rfl
  | .fontface a, th, c, h => by
    simp [cascRule, keep1, appended] at h; subst h; intro y hy; simp at hy; subst hy; rfl
  | .unknown a, th, c, h => by
    simp [cascRule, keep1, appended] at h; subst h; intro y hy; simp at hy; subst hy; rfl
end

theorem addRule_keep1_full (vfs : Vfs) (who : Who) (th : Str) (t : Sheet) (r : Rule) (hk : okKind r = true) :
    addRule vfs who th t r = (keep1 vfs who th r).mapOk (ins t) := by
  cases hv : (keep1 vfs who th r).val with
  | ok x =>
    rw [addRule_keep1 vfs who th t r x hv]
    simp [Res.mapOk, hv]
  | error e =>
    cases r with
    | imp href media found a b =>
      cases found with
      | true => simp [keep1] at hv
      | false =>
        simp only [keep1] at hv
        simp [addRule, keep1, Res.mapOk, hv]
    | charset e => simp [okKind, isImp, appended] at hk
    | ns a b => simp [okKind, isImp, appended] at hk
    | comment a => simp [keep1, appended] at hv
    | style a b => simp [keep1, appended] at hv
    | media a b => simp [keep1, appended] at hv
    | page a b c => simp [keep1, appended] at hv
    | fontface a => simp [keep1, appended] at hv
    | unknown a => simp [keep1, appended] at hv

theorem addAll_keepAll_full (vfs : Vfs) (who : Who) (th : Str) : ∀ (X : List Rule) (t : Sheet),
    (∀ r ∈ X, okKind r = true) → addAll vfs who th t X = (keepAll vfs who th X).mapOk (run t)
  | [], t, _ => by simp [addAll, keepAll, Res.mapOk, run]
  | r :: rs, t, h => by
    have hr := h r (List.mem_cons_self ..)
    simp only [addAll, keepAll, addRule_keep1_full vfs who th t r hr]
    cases ha : (keep1 vfs who th r).val with
    | error e => simp [Res.mapOk, ha]
    | ok x =>
      have ih := addAll_keepAll_full vfs who th rs (ins t x) (fun d hd => h d (List.mem_cons_of_mem _ hd))
      simp only [Res.mapOk, ha, ih]
      cases hb : (keepAll vfs who th rs).val with
      | error e => simp
      | ok xs => simp [run]

theorem noNsL_cons (r : Rule) (rs : List Rule) : noNsL (r :: rs) = (noNsR r && noNsL rs) := by
  simp [noNsL]

mutual
theorem resolveRules_casc_full (vfs : Vfs) (who : Who) : ∀ (rs : List Rule) (th : Str) (t : Sheet),
    noNsL rs = true → resolveRules vfs who th t rs = (cascRules vfs who th rs).mapOk (run t)
  | [], th, t, _ => by simp [resolveRules, cascRules, Res.mapOk, run]
  | r :: rs, th, t, h => by
    rw [noNsL_cons, Bool.and_eq_true] at h
    simp only [resolveRules, cascRules, resolveRule_casc_full vfs who r th t h.1]
    cases ha : (cascRule vfs who th r).val with
    | error e => simp [Res.mapOk, ha]
    | ok c1 =>
      simp only [Res.mapOk, ha, resolveRules_casc_full vfs who rs th (run t c1) h.2]
      cases hb : (cascRules vfs who th rs).val with
      | error e => simp
      | ok c2 => simp [run_append]
theorem resolveRule_casc_full (vfs : Vfs) (who : Who) : ∀ (r : Rule) (th : Str) (t : Sheet),
    noNsR r = true → resolveRule vfs who th t r = (cascRule vfs who th r).mapOk (run t)
  | .charset _, th, t, _ => by simp [resolveRule, cascRule, Res.mapOk, run]
  | .imp href media true ihref sheet, th, t, h => by
    have hs : noNsL sheet = true := by simpa [noNsR] using h
    have ih := resolveRules_casc_full vfs who sheet ihref [] hs
    simp only [resolveRule, cascRule, Bool.true_eq_false, ↓reduceIte,
      addRule_plain vfs who th t (.comment (startComment href)) rfl, ih]
    cases hi : (cascRules vfs who ihref sheet).val with
    | error e =>
      have hne : e ≠ .hierarchyRequestErr := by
        intro he; subst he
        have := resolveRules_ne_hier vfs who sheet ihref []
        rw [ih] at this
        simp [Res.mapOk, hi] at this
      cases e <;> simp_all [Res.mapOk]
    | ok ci =>
      have hkinds := cascRules_kind vfs who sheet ihref ci hi
      simp only [Res.mapOk, hi, run_nil_eq_hoist, replaceUrls, ↓reduceIte]
      cases hre : replRules (replacer href) (hoist ci) with
      | error e => simp
      | ok rebased =>
        have hk : ∀ r ∈ rebased.1, okKind r = true :=
          all_of_tags okKind (fun n => n = 2 || n = 1 || n = 4 || n = 5 || n = 6 || n = 7 || n = 8) okKind_tag
            (hoist ci) rebased.1 (replRules_tags _ _ rebased.1 rebased.2 hre)
            (fun r hr => hkinds r ((hoist_mem ci r).mp hr))
        simp only [List.nil_append]
        by_cases hma : media = mediaAll
        · simp only [hma, ↓reduceIte, addAll_keepAll_full vfs who th rebased.1 _ hk, Res.mapOk]
          cases hkv : (keepAll vfs who th rebased.1).val with
          | error e => simp
          | ok m => simp [run_cons, ins_comment]
        · simp only [hma, ↓reduceIte]
          by_cases hall : rebased.1.all combinable = true
          · simp [hall, proxyAddAll_combinable _ _ hall, addRule, run, ins, isImp]
          · have hall' : rebased.1.all combinable = false := by
              cases hb : rebased.1.all combinable with
              | true => exact absurd hb hall
              | false => rfl
            have hk1 : (keep1 vfs who th (.imp href media true ihref sheet)).val
                = .ok (.imp href media true ihref sheet) := rfl
            simp [hall', addRule_keep1 vfs who th _ _ _ hk1, run, ins_comment, keep1]
  | .imp href media false ihref sheet, th, t, _ => by
    simp only [resolveRule, cascRule, ↓reduceIte]
    rw [addRule_keep1_full vfs who th t _ rfl]
    cases ha : (keep1 vfs who th (.imp href media false ihref sheet)).val <;> simp [Res.mapOk, ha, run]
  | .comment a, th, t, _ => by simp [resolveRule, cascRule, keep1, appended, addRule, Res.mapOk, run, ins, isImp]
  | .ns a b, th, t, h => by simp [noNsR] at h
  | .style a b, th, t, _ => by simp [resolveRule, cascRule, keep1, appended, addRule, Res.mapOk, run, ins, isImp]
  | .media a b, th, t, _ => by simp [resolveRule, cascRule, keep1, appended, addRule, Res.mapOk, run, ins, isImp]
  | .page a b d, th, t, _ => by simp [resolveRule, cascRule, keep1, appended, addRule, Res.mapOk, run, ins, isImp]
  | .fontface a, th, t, _ => by simp [resolveRule, cascRule, keep1, appended, addRule, Res.mapOk, run, ins, isImp]
  | .unknown a, th, t, _ => by simp [resolveRule, cascRule, keep1, appended, addRule, Res.mapOk, run, ins, isImp]
end

/ -- for EVERY import tree without @namespace rules: `resolveImports` is the specification - /
theorem resolveImports_eq_flatSpec_full (vfs : Vfs) (who : Who) (href : Str) (sheet : Sheet)
    (h : noNsL sheet = true) : resolveImports vfs who href sheet = flatSpec vfs who href sheet := by
  rw [resolveImports, resolveRules_casc_full vfs who sheet href [] h]
  unfold flatSpec Res.mapOk
  cases hc : (cascRules vfs who href sheet).val with
  | error e => simp [hc]
  | ok c => simp [hc, run_nil_eq_hoist]

/ -! ### fetching: when every target was found, flattening calls no fetcher — also with @imports that are kept
because they cannot be wrapped - /

/ -! `allFoundL`: the target of every @import, at any depth, was found - /
mutual
def allFoundR : Rule → Bool
  | .imp _ _ found _ sheet => found && allFoundL sheet
  | _ => true
def allFoundL : List Rule → Bool
  | [] => true
  | r :: rs => allFoundR r && allFoundL rs
end

/ -- not an @import whose target was not found - /
def foundImp : Rule → Bool
  | .imp _ _ f _ _ => f
  | _ => true

theorem foundImp_of_tag (r : Rule) (h : r.tag ≠ 2) : foundImp r = true := by
  cases r <;> simp_all [foundImp, Rule.tag]

theorem replRule_foundImp (f : Repl) (r r' : Rule) (lg : List Str) (h : replRule f r = .ok (r', lg))
    (hf : foundImp r = true) : foundImp r' = true := by
  have ht := replRule_tag f r r' lg h
  cases r with
  | imp a b c d e => simp [replRule] at h; obtain ⟨rfl, _⟩ := h; exact hf
  | charset _ => exact foundImp_of_tag r' (by rw [ht]; simp [Rule.tag])
  | comment _ => exact foundImp_of_tag r' (by rw [ht]; simp [Rule.tag])
  | ns _ _ => exact foundImp_of_tag r' (by rw [ht]; simp [Rule.tag])
  | style _ _ => exact foundImp_of_tag r' (by rw [ht]; simp [Rule.tag])
  | media _ _ => exact foundImp_of_tag r' (by rw [ht]; simp [Rule.tag])
  | page _ _ _ => exact foundImp_of_tag r' (by rw [ht]; simp [Rule.tag])
  | fontface _ => exact foundImp_of_tag r' (by rw [ht]; simp [Rule.tag])
  | unknown _ => exact foundImp_of_tag r' (by rw [ht]; simp [Rule.tag])

theorem replRules_foundImp (f : Repl) : ∀ (rs rs' : List Rule) (log : List Str),
    replRules f rs = .ok (rs', log) → (∀ r ∈ rs, foundImp r = true) → ∀ r ∈ rs', foundImp r = true
  | [], rs', log, h, _ => by simp [replRules] at h; rw [h.1]; simp
  | r :: rs, rs', log, h, hf => by
    simp only [replRules] at h
    split at h
    · simp at h
    · rename_i a ha
      split at h
      · simp at h
      · rename_i b hb
        simp at h
        obtain ⟨rfl, _⟩ := h
        intro x hx
        rcases List.mem_cons.mp hx with rfl | hx
        · exact replRule_foundImp f r a.1 a.2 ha (hf r (List.mem_cons_self ..))
        · exact replRules_foundImp f rs b.1 b.2 hb (fun y hy => hf y (List.mem_cons_of_mem _ hy)) x hx

theorem keep1_found (vfs : Vfs) (who : Who) (th : Str) (r : Rule) (hf : foundImp r = true) :
    (keep1 vfs who th r).log = [] ∧ ∀ x, (keep1 vfs who th r).val = .ok x → x = r := by
  cases r with
  | imp a b found d e =>
    cases found with
    | true => simp [keep1]
    | false => simp [foundImp] at hf
  | charset _ => simp [keep1, appended]
  | ns _ _ => simp [keep1, appended]
  | comment _ => simp [keep1, appended]
  | style _ _ => simp [keep1, appended]
  | media _ _ => simp [keep1, appended]
  | page _ _ _ => simp [keep1, appended]
  | fontface _ => simp [keep1, appended]
  | unknown _ => simp [keep1, appended]

theorem keepAll_found (vfs : Vfs) (who : Who) (th : Str) : ∀ X : List Rule, (∀ r ∈ X, foundImp r = true) →
    (keepAll vfs who th X).log = [] ∧ ∀ m, (keepAll vfs who th X).val = .ok m → m = X
  | [], _ => by simp [keepAll]
  | r :: rs, h => by
    obtain ⟨l1, v1⟩ := keep1_found vfs who th r (h r (List.mem_cons_self ..))
    obtain ⟨l2, v2⟩ := keepAll_found vfs who th rs (fun x hx => h x (List.mem_cons_of_mem _ hx))
    simp only [keepAll]
    cases ha : (keep1 vfs who th r).val with
    | error e => simp [l1]
    | ok x =>
      have := v1 x ha; subst this
      cases hb : (keepAll vfs who th rs).val with
      | error e => simp [l1, l2]
      | ok xs =>
        have := v2 xs hb; subst this
        simp [l1, l2]

theorem allFoundL_cons (r : Rule) (rs : List Rule) : allFoundL (r :: rs) = (allFoundR r && allFoundL rs) := by
  simp [allFoundL]

mutual
theorem cascRules_found (vfs : Vfs) (who : Who) : ∀ (rs : List Rule) (th : Str), allFoundL rs = true →
    (cascRules vfs who th rs).log = [] ∧ ∀ c, (cascRules vfs who th rs).val = .ok c → ∀ x ∈ c, foundImp x = true
  | [], th, _ => by simp [cascRules]
  | r :: rs, th, h => by
    rw [allFoundL_cons, Bool.and_eq_true] at h
    obtain ⟨l1, v1⟩ := cascRule_found vfs who r th h.1
    obtain ⟨l2, v2⟩ := cascRules_found vfs who rs th h.2
    simp only [cascRules]
    cases ha : (cascRule vfs who th r).val with
    | error e => simp [l1]
    | ok c1 =>
      cases hb : (cascRules vfs who th rs).val with
      | error e => simp [l1, l2]
      | ok c2 =>
        simp only [l1, l2, List.append_nil, true_and]
        intro c hc; simp at hc; subst hc
        intro x hx
        rcases List.mem_append.mp hx with hx | hx
        · exact v1 c1 ha x hx
        · exact v2 c2 hb x hx
theorem cascRule_found (vfs : Vfs) (who : Who) : ∀ (r : Rule) (th : Str), allFoundR r = true →
    (cascRule vfs who th r).log = [] ∧ ∀ c, (cascRule vfs who th r).val = .ok c → ∀ x ∈ c, foundImp x = true
  | .charset _, th, _ => by simp [cascRule]
  | .imp href media true ihref sheet, th, h => by
    have hs : allFoundL sheet = true := by simpa [allFoundR] using h
    obtain ⟨l1, v1⟩ := cascRules_found vfs who sheet ihref hs
    simp only [cascRule]
    cases hi : (cascRules vfs who ihref sheet).val with
    | error e => simp [l1]
    | ok ci =>
      simp only []
      cases hre : replRules (replacer href) (hoist ci) with
      | error e => simp [l1]
      | ok rebased =>
        have hfr : ∀ r ∈ rebased.1, foundImp r = true :=
          replRules_foundImp _ (hoist ci) rebased.1 rebased.2 hre
            (fun r hr => v1 ci hi r ((hoist_mem ci r).mp hr))
        obtain ⟨l2, v2⟩ := keepAll_found vfs who th rebased.1 hfr
        simp only []
        by_cases hma : media = mediaAll
        · simp only [hma, ↓reduceIte]
          cases hk : (keepAll vfs who th rebased.1).val with
          | error e => simp [l1, l2]
          | ok m =>
            have := v2 m hk; subst this
            simp only [l1, l2, List.append_nil, true_and]
            intro c hc; simp at hc; subst hc
            intro x hx
            rcases List.mem_cons.mp hx with rfl | hx
            · rfl
            · exact hfr x hx
        · simp only [hma, ↓reduceIte]
          by_cases hall : rebased.1.all combinable = true
          · simp only [hall, ↓reduceIte, l1, true_and]
            intro c hc; simp at hc; subst hc
            intro x hx; simp at hx; rcases hx with rfl | rfl <;> rfl
          · have hall' : rebased.1.all combinable = false := by
              cases hb : rebased.1.all combinable with
              | true => exact absurd hb hall
              | false => rfl
            simp only [hall', Bool.false_eq_true, ↓reduceIte, l1, true_and]
            intro c hc; simp at hc; subst hc
            intro x hx; simp at hx; rcases hx with rfl | rfl <;> rfl
  | .imp href media false ihref sheet, th, h => by simp [allFoundR] at h
  | .comment a, th, _ => by simp [cascRule, keep1, appended, foundImp]
  | .ns a b, th, _ => by simp [cascRule, keep1, appended]
  | .style a b, th, _ => by simp [cascRule, keep1, appended, foundImp]
  | .media a b, th, _ => by simp [cascRule, keep1, appended, foundImp]
  | .page a b d, th, _ => by simp [cascRule, keep1, appended, foundImp]
  | .fontface a, th, _ => by simp [cascRule, keep1, appended, foundImp]
  | .unknown a, th, _ => by simp [cascRule, keep1, appended, foundImp]
end

/ -- re-basing leaves the @import rules of a sheet as they are (C19-kept-import-not-rebased in general) - /
theorem replRules_keeps_imports (f : Repl) : ∀ (rs rs' : List Rule) (log : List Str),
    replRules f rs = .ok (rs', log) → rs'.filter isImp = rs.filter isImp
  | [], rs', log, h => by simp [replRules] at h; simp [h.1.symm]
  | r :: rs, rs', log, h => by
    simp only [replRules] at h
    split at h
    · simp at h
    · rename_i a ha
      split at h
      · simp at h
      · rename_i b hb
        simp at h
        obtain ⟨rfl, _⟩ := h
        have ih := replRules_keeps_imports f rs b.1 b.2 hb
        have ht := replRule_tag f r a.1 a.2 ha
        cases r with
        | imp p q u v w => simp [replRule] at ha; subst ha; simp [List.filter_cons, isImp, ih]
        | charset _ => cases h1 : a.1 <;> simp_all [isImp, Rule.tag]
        | comment _ => cases h1 : a.1 <;> simp_all [isImp, Rule.tag]
        | ns _ _ => cases h1 : a.1 <;> simp_all [isImp, Rule.tag]
        | style _ _ => cases h1 : a.1 <;> simp_all [isImp, Rule.tag]
        | media _ _ => cases h1 : a.1 <;> simp_all [isImp, Rule.tag]
        | page _ _ _ => cases h1 : a.1 <;> simp_all [isImp, Rule.tag]
        | fontface _ => cases h1 : a.1 <;> simp_all [isImp, Rule.tag]
        | unknown _ => cases h1 : a.1 <;> simp_all [isImp, Rule.tag]

/ -! ### cascade order at every depth: the rules of the flattened sheet that are not @imports are the depth-first
traversal `bodyRules` — a definition without file system, fetcher, insertion positions or hoisting - /

-/

def notImp (r : Rule) : Bool := !isImp r

/- (parked, see above)

mutual
/ -- the rules a sheet stands for in cascade order, and whether an @import has to be kept - /
def bodyRules : List Rule → Except Err (List Rule × Bool)
  | [] => .ok ([], false)
  | r :: rs =>
    match bodyRule r with
    | .error e => .error e
    | .ok a =>
      match bodyRules rs with
      | .error e => .error e
      | .ok b => .ok (a.1 ++ b.1, a.2 || b.2)
def bodyRule : Rule → Except Err (List Rule × Bool)
  | .charset _ => .ok ([], false)
  | .ns .. => .error .unsupported
  | .imp _ _ false _ _ => .ok ([], true)                       -- target not found: the @import stays
  | .imp href media true _ sheet =>
    match bodyRules sheet with
    | .error e => .error e
    | .ok i =>
      match replRules (replacer href) i.1 with                 -- re-based against the @import's href
      | .error e => .error e
      | .ok rb =>
        if media = mediaAll then .ok (.comment (startComment href) :: rb.1, i.2)
        else if !i.2 && rb.1.all combinable then .ok ([.comment (startComment href), .media media rb.1], false)
        else .ok ([.comment (startComment href)], true)        -- cannot be wrapped: the @import stays
  | r => .ok ([r], false)
end

theorem replRule_notImp (f : Repl) (r r' : Rule) (lg : List Str) (h : replRule f r = .ok (r', lg)) :
    isImp r' = isImp r := by
  have ht := replRule_tag f r r' lg h
  have e : ∀ x : Rule, isImp x = decide (x.tag = 2) := by intro x; cases x <;> simp [isImp, Rule.tag]
  rw [e, e, ht]

/ -- re-basing commutes with leaving out the @import rules - /
theorem replRules_filter (f : Repl) : ∀ (l l' : List Rule) (lg : List Str), replRules f l = .ok (l', lg) →
    ∃ lg', replRules f (l.filter notImp) = .ok (l'.filter notImp, lg')
  | [], l', lg, h => by simp [replRules] at h; rw [h.1]; exact ⟨[], rfl⟩
  | r :: rs, l', lg, h => by
    simp only [replRules] at h
    split at h
    · simp at h
    · rename_i a ha
      split at h
      · simp at h
      · rename_i b hb
        simp at h
        obtain ⟨rfl, _⟩ := h
        obtain ⟨lg', ih⟩ := replRules_filter f rs b.1 b.2 hb
        have hk := replRule_notImp f r a.1 a.2 ha
        cases hr : isImp r with
        | true =>
          refine ⟨lg', ?_⟩
          simp [List.filter_cons, notImp, hr, hk, ih]
        | false =>
          refine ⟨a.2 ++ lg', ?_⟩
          simp [List.filter_cons, notImp, hr, hk, replRules, ha, ih]

theorem replRules_anyImp (f : Repl) (l l' : List Rule) (lg : List Str) (h : replRules f l = .ok (l', lg)) :
    l'.any isImp = l.any isImp := by
  have ht := replRules_tags f l l' lg h
  have key : ∀ m : List Rule, m.any isImp = (m.map Rule.tag).any (fun n => decide (n = 2)) := by
    intro m
    rw [List.any_map]
    congr 1
    funext x
    cases x <;> simp [isImp, Rule.tag]
  rw [key, key, ht]

theorem keep1_isImp (vfs : Vfs) (who : Who) (th : Str) (r x : Rule) (h : (keep1 vfs who th r).val = .ok x) :
    isImp x = isImp r ∧ (isImp r = false → x = r) := by
  cases r with
  | imp href media found a b =>
    cases found with
    | true => simp [keep1] at h; subst h; simp
    | false =>
      simp only [keep1] at h
      have hx := setHref_isImp vfs who _ _ _ _ x h
      exact ⟨by rw [hx]; rfl, by intro h0; simp [isImp] at h0⟩
  | charset e => simp [keep1, appended] at h
  | ns a b => simp [keep1, appended] at h
  | comment a => simp [keep1, appended] at h; subst h; simp
  | style a b => simp [keep1, appended] at h; subst h; simp
  | media a b => simp [keep1, appended] at h; subst h; simp
  | page a b c => simp [keep1, appended] at h; subst h; simp
  | fontface a => simp [keep1, appended] at h; subst h; simp
  | unknown a => simp [keep1, appended] at h; subst h; simp

theorem keepAll_proj (vfs : Vfs) (who : Who) (th : Str) : ∀ (X m : List Rule),
    (keepAll vfs who th X).val = .ok m → m.filter notImp = X.filter notImp ∧ m.any isImp = X.any isImp
  | [], m, h => by simp [keepAll] at h; subst h; simp
  | r :: rs, m, h => by
    simp only [keepAll] at h
    cases ha : (keep1 vfs who th r).val with
    | error e => simp [ha] at h
    | ok x =>
      simp only [ha] at h
      cases hb : (keepAll vfs who th rs).val with
      | error e => simp [hb] at h
      | ok xs =>
        simp only [hb] at h
        simp at h; subst h
        obtain ⟨i1, i2⟩ := keepAll_proj vfs who th rs xs hb
        obtain ⟨k1, k2⟩ := keep1_isImp vfs who th r x ha
        cases hr : isImp r with
        | true => simp [List.filter_cons, notImp, k1, hr, i1, i2]
        | false => simp [List.filter_cons, notImp, k1, hr, i1, i2, k2 hr]

theorem any_isImp_hoist (c : List Rule) : (hoist c).any isImp = c.any isImp := by
  cases h : c.any isImp with
  | true =>
    obtain ⟨x, hx, hi⟩ := List.any_eq_true.mp h
    exact List.any_eq_true.mpr ⟨x, (hoist_mem c x).mpr hx, hi⟩
  | false =>
    cases h2 : (hoist c).any isImp with
    | false => rfl
    | true =>
      obtain ⟨x, hx, hi⟩ := List.any_eq_true.mp h2
      have : c.any isImp = true := List.any_eq_true.mpr ⟨x, (hoist_mem c x).mp hx, hi⟩
      simp [this] at h

theorem filter_notImp_self (l : List Rule) (h : l.any isImp = false) : l.filter notImp = l := by
  simp only [List.filter_eq_self, notImp]
  intro r hr
  cases hi : isImp r with
  | false => rfl
  | true => have : l.any isImp = true := List.any_eq_true.mpr ⟨r, hr, hi⟩; simp [this] at h

theorem combinable_notImp (l : List Rule) (h : l.all combinable = true) : l.any isImp = false := by
  cases h2 : l.any isImp with
  | false => rfl
  | true =>
    obtain ⟨x, hx, hi⟩ := List.any_eq_true.mp h2
    have := List.all_eq_true.mp h x hx
    cases x <;> simp_all [isImp, combinable]

mutual
theorem cascRules_body (vfs : Vfs) (who : Who) : ∀ (rs : List Rule) (th : Str) (c : List Rule),
    (cascRules vfs who th rs).val = .ok c → bodyRules rs = .ok (c.filter notImp, c.any isImp)
  | [], th, c, h => by simp [cascRules] at h; subst h; simp [bodyRules]
  | r :: rs, th, c, h => by
    simp only [cascRules] at h
    cases ha : (cascRule vfs who th r).val with
    | error e => simp [ha] at h
    | ok c1 =>
      simp only [ha] at h
      cases hb : (cascRules vfs who th rs).val with
      | error e => simp [hb] at h
      | ok c2 =>
        simp only [hb] at h
        simp at h; subst h
        simp [bodyRules, cascRule_body vfs who r th c1 ha, cascRules_body vfs who rs th c2 hb]
theorem cascRule_body (vfs : Vfs) (who : Who) : ∀ (r : Rule) (th : Str) (c : List Rule),
    (cascRule vfs who th r).val = .ok c → bodyRule r = .ok (c.filter notImp, c.any isImp)
  | .charset _, th, c, h => by simp [cascRule] at h; subst h; simp [bodyRule]
  | .imp href media true ihref sheet, th, c, h => by
    simp only [cascRule] at h
    cases hi : (cascRules vfs who ihref sheet).val with
    | error e => simp [hi] at h
    | ok ci =>
      have ih := cascRules_body vfs who sheet ihref ci hi
      simp only [hi] at h
      cases hre : replRules (replacer href) (hoist ci) with
      | error e => simp [hre] at h
      | ok rebased =>
        simp only [hre] at h
        obtain ⟨lg', hf⟩ := replRules_filter _ (hoist ci) rebased.1 rebased.2 hre
        have hoth : (hoist ci).filter notImp = ci.filter notImp := hoist_others ci
        rw [hoth] at hf
        have hany : rebased.1.any isImp = ci.any isImp := by
          rw [replRules_anyImp _ (hoist ci) rebased.1 rebased.2 hre, any_isImp_hoist]
        simp only [bodyRule, ih, hf]
        by_cases hma : media = mediaAll
        · simp only [hma, ↓reduceIte] at h ⊢
          cases hk : (keepAll vfs who th rebased.1).val with
          | error e => simp [hk] at h
          | ok m =>
            simp only [hk] at h
            simp at h; subst h
            obtain ⟨p1, p2⟩ := keepAll_proj vfs who th rebased.1 m hk
            simp [List.filter_cons, notImp, isImp, p2, hany]
            exact p1.symm
        · simp only [hma, ↓reduceIte] at h ⊢
          by_cases hall : rebased.1.all combinable = true
          · simp only [hall, ↓reduceIte] at h
            simp at h; subst h
            have hno := combinable_notImp rebased.1 hall
            have hself := filter_notImp_self rebased.1 hno
            rw [hany] at hno
            simp [hno, hself, hall, List.filter_cons, notImp, isImp]
          · have hall' : rebased.1.all combinable = false := by
              cases hb : rebased.1.all combinable with
              | true => exact absurd hb hall
              | false => rfl
            simp only [hall', Bool.false_eq_true, ↓reduceIte] at h
            simp at h; subst h
            cases hk : ci.any isImp with
            | true => simp [List.filter_cons, notImp, isImp]
            | false =>
              have hself := filter_notImp_self rebased.1 (by rw [hany]; exact hk)
              simp [hself, hall', List.filter_cons, notImp, isImp]
  | .imp href media false ihref sheet, th, c, h => by
    simp only [cascRule] at h
    cases ha : (keep1 vfs who th (.imp href media false ihref sheet)).val with
    | error e => simp [ha] at h
    | ok x =>
      simp only [ha] at h
      simp at h; subst h
      have hx : isImp x = true := by rw [(keep1_isImp vfs who th _ x ha).1]; rfl
      simp [bodyRule, List.filter_cons, notImp, hx]
  | .comment a, th, c, h => by
    simp [cascRule, keep1, appended] at h; subst h; simp [bodyRule, List.filter_cons, notImp, isImp]
  | .ns a b, th, c, h => by simp [cascRule, keep1, appended] at h
  | .style a b, th, c, h => by
    simp [cascRule, keep1, appended] at h; subst h; simp [bodyRule, List.filter_cons, notImp, isImp]
  | .media a b, th, c, h => by
    simp [cascRule, keep1, appended] at h; subst h; simp [bodyRule, List.filter_cons, notImp, isImp]
  | .page a b d, th, c, h => by
    simp [cascRule, keep1, appended] at h; subst h; simp [bodyRule, List.filter_cons, notImp, isImp]
  | .fontface a, th, c, h => by
    simp [cascRule, keep1, appended] at h; subst h; simp [bodyRule, List.filter_cons, notImp, isImp]
  | .unknown a, th, c, h => by
    simp [cascRule, keep1, appended] at h; subst h; simp [bodyRule, List.filter_cons, notImp, isImp]
end

/ -! ### when hoisting changes anything: the region of C19-kept-import-hoisted as a decidable predicate - /

-/

/-- the kept @imports already stand in front of everything else -/
def importsFirst : List Rule → Bool
  | [] => true
  | r :: rs => if isImp r then importsFirst rs else rs.all notImp

/-- … behind at most one leading comment (or @charset) -/
def hoisted (c : List Rule) : Bool :=
  match c with
  | .comment _ :: rest => importsFirst rest
  | .charset _ :: rest => importsFirst rest
  | _ => importsFirst c

theorem split_eq_self_iff : ∀ l : List Rule,
    l.filter isImp ++ l.filter (fun r => !isImp r) = l ↔ importsFirst l = true
  | [] => by simp [importsFirst]
  | r :: rs => by
    cases hr : isImp r with
    | true =>
      simp only [List.filter_cons, hr, ↓reduceIte, Bool.not_true, Bool.false_eq_true, List.cons_append,
        List.cons.injEq, true_and, importsFirst]
      exact split_eq_self_iff rs
    | false =>
      simp only [List.filter_cons, hr, Bool.false_eq_true, ↓reduceIte, Bool.not_false, importsFirst]
      constructor
      · intro h
        have hnil : rs.filter isImp = [] := by
          cases hk : rs.filter isImp with
          | nil => rfl
          | cons x xs =>
            rw [hk] at h
            simp at h
            have hx : isImp x = true := by
              have : x ∈ rs.filter isImp := by rw [hk]; simp
              exact (List.mem_filter.mp this).2
            rw [h.1, hr] at hx
            simp at hx
        simp only [List.all_eq_true, notImp]
        intro x hx
        cases hi : isImp x with
        | false => rfl
        | true =>
          have : x ∈ rs.filter isImp := List.mem_filter.mpr ⟨hx, hi⟩
          rw [hnil] at this; simp at this
      · intro h
        have hall : ∀ x ∈ rs, isImp x = false := by
          intro x hx
          have := List.all_eq_true.mp h x hx
          simpa [notImp] using this
        have e1 : rs.filter isImp = [] := by
          simp only [List.filter_eq_nil_iff]; intro x hx; simp [hall x hx]
        have e2 : rs.filter (fun r => !isImp r) = rs := by
          simp only [List.filter_eq_self]; intro x hx; simp [hall x hx]
        simp [e1, e2]

/-- hoisting changes the list exactly when a rule other than one leading comment precedes a kept @import -/
theorem hoist_eq_self_iff (c : List Rule) : hoist c = c ↔ hoisted c = true := by
  cases c with
  | nil => simp [hoist, hoisted, importsFirst]
  | cons r rs =>
    cases r with
    | comment x => simp only [hoist, hoisted, List.cons.injEq, true_and]; exact split_eq_self_iff rs
    | charset x => simp only [hoist, hoisted, List.cons.injEq, true_and]; exact split_eq_self_iff rs
    | imp a b c d e => simp only [hoist, hoisted]; exact split_eq_self_iff _
    | ns a b => simp only [hoist, hoisted]; exact split_eq_self_iff _
    | style a b => simp only [hoist, hoisted]; exact split_eq_self_iff _
    | media a b => simp only [hoist, hoisted]; exact split_eq_self_iff _
    | page a b c => simp only [hoist, hoisted]; exact split_eq_self_iff _
    | fontface a => simp only [hoist, hoisted]; exact split_eq_self_iff _
    | unknown a => simp only [hoist, hoisted]; exact split_eq_self_iff _

end CssVerif.Urls
