import CssVerif.Model.Profiles
/-!
# Lemmas about the profile-registry model (K5, used by `Props/C14.lean`)

1. Python-dict laws (`dget`/`dset`/`dupdate`/`derase`).
2. Macro expansion depends on the macro dictionary only through look-ups (`expand*_congr`), and a successful
   expansion is unchanged by a larger dictionary (`expand*_mono`).
3. The invariant `Inv` and what each operation does to it.
-/
namespace CssVerif.Profiles

/-! ## 1. dictionaries -/

theorem dget_dset {α : Type} (d : Dict α) (k x : Str) (v : α) :
    dget (dset d k v) x = if k = x then some v else dget d x := by
  induction d with
  | nil => simp [dset, dget]
  | cons h t ih =>
    obtain ⟨k', v'⟩ := h
    by_cases hk : k' = k
    · subst hk
      by_cases hx : k' = x <;> simp [dset, dget, hx]
    · simp only [dset, hk, if_false, dget, ih]
      by_cases hx : k' = x
      · subst hx; simp [Ne.symm hk]
      · simp [hx]

theorem dget_dset_self {α : Type} (d : Dict α) (k : Str) (v : α) : dget (dset d k v) k = some v := by
  simp [dget_dset]

theorem dget_dset_ne {α : Type} (d : Dict α) (k x : Str) (v : α) (h : k ≠ x) :
    dget (dset d k v) x = dget d x := by
  simp [dget_dset, h]

theorem dkeys_dset {α : Type} (d : Dict α) (k : Str) (v : α) :
    dkeys (dset d k v) = if k ∈ dkeys d then dkeys d else dkeys d ++ [k] := by
  induction d with
  | nil => simp [dset, dkeys]
  | cons h t ih =>
    obtain ⟨k', v'⟩ := h
    by_cases hk : k' = k
    · subst hk; simp [dset, dkeys]
    · have ih' : List.map (fun x => x.fst) (dset t k v)
          = if k ∈ List.map (fun x => x.fst) t then List.map (fun x => x.fst) t
            else List.map (fun x => x.fst) t ++ [k] := ih
      simp only [dset, hk, if_false, dkeys, List.map_cons, List.mem_cons, ih']
      have : ¬ k = k' := fun h => hk h.symm
      simp only [this, false_or]
      split <;> simp

theorem dget_isSome_iff_mem_dkeys {α : Type} (d : Dict α) (k : Str) :
    (dget d k).isSome ↔ k ∈ dkeys d := by
  induction d with
  | nil => simp [dget, dkeys]
  | cons h t ih =>
    obtain ⟨k', v'⟩ := h
    by_cases hk : k' = k
    · subst hk; simp [dget, dkeys]
    · have : ¬ k = k' := fun h => hk h.symm
      simp only [dget, hk, if_false, ih, dkeys, List.map_cons, List.mem_cons, this, false_or]

theorem dget_none_iff_not_mem {α : Type} (d : Dict α) (k : Str) : dget d k = none ↔ k ∉ dkeys d := by
  rw [← dget_isSome_iff_mem_dkeys]; cases dget d k <;> simp

theorem dget_derase {α : Type} (d : Dict α) (k x : Str) :
    dget (derase d k) x = if x = k then none else dget d x := by
  induction d with
  | nil => simp [derase, dget]
  | cons h t ih =>
    obtain ⟨k', v'⟩ := h
    unfold derase at *
    by_cases hk : k' = k
    · subst hk
      simp only [ne_eq, not_true_eq_false, decide_false, Bool.false_eq_true, not_false_eq_true,
        List.filter_cons_of_neg, ih, dget]
      by_cases hx : x = k'
      · simp [hx]
      · have : ¬ k' = x := fun h => hx h.symm
        simp [hx, this]
    · have hd : decide (k' ≠ k) = true := by simp [hk]
      simp only [List.filter_cons, hd, if_true, dget, ih]
      by_cases hx : k' = x
      · subst hx; simp [hk]
      · simp [hx]

theorem dkeys_derase {α : Type} (d : Dict α) (k : Str) :
    dkeys (derase d k) = (dkeys d).filter (fun x => x ≠ k) := by
  unfold derase dkeys
  rw [List.filter_map]
  rfl

/-- two dictionaries with the same unique keys in the same order and the same look-ups are equal -/
theorem dict_ext {α : Type} (a b : Dict α) (hk : dkeys a = dkeys b) (hn : (dkeys a).Nodup)
    (hv : ∀ k ∈ dkeys a, dget a k = dget b k) : a = b := by
  induction a generalizing b with
  | nil => cases b with
    | nil => rfl
    | cons h t => simp [dkeys] at hk
  | cons h t ih =>
    cases b with
    | nil => simp [dkeys] at hk
    | cons h' t' =>
      obtain ⟨k, v⟩ := h
      obtain ⟨k', v'⟩ := h'
      simp only [dkeys, List.map_cons, List.cons.injEq] at hk
      obtain ⟨hkk, hkt⟩ := hk
      subst hkk
      have hn' : k ∉ dkeys t ∧ (dkeys t).Nodup := by
        simpa [dkeys] using hn
      have h1 := hv k (by simp [dkeys])
      simp only [dget, if_true, Option.some.injEq] at h1
      subst h1
      congr 1
      apply ih t' hkt hn'.2
      intro x hx
      have h2 := hv x (by simp only [dkeys, List.map_cons, List.mem_cons]; right; exact hx)
      have hne : ¬ k = x := fun h => hn'.1 (h ▸ hx)
      simpa [dget, hne] using h2

/-- look-up equivalence of macro dictionaries: all that the expansion can see -/
def SameEnv (a b : Dict Str) : Prop := ∀ k, dget a k = dget b k

theorem SameEnv.refl (a : Dict Str) : SameEnv a a := fun _ => rfl
theorem SameEnv.symm {a b : Dict Str} (h : SameEnv a b) : SameEnv b a := fun k => (h k).symm
theorem SameEnv.trans {a b c : Dict Str} (h : SameEnv a b) (h' : SameEnv b c) : SameEnv a c :=
  fun k => (h k).trans (h' k)

theorem SameEnv.dset {a b : Dict Str} (h : SameEnv a b) (k v : Str) : SameEnv (dset a k v) (dset b k v) := by
  intro x; simp [dget_dset, h x]

theorem SameEnv.dupdate {a b : Dict Str} (h : SameEnv a b) (n : Dict Str) :
    SameEnv (dupdate a n) (dupdate b n) := by
  unfold Profiles.dupdate
  induction n generalizing a b with
  | nil => simpa using h
  | cons x t ih => simp only [List.foldl_cons]; exact ih (h.dset x.1 x.2)

theorem dget_dupdate_of_not_mem {α : Type} (d n : Dict α) (k : Str) (h : k ∉ dkeys n) :
    dget (dupdate d n) k = dget d k := by
  unfold dupdate
  induction n generalizing d with
  | nil => rfl
  | cons x t ih =>
    simp only [dkeys, List.map_cons, List.mem_cons, not_or] at h
    simp only [List.foldl_cons]
    rw [ih _ (by simpa [dkeys] using h.2), dget_dset_ne _ _ _ _ (fun e => h.1 e.symm)]

theorem dget_dupdate_isSome {α : Type} (d n : Dict α) (k : Str) :
    (dget (dupdate d n) k).isSome ↔ (dget d k).isSome ∨ k ∈ dkeys n := by
  unfold dupdate
  induction n generalizing d with
  | nil => simp [dkeys]
  | cons x t ih =>
    simp only [List.foldl_cons, dkeys, List.map_cons, List.mem_cons]
    have ih' := ih (dset d x.1 x.2)
    simp only [dkeys] at ih'
    rw [ih', dget_dset]
    by_cases hx : x.1 = k
    · simp [hx]
    · have : ¬ k = x.1 := fun h => hx h.symm
      simp [hx, this]

theorem dupdate_nil {α : Type} (d : Dict α) : dupdate d [] = d := rfl

/-! ## 2. the expansion sees the macro dictionary only through look-ups -/

/-- `b` extends `a`: every look-up that succeeds in `a` gives the same answer in `b` -/
def Extends (a b : Dict Str) : Prop := ∀ k v, dget a k = some v → dget b k = some v

theorem SameEnv.extends {a b : Dict Str} (h : SameEnv a b) : Extends a b := fun k v hk => by rw [← h k]; exact hk

theorem substSegs_congr {a b : Dict Str} (h : SameEnv a b) (l : List Seg) : substSegs a l = substSegs b l := by
  induction l with
  | nil => rfl
  | cons x t ih =>
    cases x with
    | ch c => simp only [substSegs, ih]
    | ph n => simp only [substSegs, ih, h n]

theorem substSegs_mono {a b : Dict Str} (h : Extends a b) (l : List Seg) (r : Str)
    (hr : substSegs a l = .ok r) : substSegs b l = .ok r := by
  induction l generalizing r with
  | nil => simpa [substSegs] using hr
  | cons x t ih =>
    cases x with
    | ch c =>
      simp only [substSegs] at hr ⊢
      cases ht : substSegs a t with
      | error e => simp [ht] at hr
      | ok r' => rw [ih r' ht]; simpa [ht] using hr
    | ph n =>
      simp only [substSegs] at hr ⊢
      cases hn : dget a n with
      | none => simp [hn] at hr
      | some body =>
        rw [h n body hn]
        simp only [hn] at hr
        cases ht : substSegs a t with
        | error e => simp [ht] at hr
        | ok r' => rw [ih r' ht]; simpa [ht] using hr

theorem expandValue_congr {a b : Dict Str} (h : SameEnv a b) (f : Nat) (v : Str) :
    expandValue a f v = expandValue b f v := by
  induction f generalizing v with
  | zero => rfl
  | succ f ih =>
    simp only [expandValue, subPass, substSegs_congr h]
    split
    · split <;> simp_all
    · rfl

theorem expandValue_mono {a b : Dict Str} (h : Extends a b) (f : Nat) (v r : Str)
    (hr : expandValue a f v = .ok r) : expandValue b f v = .ok r := by
  induction f generalizing v with
  | zero => simpa [expandValue] using hr
  | succ f ih =>
    simp only [expandValue] at hr ⊢
    by_cases hp : hasPh v = true
    · simp only [hp, if_true] at hr ⊢
      cases hs : subPass a v with
      | error e => simp [hs] at hr
      | ok v' =>
        have : subPass b v = .ok v' := substSegs_mono h _ _ hs
        simp only [hs] at hr
        simp only [this]
        exact ih v' hr
    · simpa [hp] using hr

theorem expandDict_congr {a b : Dict Str} (h : SameEnv a b) (f : Nat) (d : Dict PVal) :
    expandDict f a d = expandDict f b d := by
  induction d with
  | nil => rfl
  | cons x t ih =>
    obtain ⟨k, v⟩ := x
    cases v with
    | fn i => simp only [expandDict, ih]
    | pat s => simp only [expandDict, ih, expandValue_congr h]

theorem expandDict_mono {a b : Dict Str} (h : Extends a b) (f : Nat) (d r : Dict PVal)
    (hr : expandDict f a d = .ok r) : expandDict f b d = .ok r := by
  induction d generalizing r with
  | nil => simpa [expandDict] using hr
  | cons x t ih =>
    obtain ⟨k, v⟩ := x
    cases v with
    | fn i =>
      simp only [expandDict] at hr ⊢
      cases ht : expandDict f a t with
      | error e => simp [ht] at hr
      | ok r' => rw [ih r' ht]; simpa [ht] using hr
    | pat s =>
      simp only [expandDict] at hr ⊢
      cases hv : expandValue a f s with
      | error e => simp [hv] at hr
      | ok s' =>
        rw [expandValue_mono h f s s' hv]
        simp only [hv] at hr
        cases ht : expandDict f a t with
        | error e => simp [ht] at hr
        | ok r' => rw [ih r' ht]; simpa [ht] using hr

/-- expansion keeps the keys, in order (callables and patterns alike) -/
theorem dkeys_expandDict (f : Nat) (m : Dict Str) (d r : Dict PVal) (h : expandDict f m d = .ok r) :
    dkeys r = dkeys d := by
  induction d generalizing r with
  | nil => simp [expandDict] at h; subst h; rfl
  | cons x t ih =>
    obtain ⟨k, v⟩ := x
    cases v with
    | fn i =>
      simp only [expandDict] at h
      cases ht : expandDict f m t with
      | error e => simp [ht] at h
      | ok r' =>
        simp [ht] at h; subst h
        simp [dkeys] at *
        exact ih r' ht
    | pat s =>
      simp only [expandDict] at h
      cases hv : expandValue m f s with
      | error e => simp [hv] at h
      | ok s' =>
        simp only [hv] at h
        cases ht : expandDict f m t with
        | error e => simp [ht] at h
        | ok r' =>
          simp [ht] at h; subst h
          simp [dkeys] at *
          exact ih r' ht

theorem dkeys_compileDict (d : Dict PVal) : dkeys (compileDict d) = dkeys d := by
  simp [compileDict, dkeys, List.map_map, Function.comp_def]

/-- a finished expansion does not depend on how much fuel was left: the fuel is no part of the result -/
theorem expandValue_fuel_mono (m : Dict Str) (f g : Nat) (v r : Str) (hfg : f ≤ g)
    (h : expandValue m f v = .ok r) : expandValue m g v = .ok r := by
  induction f generalizing g v with
  | zero =>
    simp only [expandValue] at h
    by_cases hp : hasPh v = true
    · simp [hp] at h
    · simp only [hp] at h
      cases g <;> simpa [expandValue, hp] using h
  | succ f ih =>
    cases g with
    | zero => omega
    | succ g =>
      simp only [expandValue] at h ⊢
      by_cases hp : hasPh v = true
      · simp only [hp, if_true] at h ⊢
        cases hs : subPass m v with
        | error e => simp [hs] at h
        | ok v' =>
          simp only [hs] at h ⊢
          exact ih g v' (by omega) h
      · simpa [hp] using h

/-! ## 3. contents, the invariant -/

/-- the macros / property definitions currently stored for a profile name -/
def macrosOf (raw : Dict Raw) (n : Str) : Dict Str :=
  match dget raw n with
  | some e => e.macros
  | none => []

def propsOf (raw : Dict Raw) (n : Str) : Dict PVal :=
  match dget raw n with
  | some e => e.props.getD []
  | none => []

/-- the macro environment the contents denote: the base macros, updated with the macros of the registered
profiles in registration order (`_resetProperties`, lines 220-225) -/
def envOf (base : Dict Str) (raw : Dict Raw) (names : List Str) : Dict Str :=
  names.foldl (fun m n => dupdate m (macrosOf raw n)) base

/-- every registered definition expands (no undefined macro, no endless loop) in the environment of the contents -/
def Expandable (cfg : Cfg) (raw : Dict Raw) (names : List Str) : Prop :=
  ∀ n ∈ names, ∃ ex, expandDict cfg.fuel (envOf cfg.base raw names) (propsOf raw n) = .ok ex

/-- T14.1 the invariant: the macro cache is what the contents denote, and the compiled table is the expansion of
the raw definitions under it, in registration order, each name once -/
structure Inv (cfg : Cfg) (r : Reg) : Prop where
  nodup : r.names.Nodup
  rawDom : ∀ n, (dget r.raw n).isSome ↔ n ∈ r.names
  rawFull : ∀ n e, dget r.raw n = some e → e.props.isSome
  used : SameEnv r.used (envOf cfg.base r.raw r.names)
  ckeys : dkeys r.compiled = r.names
  cvals : ∀ n ∈ r.names, ∃ ex, expandDict cfg.fuel (envOf cfg.base r.raw r.names) (propsOf r.raw n) = .ok ex ∧
            dget r.compiled n = some (compileDict ex)
  known : r.known = knownOf r.compiled

theorem envOf_congr (base : Dict Str) (raw raw' : Dict Raw) (names : List Str)
    (h : ∀ n ∈ names, macrosOf raw n = macrosOf raw' n) : envOf base raw names = envOf base raw' names := by
  unfold envOf
  induction names generalizing base with
  | nil => rfl
  | cons a t ih =>
    simp only [List.foldl_cons]
    rw [h a (by simp)]
    exact ih _ (fun n hn => h n (by simp [hn]))

theorem envOf_append (base : Dict Str) (raw : Dict Raw) (l1 l2 : List Str) :
    envOf base raw (l1 ++ l2) = envOf (envOf base raw l1) raw l2 := by
  simp [envOf, List.foldl_append]

theorem envOf_sameEnv {a b : Dict Str} (h : SameEnv a b) (raw : Dict Raw) (names : List Str) :
    SameEnv (envOf a raw names) (envOf b raw names) := by
  unfold envOf
  induction names generalizing a b with
  | nil => simpa using h
  | cons x t ih => simp only [List.foldl_cons]; exact ih (h.dupdate _)

/-- removing a name whose macros are empty does not change the environment -/
theorem envOf_erase_empty (base : Dict Str) (raw : Dict Raw) (names : List Str) (p : Str)
    (hp : macrosOf raw p = []) : envOf base raw (names.filter (· != p)) = envOf base raw names := by
  unfold envOf
  induction names generalizing base with
  | nil => rfl
  | cons a t ih =>
    by_cases ha : a = p
    · subst ha
      simp only [bne_self_eq_false, Bool.false_eq_true, not_false_eq_true, List.filter_cons_of_neg,
        List.foldl_cons, hp, dupdate_nil]
      exact ih base
    · have : (a != p) = true := by simp [ha]
      simp only [List.filter_cons, this, if_true, List.foldl_cons]
      exact ih _

theorem gatherMacros_eq (raw : Dict Raw) (m : Dict Str) (names : List Str)
    (h : ∀ n ∈ names, (dget raw n).isSome) : gatherMacros raw m names = .ok (envOf m raw names) := by
  induction names generalizing m with
  | nil => rfl
  | cons a t ih =>
    have ha := h a (by simp)
    cases hr : dget raw a with
    | none => simp [hr] at ha
    | some e =>
      simp only [gatherMacros, hr, envOf, List.foldl_cons, macrosOf]
      exact ih _ (fun n hn => h n (by simp [hn]))

/-- the rebuilding loop of `_resetProperties` when every definition expands -/
theorem rebuild_ok (fuel : Nat) (raw : Dict Raw) (m : Dict Str) (names : List Str) (acc : Dict (Dict CVal))
    (hnd : names.Nodup) (hdis : ∀ n ∈ names, n ∉ dkeys acc)
    (hfull : ∀ n ∈ names, ∃ e, dget raw n = some e ∧ e.props.isSome)
    (hex : ∀ n ∈ names, ∃ ex, expandDict fuel m (propsOf raw n) = .ok ex) :
    (rebuild fuel raw m acc names).2 = none ∧
    dkeys (rebuild fuel raw m acc names).1 = dkeys acc ++ names ∧
    (∀ n ∈ names, ∃ ex, expandDict fuel m (propsOf raw n) = .ok ex ∧
        dget (rebuild fuel raw m acc names).1 n = some (compileDict ex)) ∧
    (∀ k, k ∉ names → dget (rebuild fuel raw m acc names).1 k = dget acc k) := by
  induction names generalizing acc with
  | nil => simp [rebuild]
  | cons a t ih =>
    obtain ⟨e, he, hps⟩ := hfull a (by simp)
    obtain ⟨ex, hexa⟩ := hex a (by simp)
    cases hp : e.props with
    | none => simp [hp] at hps
    | some props =>
      have hprops : propsOf raw a = props := by simp [propsOf, he, hp]
      rw [hprops] at hexa
      have hnd' : a ∉ t ∧ t.Nodup := by simpa using hnd
      have hacc : a ∉ dkeys acc := hdis a (by simp)
      have hdis' : ∀ n ∈ t, n ∉ dkeys (dset acc a (compileDict ex)) := by
        intro n hn
        rw [dkeys_dset]
        simp only [hacc, if_false, List.mem_append, List.mem_singleton, not_or]
        exact ⟨hdis n (by simp [hn]), fun h => hnd'.1 (h ▸ hn)⟩
      have ih' := ih (dset acc a (compileDict ex)) hnd'.2 hdis'
        (fun n hn => hfull n (by simp [hn])) (fun n hn => hex n (by simp [hn]))
      simp only [rebuild, he, hp, hexa]
      obtain ⟨h1, h2, h3, h4⟩ := ih'
      refine ⟨h1, ?_, ?_, ?_⟩
      · rw [h2, dkeys_dset]; simp [hacc]
      · intro n hn
        simp only [List.mem_cons] at hn
        cases hn with
        | inl h =>
          subst h
          refine ⟨ex, by rw [hprops]; exact hexa, ?_⟩
          rw [h4 n hnd'.1, dget_dset_self]
        | inr h => exact h3 n h
      · intro k hk
        simp only [List.mem_cons, not_or] at hk
        rw [h4 k hk.2, dget_dset_ne _ _ _ _ (fun e => hk.1 e.symm)]

theorem truthy_some_cons {α : Type} (a : α) (l : List α) : truthy (some (a :: l)) = true := rfl

theorem truthy_iff {α : Type} (o : Option (List α)) : truthy o = true ↔ ∃ a l, o = some (a :: l) := by
  cases o with
  | none => simp [truthy]
  | some l => cases l <;> simp [truthy]

/-- `_resetProperties` on a registry whose raw table covers the names and whose definitions expand -/
theorem resetProperties_ok (cfg : Cfg) (r : Reg) (nm : Option (Dict Str))
    (hnd : r.names.Nodup)
    (hfull : ∀ n ∈ r.names, ∃ e, dget r.raw n = some e ∧ e.props.isSome)
    (hex : ∀ n ∈ r.names, ∃ ex, expandDict cfg.fuel
        (dupdate (envOf cfg.base r.raw r.names) (if truthy nm then nm.getD [] else [])) (propsOf r.raw n) = .ok ex) :
    (resetProperties cfg r nm).2 = none ∧
    (resetProperties cfg r nm).1.names = r.names ∧ (resetProperties cfg r nm).1.raw = r.raw ∧
    (resetProperties cfg r nm).1.default = r.default ∧ (resetProperties cfg r nm).1.known = r.known ∧
    (resetProperties cfg r nm).1.used
        = dupdate (envOf cfg.base r.raw r.names) (if truthy nm then nm.getD [] else []) ∧
    dkeys (resetProperties cfg r nm).1.compiled = r.names ∧
    (∀ n ∈ r.names, ∃ ex, expandDict cfg.fuel
        (dupdate (envOf cfg.base r.raw r.names) (if truthy nm then nm.getD [] else [])) (propsOf r.raw n) = .ok ex ∧
        dget (resetProperties cfg r nm).1.compiled n = some (compileDict ex)) := by
  have hg := gatherMacros_eq r.raw cfg.base r.names
    (fun n hn => by obtain ⟨e, he, _⟩ := hfull n hn; simp [he])
  have hm : (if truthy nm = true then dupdate (envOf cfg.base r.raw r.names) (nm.getD []) else envOf cfg.base r.raw r.names)
      = dupdate (envOf cfg.base r.raw r.names) (if truthy nm then nm.getD [] else []) := by
    split <;> simp [dupdate_nil]
  have hb := rebuild_ok cfg.fuel r.raw
    (dupdate (envOf cfg.base r.raw r.names) (if truthy nm then nm.getD [] else [])) r.names [] hnd
    (by simp [dkeys]) hfull hex
  obtain ⟨h1, h2, h3, _⟩ := hb
  have h2' : dkeys (rebuild cfg.fuel r.raw
      (dupdate (envOf cfg.base r.raw r.names) (if truthy nm then nm.getD [] else [])) [] r.names).1 = r.names := by
    simpa [dkeys] using h2
  unfold resetProperties
  simp only [hg, hm, h1]
  exact ⟨trivial, trivial, trivial, trivial, trivial, trivial, h2', h3⟩

/-- a rebuilding loop that did not raise has expanded every definition -/
theorem rebuild_success (fuel : Nat) (raw : Dict Raw) (m : Dict Str) (names : List Str) (acc : Dict (Dict CVal))
    (h : (rebuild fuel raw m acc names).2 = none) :
    ∀ n ∈ names, ∃ ex, expandDict fuel m (propsOf raw n) = .ok ex := by
  induction names generalizing acc with
  | nil => simp
  | cons a t ih =>
    simp only [rebuild] at h
    cases hr : dget raw a with
    | none => simp [hr] at h
    | some e =>
      simp only [hr] at h
      cases hp : e.props with
      | none => simp [hp] at h
      | some props =>
        simp only [hp] at h
        cases hx : expandDict fuel m props with
        | error x => simp [hx] at h
        | ok ex =>
          simp only [hx] at h
          intro n hn
          simp only [List.mem_cons] at hn
          cases hn with
          | inl e' => subst e'; exact ⟨ex, by simp [propsOf, hr, hp, hx]⟩
          | inr e' => exact ih _ h n e'

/-- `_resetProperties` touches `_profilesProperties` and `_usedMacros` only -/
theorem resetProperties_fields (cfg : Cfg) (r : Reg) (nm : Option (Dict Str)) :
    (resetProperties cfg r nm).1.names = r.names ∧ (resetProperties cfg r nm).1.raw = r.raw ∧
    (resetProperties cfg r nm).1.default = r.default ∧ (resetProperties cfg r nm).1.known = r.known := by
  unfold resetProperties
  split
  · exact ⟨rfl, rfl, rfl, rfl⟩
  · simp only
    split <;> exact ⟨rfl, rfl, rfl, rfl⟩

/-- `_resetProperties` that did not raise: the facts of `resetProperties_ok` without assuming expandability -/
theorem resetProperties_succ (cfg : Cfg) (r : Reg) (nm : Option (Dict Str))
    (hs : (resetProperties cfg r nm).2 = none) (hnd : r.names.Nodup)
    (hfull : ∀ n ∈ r.names, ∃ e, dget r.raw n = some e ∧ e.props.isSome) :
    (resetProperties cfg r nm).1.used
        = dupdate (envOf cfg.base r.raw r.names) (if truthy nm then nm.getD [] else []) ∧
    dkeys (resetProperties cfg r nm).1.compiled = r.names ∧
    (∀ n ∈ r.names, ∃ ex, expandDict cfg.fuel
        (dupdate (envOf cfg.base r.raw r.names) (if truthy nm then nm.getD [] else [])) (propsOf r.raw n) = .ok ex ∧
        dget (resetProperties cfg r nm).1.compiled n = some (compileDict ex)) := by
  have hg := gatherMacros_eq r.raw cfg.base r.names
    (fun n hn => by obtain ⟨e, he, _⟩ := hfull n hn; simp [he])
  have hm : (if truthy nm = true then dupdate (envOf cfg.base r.raw r.names) (nm.getD []) else envOf cfg.base r.raw r.names)
      = dupdate (envOf cfg.base r.raw r.names) (if truthy nm then nm.getD [] else []) := by
    split <;> simp [dupdate_nil]
  have hreb : (rebuild cfg.fuel r.raw
      (dupdate (envOf cfg.base r.raw r.names) (if truthy nm then nm.getD [] else [])) [] r.names).2 = none := by
    unfold resetProperties at hs
    simp only [hg, hm] at hs
    split at hs
    · simp at hs
    · assumption
  have hex := rebuild_success _ _ _ _ _ hreb
  obtain ⟨_, _, _, _, _, h6, h7, h8⟩ := resetProperties_ok cfg r nm hnd hfull hex
  exact ⟨h6, h7, h8⟩

/-- the central fact after the repairs: a full re-expansion that does not raise establishes the invariant, whatever
the macro cache and the compiled table were before -/
theorem reset_inv (cfg : Cfg) (r : Reg) (hs : (resetProperties cfg r none).2 = none) (hnd : r.names.Nodup)
    (hdom : ∀ n, (dget r.raw n).isSome ↔ n ∈ r.names) (hfull : ∀ n e, dget r.raw n = some e → e.props.isSome) :
    Inv cfg (updateKnown (resetProperties cfg r none).1) := by
  obtain ⟨f1, f2, _, _⟩ := resetProperties_fields cfg r none
  obtain ⟨h6, h7, h8⟩ := resetProperties_succ cfg r none hs hnd
    (fun n hn => by
      have := (hdom n).mpr hn
      cases hd : dget r.raw n with
      | none => simp [hd] at this
      | some e => exact ⟨e, rfl, hfull n e hd⟩)
  simp only [truthy, Bool.false_eq_true, if_false, dupdate_nil] at h6 h8
  refine ⟨?_, ?_, ?_, ?_, ?_, ?_, rfl⟩
  · show (resetProperties cfg r none).1.names.Nodup
    rw [f1]; exact hnd
  · intro n
    show (dget (resetProperties cfg r none).1.raw n).isSome ↔ n ∈ (resetProperties cfg r none).1.names
    rw [f1, f2]; exact hdom n
  · intro n e
    show dget (resetProperties cfg r none).1.raw n = some e → _
    rw [f2]; exact hfull n e
  · show SameEnv (resetProperties cfg r none).1.used
      (envOf cfg.base (resetProperties cfg r none).1.raw (resetProperties cfg r none).1.names)
    rw [f1, f2, h6]; exact SameEnv.refl _
  · show dkeys (resetProperties cfg r none).1.compiled = (resetProperties cfg r none).1.names
    rw [f1]; exact h7
  · intro n hn
    have hn' : n ∈ r.names := by
      have : n ∈ (resetProperties cfg r none).1.names := hn
      rw [f1] at this; exact this
    show ∃ ex, expandDict cfg.fuel
        (envOf cfg.base (resetProperties cfg r none).1.raw (resetProperties cfg r none).1.names)
        (propsOf (resetProperties cfg r none).1.raw n) = .ok ex ∧
        dget (resetProperties cfg r none).1.compiled n = some (compileDict ex)
    rw [f1, f2]
    exact h8 n hn'

theorem atomic_ok' (f : Reg → Reg × Option Exc) (r : Reg) (h : (f r).2 = none) : atomic f r = f r := by
  unfold atomic; simp [h]

theorem atomic_err (f : Reg → Reg × Option Exc) (r : Reg) (e : Exc) (h : (f r).2 = some e) :
    atomic f r = ({ (f r).1 with used := r.used, names := r.names, raw := r.raw, compiled := r.compiled,
                                 known := r.known }, some e) := by
  unfold atomic; simp [h]

/-- `_atomic`: a method that raised has changed nothing the invariant talks about -/
theorem atomic_inv (cfg : Cfg) (f : Reg → Reg × Option Exc) (r : Reg) (hinv : Inv cfg r)
    (hok : (f r).2 = none → Inv cfg (f r).1) : Inv cfg (atomic f r).1 := by
  cases h : (f r).2 with
  | none => rw [atomic_ok' f r h]; exact hok h
  | some e =>
    rw [atomic_err f r e h]
    exact ⟨hinv.nodup, hinv.rawDom, hinv.rawFull, hinv.used, hinv.ckeys, hinv.cvals, hinv.known⟩

theorem atomic_ok (f : Reg → Reg × Option Exc) (r : Reg) (h : (atomic f r).2 = none) :
    (f r).2 = none ∧ atomic f r = f r := by
  cases hf : (f r).2 with
  | none => exact ⟨rfl, atomic_ok' f r hf⟩
  | some e => rw [atomic_err f r e hf] at h; simp at h

/-- `_atomic`: after an exception the registry is the one before the call (given that the method does not assign
`_defaultProfiles`) -/
theorem atomic_fail (f : Reg → Reg × Option Exc) (r : Reg) (e : Exc) (h : (atomic f r).2 = some e)
    (hd : (f r).1.default = r.default) : (atomic f r).1 = r := by
  cases hf : (f r).2 with
  | none => rw [atomic_ok' f r hf, hf] at h; simp at h
  | some e' =>
    rw [atomic_err f r e' hf]
    simp only [hd]

/-- `_resetProperties` never answers with `NoSuchProfileException` -/
theorem rebuild_not_noSuch (fuel : Nat) (raw : Dict Raw) (m : Dict Str) (names : List Str) (acc : Dict (Dict CVal))
    (hE : ∀ d x, expandDict fuel m d = .error x → x ≠ .noSuchProfile) :
    (rebuild fuel raw m acc names).2 ≠ some .noSuchProfile := by
  induction names generalizing acc with
  | nil => simp [rebuild]
  | cons a t ih =>
    simp only [rebuild]
    cases hr : dget raw a with
    | none => simp
    | some e =>
      simp only
      cases hp : e.props with
      | none => simp
      | some props =>
        simp only
        cases hx : expandDict fuel m props with
        | error x => simp only; intro h; exact hE props x hx (by simpa using h)
        | ok ex => exact ih _

theorem expandValue_not_noSuch (m : Dict Str) (f : Nat) (v : Str) (x : Exc)
    (h : expandValue m f v = .error x) : x ≠ .noSuchProfile := by
  have hs : ∀ l x, substSegs m l = .error x → x ≠ .noSuchProfile := by
    intro l
    induction l with
    | nil => intro x h; simp [substSegs] at h
    | cons s t ih =>
      intro x h
      cases s with
      | ch c =>
        simp only [substSegs] at h
        cases ht : substSegs m t with
        | ok r => simp [ht] at h
        | error e => simp [ht] at h; subst h; exact ih e ht
      | ph n =>
        simp only [substSegs] at h
        cases hn : dget m n with
        | none => simp [hn] at h; subst h; simp
        | some body =>
          simp only [hn] at h
          cases ht : substSegs m t with
          | ok r => simp [ht] at h
          | error e => simp [ht] at h; subst h; exact ih e ht
  induction f generalizing v with
  | zero =>
    simp only [expandValue] at h
    split at h
    · simp at h; subst h; simp
    · simp at h
  | succ f ih =>
    simp only [expandValue] at h
    split at h
    · cases hp : subPass m v with
      | ok v' => simp only [hp] at h; exact ih v' h
      | error e => simp only [hp] at h; simp at h; subst h; exact hs _ _ hp
    · simp at h

theorem expandDict_not_noSuch (fuel : Nat) (m : Dict Str) (d : Dict PVal) (x : Exc)
    (h : expandDict fuel m d = .error x) : x ≠ .noSuchProfile := by
  induction d with
  | nil => simp [expandDict] at h
  | cons kv t ih =>
    obtain ⟨k, v⟩ := kv
    cases v with
    | fn i =>
      simp only [expandDict] at h
      cases ht : expandDict fuel m t with
      | ok r => simp [ht] at h
      | error e => simp [ht] at h; subst h; exact ih ht
    | pat s =>
      simp only [expandDict] at h
      cases hv : expandValue m fuel s with
      | error e => simp [hv] at h; subst h; exact expandValue_not_noSuch m fuel s e hv
      | ok s' =>
        simp only [hv] at h
        cases ht : expandDict fuel m t with
        | ok r => simp [ht] at h
        | error e => simp [ht] at h; subst h; exact ih ht

theorem gatherMacros_not_noSuch (raw : Dict Raw) (m : Dict Str) (names : List Str) (x : Exc)
    (h : gatherMacros raw m names = .error x) : x ≠ .noSuchProfile := by
  induction names generalizing m with
  | nil => simp [gatherMacros] at h
  | cons a t ih =>
    simp only [gatherMacros] at h
    cases hr : dget raw a with
    | none => simp [hr] at h; subst h; simp
    | some e => simp only [hr] at h; exact ih _ h

theorem resetProperties_not_noSuch (cfg : Cfg) (r : Reg) (nm : Option (Dict Str)) :
    (resetProperties cfg r nm).2 ≠ some .noSuchProfile := by
  unfold resetProperties
  cases hg : gatherMacros r.raw cfg.base r.names with
  | error e =>
    simp only
    intro h
    exact gatherMacros_not_noSuch _ _ _ e hg (by simpa using h)
  | ok m0 =>
    simp only
    have := rebuild_not_noSuch cfg.fuel r.raw
      (if truthy nm = true then dupdate m0 (nm.getD []) else m0) r.names []
      (fun d x hx => expandDict_not_noSuch _ _ d x hx)
    split
    · rename_i e he; simp only; intro h; apply this; rw [he]; simpa using h
    · simp

/-! ## 4. `addProfile` -/

theorem macrosOf_dset_ne (raw : Dict Raw) (p n : Str) (e : Raw) (h : p ≠ n) :
    macrosOf (dset raw p e) n = macrosOf raw n := by simp [macrosOf, dget_dset_ne _ _ _ _ h]

theorem propsOf_dset_ne (raw : Dict Raw) (p n : Str) (e : Raw) (h : p ≠ n) :
    propsOf (dset raw p e) n = propsOf raw n := by simp [propsOf, dget_dset_ne _ _ _ _ h]

theorem macrosOf_dset_self (raw : Dict Raw) (p : Str) (e : Raw) : macrosOf (dset raw p e) p = e.macros := by
  simp [macrosOf, dget_dset_self]

theorem propsOf_dset_self (raw : Dict Raw) (p : Str) (ps : Dict PVal) (ms : Dict Str) :
    propsOf (dset raw p { props := some ps, macros := ms }) p = ps := by
  simp [propsOf, dget_dset_self]

/-- names after `addProfile` (line 300) -/
def addNames (names : List Str) (p : Str) : List Str := if p ∈ names then names else names ++ [p]

theorem env_add_fresh (base : Dict Str) (raw : Dict Raw) (names : List Str) (p : Str) (e : Raw)
    (hp : p ∉ names) : envOf base (dset raw p e) (names ++ [p]) = dupdate (envOf base raw names) e.macros := by
  rw [envOf_append]
  have : envOf base (dset raw p e) names = envOf base raw names :=
    (envOf_congr base raw (dset raw p e) names
      (fun n hn => (macrosOf_dset_ne raw p n e (fun h => hp (h ▸ hn))).symm)).symm
  rw [this]
  simp [envOf, macrosOf_dset_self]

theorem env_add_existing (base : Dict Str) (raw : Dict Raw) (names : List Str) (p : Str) (e : Raw)
    (he : e.macros = macrosOf raw p) : envOf base (dset raw p e) names = envOf base raw names := by
  apply (envOf_congr base raw (dset raw p e) names _).symm
  intro n _
  by_cases h : p = n
  · subst h; rw [macrosOf_dset_self, he]
  · rw [macrosOf_dset_ne _ _ _ _ h]

/-- what `addStore` needs to find: everything but the new profile is already expanded under the environment
that the contents will denote once the profile is stored -/
structure StoreReady (cfg : Cfg) (r1 : Reg) (p : Str) (ps : Dict PVal) (ms : Dict Str) : Prop where
  nodup : r1.names.Nodup
  rawDom : ∀ n, (dget r1.raw n).isSome ↔ n ∈ r1.names
  rawFull : ∀ n e, dget r1.raw n = some e → e.props.isSome
  ckeys : dkeys r1.compiled = r1.names
  used : SameEnv r1.used (envOf cfg.base (dset r1.raw p { props := some ps, macros := ms }) (addNames r1.names p))
  cvals : ∀ n ∈ r1.names, n ≠ p → ∃ ex, expandDict cfg.fuel
      (envOf cfg.base (dset r1.raw p { props := some ps, macros := ms }) (addNames r1.names p)) (propsOf r1.raw n)
        = .ok ex ∧ dget r1.compiled n = some (compileDict ex)

theorem addStore_inv (cfg : Cfg) (r1 : Reg) (p : Str) (ps : Dict PVal) (ms : Dict Str)
    (h : StoreReady cfg r1 p ps ms) (hs : (addStore cfg r1 p ps ms).2 = none) :
    (addStore cfg r1 p ps ms).2 = none ∧ Inv cfg (addStore cfg r1 p ps ms).1 ∧
    (addStore cfg r1 p ps ms).1.names = addNames r1.names p ∧
    (addStore cfg r1 p ps ms).1.raw = dset r1.raw p { props := some ps, macros := ms } ∧
    (addStore cfg r1 p ps ms).1.default = r1.default := by
  have hsome : ∃ ex, expandDict cfg.fuel r1.used ps = .ok ex := by
    unfold addStore at hs
    cases hx : expandDict cfg.fuel r1.used ps with
    | error e => simp [hx] at hs
    | ok ex => exact ⟨ex, rfl⟩
  obtain ⟨ex, hex'⟩ := hsome
  have hex : expandDict cfg.fuel
      (envOf cfg.base (dset r1.raw p { props := some ps, macros := ms }) (addNames r1.names p)) ps = .ok ex := by
    rw [← expandDict_congr h.used]; exact hex'
  unfold addStore
  simp only [hex']
  refine ⟨by first | rfl | trivial, ?_, by first | rfl | trivial, by first | rfl | trivial,
    by first | rfl | trivial⟩
  have hnames : (if p ∈ r1.names then r1.names else r1.names ++ [p]) = addNames r1.names p := rfl
  constructor
  · -- nodup
    show (if p ∈ r1.names then r1.names else r1.names ++ [p]).Nodup
    split
    · exact h.nodup
    · rename_i hp
      rw [List.nodup_append]
      refine ⟨h.nodup, by simp, ?_⟩
      intro a ha b hb
      simp only [List.mem_singleton] at hb
      subst hb
      exact fun e => hp (e ▸ ha)
  · -- rawDom
    intro n
    show (dget (dset r1.raw p _) n).isSome ↔ n ∈ (if p ∈ r1.names then r1.names else r1.names ++ [p])
    rw [dget_dset]
    by_cases hpn : p = n
    · subst hpn
      simp only [if_true, Option.isSome_some, true_iff]
      by_cases hp : p ∈ r1.names <;> simp [hp]
    · simp only [hpn, if_false, h.rawDom n]
      split
      · rfl
      · have : ¬ n = p := fun e => hpn e.symm
        simp [this]
  · -- rawFull
    intro n e
    show dget (dset r1.raw p _) n = some e → _
    rw [dget_dset]
    by_cases hpn : p = n
    · simp only [hpn, if_true, Option.some.injEq]; intro he; subst he; rfl
    · simp only [hpn, if_false]; exact h.rawFull n e
  · exact h.used
  · -- ckeys
    show dkeys (dset r1.compiled p (compileDict ex)) = (if p ∈ r1.names then r1.names else r1.names ++ [p])
    rw [dkeys_dset, h.ckeys]
  · -- cvals
    intro n hn
    show ∃ ex', expandDict cfg.fuel (envOf cfg.base (dset r1.raw p _) (addNames r1.names p))
        (propsOf (dset r1.raw p _) n) = .ok ex' ∧ dget (dset r1.compiled p (compileDict ex)) n = some (compileDict ex')
    by_cases hpn : p = n
    · subst hpn
      exact ⟨ex, by rw [propsOf_dset_self]; exact hex, dget_dset_self _ _ _⟩
    · have hn' : n ∈ r1.names := by
        have : n ∈ (if p ∈ r1.names then r1.names else r1.names ++ [p]) := hn
        split at this
        · exact this
        · simp only [List.mem_append, List.mem_singleton] at this
          cases this with
          | inl h' => exact h'
          | inr h' => exact absurd h'.symm hpn
      obtain ⟨ex', h1, h2⟩ := h.cvals n hn' (fun e => hpn e.symm)
      exact ⟨ex', by rw [propsOf_dset_ne _ _ _ _ hpn]; exact h1, by rw [dget_dset_ne _ _ _ _ hpn]; exact h2⟩
  · rfl

/-- the macros stored with a profile by `addProfile` -/
def storedMacros (raw : Dict Raw) (p : Str) (ms : Option (Dict Str)) : Dict Str :=
  if truthy ms then ms.getD [] else macrosOf raw p

theorem addMacros_falsy (cfg : Cfg) (r : Reg) (p : Str) (ms : Option (Dict Str)) (h : truthy ms = false) :
    addMacros cfg r p ms = ((r, macrosOf r.raw p), none) := by
  unfold addMacros
  simp only [h, Bool.false_eq_true, if_false]
  rfl

/-- the incremental path of `addProfile` (name not registered, any macros; or registered name without macros): if it
does not raise, the invariant holds afterwards -/
theorem addPlain_inv (cfg : Cfg) (r : Reg) (p : Str) (ps : Dict PVal) (ms : Option (Dict Str))
    (hinv : Inv cfg r) (hguard : p ∉ r.names ∨ truthy ms = false)
    (hsucc : (addPlain cfg r p ps ms).2 = none) :
    Inv cfg (addPlain cfg r p ps ms).1 ∧
    (addPlain cfg r p ps ms).1.names = addNames r.names p ∧
    (addPlain cfg r p ps ms).1.raw = dset r.raw p { props := some ps, macros := storedMacros r.raw p ms } ∧
    (addPlain cfg r p ps ms).1.default = r.default := by
  have hmac : (addMacros cfg r p ms).2 = none := by
    unfold addPlain at hsucc
    cases hm : (addMacros cfg r p ms).2 with
    | none => rfl
    | some e => simp [hm] at hsucc
  -- the environment of the new contents, in terms of the old one
  have henv : SameEnv (envOf cfg.base (dset r.raw p { props := some ps, macros := storedMacros r.raw p ms })
        (addNames r.names p)) (dupdate (envOf cfg.base r.raw r.names) (if truthy ms then ms.getD [] else [])) := by
    by_cases hp : p ∈ r.names
    · have hf : truthy ms = false := by
        cases hguard with
        | inl h => exact absurd hp h
        | inr h => exact h
      simp only [addNames, hp, if_true, hf, Bool.false_eq_true, if_false, dupdate_nil]
      rw [env_add_existing]
      · exact SameEnv.refl _
      · simp [storedMacros, hf]
    · simp only [addNames, hp, if_false]
      rw [env_add_fresh _ _ _ _ _ hp]
      show SameEnv (dupdate _ (storedMacros r.raw p ms)) _
      unfold storedMacros
      by_cases ht : truthy ms = true
      · simp only [ht, if_true]; exact SameEnv.refl _
      · simp only [ht, if_false]
        have : dget r.raw p = none := by
          cases hd : dget r.raw p with
          | none => rfl
          | some e => exact absurd ((hinv.rawDom p).mp (by simp [hd])) hp
        simp only [macrosOf, this]; exact SameEnv.refl _
  -- the three branches of lines 283-297 all lead to a state `addStore` can finish
  have key : ∃ r1, addMacros cfg r p ms = ((r1, storedMacros r.raw p ms), none) ∧
      StoreReady cfg r1 p ps (storedMacros r.raw p ms) ∧ r1.names = r.names ∧ r1.raw = r.raw ∧
      r1.default = r.default := by
    by_cases ht : truthy ms = true
    · -- with macros: the name is new
      have hp : p ∉ r.names := by
        cases hguard with
        | inl h => exact h
        | inr h => rw [ht] at h; exact absurd h (by simp)
      have hsm : storedMacros r.raw p ms = ms.getD [] := by simp [storedMacros, ht]
      by_cases hany : (dkeys (ms.getD [])).any (fun k => (dget r.used k).isSome) = true
      · -- a known macro changes: reset
        have hfull : ∀ n ∈ r.names, ∃ e, dget r.raw n = some e ∧ e.props.isSome := fun n hn => by
          have := (hinv.rawDom n).mpr hn
          cases hd : dget r.raw n with
          | none => simp [hd] at this
          | some e => exact ⟨e, rfl, hinv.rawFull n e hd⟩
        have h1 : (resetProperties cfg r (some (ms.getD []))).2 = none := by
          unfold addMacros at hmac
          simpa [ht, hany] using hmac
        obtain ⟨h2, h3, h4, _⟩ := resetProperties_fields cfg r (some (ms.getD []))
        obtain ⟨h6, h7, h8⟩ := resetProperties_succ cfg r (some (ms.getD [])) h1 hinv.nodup hfull
        have htt : truthy (some (ms.getD [])) = true := by
          obtain ⟨a, l, hl⟩ := (truthy_iff ms).mp ht
          subst hl; rfl
        simp only [htt, if_true, Option.getD_some] at h6 h8
        refine ⟨(resetProperties cfg r (some (ms.getD []))).1, ?_, ?_, h2, h3, h4⟩
        · unfold addMacros
          simp only [ht, if_true, hany, h1, hsm]
        · refine ⟨by rw [h2]; exact hinv.nodup, by rw [h2, h3]; exact hinv.rawDom,
            by rw [h3]; exact hinv.rawFull, by rw [h2]; exact h7, ?_, ?_⟩
          · rw [h2, h3, h6]
            have := henv.symm
            simpa [ht] using this
          · intro n hn hnp
            rw [h2] at hn
            obtain ⟨ex, hx1, hx2⟩ := h8 n hn
            rw [h2, h3]
            refine ⟨ex, ?_, hx2⟩
            rw [expandDict_congr henv]
            simpa [ht] using hx1
      · -- no known macro changes: just update the cache
        refine ⟨{ r with used := dupdate r.used (ms.getD []) }, ?_, ?_, rfl, rfl, rfl⟩
        · unfold addMacros
          simp only [ht, if_true, hany, Bool.false_eq_true, if_false, hsm]
        · have hext : Extends (envOf cfg.base r.raw r.names)
              (dupdate (envOf cfg.base r.raw r.names) (ms.getD [])) := by
            intro k v hk
            have hnot : k ∉ dkeys (ms.getD []) := by
              intro hmem
              apply hany
              rw [List.any_eq_true]
              exact ⟨k, hmem, by rw [hinv.used k, hk]; rfl⟩
            rw [dget_dupdate_of_not_mem _ _ _ hnot]; exact hk
          refine ⟨hinv.nodup, hinv.rawDom, hinv.rawFull, hinv.ckeys, ?_, ?_⟩
          · show SameEnv (dupdate r.used (ms.getD [])) _
            have h1 : SameEnv (dupdate r.used (ms.getD [])) (dupdate (envOf cfg.base r.raw r.names) (ms.getD [])) :=
              hinv.used.dupdate _
            have h2 := henv.symm
            simp only [ht, if_true] at h2
            exact h1.trans h2
          · intro n hn hnp
            obtain ⟨ex, hx1, hx2⟩ := hinv.cvals n hn
            refine ⟨ex, ?_, hx2⟩
            rw [expandDict_congr henv]
            simp only [ht, if_true]
            exact expandDict_mono hext _ _ _ hx1
    · -- without macros
      have hf : truthy ms = false := by simpa using ht
      have hsm : storedMacros r.raw p ms = macrosOf r.raw p := by simp [storedMacros, hf]
      refine ⟨r, by rw [addMacros_falsy cfg r p ms hf, hsm], ?_, rfl, rfl, rfl⟩
      have henv' : SameEnv (envOf cfg.base (dset r.raw p { props := some ps, macros := storedMacros r.raw p ms })
          (addNames r.names p)) (envOf cfg.base r.raw r.names) := by
        have := henv
        simpa [hf, dupdate_nil] using this
      refine ⟨hinv.nodup, hinv.rawDom, hinv.rawFull, hinv.ckeys, hinv.used.trans henv'.symm, ?_⟩
      intro n hn hnp
      obtain ⟨ex, hx1, hx2⟩ := hinv.cvals n hn
      exact ⟨ex, by rw [expandDict_congr henv']; exact hx1, hx2⟩
  obtain ⟨r1, hm, hready, hn, hr, hd⟩ := key
  have hst : (addStore cfg r1 p ps (storedMacros r.raw p ms)).2 = none := by
    unfold addPlain at hsucc
    simpa [hm] using hsucc
  have hs := addStore_inv cfg r1 p ps (storedMacros r.raw p ms) hready hst
  unfold addPlain
  simp only [hm]
  rw [hn, hr, hd] at hs
  exact hs.2

/-- the path `replaced`: registered name, macros given — full re-expansion -/
theorem addReplace_inv (cfg : Cfg) (r : Reg) (p : Str) (ps : Dict PVal) (ms : Dict Str)
    (hinv : Inv cfg r) (hp : p ∈ r.names) (hs : (addReplace cfg r p ps ms).2 = none) :
    Inv cfg (addReplace cfg r p ps ms).1 ∧
    (addReplace cfg r p ps ms).1.names = r.names ∧
    (addReplace cfg r p ps ms).1.raw = dset r.raw p { props := some ps, macros := ms } ∧
    (addReplace cfg r p ps ms).1.default = r.default := by
  have hres : (resetProperties cfg { r with raw := dset r.raw p { props := some ps, macros := ms } } none).2 = none := by
    unfold addReplace at hs
    simp only [hp, if_true] at hs
    cases hx : (resetProperties cfg { r with raw := dset r.raw p { props := some ps, macros := ms } } none).2 with
    | none => rfl
    | some e => simp [hx] at hs
  obtain ⟨f1, f2, f3, _⟩ :=
    resetProperties_fields cfg { r with raw := dset r.raw p { props := some ps, macros := ms } } none
  have hi := reset_inv cfg { r with raw := dset r.raw p { props := some ps, macros := ms } } hres hinv.nodup
    (by
      intro n
      show (dget (dset r.raw p _) n).isSome ↔ n ∈ r.names
      rw [dget_dset]
      by_cases hpn : p = n
      · subst hpn; simp [hp]
      · simp only [hpn, if_false]; exact hinv.rawDom n)
    (by
      intro n e
      show dget (dset r.raw p _) n = some e → _
      rw [dget_dset]
      by_cases hpn : p = n
      · simp only [hpn, if_true, Option.some.injEq]; intro he; subst he; rfl
      · simp only [hpn, if_false]; exact hinv.rawFull n e)
  unfold addReplace
  simp only [hp, if_true, hres]
  exact ⟨hi, f1, f2, f3⟩

theorem addProfileRaw_inv (cfg : Cfg) (r : Reg) (p : Str) (ps : Dict PVal) (ms : Option (Dict Str))
    (hinv : Inv cfg r) (hs : (addProfileRaw cfg r p ps ms).2 = none) :
    Inv cfg (addProfileRaw cfg r p ps ms).1 ∧
    (addProfileRaw cfg r p ps ms).1.names = addNames r.names p ∧
    (addProfileRaw cfg r p ps ms).1.raw = dset r.raw p { props := some ps, macros := storedMacros r.raw p ms } ∧
    (addProfileRaw cfg r p ps ms).1.default = r.default := by
  unfold addProfileRaw at *
  by_cases hc : p ∈ r.names ∧ truthy ms = true
  · simp only [hc, and_self, if_true] at hs ⊢
    obtain ⟨a, b, c, d⟩ := addReplace_inv cfg r p ps (ms.getD []) hinv hc.1 hs
    refine ⟨a, ?_, ?_, d⟩
    · rw [b]; simp [addNames, hc.1]
    · rw [c]; simp [storedMacros, hc.2]
  · simp only [hc, if_false] at hs ⊢
    have hguard : p ∉ r.names ∨ truthy ms = false := by
      by_cases hp : p ∈ r.names
      · right
        cases ht : truthy ms with
        | false => rfl
        | true => exact absurd ⟨hp, ht⟩ hc
      · left; exact hp
    exact addPlain_inv cfg r p ps ms hinv hguard hs

theorem addMacros_default (cfg : Cfg) (r : Reg) (p : Str) (ms : Option (Dict Str)) :
    (addMacros cfg r p ms).1.1.default = r.default := by
  unfold addMacros
  by_cases ht : truthy ms = true
  · simp only [ht, if_true]
    by_cases hany : (dkeys (ms.getD [])).any (fun k => (dget r.used k).isSome) = true
    · simp only [hany, if_true]; exact (resetProperties_fields cfg r _).2.2.1
    · simp only [hany, Bool.false_eq_true, if_false]
  · simp only [ht, Bool.false_eq_true, if_false]

theorem addStore_default (cfg : Cfg) (r1 : Reg) (p : Str) (ps : Dict PVal) (ms : Dict Str) :
    (addStore cfg r1 p ps ms).1.default = r1.default := by
  unfold addStore
  simp only
  cases hx : expandDict cfg.fuel r1.used ps <;> simp only [updateKnown]

/-- no path of `addProfile` assigns `_defaultProfiles` -/
theorem addProfileRaw_default (cfg : Cfg) (r : Reg) (p : Str) (ps : Dict PVal) (ms : Option (Dict Str)) :
    (addProfileRaw cfg r p ps ms).1.default = r.default := by
  unfold addProfileRaw
  by_cases hc : p ∈ r.names ∧ truthy ms = true
  · simp only [hc, and_self, if_true]
    unfold addReplace
    simp only
    cases hx : (resetProperties cfg
      { r with names := if p ∈ r.names then r.names else r.names ++ [p],
               raw := dset r.raw p { props := some ps, macros := ms.getD [] } } none).2 with
    | none => simp only [updateKnown]; exact (resetProperties_fields cfg _ none).2.2.1
    | some e => simp only; exact (resetProperties_fields cfg _ none).2.2.1
  · simp only [hc, if_false]
    unfold addPlain
    simp only
    cases hx : (addMacros cfg r p ms).2 with
    | some e => simp only; exact addMacros_default cfg r p ms
    | none => simp only; rw [addStore_default]; exact addMacros_default cfg r p ms

/-- T14.1 (add), unconditional: `addProfile` keeps the invariant — whatever the name, the properties and the
macros are, and whether it raises or not -/
theorem addProfile_inv (cfg : Cfg) (r : Reg) (p : Str) (ps : Dict PVal) (ms : Option (Dict Str))
    (hinv : Inv cfg r) : Inv cfg (addProfile cfg r p ps ms).1 :=
  atomic_inv cfg _ r hinv (fun h => (addProfileRaw_inv cfg r p ps ms hinv h).1)

theorem addProfile_ok (cfg : Cfg) (r : Reg) (p : Str) (ps : Dict PVal) (ms : Option (Dict Str))
    (hinv : Inv cfg r) (hs : (addProfile cfg r p ps ms).2 = none) :
    (addProfile cfg r p ps ms).1.names = addNames r.names p ∧
    (addProfile cfg r p ps ms).1.raw = dset r.raw p { props := some ps, macros := storedMacros r.raw p ms } ∧
    (addProfile cfg r p ps ms).1.default = r.default := by
  obtain ⟨h1, h2⟩ := atomic_ok _ r hs
  unfold addProfile
  rw [h2]
  exact (addProfileRaw_inv cfg r p ps ms hinv h1).2

theorem addProfile_fail (cfg : Cfg) (r : Reg) (p : Str) (ps : Dict PVal) (ms : Option (Dict Str)) (e : Exc)
    (h : (addProfile cfg r p ps ms).2 = some e) : (addProfile cfg r p ps ms).1 = r :=
  atomic_fail _ r e h (addProfileRaw_default cfg r p ps ms)

/-! ## 5. `removeProfile`, `removeProfile(all=True)`, `defaultProfiles` -/

theorem macrosOf_derase_ne (raw : Dict Raw) (p n : Str) (h : n ≠ p) :
    macrosOf (derase raw p) n = macrosOf raw n := by simp [macrosOf, dget_derase, h]

theorem propsOf_derase_ne (raw : Dict Raw) (p n : Str) (h : n ≠ p) :
    propsOf (derase raw p) n = propsOf raw n := by simp [propsOf, dget_derase, h]

/-- the body of `removeProfile` on a registered profile: if it does not raise (what is left still expands), the
invariant holds and exactly that profile is gone -/
theorem removeProfileRaw_inv (cfg : Cfg) (r : Reg) (p : Str) (hinv : Inv cfg r) (hp : p ∈ r.names)
    (hs : (removeProfileRaw cfg r (some p)).2 = none) :
    Inv cfg (removeProfileRaw cfg r (some p)).1 ∧
    (removeProfileRaw cfg r (some p)).1.names = r.names.erase p ∧
    (removeProfileRaw cfg r (some p)).1.raw = derase r.raw p ∧
    (removeProfileRaw cfg r (some p)).1.default = r.default := by
  have hraw : ∃ e, dget r.raw p = some e := by
    have := (hinv.rawDom p).mpr hp
    cases hd : dget r.raw p with
    | none => simp [hd] at this
    | some e => exact ⟨e, rfl⟩
  obtain ⟨e, he⟩ := hraw
  obtain ⟨exp, _, hcp⟩ := hinv.cvals p hp
  have herase : r.names.erase p = r.names.filter (· != p) := hinv.nodup.erase_eq_filter p
  have hnd' : (r.names.erase p).Nodup := hinv.nodup.erase p
  have hmem' : ∀ n, n ∈ r.names.erase p ↔ n ≠ p ∧ n ∈ r.names := fun n => hinv.nodup.mem_erase_iff
  have hrawDom' : ∀ n, (dget (derase r.raw p) n).isSome ↔ n ∈ r.names.erase p := by
    intro n
    rw [dget_derase, hmem']
    by_cases hn : n = p
    · simp [hn]
    · simp [hn, hinv.rawDom n]
  have hrawFull' : ∀ n e, dget (derase r.raw p) n = some e → e.props.isSome := by
    intro n e'
    rw [dget_derase]
    by_cases hn : n = p
    · simp [hn]
    · simp only [hn, if_false]; exact hinv.rawFull n e'
  have hck' : dkeys (derase r.compiled p) = r.names.erase p := by
    rw [dkeys_derase, hinv.ckeys, herase]
    apply List.filter_congr
    intro x _
    by_cases hx : x = p <;> simp [hx]
  unfold removeProfileRaw at hs ⊢
  simp only [he, hcp, hp, if_true] at hs ⊢
  by_cases hm : e.macros.isEmpty = true
  · -- no macros: nothing to re-expand
    simp only [hm, Bool.not_true, Bool.false_eq_true, if_false] at hs ⊢
    have hmp : macrosOf r.raw p = [] := by
      simp only [macrosOf, he]
      exact List.isEmpty_iff.mp hm
    have henv : envOf cfg.base (derase r.raw p) (r.names.erase p) = envOf cfg.base r.raw r.names := by
      rw [herase, ← envOf_erase_empty cfg.base r.raw r.names p hmp]
      apply (envOf_congr _ _ _ _ _).symm
      intro n hn
      have : n ≠ p := by
        intro h
        simp [h] at hn
      exact (macrosOf_derase_ne r.raw p n this).symm
    refine ⟨?_, rfl, rfl, rfl⟩
    refine ⟨hnd', hrawDom', hrawFull', ?_, hck', ?_, rfl⟩
    · show SameEnv r.used (envOf cfg.base (derase r.raw p) (r.names.erase p))
      rw [henv]; exact hinv.used
    · intro n hn
      have hn2 := (hmem' n).mp hn
      obtain ⟨ex, h1, h2⟩ := hinv.cvals n hn2.2
      refine ⟨ex, ?_, ?_⟩
      · show expandDict cfg.fuel (envOf cfg.base (derase r.raw p) (r.names.erase p)) (propsOf (derase r.raw p) n) = _
        rw [henv, propsOf_derase_ne _ _ _ hn2.1]; exact h1
      · show dget (derase r.compiled p) n = _
        rw [dget_derase]; simp only [hn2.1, if_false]; exact h2
  · -- the profile had macros: everything is re-expanded from what is left
    have hm' : (!e.macros.isEmpty) = true := by simpa using hm
    simp only [hm', if_true] at hs ⊢
    have hres : (resetProperties cfg
        { r with compiled := derase r.compiled p, raw := derase r.raw p, names := r.names.erase p } none).2 = none := by
      cases hx : (resetProperties cfg
        { r with compiled := derase r.compiled p, raw := derase r.raw p, names := r.names.erase p } none).2 with
      | none => rfl
      | some x => simp [hx] at hs
    obtain ⟨f1, f2, f3, _⟩ := resetProperties_fields cfg
      { r with compiled := derase r.compiled p, raw := derase r.raw p, names := r.names.erase p } none
    have hi := reset_inv cfg
      { r with compiled := derase r.compiled p, raw := derase r.raw p, names := r.names.erase p } hres hnd'
      hrawDom' hrawFull'
    simp only [hres]
    exact ⟨hi, f1, f2, f3⟩

theorem removeProfileRaw_unknown (cfg : Cfg) (r : Reg) (p : Str) (hinv : Inv cfg r) (hp : p ∉ r.names) :
    removeProfileRaw cfg r (some p) = (r, some .noSuchProfile) := by
  have : dget r.raw p = none := by
    cases hd : dget r.raw p with
    | none => rfl
    | some e => exact absurd ((hinv.rawDom p).mp (by simp [hd])) hp
  simp [removeProfileRaw, this]

/-- no path of `removeProfile` assigns `_defaultProfiles` -/
theorem removeProfileRaw_default (cfg : Cfg) (r : Reg) (q : Option Str) :
    (removeProfileRaw cfg r q).1.default = r.default := by
  unfold removeProfileRaw
  cases q with
  | none => rfl
  | some p =>
    simp only
    cases h1 : dget r.raw p with
    | none => rfl
    | some e =>
      simp only
      cases h2 : dget r.compiled p with
      | none => rfl
      | some c =>
        simp only
        by_cases hp : p ∈ r.names
        · simp only [hp, if_true]
          by_cases hm : (!e.macros.isEmpty) = true
          · simp only [hm, if_true]
            cases hx : (resetProperties cfg
              { r with compiled := derase r.compiled p, raw := derase r.raw p, names := r.names.erase p } none).2 with
            | none => simp only [updateKnown]; exact (resetProperties_fields cfg _ none).2.2.1
            | some x => simp only; exact (resetProperties_fields cfg _ none).2.2.1
          · simp only [hm, Bool.false_eq_true, if_false, updateKnown]
        · simp only [hp, if_false]

/-- T14.5 `removeProfile` of a name that is not registered raises `NoSuchProfileException` and changes nothing -/
theorem removeProfile_unknown (cfg : Cfg) (r : Reg) (p : Str) (hinv : Inv cfg r) (hp : p ∉ r.names) :
    removeProfile cfg r (some p) = (r, some .noSuchProfile) := by
  unfold removeProfile
  rw [atomic_err _ r .noSuchProfile (by rw [removeProfileRaw_unknown cfg r p hinv hp])]
  rw [removeProfileRaw_unknown cfg r p hinv hp]

/-- whatever the registry looks like and whatever is raised: a `removeProfile` that raises has changed nothing -/
theorem removeProfile_fail (cfg : Cfg) (r : Reg) (q : Option Str) (e : Exc)
    (h : (removeProfile cfg r q).2 = some e) : (removeProfile cfg r q).1 = r :=
  atomic_fail _ r e h (removeProfileRaw_default cfg r q)

/-- T14.1 (remove), unconditional -/
theorem removeProfile_inv (cfg : Cfg) (r : Reg) (q : Option Str) (hinv : Inv cfg r) :
    Inv cfg (removeProfile cfg r q).1 := by
  apply atomic_inv cfg _ r hinv
  intro h
  cases q with
  | none => simp [removeProfileRaw] at h
  | some p =>
    by_cases hp : p ∈ r.names
    · exact (removeProfileRaw_inv cfg r p hinv hp h).1
    · rw [removeProfileRaw_unknown cfg r p hinv hp] at h; simp at h

theorem removeProfile_ok (cfg : Cfg) (r : Reg) (p : Str) (hinv : Inv cfg r)
    (hs : (removeProfile cfg r (some p)).2 = none) :
    p ∈ r.names ∧ (removeProfile cfg r (some p)).1.names = r.names.erase p ∧
    (removeProfile cfg r (some p)).1.raw = derase r.raw p ∧
    (removeProfile cfg r (some p)).1.default = r.default := by
  obtain ⟨h1, h2⟩ := atomic_ok _ r hs
  have hp : p ∈ r.names := by
    by_cases hp : p ∈ r.names
    · exact hp
    · rw [removeProfileRaw_unknown cfg r p hinv hp] at h1; simp at h1
  unfold removeProfile
  rw [h2]
  exact ⟨hp, (removeProfileRaw_inv cfg r p hinv hp h1).2⟩

/-- the environment of contents in which no profile has macros is the base environment -/
theorem envOf_no_macros (base : Dict Str) (raw : Dict Raw) (names : List Str)
    (h : ∀ n ∈ names, macrosOf raw n = []) : envOf base raw names = base := by
  unfold envOf
  induction names generalizing base with
  | nil => rfl
  | cons a t ih =>
    simp only [List.foldl_cons, h a (by simp), dupdate_nil]
    exact ih base (fun n hn => h n (by simp [hn]))

/-- T14.1 (remove all), unconditional: nothing registered, macro cache = base macros -/
theorem removeAll_inv (cfg : Cfg) (r : Reg) : Inv cfg (removeAll cfg r) :=
  ⟨by simp [removeAll, updateKnown], by simp [removeAll, updateKnown, dget],
    by simp [removeAll, updateKnown, dget], SameEnv.refl _, by simp [removeAll, updateKnown, dkeys],
    by simp [removeAll, updateKnown], rfl⟩

theorem setDefault_inv (cfg : Cfg) (r : Reg) (d : Option (List Str)) (hinv : Inv cfg r) :
    Inv cfg (setDefault r d) :=
  ⟨hinv.nodup, hinv.rawDom, hinv.rawFull, hinv.used, hinv.ckeys, hinv.cvals, hinv.known⟩

/-! ## 6. contents determine what can be observed -/

/-- a registered profile: name, raw property definitions, macros -/
structure Entry where
  name : Str
  props : Dict PVal
  macros : Dict Str
  deriving DecidableEq, Repr

/-- what is registered, in registration order -/
def contents (r : Reg) : List Entry :=
  r.names.map fun n => { name := n, props := propsOf r.raw n, macros := macrosOf r.raw n }

/-- everything the queries look at -/
structure Obs where
  names : List Str
  compiled : Dict (Dict CVal)
  known : List Str
  default : Option (List Str)
  deriving DecidableEq, Repr

def obs (r : Reg) : Obs := { names := r.names, compiled := r.compiled, known := r.known, default := r.default }

theorem contents_names (r : Reg) : (contents r).map (·.name) = r.names := by
  simp [contents, List.map_map, Function.comp_def]

theorem contents_eq_iff (r₁ r₂ : Reg) (h : contents r₁ = contents r₂) :
    r₁.names = r₂.names ∧ ∀ n ∈ r₁.names, propsOf r₁.raw n = propsOf r₂.raw n ∧ macrosOf r₁.raw n = macrosOf r₂.raw n := by
  have hn : r₁.names = r₂.names := by rw [← contents_names r₁, ← contents_names r₂, h]
  refine ⟨hn, ?_⟩
  intro n hn1
  unfold contents at h
  rw [← hn] at h
  have := (List.map_inj_left.mp h) n hn1
  simp only [Entry.mk.injEq, true_and] at this
  exact this

theorem obs_eq_of_contents (cfg : Cfg) (r₁ r₂ : Reg) (h₁ : Inv cfg r₁) (h₂ : Inv cfg r₂)
    (hc : contents r₁ = contents r₂) (hd : r₁.default = r₂.default) : obs r₁ = obs r₂ := by
  obtain ⟨hn, hpm⟩ := contents_eq_iff r₁ r₂ hc
  have henv : envOf cfg.base r₁.raw r₁.names = envOf cfg.base r₂.raw r₂.names := by
    rw [← hn]
    exact envOf_congr _ _ _ _ (fun n hn1 => (hpm n hn1).2)
  have hcomp : r₁.compiled = r₂.compiled := by
    apply dict_ext
    · rw [h₁.ckeys, h₂.ckeys, hn]
    · rw [h₁.ckeys]; exact h₁.nodup
    · intro k hk
      rw [h₁.ckeys] at hk
      obtain ⟨ex1, ha, hb⟩ := h₁.cvals k hk
      obtain ⟨ex2, hc', hd'⟩ := h₂.cvals k (hn ▸ hk)
      rw [henv, (hpm k hk).1, hc'] at ha
      cases ha
      rw [hb, hd']
  simp only [obs, hn, hcomp, h₁.known, h₂.known, hd]

theorem validate_obs (accepts : CVal → Str → Bool) (r₁ r₂ : Reg) (h : obs r₁ = obs r₂) (n v : Str) :
    validate accepts r₁ n v = validate accepts r₂ n v := by
  simp only [obs, Obs.mk.injEq] at h
  simp only [validate, h.1, h.2.1]

theorem validateWithProfile_obs (accepts : CVal → Str → Bool) (r₁ r₂ : Reg) (h : obs r₁ = obs r₂) (n v : Str)
    (ps : Option (List Str)) : validateWithProfile accepts r₁ n v ps = validateWithProfile accepts r₂ n v ps := by
  cases r₁; cases r₂
  simp only [obs, Obs.mk.injEq] at h
  obtain ⟨rfl, rfl, rfl, rfl⟩ := h
  rfl

theorem propertiesByProfile_obs (r₁ r₂ : Reg) (h : obs r₁ = obs r₂) (ps : Option (List Str)) :
    propertiesByProfile r₁ ps = propertiesByProfile r₂ ps := by
  simp only [obs, Obs.mk.injEq] at h
  simp only [propertiesByProfile, h.1, h.2.1]

/-! ## 10. `addProfiles` on a registry without profiles (this is how `Profiles.__init__` fills the registry) -/

/-- the macros a bulk entry contributes (`if macros:` on line 251) -/
def dm (d : ProfileDef) : Dict Str := if truthy d.macros then d.macros.getD [] else []

/-- base macros updated with the macros of all entries, in order -/
def bulkEnv (base : Dict Str) (l : List ProfileDef) : Dict Str := l.foldl (fun m d => dupdate m (dm d)) base

theorem bulkEnv_sameEnv {a b : Dict Str} (h : SameEnv a b) (l : List ProfileDef) :
    SameEnv (bulkEnv a l) (bulkEnv b l) := by
  unfold bulkEnv
  induction l generalizing a b with
  | nil => simpa using h
  | cons x t ih => simp only [List.foldl_cons]; exact ih (h.dupdate _)

theorem preload_spec (r : Reg) (l : List ProfileDef) (hnd : (l.map (·.name)).Nodup) :
    (preloadMacros r l).used = bulkEnv r.used l ∧ (preloadMacros r l).names = r.names ∧
    (preloadMacros r l).compiled = r.compiled ∧ (preloadMacros r l).default = r.default ∧
    (preloadMacros r l).known = r.known ∧
    (∀ d ∈ l, macrosOf (preloadMacros r l).raw d.name = if truthy d.macros then dm d else macrosOf r.raw d.name) ∧
    (∀ n, n ∉ l.map (·.name) → dget (preloadMacros r l).raw n = dget r.raw n) ∧
    (∀ n, (dget (preloadMacros r l).raw n).isSome → (dget r.raw n).isSome ∨ n ∈ l.map (·.name)) := by
  induction l generalizing r with
  | nil => simp [preloadMacros, bulkEnv]
  | cons a t ih =>
    have hnd' : a.name ∉ t.map (·.name) ∧ (t.map (·.name)).Nodup := by simpa using hnd
    by_cases ht : truthy a.macros = true
    · have hdm : dm a = a.macros.getD [] := by simp [dm, ht]
      obtain ⟨h1, h2, h3, h4, h5, h6, h7, h8⟩ := ih
        { r with used := dupdate r.used (a.macros.getD []),
                 raw := dset r.raw a.name { props := none, macros := a.macros.getD [] } } hnd'.2
      simp only [preloadMacros, ht, if_true]
      refine ⟨by rw [h1]; simp [bulkEnv, hdm], h2, h3, h4, h5, ?_, ?_, ?_⟩
      · intro d hd
        simp only [List.mem_cons] at hd
        cases hd with
        | inl e =>
          subst e
          simp only [ht, if_true]
          have := h7 d.name hnd'.1
          simp only [macrosOf, this, dget_dset_self, hdm]
        | inr e =>
          rw [h6 d e]
          split
          · rfl
          · have : a.name ≠ d.name := fun h => hnd'.1 (h ▸ List.mem_map.mpr ⟨d, e, rfl⟩)
            exact macrosOf_dset_ne _ _ _ _ this
      · intro n hn
        simp only [List.map_cons, List.mem_cons, not_or] at hn
        rw [h7 n hn.2, dget_dset_ne _ _ _ _ (fun e => hn.1 e.symm)]
      · intro n hn
        have := h8 n hn
        rw [dget_dset] at this
        simp only [List.map_cons, List.mem_cons]
        by_cases hx : a.name = n
        · right; left; exact hx.symm
        · simp only [hx, if_false] at this
          cases this with
          | inl h => left; exact h
          | inr h => right; right; exact h
    · have hf : truthy a.macros = false := by simpa using ht
      have hdm : dm a = [] := by simp [dm, hf]
      obtain ⟨h1, h2, h3, h4, h5, h6, h7, h8⟩ := ih r hnd'.2
      simp only [preloadMacros, hf, Bool.false_eq_true, if_false]
      refine ⟨by rw [h1]; simp [bulkEnv, hdm, dupdate_nil], h2, h3, h4, h5, ?_, ?_, ?_⟩
      · intro d hd
        simp only [List.mem_cons] at hd
        cases hd with
        | inl e =>
          subst e
          simp only [hf, Bool.false_eq_true, if_false]
          simp only [macrosOf, h7 d.name hnd'.1]
        | inr e => exact h6 d e
      · intro n hn
        simp only [List.map_cons, List.mem_cons, not_or] at hn
        exact h7 n hn.2
      · intro n hn
        cases h8 n hn with
        | inl h => left; exact h
        | inr h => right; simp [h]

/-- the state of the `for` loop of lines 256-257: `pre` is stored, `rest` is still to come; everything is
expanded under the final environment `E` (all macros were loaded up front) -/
structure Bulk (cfg : Cfg) (E : Dict Str) (pre rest : List ProfileDef) (r : Reg) : Prop where
  names : r.names = pre.map (·.name)
  nodup : ((pre ++ rest).map (·.name)).Nodup
  used : SameEnv r.used E
  rawPre : ∀ d ∈ pre, dget r.raw d.name = some { props := some d.props, macros := dm d }
  rawRest : ∀ d ∈ rest, macrosOf r.raw d.name = dm d
  rawDom : ∀ n, (dget r.raw n).isSome → n ∈ (pre ++ rest).map (·.name)
  ckeys : dkeys r.compiled = r.names
  cvals : ∀ d ∈ pre, ∃ ex, expandDict cfg.fuel E d.props = .ok ex ∧ dget r.compiled d.name = some (compileDict ex)
  known : r.known = knownOf r.compiled

theorem addStore_ok (cfg : Cfg) (r1 : Reg) (p : Str) (ps ex : Dict PVal) (ms : Dict Str)
    (h : expandDict cfg.fuel r1.used ps = .ok ex) :
    addStore cfg r1 p ps ms = (updateKnown { r1 with
      names := if p ∈ r1.names then r1.names else r1.names ++ [p],
      raw := dset r1.raw p { props := some ps, macros := ms },
      compiled := dset r1.compiled p (compileDict ex) }, none) := by
  unfold addStore
  simp only [h]

theorem addProfileRaw_none (cfg : Cfg) (r : Reg) (p : Str) (ps : Dict PVal) :
    addProfileRaw cfg r p ps none = addStore cfg r p ps (macrosOf r.raw p) := by
  unfold addProfileRaw addPlain
  have : ¬ (p ∈ r.names ∧ truthy (none : Option (Dict Str)) = true) := by simp [truthy]
  simp only [this, if_false, addMacros_falsy cfg r p none rfl]

theorem addStore_succ (cfg : Cfg) (r1 : Reg) (p : Str) (ps : Dict PVal) (ms : Dict Str)
    (hs : (addStore cfg r1 p ps ms).2 = none) : ∃ ex, expandDict cfg.fuel r1.used ps = .ok ex := by
  unfold addStore at hs
  cases hx : expandDict cfg.fuel r1.used ps with
  | error e => simp [hx] at hs
  | ok ex => exact ⟨ex, rfl⟩

/-- `addProfile(name, properties, None)` as `addProfiles` calls it: if it does not raise, it is one store step -/
theorem addProfile_none_succ (cfg : Cfg) (r : Reg) (p : Str) (ps : Dict PVal)
    (hs : (addProfile cfg r p ps none).2 = none) :
    ∃ ex, expandDict cfg.fuel r.used ps = .ok ex ∧
      addProfile cfg r p ps none = (updateKnown { r with
        names := if p ∈ r.names then r.names else r.names ++ [p],
        raw := dset r.raw p { props := some ps, macros := macrosOf r.raw p },
        compiled := dset r.compiled p (compileDict ex) }, none) := by
  obtain ⟨h1, h2⟩ := atomic_ok _ r hs
  rw [addProfileRaw_none] at h1
  obtain ⟨ex, hex⟩ := addStore_succ cfg r p ps _ h1
  refine ⟨ex, hex, ?_⟩
  unfold addProfile
  rw [h2, addProfileRaw_none, addStore_ok cfg r p ps ex _ hex]

theorem bulk_step (cfg : Cfg) (E : Dict Str) (pre rest : List ProfileDef) (d : ProfileDef) (r : Reg)
    (hb : Bulk cfg E pre (d :: rest) r) (hex : ∃ ex, expandDict cfg.fuel E d.props = .ok ex) :
    (addProfile cfg r d.name d.props none).2 = none ∧
    Bulk cfg E (pre ++ [d]) rest (addProfile cfg r d.name d.props none).1 ∧
    (addProfile cfg r d.name d.props none).1.default = r.default := by
  obtain ⟨ex, hex⟩ := hex
  have hex' : expandDict cfg.fuel r.used d.props = .ok ex := by rw [expandDict_congr hb.used]; exact hex
  have hnd := hb.nodup
  simp only [List.map_append, List.map_cons] at hnd
  have hfresh : d.name ∉ r.names := by
    rw [hb.names]
    intro h
    rw [List.nodup_append] at hnd
    exact hnd.2.2 _ h _ (by simp) rfl
  have hms : macrosOf r.raw d.name = dm d := hb.rawRest d (by simp)
  have hraw : addProfileRaw cfg r d.name d.props none = (updateKnown { r with
      names := if d.name ∈ r.names then r.names else r.names ++ [d.name],
      raw := dset r.raw d.name { props := some d.props, macros := macrosOf r.raw d.name },
      compiled := dset r.compiled d.name (compileDict ex) }, none) := by
    rw [addProfileRaw_none, addStore_ok cfg r d.name d.props ex _ hex']
  unfold addProfile
  rw [atomic_ok' _ r (by rw [hraw]), hraw, hms]
  simp only [hfresh, if_false]
  refine ⟨by first | rfl | trivial, ?_, by first | rfl | trivial⟩
  have hne_pre : ∀ d' ∈ pre, d.name ≠ d'.name := by
    intro d' hd' e
    apply hfresh
    rw [hb.names, e]
    exact List.mem_map.mpr ⟨d', hd', rfl⟩
  have hne_rest : ∀ d' ∈ rest, d.name ≠ d'.name := by
    intro d' hd' e
    rw [List.nodup_append] at hnd
    have := hnd.2.1
    simp only [List.nodup_cons] at this
    exact this.1 (e ▸ List.mem_map.mpr ⟨d', hd', rfl⟩)
  constructor
  · show r.names ++ [d.name] = (pre ++ [d]).map (·.name)
    simp [hb.names]
  · simpa [List.append_assoc] using hb.nodup
  · exact hb.used
  · intro d' hd'
    show dget (dset r.raw d.name _) d'.name = _
    simp only [List.mem_append, List.mem_singleton] at hd'
    cases hd' with
    | inl h => rw [dget_dset_ne _ _ _ _ (hne_pre d' h)]; exact hb.rawPre d' h
    | inr h => subst h; rw [dget_dset_self]
  · intro d' hd'
    show macrosOf (dset r.raw d.name _) d'.name = _
    rw [macrosOf_dset_ne _ _ _ _ (hne_rest d' hd')]
    exact hb.rawRest d' (by simp [hd'])
  · intro n hn
    have hn' : (dget (dset r.raw d.name { props := some d.props, macros := dm d }) n).isSome := hn
    rw [dget_dset] at hn'
    by_cases hx : d.name = n
    · subst hx; simp
    · simp only [hx, if_false] at hn'
      have := hb.rawDom n hn'
      simpa [List.append_assoc] using this
  · show dkeys (dset r.compiled d.name (compileDict ex)) = r.names ++ [d.name]
    rw [dkeys_dset, hb.ckeys]
    simp [hfresh]
  · intro d' hd'
    show ∃ ex', _ ∧ dget (dset r.compiled d.name (compileDict ex)) d'.name = _
    simp only [List.mem_append, List.mem_singleton] at hd'
    cases hd' with
    | inl h =>
      obtain ⟨ex', h1, h2⟩ := hb.cvals d' h
      exact ⟨ex', h1, by rw [dget_dset_ne _ _ _ _ (hne_pre d' h)]; exact h2⟩
    | inr h => subst h; exact ⟨ex, hex, dget_dset_self _ _ _⟩
  · rfl

theorem bulk_loop (cfg : Cfg) (E : Dict Str) (pre rest : List ProfileDef) (r : Reg)
    (hb : Bulk cfg E pre rest r) (hex : ∀ d ∈ rest, ∃ ex, expandDict cfg.fuel E d.props = .ok ex) :
    (addEach cfg r rest).2 = none ∧ Bulk cfg E (pre ++ rest) [] (addEach cfg r rest).1 ∧
    (addEach cfg r rest).1.default = r.default := by
  induction rest generalizing pre r with
  | nil => simpa [addEach] using hb
  | cons d t ih =>
    obtain ⟨h1, h2, h3⟩ := bulk_step cfg E pre t d r hb (hex d (by simp))
    simp only [addEach, h1]
    obtain ⟨a, b, c⟩ := ih (pre ++ [d]) _ h2 (fun d' hd' => hex d' (by simp [hd']))
    exact ⟨a, by simpa [List.append_assoc] using b, by rw [c, h3]⟩

theorem bulk_done (cfg : Cfg) (l : List ProfileDef) (r : Reg) (hb : Bulk cfg (bulkEnv cfg.base l) l [] r) :
    Inv cfg r ∧ contents r = l.map (fun d => { name := d.name, props := d.props, macros := dm d }) := by
  have hnd : r.names.Nodup := by rw [hb.names]; simpa using hb.nodup
  have hmac : ∀ d ∈ l, macrosOf r.raw d.name = dm d := fun d hd => by simp [macrosOf, hb.rawPre d hd]
  have hprop : ∀ d ∈ l, propsOf r.raw d.name = d.props := fun d hd => by simp [propsOf, hb.rawPre d hd]
  have henv : envOf cfg.base r.raw r.names = bulkEnv cfg.base l := by
    rw [hb.names]
    unfold envOf bulkEnv
    rw [List.foldl_map]
    have : ∀ (m : Dict Str) (l' : List ProfileDef), (∀ d ∈ l', macrosOf r.raw d.name = dm d) →
        List.foldl (fun m d => dupdate m (macrosOf r.raw d.name)) m l' = List.foldl (fun m d => dupdate m (dm d)) m l' := by
      intro m l'
      induction l' generalizing m with
      | nil => intro _; rfl
      | cons a t ih =>
        intro h
        simp only [List.foldl_cons, h a (by simp)]
        exact ih _ (fun d hd => h d (by simp [hd]))
    exact this _ l hmac
  refine ⟨⟨hnd, ?_, ?_, ?_, hb.ckeys, ?_, hb.known⟩, ?_⟩
  · intro n
    constructor
    · intro h
      have := hb.rawDom n h
      rw [hb.names]; simpa using this
    · intro h
      rw [hb.names] at h
      obtain ⟨d, hd, e⟩ := List.mem_map.mp h
      rw [← e, hb.rawPre d hd]; rfl
  · intro n e he
    have hn := hb.rawDom n (by simp [he])
    simp only [List.append_nil] at hn
    obtain ⟨d, hd, e'⟩ := List.mem_map.mp hn
    rw [← e', hb.rawPre d hd] at he
    cases he; rfl
  · rw [henv]; exact hb.used
  · intro n hn
    rw [hb.names] at hn
    obtain ⟨d, hd, e⟩ := List.mem_map.mp hn
    obtain ⟨ex, h1, h2⟩ := hb.cvals d hd
    subst e
    exact ⟨ex, by rw [henv, hprop d hd]; exact h1, h2⟩
  · unfold contents
    rw [hb.names, List.map_map]
    apply List.map_congr_left
    intro d hd
    simp [hprop d hd, hmac d hd]

theorem addEach_succ_head (cfg : Cfg) (r : Reg) (d : ProfileDef) (t : List ProfileDef)
    (h : (addEach cfg r (d :: t)).2 = none) :
    (addProfile cfg r d.name d.props none).2 = none ∧
    addEach cfg r (d :: t) = addEach cfg (addProfile cfg r d.name d.props none).1 t := by
  simp only [addEach] at h ⊢
  cases hx : (addProfile cfg r d.name d.props none).2 with
  | none => simp
  | some e => simp [hx] at h

/-- the loop of `addProfiles`, driven by the fact that it did not raise -/
theorem bulk_loop_succ (cfg : Cfg) (E : Dict Str) (pre rest : List ProfileDef) (r : Reg)
    (hb : Bulk cfg E pre rest r) (hs : (addEach cfg r rest).2 = none) :
    Bulk cfg E (pre ++ rest) [] (addEach cfg r rest).1 ∧ (addEach cfg r rest).1.default = r.default := by
  induction rest generalizing pre r with
  | nil => simpa [addEach] using hb
  | cons d t ih =>
    obtain ⟨h1, h2⟩ := addEach_succ_head cfg r d t hs
    obtain ⟨ex, hex, _⟩ := addProfile_none_succ cfg r d.name d.props h1
    have hexE : ∃ ex, expandDict cfg.fuel E d.props = .ok ex := ⟨ex, by rw [← expandDict_congr hb.used]; exact hex⟩
    obtain ⟨_, b2, b3⟩ := bulk_step cfg E pre t d r hb hexE
    rw [h2] at hs ⊢
    obtain ⟨a, c⟩ := ih (pre ++ [d]) _ b2 hs
    exact ⟨by simpa [List.append_assoc] using a, by rw [c, b3]⟩

/-- what the loop of `addProfiles` keeps when profiles are already registered (then the final re-expansion does
the rest): names listed once; a registered name that is not about to be re-added has complete raw values; the raw
table holds registered and pending names only -/
structure Weak (pending : List ProfileDef) (r : Reg) : Prop where
  nodup : r.names.Nodup
  full : ∀ n ∈ r.names, n ∉ pending.map (·.name) → ∃ e, dget r.raw n = some e ∧ e.props.isSome
  dom : ∀ n, (dget r.raw n).isSome → n ∈ r.names ∨ n ∈ pending.map (·.name)

theorem preload_weak (r : Reg) (l : List ProfileDef) :
    (preloadMacros r l).names = r.names ∧
    (∀ n, n ∉ l.map (·.name) → dget (preloadMacros r l).raw n = dget r.raw n) ∧
    (∀ n, (dget (preloadMacros r l).raw n).isSome → (dget r.raw n).isSome ∨ n ∈ l.map (·.name)) := by
  induction l generalizing r with
  | nil => simp [preloadMacros]
  | cons a t ih =>
    by_cases ht : truthy a.macros = true
    · obtain ⟨h2, h7, h8⟩ := ih
        { r with used := dupdate r.used (a.macros.getD []),
                 raw := dset r.raw a.name { props := none, macros := a.macros.getD [] } }
      simp only [preloadMacros, ht, if_true]
      refine ⟨h2, ?_, ?_⟩
      · intro n hn
        simp only [List.map_cons, List.mem_cons, not_or] at hn
        rw [h7 n hn.2, dget_dset_ne _ _ _ _ (fun e => hn.1 e.symm)]
      · intro n hn
        have := h8 n hn
        rw [dget_dset] at this
        simp only [List.map_cons, List.mem_cons]
        by_cases hx : a.name = n
        · right; left; exact hx.symm
        · simp only [hx, if_false] at this
          cases this with
          | inl h => left; exact h
          | inr h => right; right; exact h
    · have hf : truthy a.macros = false := by simpa using ht
      obtain ⟨h2, h7, h8⟩ := ih r
      simp only [preloadMacros, hf, Bool.false_eq_true, if_false]
      refine ⟨h2, ?_, ?_⟩
      · intro n hn
        simp only [List.map_cons, List.mem_cons, not_or] at hn
        exact h7 n hn.2
      · intro n hn
        cases h8 n hn with
        | inl h => left; exact h
        | inr h => right; simp [h]

theorem weak_loop (cfg : Cfg) (pending : List ProfileDef) (r : Reg) (hw : Weak pending r)
    (hs : (addEach cfg r pending).2 = none) : Weak [] (addEach cfg r pending).1 := by
  induction pending generalizing r with
  | nil => simpa [addEach] using hw
  | cons d t ih =>
    obtain ⟨h1, h2⟩ := addEach_succ_head cfg r d t hs
    obtain ⟨ex, _, heq⟩ := addProfile_none_succ cfg r d.name d.props h1
    rw [h2] at hs ⊢
    apply ih _ _ hs
    rw [heq]
    constructor
    · show (if d.name ∈ r.names then r.names else r.names ++ [d.name]).Nodup
      split
      · exact hw.nodup
      · rename_i hp
        rw [List.nodup_append]
        refine ⟨hw.nodup, by simp, ?_⟩
        intro a ha b hb
        simp only [List.mem_singleton] at hb
        subst hb
        exact fun e => hp (e ▸ ha)
    · intro n hn hnt
      show ∃ e, dget (dset r.raw d.name _) n = some e ∧ _
      rw [dget_dset]
      by_cases hx : d.name = n
      · simp only [hx, if_true]; exact ⟨_, rfl, rfl⟩
      · simp only [hx, if_false]
        have hn' : n ∈ r.names := by
          have : n ∈ (if d.name ∈ r.names then r.names else r.names ++ [d.name]) := hn
          split at this
          · exact this
          · simp only [List.mem_append, List.mem_singleton] at this
            cases this with
            | inl h => exact h
            | inr h => exact absurd h.symm hx
        apply hw.full n hn'
        simp only [List.map_cons, List.mem_cons, not_or]
        exact ⟨fun e => hx e.symm, hnt⟩
    · intro n hn
      have hn' : (dget (dset r.raw d.name { props := some d.props, macros := macrosOf r.raw d.name }) n).isSome := hn
      rw [dget_dset] at hn'
      show n ∈ (if d.name ∈ r.names then r.names else r.names ++ [d.name]) ∨ _
      by_cases hx : d.name = n
      · left; subst hx; split <;> simp_all
      · simp only [hx, if_false] at hn'
        cases hw.dom n hn' with
        | inl h => left; split <;> simp [h]
        | inr h =>
          simp only [List.map_cons, List.mem_cons] at h
          cases h with
          | inl e => exact absurd e.symm hx
          | inr e => right; exact e

theorem addEach_default (cfg : Cfg) (r : Reg) (l : List ProfileDef) : (addEach cfg r l).1.default = r.default := by
  induction l generalizing r with
  | nil => rfl
  | cons d t ih =>
    have hd : (addProfile cfg r d.name d.props none).1.default = r.default := by
      unfold addProfile
      cases hx : (addProfileRaw cfg r d.name d.props none).2 with
      | none => rw [atomic_ok' _ r hx]; exact addProfileRaw_default cfg r _ _ _
      | some e => rw [atomic_err _ r e hx]; exact addProfileRaw_default cfg r _ _ _
    simp only [addEach]
    cases hx : (addProfile cfg r d.name d.props none).2 with
    | none => simp only; rw [ih, hd]
    | some e => simp only; exact hd

theorem preload_default (r : Reg) (l : List ProfileDef) : (preloadMacros r l).default = r.default := by
  induction l generalizing r with
  | nil => rfl
  | cons a t ih =>
    simp only [preloadMacros]
    split
    · rw [ih]
    · exact ih r

/-- no path of `addProfiles` assigns `_defaultProfiles` -/
theorem addProfilesRaw_default (cfg : Cfg) (r : Reg) (l : List ProfileDef) :
    (addProfilesRaw cfg r l).1.default = r.default := by
  have h0 : (addEach cfg (preloadMacros r l) l).1.default = r.default := by
    rw [addEach_default, preload_default]
  unfold addProfilesRaw
  simp only
  cases hx : (addEach cfg (preloadMacros r l) l).2 with
  | some e => simp only; exact h0
  | none =>
    simp only
    split
    · cases hy : (resetProperties cfg (addEach cfg (preloadMacros r l) l).1 none).2 with
      | none => simp only [updateKnown]; rw [(resetProperties_fields cfg _ none).2.2.1]; exact h0
      | some e => simp only; rw [(resetProperties_fields cfg _ none).2.2.1]; exact h0
    · exact h0

/-- the body of `addProfiles`: if it does not raise, the invariant holds afterwards — on a registry without
profiles through the incremental expansion under the joint environment, otherwise (or when a name occurs twice)
through the final re-expansion -/
theorem addProfilesRaw_inv (cfg : Cfg) (r : Reg) (l : List ProfileDef) (hinv : Inv cfg r)
    (hs : (addProfilesRaw cfg r l).2 = none) : Inv cfg (addProfilesRaw cfg r l).1 := by
  have hloop : (addEach cfg (preloadMacros r l) l).2 = none := by
    unfold addProfilesRaw at hs
    cases hx : (addEach cfg (preloadMacros r l) l).2 with
    | none => rfl
    | some e => simp [hx] at hs
  by_cases hreset : (!r.names.isEmpty || !decide ((l.map (·.name)).Nodup)) = true
  · -- re-expansion at the end
    obtain ⟨p2, p7, p8⟩ := preload_weak r l
    have hw0 : Weak l (preloadMacros r l) := by
      refine ⟨by rw [p2]; exact hinv.nodup, ?_, ?_⟩
      · intro n hn hnl
        rw [p2] at hn
        rw [p7 n hnl]
        have := (hinv.rawDom n).mpr hn
        cases hd : dget r.raw n with
        | none => simp [hd] at this
        | some e => exact ⟨e, rfl, hinv.rawFull n e hd⟩
      · intro n hn
        cases p8 n hn with
        | inl h => left; rw [p2]; exact (hinv.rawDom n).mp h
        | inr h => right; exact h
    have hw := weak_loop cfg l _ hw0 hloop
    have hres : (resetProperties cfg (addEach cfg (preloadMacros r l) l).1 none).2 = none := by
      unfold addProfilesRaw at hs
      simp only [hloop, hreset, if_true] at hs
      cases hy : (resetProperties cfg (addEach cfg (preloadMacros r l) l).1 none).2 with
      | none => rfl
      | some e => simp [hy] at hs
    have hi := reset_inv cfg _ hres hw.nodup
      (fun n => ⟨fun h => by
          cases hw.dom n h with
          | inl h' => exact h'
          | inr h' => simp at h',
        fun h => by obtain ⟨e, he, _⟩ := hw.full n h (by simp); simp [he]⟩)
      (fun n e he => by
        have hn : n ∈ (addEach cfg (preloadMacros r l) l).1.names := by
          cases hw.dom n (by simp [he]) with
          | inl h' => exact h'
          | inr h' => simp at h'
        obtain ⟨e', he', hf⟩ := hw.full n hn (by simp)
        rw [he] at he'; cases he'; exact hf)
    unfold addProfilesRaw
    simp only [hloop, hreset, if_true, hres]
    exact hi
  · -- nothing registered before and all names differ: the incremental path
    have hcond : r.names.isEmpty = true ∧ (l.map (·.name)).Nodup := by
      simp only [Bool.or_eq_true, Bool.not_eq_true', not_or, Bool.not_eq_false, decide_eq_false_iff_not,
        Decidable.not_not] at hreset
      simpa using hreset
    have hempty : r.names = [] := List.isEmpty_iff.mp hcond.1
    have hnd := hcond.2
    obtain ⟨p1, p2, p3, p4, p5, p6, p7, p8⟩ := preload_spec r l hnd
    have hrawnone : ∀ n, dget r.raw n = none := by
      intro n
      cases hd : dget r.raw n with
      | none => rfl
      | some e =>
        have := (hinv.rawDom n).mp (by simp [hd])
        rw [hempty] at this; simp at this
    have hused : SameEnv r.used cfg.base := by
      have := hinv.used
      rw [hempty] at this
      exact this
    have hck : r.compiled = [] := by
      have := hinv.ckeys
      rw [hempty] at this
      cases hc : r.compiled with
      | nil => rfl
      | cons a t => rw [hc] at this; simp [dkeys] at this
    have hb : Bulk cfg (bulkEnv cfg.base l) [] l (preloadMacros r l) := by
      refine ⟨by rw [p2, hempty]; rfl, by simpa using hnd, by rw [p1]; exact bulkEnv_sameEnv hused l,
        by simp, ?_, ?_, by rw [p3, p2, hempty, hck]; rfl, by simp, by rw [p5, p3]; exact hinv.known⟩
      · intro d hd
        rw [p6 d hd]
        split
        · rfl
        · rename_i ht
          simp [macrosOf, hrawnone, dm, ht]
      · intro n hn
        cases p8 n hn with
        | inl h => rw [hrawnone] at h; simp at h
        | inr h => simpa using h
    obtain ⟨b, _⟩ := bulk_loop_succ cfg _ [] l _ hb hloop
    simp only [List.nil_append] at b
    obtain ⟨i, _⟩ := bulk_done cfg l _ b
    unfold addProfilesRaw
    simp only [hloop, hreset, if_false]
    exact i

/-- T14.1 (bulk add), unconditional -/
theorem addProfiles_inv (cfg : Cfg) (r : Reg) (l : List ProfileDef) (hinv : Inv cfg r) :
    Inv cfg (addProfiles cfg r l).1 :=
  atomic_inv cfg _ r hinv (fun h => addProfilesRaw_inv cfg r l hinv h)

theorem addProfiles_fail (cfg : Cfg) (r : Reg) (l : List ProfileDef) (e : Exc)
    (h : (addProfiles cfg r l).2 = some e) : (addProfiles cfg r l).1 = r :=
  atomic_fail _ r e h (addProfilesRaw_default cfg r l)

/-! ## 7. histories -/

/-- T14.1, unconditional: every operation keeps the invariant — whatever its arguments, whether it raises or not -/
theorem step_inv (cfg : Cfg) (r : Reg) (op : Op) (hinv : Inv cfg r) : Inv cfg (step cfg r op).1 := by
  cases op with
  | add p ps ms => exact addProfile_inv cfg r p ps ms hinv
  | addMany l => exact addProfiles_inv cfg r l hinv
  | remove q => exact removeProfile_inv cfg r q hinv
  | removeAll => exact removeAll_inv cfg r
  | setDefault d => exact setDefault_inv cfg r d hinv

theorem run_inv (cfg : Cfg) (r : Reg) (ops : List Op) (hinv : Inv cfg r) : Inv cfg (run cfg r ops) := by
  induction ops generalizing r with
  | nil => exact hinv
  | cons op ops ih => exact ih _ (step_inv cfg r op hinv)

/-- an operation that raises leaves the registry exactly as it was -/
theorem step_fail (cfg : Cfg) (r : Reg) (op : Op) (e : Exc) (h : (step cfg r op).2 = some e) :
    (step cfg r op).1 = r := by
  cases op with
  | add p ps ms => exact addProfile_fail cfg r p ps ms e h
  | addMany l => exact addProfiles_fail cfg r l e h
  | remove q => exact removeProfile_fail cfg r q e h
  | removeAll => simp [step] at h
  | setDefault d => simp [step] at h

/-- the same operations on the contents alone (for a bulk add: entries under new, distinct names) -/
def cstep (c : List Entry) : Op → List Entry
  | .add n ps ms =>
      if n ∈ c.map (·.name) then
        c.map fun e => if e.name = n then
          { name := n, props := ps, macros := if truthy ms then ms.getD [] else e.macros } else e
      else c ++ [{ name := n, props := ps, macros := if truthy ms then ms.getD [] else [] }]
  | .addMany l => c ++ l.map fun d => { name := d.name, props := d.props, macros := dm d }
  | .remove (some n) => c.filter fun e => e.name ≠ n
  | .remove none => c
  | .removeAll => []
  | .setDefault _ => c

def dstep (d : Option (List Str)) : Op → Option (List Str)
  | .setDefault d' => d'
  | _ => d

def crun (c : List Entry) : List Op → List Entry
  | [] => c
  | op :: ops => crun (cstep c op) ops

def drun (d : Option (List Str)) : List Op → Option (List Str)
  | [] => d
  | op :: ops => drun (dstep d op) ops

/-- a bulk add is plain when it only brings new names, each once (otherwise it also replaces profiles; the
invariant is kept all the same, but `cstep` does not describe the new contents) -/
def Plain (r : Reg) : Op → Prop
  | .addMany l => (∀ d ∈ l, d.name ∉ r.names) ∧ (l.map (·.name)).Nodup
  | _ => True

/-- the operation goes through, or it is a removal rejected with `NoSuchProfileException` -/
def StepOk (cfg : Cfg) (r : Reg) (op : Op) : Prop :=
  (step cfg r op).2 = none ∨ ((∃ q, op = .remove q) ∧ (step cfg r op).2 = some .noSuchProfile)

def QuietRun (cfg : Cfg) : Reg → List Op → Prop
  | _, [] => True
  | r, op :: ops => StepOk cfg r op ∧ Plain r op ∧ QuietRun cfg (step cfg r op).1 ops

/-- names and raw values during the loop of a plain bulk add -/
structure Track (r0 : Reg) (pre rest : List ProfileDef) (r : Reg) : Prop where
  names : r.names = r0.names ++ pre.map (·.name)
  rawPre : ∀ d ∈ pre, dget r.raw d.name = some { props := some d.props, macros := dm d }
  rawRest : ∀ d ∈ rest, macrosOf r.raw d.name = dm d
  rawOld : ∀ n ∈ r0.names, dget r.raw n = dget r0.raw n

theorem track_loop (cfg : Cfg) (r0 : Reg) (pre rest : List ProfileDef) (r : Reg)
    (ht : Track r0 pre rest r) (hdis : ∀ d ∈ pre ++ rest, d.name ∉ r0.names)
    (hnd : ((pre ++ rest).map (·.name)).Nodup) (hs : (addEach cfg r rest).2 = none) :
    Track r0 (pre ++ rest) [] (addEach cfg r rest).1 := by
  induction rest generalizing pre r with
  | nil => simpa [addEach] using ht
  | cons d t ih =>
    obtain ⟨h1, h2⟩ := addEach_succ_head cfg r d t hs
    obtain ⟨ex, _, heq⟩ := addProfile_none_succ cfg r d.name d.props h1
    rw [h2] at hs ⊢
    have hnd' := hnd
    simp only [List.map_append, List.map_cons] at hnd'
    have hfresh : d.name ∉ r.names := by
      rw [ht.names]
      simp only [List.mem_append, not_or]
      refine ⟨hdis d (by simp), ?_⟩
      intro h
      rw [List.nodup_append] at hnd'
      exact hnd'.2.2 _ h _ (by simp) rfl
    have hne_pre : ∀ d' ∈ pre, d.name ≠ d'.name := by
      intro d' hd' e
      rw [List.nodup_append] at hnd'
      exact hnd'.2.2 _ (List.mem_map.mpr ⟨d', hd', rfl⟩) _ (by simp) e.symm
    have hne_rest : ∀ d' ∈ t, d.name ≠ d'.name := by
      intro d' hd' e
      rw [List.nodup_append] at hnd'
      have := hnd'.2.1
      simp only [List.nodup_cons] at this
      exact this.1 (e ▸ List.mem_map.mpr ⟨d', hd', rfl⟩)
    have := ih (pre ++ [d]) (addProfile cfg r d.name d.props none).1 ?_
      (by simpa [List.append_assoc] using hdis) (by simpa [List.append_assoc] using hnd) hs
    · simpa [List.append_assoc] using this
    · rw [heq]
      constructor
      · show (if d.name ∈ r.names then r.names else r.names ++ [d.name]) = _
        rw [if_neg hfresh, ht.names]
        simp
      · intro d' hd'
        show dget (dset r.raw d.name _) d'.name = _
        simp only [List.mem_append, List.mem_singleton] at hd'
        cases hd' with
        | inl h => rw [dget_dset_ne _ _ _ _ (hne_pre d' h)]; exact ht.rawPre d' h
        | inr h => subst h; rw [dget_dset_self, ht.rawRest d' (by simp)]
      · intro d' hd'
        show macrosOf (dset r.raw d.name _) d'.name = _
        rw [macrosOf_dset_ne _ _ _ _ (hne_rest d' hd')]
        exact ht.rawRest d' (by simp [hd'])
      · intro n hn
        show dget (dset r.raw d.name _) n = _
        have hne : d.name ≠ n := by
          intro e
          apply hdis d (by simp)
          rw [e]; exact hn
        rw [dget_dset_ne _ _ _ _ hne]
        exact ht.rawOld n hn

/-- a plain bulk add that does not raise appends its entries to the contents -/
theorem addProfiles_ok_plain (cfg : Cfg) (r : Reg) (l : List ProfileDef) (hinv : Inv cfg r)
    (hdis : ∀ d ∈ l, d.name ∉ r.names) (hnd : (l.map (·.name)).Nodup) (hs : (addProfiles cfg r l).2 = none) :
    contents (addProfiles cfg r l).1
      = contents r ++ l.map (fun d => { name := d.name, props := d.props, macros := dm d }) := by
  obtain ⟨h1, h2⟩ := atomic_ok _ r hs
  have hloop : (addEach cfg (preloadMacros r l) l).2 = none := by
    unfold addProfilesRaw at h1
    cases hx : (addEach cfg (preloadMacros r l) l).2 with
    | none => rfl
    | some e => simp [hx] at h1
  obtain ⟨_, p2, _, _, _, p6, p7, _⟩ := preload_spec r l hnd
  have ht0 : Track r [] l (preloadMacros r l) := by
    refine ⟨by simp [p2], by simp, ?_, ?_⟩
    · intro d hd
      rw [p6 d hd]
      split
      · rfl
      · rename_i htr
        have : dget r.raw d.name = none := by
          cases hx : dget r.raw d.name with
          | none => rfl
          | some e => exact absurd ((hinv.rawDom d.name).mp (by simp [hx])) (hdis d hd)
        simp [macrosOf, this, dm, htr]
    · intro n hn
      apply p7
      intro hmem
      obtain ⟨d, hd, e⟩ := List.mem_map.mp hmem
      exact hdis d hd (e ▸ hn)
  have ht := track_loop cfg r [] l _ ht0 (by simpa using hdis) (by simpa using hnd) hloop
  simp only [List.nil_append] at ht
  -- names and raw values of the result: the final re-expansion keeps them
  have hfin : (addProfilesRaw cfg r l).1.names = (addEach cfg (preloadMacros r l) l).1.names ∧
      (addProfilesRaw cfg r l).1.raw = (addEach cfg (preloadMacros r l) l).1.raw := by
    unfold addProfilesRaw
    simp only [hloop]
    split
    · cases hy : (resetProperties cfg (addEach cfg (preloadMacros r l) l).1 none).2 with
      | none =>
        simp only [updateKnown]
        exact ⟨(resetProperties_fields cfg _ none).1, (resetProperties_fields cfg _ none).2.1⟩
      | some e => simp only; exact ⟨(resetProperties_fields cfg _ none).1, (resetProperties_fields cfg _ none).2.1⟩
    · exact ⟨rfl, rfl⟩
  unfold addProfiles
  rw [h2]
  unfold contents
  rw [hfin.1, hfin.2, ht.names, List.map_append, List.map_map]
  congr 1
  · apply List.map_congr_left
    intro n hn
    simp [propsOf, macrosOf, ht.rawOld n hn]
  · apply List.map_congr_left
    intro d hd
    simp [propsOf, macrosOf, ht.rawPre d hd]

theorem removeProfile_noSuch (cfg : Cfg) (r : Reg) (p : Str) (hinv : Inv cfg r)
    (h : (removeProfile cfg r (some p)).2 = some .noSuchProfile) : p ∉ r.names := by
  intro hp
  have hraw : (removeProfileRaw cfg r (some p)).2 = some .noSuchProfile := by
    cases hx : (removeProfileRaw cfg r (some p)).2 with
    | none =>
      unfold removeProfile at h
      rw [atomic_ok' _ r hx, hx] at h; simp at h
    | some e =>
      unfold removeProfile at h
      rw [atomic_err _ r e hx] at h
      simpa using h
  obtain ⟨e, he⟩ : ∃ e, dget r.raw p = some e := by
    have := (hinv.rawDom p).mpr hp
    cases hd : dget r.raw p with
    | none => simp [hd] at this
    | some e => exact ⟨e, rfl⟩
  obtain ⟨exp, _, hcp⟩ := hinv.cvals p hp
  unfold removeProfileRaw at hraw
  simp only [he, hcp, hp, if_true] at hraw
  split at hraw
  · split at hraw
    · rename_i x hx
      simp only [Option.some.injEq] at hraw
      subst hraw
      exact absurd hx (resetProperties_not_noSuch _ _ _)
    · simp at hraw
  · simp [updateKnown] at hraw

theorem step_contents (cfg : Cfg) (r : Reg) (op : Op) (hinv : Inv cfg r) (hok : StepOk cfg r op) (hpl : Plain r op) :
    contents (step cfg r op).1 = cstep (contents r) op ∧ (step cfg r op).1.default = dstep r.default op := by
  cases op with
  | add p ps ms =>
    have hs : (addProfile cfg r p ps ms).2 = none := by
      cases hok with
      | inl h => exact h
      | inr h => obtain ⟨⟨q, hq⟩, _⟩ := h; cases hq
    obtain ⟨hn, hr, hd⟩ := addProfile_ok cfg r p ps ms hinv hs
    refine ⟨?_, hd⟩
    show contents (addProfile cfg r p ps ms).1 = _
    unfold contents cstep
    rw [hn, hr]
    simp only [List.map_map, Function.comp_def, List.map_id']
    by_cases hp : p ∈ r.names
    · simp only [addNames, hp, if_true]
      apply List.map_congr_left
      intro n _
      by_cases hnp : n = p
      · subst hnp
        simp [propsOf_dset_self, macrosOf_dset_self, storedMacros]
      · have : ¬ p = n := fun e => hnp e.symm
        simp [hnp, propsOf_dset_ne _ _ _ _ this, macrosOf_dset_ne _ _ _ _ this]
    · simp only [addNames, hp, if_false, List.map_append, List.map_cons, List.map_nil]
      have hnone : macrosOf r.raw p = [] := by
        have : dget r.raw p = none := by
          cases hd' : dget r.raw p with
          | none => rfl
          | some e => exact absurd ((hinv.rawDom p).mp (by simp [hd'])) hp
        simp [macrosOf, this]
      congr 1
      · apply List.map_congr_left
        intro n hn'
        have : ¬ p = n := fun e => hp (e ▸ hn')
        simp [propsOf_dset_ne _ _ _ _ this, macrosOf_dset_ne _ _ _ _ this]
      · simp only [propsOf_dset_self, macrosOf_dset_self, storedMacros, hnone]
  | addMany l =>
    have hs : (addProfiles cfg r l).2 = none := by
      cases hok with
      | inl h => exact h
      | inr h => obtain ⟨⟨q, hq⟩, _⟩ := h; cases hq
    obtain ⟨hdis, hnd⟩ := hpl
    refine ⟨addProfiles_ok_plain cfg r l hinv hdis hnd hs, ?_⟩
    show (addProfiles cfg r l).1.default = r.default
    obtain ⟨_, h2⟩ := atomic_ok _ r hs
    unfold addProfiles
    rw [h2]; exact addProfilesRaw_default cfg r l
  | remove q =>
    cases hok with
    | inl hs =>
      cases q with
      | none =>
        have : (removeProfile cfg r none).2 = some .noSuchProfile := by
          unfold removeProfile
          rw [atomic_err _ r .noSuchProfile (by simp [removeProfileRaw])]
        rw [show (step cfg r (.remove none)).2 = (removeProfile cfg r none).2 from rfl, this] at hs
        simp at hs
      | some p =>
        obtain ⟨hp, hn, hr, hd⟩ := removeProfile_ok cfg r p hinv hs
        refine ⟨?_, hd⟩
        show contents (removeProfile cfg r (some p)).1 = (contents r).filter (fun e => e.name ≠ p)
        unfold contents
        rw [hn, hr, hinv.nodup.erase_eq_filter p, List.filter_map]
        have : List.filter ((fun e : Entry => decide (e.name ≠ p)) ∘ fun n =>
            ({ name := n, props := propsOf r.raw n, macros := macrosOf r.raw n } : Entry)) r.names
            = List.filter (fun x => x != p) r.names := by
          apply List.filter_congr
          intro x _
          by_cases hx : x = p <;> simp [hx]
        rw [this]
        apply List.map_congr_left
        intro n hn'
        have hnp : n ≠ p := by
          intro e; simp [e] at hn'
        simp [propsOf_derase_ne _ _ _ hnp, macrosOf_derase_ne _ _ _ hnp]
    | inr h =>
      obtain ⟨_, hns⟩ := h
      have hsame : (step cfg r (.remove q)).1 = r := step_fail cfg r _ _ hns
      rw [hsame]
      refine ⟨?_, rfl⟩
      cases q with
      | none => rfl
      | some p =>
        have hp : p ∉ r.names := removeProfile_noSuch cfg r p hinv hns
        show contents r = (contents r).filter (fun e => e.name ≠ p)
        unfold contents
        rw [List.filter_map]
        symm
        have : List.filter ((fun e : Entry => decide (e.name ≠ p)) ∘ fun n =>
            ({ name := n, props := propsOf r.raw n, macros := macrosOf r.raw n } : Entry)) r.names = r.names := by
          rw [List.filter_eq_self]
          intro x hx
          have : x ≠ p := fun e => hp (e ▸ hx)
          simp [this]
        rw [this]
  | removeAll => exact ⟨rfl, rfl⟩
  | setDefault d => exact ⟨rfl, rfl⟩

theorem run_contents (cfg : Cfg) (r : Reg) (ops : List Op) (hinv : Inv cfg r) (hq : QuietRun cfg r ops) :
    contents (run cfg r ops) = crun (contents r) ops ∧ (run cfg r ops).default = drun r.default ops := by
  induction ops generalizing r with
  | nil => exact ⟨rfl, rfl⟩
  | cons op ops ih =>
    obtain ⟨h1, h2, h3⟩ := hq
    obtain ⟨hc, hd⟩ := step_contents cfg r op hinv h1 h2
    obtain ⟨b, c⟩ := ih (step cfg r op).1 (step_inv cfg r op hinv) h3
    exact ⟨by rw [show run cfg r (op :: ops) = run cfg (step cfg r op).1 ops from rfl, b, hc]; rfl,
      by rw [show run cfg r (op :: ops) = run cfg (step cfg r op).1 ops from rfl, c, hd]; rfl⟩

/-- the operation names profile `p` -/
def Op.mentions (p : Str) : Op → Prop
  | .add n _ _ => n = p
  | .addMany l => p ∈ l.map (·.name)
  | .remove (some n) => n = p
  | .remove none => False
  | .removeAll => False
  | .setDefault _ => False

theorem map_filter_comm (f : Entry → Entry) (q : Entry → Bool) (c : List Entry) (hf : ∀ e, q (f e) = q e) :
    (c.map f).filter q = (c.filter q).map f := by
  induction c with
  | nil => rfl
  | cons a t ih =>
    simp only [List.map_cons, List.filter_cons, hf a]
    split <;> simp [ih]

theorem cstep_filter (c : List Entry) (p : Str) (op : Op) (h : ¬ op.mentions p) :
    (cstep c op).filter (fun e => e.name ≠ p) = cstep (c.filter fun e => e.name ≠ p) op := by
  cases op with
  | add n ps ms =>
    have hnp : n ≠ p := h
    simp only [cstep]
    have hmem : n ∈ (c.filter fun e => e.name ≠ p).map (·.name) ↔ n ∈ c.map (·.name) := by
      simp only [List.mem_map, List.mem_filter]
      constructor
      · rintro ⟨e, ⟨he, _⟩, hn⟩; exact ⟨e, he, hn⟩
      · rintro ⟨e, he, hn⟩; exact ⟨e, ⟨he, by simp [hn, hnp]⟩, hn⟩
    by_cases hin : n ∈ c.map (·.name)
    · simp only [hin, if_true, hmem.mpr hin]
      apply map_filter_comm
      intro e
      by_cases he : e.name = n
      · simp [he, hnp]
      · simp [he]
    · have hin2 : n ∉ (c.filter fun e => e.name ≠ p).map (·.name) := fun hx => hin (hmem.mp hx)
      simp only [hin, if_false, hin2, List.filter_append]
      congr 1
      simp [hnp]
  | addMany l =>
    simp only [cstep, List.filter_append]
    congr 1
    rw [List.filter_eq_self]
    intro e he
    obtain ⟨d, hd, hde⟩ := List.mem_map.mp he
    have : e.name ≠ p := by
      intro hx
      apply h
      show p ∈ l.map (·.name)
      rw [← hx, ← hde]
      exact List.mem_map.mpr ⟨d, hd, rfl⟩
    simp [this]
  | remove q =>
    cases q with
    | none => rfl
    | some n =>
      simp only [cstep, List.filter_filter]
      apply List.filter_congr
      intro x _
      simp [Bool.and_comm]
  | removeAll => rfl
  | setDefault d => rfl

theorem crun_filter (c : List Entry) (p : Str) (ops : List Op) (h : ∀ op ∈ ops, ¬ op.mentions p) :
    (crun c ops).filter (fun e => e.name ≠ p) = crun (c.filter fun e => e.name ≠ p) ops := by
  induction ops generalizing c with
  | nil => rfl
  | cons op ops ih =>
    simp only [crun]
    rw [ih _ (fun o ho => h o (by simp [ho])), cstep_filter c p op (h op (by simp))]

theorem crun_append (c : List Entry) (a b : List Op) : crun c (a ++ b) = crun (crun c a) b := by
  induction a generalizing c with
  | nil => rfl
  | cons op ops ih => simp only [List.cons_append, crun]; exact ih _

theorem drun_append (d : Option (List Str)) (a b : List Op) : drun d (a ++ b) = drun (drun d a) b := by
  induction a generalizing d with
  | nil => rfl
  | cons op ops ih => simp only [List.cons_append, drun]; exact ih _

/-! ## 8. what `validate` and `validateWithProfile` compute -/

/-- profile `p` defines property `name` and its compiled definition accepts `value` -/
def AcceptsIn (accepts : CVal → Str → Bool) (compiled : Dict (Dict CVal)) (name value p : Str) : Prop :=
  ∃ d c, dget compiled p = some d ∧ dget d name = some c ∧ accepts c value = true

theorem validateLoop_spec (accepts : CVal → Str → Bool) (compiled : Dict (Dict CVal)) (name value : Str)
    (ps : List Str) (h : ∀ p ∈ ps, (dget compiled p).isSome) :
    ∃ b, validateLoop accepts compiled name value ps = .ok b ∧
      (b = true ↔ ∃ p ∈ ps, AcceptsIn accepts compiled name value p) := by
  induction ps with
  | nil => exact ⟨false, rfl, by simp⟩
  | cons a t ih =>
    obtain ⟨b, hb, hiff⟩ := ih (fun p hp => h p (by simp [hp]))
    have ha := h a (by simp)
    cases hd : dget compiled a with
    | none => simp [hd] at ha
    | some d =>
      simp only [validateLoop, hd]
      cases hc : dget d name with
      | none =>
        refine ⟨b, hb, ?_⟩
        rw [hiff]
        constructor
        · rintro ⟨p, hp, hacc⟩; exact ⟨p, by simp [hp], hacc⟩
        · rintro ⟨p, hp, hacc⟩
          simp only [List.mem_cons] at hp
          cases hp with
          | inl e =>
            subst e
            obtain ⟨d', c', h1, h2, _⟩ := hacc
            rw [hd] at h1; cases h1
            rw [hc] at h2; cases h2
          | inr e => exact ⟨p, e, hacc⟩
      | some c =>
        simp only
        by_cases hacc : accepts c value = true
        · simp only [hacc, if_true]
          exact ⟨true, rfl, by simp only [true_iff]; exact ⟨a, by simp, d, c, hd, hc, hacc⟩⟩
        · simp only [hacc, Bool.false_eq_true, if_false]
          refine ⟨b, hb, ?_⟩
          rw [hiff]
          constructor
          · rintro ⟨p, hp, hx⟩; exact ⟨p, by simp [hp], hx⟩
          · rintro ⟨p, hp, hx⟩
            simp only [List.mem_cons] at hp
            cases hp with
            | inl e =>
              subst e
              obtain ⟨d', c', h1, h2, h3⟩ := hx
              rw [hd] at h1; cases h1
              rw [hc] at h2; cases h2
              exact absurd h3 hacc
            | inr e => exact ⟨p, e, hx⟩

theorem firstAccepting_spec (accepts : CVal → Str → Bool) (compiled : Dict (Dict CVal)) (name value : Str)
    (ps : List Str) (h : ∀ p ∈ ps, (dget compiled p).isSome) :
    ∃ o, firstAccepting accepts compiled name value ps = .ok o ∧
      (o = none ↔ ∀ p ∈ ps, ¬ AcceptsIn accepts compiled name value p) ∧
      (∀ p, o = some p → p ∈ ps ∧ AcceptsIn accepts compiled name value p) := by
  induction ps with
  | nil => exact ⟨none, rfl, by simp, by simp⟩
  | cons a t ih =>
    obtain ⟨o, ho, h1, h2⟩ := ih (fun p hp => h p (by simp [hp]))
    have ha := h a (by simp)
    cases hd : dget compiled a with
    | none => simp [hd] at ha
    | some d =>
      simp only [firstAccepting, hd]
      cases hc : dget d name with
      | none =>
        simp only
        refine ⟨o, ho, ?_, fun p hp => ⟨by simp [(h2 p hp).1], (h2 p hp).2⟩⟩
        rw [h1]
        constructor
        · intro hall p hp
          simp only [List.mem_cons] at hp
          cases hp with
          | inl e =>
            subst e; rintro ⟨d', c', x1, x2, _⟩
            rw [hd] at x1; cases x1; rw [hc] at x2; cases x2
          | inr e => exact hall p e
        · intro hall p hp; exact hall p (by simp [hp])
      | some c =>
        simp only
        by_cases hacc : accepts c value = true
        · simp only [hacc, if_true]
          refine ⟨some a, rfl, ?_, ?_⟩
          · simp only [reduceCtorEq, false_iff]
            exact fun hall => hall a (by simp) ⟨d, c, hd, hc, hacc⟩
          · intro p hp; cases hp; exact ⟨by simp, d, c, hd, hc, hacc⟩
        · simp only [hacc, Bool.false_eq_true, if_false]
          refine ⟨o, ho, ?_, fun p hp => ⟨by simp [(h2 p hp).1], (h2 p hp).2⟩⟩
          rw [h1]
          constructor
          · intro hall p hp
            simp only [List.mem_cons] at hp
            cases hp with
            | inl e =>
              subst e; rintro ⟨d', c', x1, x2, x3⟩
              rw [hd] at x1; cases x1; rw [hc] at x2; cases x2; exact hacc x3
            | inr e => exact hall p e
          · intro hall p hp; exact hall p (by simp [hp])

theorem dget_some_mem {α : Type} (d : Dict α) (k : Str) (v : α) (h : dget d k = some v) : (k, v) ∈ d := by
  induction d with
  | nil => simp [dget] at h
  | cons x t ih =>
    obtain ⟨k', v'⟩ := x
    simp only [dget] at h
    by_cases hk : k' = k
    · simp only [hk, if_true, Option.some.injEq] at h; subst h; subst hk; simp
    · simp only [hk, if_false] at h; simp [ih h]

theorem not_known_not_defined (compiled : Dict (Dict CVal)) (name p : Str) (d : Dict CVal)
    (hk : name ∉ knownOf compiled) (hd : dget compiled p = some d) : dget d name = none := by
  rw [dget_none_iff_not_mem]
  intro hmem
  apply hk
  unfold knownOf
  rw [List.mem_flatMap]
  exact ⟨(p, d), dget_some_mem _ _ _ hd, hmem⟩

theorem compiled_isSome (cfg : Cfg) (r : Reg) (hinv : Inv cfg r) (p : Str) (hp : p ∈ r.names) :
    (dget r.compiled p).isSome := by
  rw [dget_isSome_iff_mem_dkeys, hinv.ckeys]; exact hp

/-- T14.3 -/
theorem validate_spec (cfg : Cfg) (accepts : CVal → Str → Bool) (r : Reg) (hinv : Inv cfg r) (name value : Str) :
    ∃ b, validate accepts r name value = .ok b ∧
      (b = true ↔ ∃ p ∈ r.names, AcceptsIn accepts r.compiled name value p) :=
  validateLoop_spec accepts r.compiled name value r.names (fun p hp => compiled_isSome cfg r hinv p hp)

/-- T14.4 -/
theorem validateWithProfile_spec (cfg : Cfg) (accepts : CVal → Str → Bool) (r : Reg) (hinv : Inv cfg r)
    (hdef : ∀ p ∈ getDefault r, p ∈ r.names) (name value : Str) :
    ∃ vd, validateWithProfile accepts r name value none = .ok vd ∧
      (vd.valid = true ↔ ∃ p ∈ r.names, AcceptsIn accepts r.compiled name value p) ∧
      (vd.matching = true ↔ ∃ p ∈ getDefault r, AcceptsIn accepts r.compiled name value p) := by
  unfold validateWithProfile
  by_cases hk : name ∈ r.known
  · simp only [hk, not_true_eq_false, if_false, truthy, Bool.false_eq_true]
    obtain ⟨o1, ho1, h1a, h1b⟩ := firstAccepting_spec accepts r.compiled name value (getDefault r).reverse
      (fun p hp => compiled_isSome cfg r hinv p (hdef p (by simpa using hp)))
    obtain ⟨o2, ho2, h2a, h2b⟩ := firstAccepting_spec accepts r.compiled name value
      (r.names.filter (fun p => p ∉ getDefault r))
      (fun p hp => compiled_isSome cfg r hinv p (List.mem_filter.mp hp).1)
    simp only [ho1]
    cases o1 with
    | some p =>
      obtain ⟨hp1, hp2⟩ := h1b p rfl
      have hp1' : p ∈ getDefault r := by simpa using hp1
      exact ⟨⟨true, true, [p]⟩, rfl, by simp only [true_iff]; exact ⟨p, hdef p hp1', hp2⟩,
        by simp only [true_iff]; exact ⟨p, hp1', hp2⟩⟩
    | none =>
      have hnone := h1a.mp rfl
      simp only [ho2]
      cases o2 with
      | some p =>
        obtain ⟨hp1, hp2⟩ := h2b p rfl
        refine ⟨⟨true, false, [p]⟩, rfl, by simp only [true_iff]; exact ⟨p, (List.mem_filter.mp hp1).1, hp2⟩, ?_⟩
        simp only [Bool.false_eq_true, false_iff, not_exists, not_and]
        intro q hq; exact hnone q (by simpa using hq)
      | none =>
        have hnone2 := h2a.mp rfl
        refine ⟨⟨false, false, _⟩, rfl, ?_, ?_⟩
        · simp only [Bool.false_eq_true, false_iff, not_exists, not_and]
          intro q hq
          by_cases hqd : q ∈ getDefault r
          · exact hnone q (by simpa using hqd)
          · exact hnone2 q (List.mem_filter.mpr ⟨hq, by simpa using hqd⟩)
        · simp only [Bool.false_eq_true, false_iff, not_exists, not_and]
          intro q hq; exact hnone q (by simpa using hq)
  · simp only [hk, not_false_eq_true, if_true]
    have hno : ∀ p, ¬ AcceptsIn accepts r.compiled name value p := by
      rintro p ⟨d, c, h1, h2, _⟩
      have := not_known_not_defined r.compiled name p d (by rw [← hinv.known]; exact hk) h1
      rw [this] at h2; cases h2
    refine ⟨⟨false, false, []⟩, rfl, ?_, ?_⟩ <;>
    · simp only [Bool.false_eq_true, false_iff, not_exists, not_and]
      intro q _; exact hno q

/-! ## 9. add … remove, in any interleaving -/

theorem run_append (cfg : Cfg) (r : Reg) (a b : List Op) : run cfg r (a ++ b) = run cfg (run cfg r a) b := by
  induction a generalizing r with
  | nil => rfl
  | cons op ops ih => simp only [List.cons_append, run]; exact ih _

theorem drun_no_setDefault (d : Option (List Str)) (op : Op) (h : ∀ d', op ≠ .setDefault d') : dstep d op = d := by
  cases op <;> first | rfl | exact absurd rfl (h _)

theorem add_remove_contents (c : List Entry) (p : Str) (ps : Dict PVal) (ms : Option (Dict Str)) (ops : List Op)
    (hp : p ∉ c.map (·.name)) (hno : ∀ op ∈ ops, ¬ op.mentions p) :
    crun c ([.add p ps ms] ++ ops ++ [.remove (some p)]) = crun c ops := by
  have hc : c.filter (fun e => e.name ≠ p) = c := by
    rw [List.filter_eq_self]
    intro e he
    have : e.name ≠ p := fun h => hp (List.mem_map.mpr ⟨e, he, h⟩)
    simp [this]
  have hnot : p ∉ (crun c ops).map (·.name) := by
    -- no operation that does not mention p can register p
    have : ∀ (c : List Entry) (ops : List Op), p ∉ c.map (·.name) → (∀ op ∈ ops, ¬ op.mentions p) →
        p ∉ (crun c ops).map (·.name) := by
      intro c ops
      induction ops generalizing c with
      | nil => intro h _; exact h
      | cons op ops ih =>
        intro h hn
        apply ih (cstep c op) _ (fun o ho => hn o (by simp [ho]))
        have hop := hn op (by simp)
        cases op with
        | add n ps' ms' =>
          have hnp : n ≠ p := hop
          simp only [cstep]
          split
          · intro hx
            obtain ⟨e, he, hn'⟩ := List.mem_map.mp hx
            obtain ⟨e0, he0, hfe⟩ := List.mem_map.mp he
            by_cases h0 : e0.name = n
            · simp only [h0, if_true] at hfe
              rw [← hfe] at hn'
              exact hnp hn'
            · simp only [h0, if_false] at hfe
              rw [← hfe] at hn'
              exact h (List.mem_map.mpr ⟨e0, he0, hn'⟩)
          · simp only [List.map_append, List.map_cons, List.map_nil, List.mem_append, List.mem_singleton, not_or]
            exact ⟨h, fun e => hnp e.symm⟩
        | addMany l =>
          simp only [cstep, List.map_append, List.mem_append, not_or, List.map_map]
          exact ⟨h, hop⟩
        | remove q =>
          cases q with
          | none => exact h
          | some n =>
            intro hx
            obtain ⟨e, he, hn'⟩ := List.mem_map.mp hx
            exact h (List.mem_map.mpr ⟨e, (List.mem_filter.mp he).1, hn'⟩)
        | removeAll => simp [cstep]
        | setDefault d => exact h
    exact this c ops hp hno
  rw [List.append_assoc, crun_append, crun_append]
  show (crun (crun (cstep c (.add p ps ms)) []) ops).filter (fun e => e.name ≠ p) = _
  simp only [crun]
  rw [crun_filter _ p ops hno]
  congr 1
  simp only [cstep, hp, if_false, List.filter_append, hc]
  simp

theorem add_remove_default (d : Option (List Str)) (p : Str) (ps : Dict PVal) (ms : Option (Dict Str))
    (ops : List Op) : drun d ([.add p ps ms] ++ ops ++ [.remove (some p)]) = drun d ops := by
  rw [List.append_assoc, drun_append, drun_append]
  rfl

end CssVerif.Profiles
